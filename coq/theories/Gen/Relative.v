(* Gen/Relative.v -- relative_set_wrapper (preprocessors.py 1104-1152), reset_positions_wrapper (1155-1199),
   __read_and_stash_a_motor (1052-1101) on a device tree (ordinary parent devices and pseudo-positioners in
   coupled_parents), and through them rel_set / mvr (plan_stubs.py 305-450) and the rel_* scans (plans.py).
   MODEL ONLY (no proofs).

   Positions are values of an arbitrary type T with an addition [add] and the value [zero] the code uses when the
   answer to its query is None; the theorems need no arithmetic law (the property is "commanded to [add pos0 x]"),
   the tie instantiates T with Z (Python ints) and with binary64 (Python floats, bit-exact).

   Message contents ([rview]; the link to message identities is  view / mk  as in Gen/Paired.v):
     RSet d x g     Msg('set', d, x, group=g)           RLocate d   Msg('locate', d)        RRead d   Msg('read', d)
     RWait g        Msg('wait', None, group=g)          ROther c    anything else
   Devices come in three kinds, tried in this order by __read_and_stash_a_motor:
     KLocatable   isinstance(obj, Locatable): the initial position is answer["setpoint"] of an inserted 'locate'
     KPosition    hasattr(obj, 'position'):   it is obj.position, no message inserted
     KRead        otherwise: the value of the (single hinted / first) field of the answer to an inserted 'read'
   [pos_of : val -> T] decodes the position out of an answer that is not None.

   store = initial_positions: list (dev * T) in insertion order (an OrderedDict in reset_positions_wrapper).
   Devices may have parents.  An ORDINARY parent (stage.x) changes nothing.  A pseudo-positioner in coupled_parents
   changes what is recorded ([record]: the parent's tuple position and the position of every pseudo axis are recorded
   with the first axis touched) and what the cleanup sends back ([restored]: everything recorded except the axes of a
   coupled parent, which the parent carries back).  Not modelled: a set addressed to the pseudo-positioner object
   itself through relative_set_wrapper (tuple + offset).

   relative_set_wrapper  =  return (yield from msg_mutator(plan_mutator(plan, insert_reads), rewrite_pos))
       rel_init / rel_resume      = Deleg (Gen/Paired.v) over Rewrite over Insert (Gen/Insert.v)
   reset_positions_wrapper = return (yield from finalize_wrapper(plan_mutator(plan, insert_reads), reset()))
       reset_init / reset_resume  = Deleg over fw_resume (Gen/Paired.v) over Insert, final plan = set every stored device
                                    back to its stored position (insertion order, one group), then wait on that group
   Both take [elig : dev -> bool] = `devices is None or msg.obj in devices`. *)
From BV Require Import Base.Prelude Gen.Coalg Gen.Mutators Gen.Paired Gen.Insert.

Inductive rview (T : Type) :=
  | RSet (d : dev) (x : T) (g : nat)
  | RLocate (d : dev)
  | RRead (d : dev)
  | RWait (g : nat)
  | ROther (c : nat).
Arguments RSet {T} d x g.
Arguments RLocate {T} d.
Arguments RRead {T} d.
Arguments RWait {T} g.
Arguments ROther {T} c.

Inductive dkind := KLocatable | KPosition | KRead.

Definition G_RESET : nat := 104.

Section Relative.
  Context {T P : Type}.
  Variable add : T -> T -> T.
  Variable zero : T.
  Variable pos_of : val -> T.
  Variable kind : dev -> dkind.
  Variable position : dev -> T.              (* obj.position of a KPosition device *)
  Variable resume : P -> input -> outcome P.
  Variable view : msg -> rview T.
  Variable mk : rview T -> msg.            (* the wrappers' query / cleanup messages *)
  Variable mkn : nat -> rview T -> msg.     (* the n-th message object rewrite_pos creates *)
  Variable elig : dev -> bool.
  (* the device tree and the pseudo-positioner coupling (`coupled_parents`, computed by _normalize_devices from the
     `devices` argument; empty when that argument is None or names no pseudo-positioner):
       parent d     = d.parent                    (ordinary parent devices, e.g. stage.x, and pseudo-positioners alike)
       coupled p    = p in coupled_parents
       pseudos p    = p.pseudo_positioners
       comps v      = the components of a tuple-valued position (position of a pseudo-positioner), [] for a scalar *)
  Variable parent : dev -> option dev.
  Variable coupled : dev -> bool.
  Variable pseudos : dev -> list dev.
  Variable comps : T -> list T.

  Definition pstore := list (dev * T).

  Fixpoint ps_get (d : dev) (st : pstore) : option T :=
    match st with
    | [] => None
    | (k, v) :: r => if Nat.eqb d k then Some v else ps_get d r
    end.

  (* initial_positions[k] = v : an existing key keeps its place, a new key goes last *)
  Fixpoint ps_set (k : dev) (v : T) (st : pstore) : pstore :=
    match st with
    | [] => [(k, v)]
    | (k', v') :: r => if Nat.eqb k k' then (k', v) :: r else (k', v') :: ps_set k v r
    end.

  (* for c, p in zip(cs, vs): initial_positions[c] = p *)
  Fixpoint ps_set_zip (cs : list dev) (vs : list T) (st : pstore) : pstore :=
    match cs, vs with
    | c :: cs', v :: vs' => ps_set_zip cs' vs' (ps_set c v st)
    | _, _ => st
    end.

  Definition mem_d (d : dev) (l : list dev) : bool := existsb (Nat.eqb d) l.

  (* the tail of __read_and_stash_a_motor once the setpoint is known (lines 1084-1099) *)
  Definition record (d : dev) (v : T) (st : pstore) : pstore :=
    let st1 := ps_set d v st in
    let st2 := if coupled d then ps_set_zip (pseudos d) (comps v) st1 else st1 in
    match parent d with
    | Some p =>
        if coupled p && mem_d d (pseudos p) then
          let pp := position p in ps_set_zip (pseudos p) (comps pp) (ps_set p pp st2)
        else st2
    | None => st2
    end.

  Definition stash (d : dev) (ans : val) (st : pstore) : ures pstore :=
    UOk (record d (match ans with VNone => zero | _ => pos_of ans end) st).

  (* insert_reads *)
  Definition rel_decide (st : pstore) (m : msg) : decision pstore :=
    match view m with
    | RSet d _ _ =>
        if elig d && negb (match ps_get d st with Some _ => true | None => false end) then
          match kind d with
          | KLocatable => DQuery (mk (RLocate d)) (stash d)
          | KPosition => DDirect (record d (position d) st)
          | KRead => DQuery (mk (RRead d)) (stash d)
          end
        else DNone
    | _ => DNone
    end.

  (* rewrite_pos: msg._replace(args=(initial_positions[msg.obj] + rel_pos,)) -- a new Msg object *)
  Definition rewrite_pos (x : @istate P pstore) (m : msg) : option (rview T) :=
    match view m with
    | RSet d rel g =>
        match ps_get d (ins_store x Close) with
        | Some p0 => Some (RSet d (add p0 rel) g)
        | None => None
        end
    | _ => None
    end.

  (* finding class C24-a: the wrapped plan yields AGAIN a set message object it has yielded before, on an eligible
     device whose initial position is not recorded (the inserted position query had failed, the plan caught the
     exception and yielded the very same Msg object once more): plan_mutator does not pass a message it has seen to
     msg_proc a second time, so no query is inserted and the message leaves unchanged *)
  Definition c24a_msg (st : pstore) (seen : list msg) (m : msg) : bool :=
    mem_nat m seen &&
    match view m with
    | RSet d _ _ => elig d && match ps_get d st with None => true | Some _ => false end
    | _ => false
    end.

  Definition c24a_step (x : @istate P pstore) (i : input) : bool := ins_step_exists resume c24a_msg x i.

  Definition rel_inner := @mstate (@istate P pstore).
  Definition rel_state := @dstate rel_inner.
  Definition rel_inner_resume : rel_inner -> input -> outcome rel_inner :=
    mr_resume (ins_resume resume rel_decide) rewrite_pos mkn.
  Definition rel_init (p : P) : rel_state := DStart (MStart (IStart p [])).
  Definition rel_resume : rel_state -> input -> outcome rel_state := d_resume rel_inner_resume.

  Definition rel_ins (s : rel_state) : @istate P pstore :=
    match s with DStart (MStart x) | DStart (MRun x _) | DRun (MStart x) | DRun (MRun x _) => x end.
  Definition rel_finding (s : rel_state) (i : input) : bool := c24a_step (rel_ins s) i.

  (* `k.parent in coupled_parents`: the pseudo axes of a coupled pseudo-positioner are carried back by their parent *)
  Definition carried (d : dev) : bool := match parent d with Some p => coupled p | None => false end.
  Definition restored (st : pstore) : pstore := filter (fun kv => negb (carried (fst kv))) st.

  (* reset(): for k, v in initial_positions.items(): if k.parent in coupled_parents: continue;
              yield Msg('set', k, v, group=blk_grp);   finally yield Msg('wait', group=blk_grp) *)
  Definition reset_plan (st : pstore) : lplan :=
    LPStart (map (fun kv => mk (RSet (fst kv) (snd kv) G_RESET)) (restored st) ++ [mk (RWait G_RESET)]) None.

  Definition reset_phase := @s2 (@istate P pstore) lplan.
  Definition reset_state := @dstate reset_phase.
  Definition reset_fin_resume : reset_phase -> input -> outcome reset_phase :=
    fw_resume (ins_resume resume rel_decide) ins_store (lp_resume (fun _ => false)) reset_plan.
  Definition reset_init (p : P) : reset_state := DStart (S2Start (IStart p [])).
  Definition reset_resume : reset_state -> input -> outcome reset_state := d_resume reset_fin_resume.

  Definition reset_ins (s : reset_state) : option (@istate P pstore) :=
    match s with
    | DStart (S2Start x) | DStart (S2Body x) | DRun (S2Start x) | DRun (S2Body x) => Some x
    | _ => None
    end.
  Definition reset_finding (s : reset_state) (i : input) : bool :=
    match reset_ins s with Some x => c24a_step x i | None => false end.
  (* the input the reset layer hands to the plan it wraps in this step *)
  Definition reset_host_input (s : reset_state) (i : input) : option (P * input) :=
    match reset_ins s with
    | Some x => match ins_host_input x i with Some i' => Some (ins_plan x, i') | None => None end
    | None => None
    end.
End Relative.
