(* Concrete runs for Props/C04.v: the recorded run ex_pause (Proofs/RE_CtlExamples.v, a real RunEngine run: pause injected
   after the first null, then resume()) meets every hypothesis of the end-to-end replay theorem; and model runs showing
   that the hypotheses cannot be dropped.  Everything is closed by vm_compute. *)
From Coq Require Import List String ZArith Bool Arith.
From BV Require Import Engine.RE Engine.REInst Proofs.RE_Ctl Proofs.RE_CtlExamples Proofs.RE_C04.
From BV Require Proofs.RE_C10.
Import ListNotations.
Local Arguments state {P D}.
Local Arguments cache {P D}.
Local Arguments stashed {P D}.
Local Arguments exc_slot {P D}.
Local Arguments plans {P D}.
Local Arguments resps {P D}.

Definition xrun tapes := run TP (t_resume tapes) t_plan_of nat (t_dev []).
Definition xstep tapes := step TP (t_resume tapes) t_plan_of nat (t_dev []).
Definition xinit := init TP nat 0 ex_pause_paus ex_pause_stag ex_pause_rec.
Definition no_oof (o : list obs) : bool := forallb (fun x => match x with OBad 1 => false | _ => true end) o.

Lemma no_oof_ok o : no_oof o = true -> ~ In (OBad 1) o.
Proof.
  unfold no_oof. intros H Hin. rewrite forallb_forall in H. specialize (H _ Hin). discriminate H.
Qed.
Lemma forallb_Forall {A} (f : A -> bool) l : forallb f l = true -> Forall (fun x => f x = true) l.
Proof. intros H. apply Forall_forall. apply forallb_forall. exact H. Qed.
Lemma okobs_dec o : forallb okobb o = true -> okobs o.
Proof. intros H. apply Forall_forall. intros x Hx. apply okobb_ok. rewrite forallb_forall in H. apply H, Hx. Qed.

(* ------------------------------------------------------------------ the recorded run *)
Definition c04_evs1 : list event := firstn 9 ex_pause_evs.
Definition c04_w : list event := [EvPermit; EvTask; EvTask; EvTask; EvTask].
Definition c04_rest : list event := skipn 15 ex_pause_evs.
Definition c04_s1 := fst (xrun ex_pause_tapes xinit c04_evs1).
Definition c04_s2 := fst (xstep ex_pause_tapes c04_s1 (EvMain AResume)).
Definition c04_ow := snd (xrun ex_pause_tapes c04_s2 c04_w).
Definition msg_null3 : msg := {| mid := Some 3; mcmd := CNull; mobj := None; mrun := 0 |}.

Example c04_e2e_recorded :
  c04_evs1 ++ EvMain AResume :: c04_w ++ c04_rest = ex_pause_evs /\
  no_oof (snd (xrun ex_pause_tapes xinit c04_evs1)) = true /\
  state c04_s1 = Paused /\ cache c04_s1 = Some [msg_null2] /\ stashed c04_s1 = None /\ exc_slot c04_s1 = None /\
  plans c04_s1 = [FUser 0 (0, 3) true] /\ resps c04_s1 = [RVal VNone] /\
  forallb RE_C10.cont_ev c04_w = true /\ forallb okobb c04_ow = true /\
  pm c04_ow = map OMsg [msg_null2] ++ cont_pm TP (t_resume ex_pause_tapes) (FUser 0 (0, 3) true) (RVal VNone) ++ [] /\
  cont_pm TP (t_resume ex_pause_tapes) (FUser 0 (0, 3) true) (RVal VNone) = [OPlanIn 0 (Send VNone); OMsg msg_null3] /\
  firstn 1 (msgs (snd (xrun ex_pause_tapes c04_s1 (EvMain AResume :: c04_w ++ c04_rest)))) = [msg_null2].
Proof. vm_compute. repeat split; reflexivity. Qed.

(* ------------------------------------------------------------------ the hypotheses are needed *)
(* (a) an interruption request accepted during the replay: a hard pause after the replayed message and a second resume();
   every other hypothesis holds, the replayed message is executed twice before the plan continues *)
Definition c04_w_pause : list event :=
  [EvPermit; EvTask; EvTask; EvReqPause false; EvTask; EvMain AResume; EvPermit; EvTask; EvTask; EvTask; EvTask; EvTask].
Example c04_needs_calm_window :
  forallb RE_C10.cont_ev c04_w_pause = false /\
  pm (snd (xrun ex_pause_tapes c04_s2 c04_w_pause)) = [OMsg msg_null2; OMsg msg_null2; OPlanIn 0 (Send VNone); OMsg msg_null3].
Proof. vm_compute. split; reflexivity. Qed.

(* (b) a status that fails while the engine is paused: the stored exception is thrown into the rewind plan, which dies;
   nothing is replayed and the interrupted plan is handed FailedStatus.  Every other hypothesis holds. *)
Definition c04_s1b := fst (xstep ex_pause_tapes c04_s1 (EvStatus 7 false)).
Definition c04_s2b := fst (xstep ex_pause_tapes c04_s1b (EvMain AResume)).
Example c04_needs_no_pending_failure :
  state c04_s1b = Paused /\ cache c04_s1b = Some [msg_null2] /\ stashed c04_s1b = None /\
  exc_slot c04_s1b = Some EFailedStatus /\
  forallb RE_C10.cont_ev c04_w = true /\ forallb okobb (snd (xrun ex_pause_tapes c04_s2b c04_w)) = true /\
  firstn 2 (pm (snd (xrun ex_pause_tapes c04_s2b c04_w))) = [OPlanIn 0 (Throw EFailedStatus); OMsg msg_null3].
Proof. vm_compute. repeat split; reflexivity. Qed.

(* (c) a replayed command that fails: `save` outside a run is refused (IllegalMessageSequence) the first time and again in
   the replay; the rest of the replay is abandoned and the exception goes to the interrupted plan.  The same with a
   command the engine does not know (its failure has no response observation: the reason for the clause on OMsg). *)
Definition fail_tapes (c : cmd) : list (nat * list tout) :=
  [(0, [TY {| mid := Some 0; mcmd := CCheckpoint; mobj := None; mrun := 0 |};
        TY {| mid := Some 1; mcmd := c; mobj := None; mrun := 0 |};
        TY {| mid := Some 2; mcmd := CNull; mobj := None; mrun := 0 |};
        TY {| mid := Some 3; mcmd := CNull; mobj := None; mrun := 0 |};
        TY {| mid := Some 4; mcmd := CNull; mobj := None; mrun := 0 |};
        TR VNone])].
Definition fail_evs1 : list event := [EvMain (ACall 0); EvPermit; EvTask; EvTask; EvTask; EvTask; EvReqPause false; EvTask].
Definition fail_w : list event := [EvPermit; EvTask; EvTask; EvTask; EvTask].
Definition fail_s1 c := fst (xrun (fail_tapes c) xinit fail_evs1).
Definition fail_s2 c := fst (xstep (fail_tapes c) (fail_s1 c) (EvMain AResume)).
Definition fail_msg c n : msg := {| mid := Some n; mcmd := c; mobj := None; mrun := 0 |}.
Example c04_needs_no_failing_command :
  (forall c, c = CSave \/ c = CUnknown ->
     no_oof (snd (xrun (fail_tapes c) xinit fail_evs1)) = true /\
     state (fail_s1 c) = Paused /\ cache (fail_s1 c) = Some [fail_msg c 1; fail_msg CNull 2] /\
     stashed (fail_s1 c) = None /\ exc_slot (fail_s1 c) = None /\ forallb RE_C10.cont_ev fail_w = true /\
     forallb okobb (snd (xrun (fail_tapes c) (fail_s2 c) fail_w)) = false /\
     firstn 2 (msgs (snd (xrun (fail_tapes c) (fail_s2 c) fail_w))) = [fail_msg c 1; fail_msg CNull 3]).
Proof. intros c [-> | ->]; vm_compute; repeat split; reflexivity. Qed.

(* ------------------------------------------------------------------ implicit checkpoints: in the recorded run the
   checkpoint's response is a checkpointing item and the cache at the pause holds only what was executed after it *)
Example c04_implicit_checkpoint_recorded :
  exists t1 it t2,
    itrace ex_pause_tapes ex_pause_ledger ex_pause_paus ex_pause_stag ex_pause_rec c04_evs1 = t1 ++ it :: t2 /\
    ckpt_item (mon_run mon0 t1) it = true /\ it = TObs (OResp (RVal VNone)) /\
    In (TObs (OMsg msg_null2)) t2 /\ ~ In (TObs (OMsg msg_null2)) t1.
Proof.
  pose (t := itrace ex_pause_tapes ex_pause_ledger ex_pause_paus ex_pause_stag ex_pause_rec c04_evs1).
  exists (firstn 14 t), (nth 14 t (TEv EvTask)), (skipn 15 t). vm_compute.
  repeat split; auto 30. intros H. repeat (destruct H as [H|H]; [discriminate H|]). exact H.
Qed.

(* ------------------------------------------------------------------ the first formulation of the full statement
   (Props/C04.v [C04_full]: no hypothesis about a stored exception) fails on the model: witness (b) above *)
Definition full_evs : list event := firstn 9 ex_pause_evs ++ [EvStatus 7 false].
Definition full_s := fst (run TP (t_resume ex_pause_tapes) t_plan_of nat (t_dev ex_pause_ledger)
                            (init TP nat 0 ex_pause_paus ex_pause_stag ex_pause_rec) full_evs).
Definition full_o := snd (run TP (t_resume ex_pause_tapes) t_plan_of nat (t_dev ex_pause_ledger) full_s
                            (EvMain AResume :: EvPermit :: repeat EvTask 4)).
Definition full_okb (x : obs) : bool := match x with OBad _ | OResp (RExn _) => false | _ => true end.
Lemma full_facts :
  state full_s = Paused /\
  mcache (mon_run mon0 (trace TP (t_resume ex_pause_tapes) t_plan_of nat (t_dev ex_pause_ledger)
                          (init TP nat 0 ex_pause_paus ex_pause_stag ex_pause_rec) full_evs)) = Some [msg_null2] /\
  forallb full_okb full_o = true /\
  Nat.leb (List.length [msg_null2]) (List.length (filter (fun x => match x with OMsg _ => true | _ => false end) full_o)) = true /\
  firstn (List.length [msg_null2]) (flat_map (fun x => match x with OMsg m => [m] | _ => [] end) full_o) = [msg_null3].
Proof. vm_compute. repeat split; reflexivity. Qed.
Lemma full_ok_prop : forall x, In x full_o -> match x with OBad _ | OResp (RExn _) => False | _ => True end.
Proof.
  destruct full_facts as (_ & _ & F & _). intros x Hx. rewrite forallb_forall in F. specialize (F x Hx).
  destruct x; try exact I; try discriminate F. destruct r; [exact I | discriminate F].
Qed.
