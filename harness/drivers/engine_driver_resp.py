"""Driver extension for C13 (oracle-only cases): plans under REAL bluesky preprocessors and RunEngine(call_returns_result=True).

It reuses harness/drivers/engine_driver.py unchanged (never edits it) by wrapping, for the duration of one case,
  * `engine_driver.taped`: the plan of each call is taped TWICE - the inner tape (plan id 2000 + call index) is the user's
    plan itself, then the wrappers of case["wrap"] are applied (real `bluesky.preprocessors`), then the usual outer tape
    (plan id = call index) records what the engine exchanges with the wrapped plan;
  * `bluesky.run_engine.RunEngine`: a subclass that passes call_returns_result (case["crr"]), installs the engine
    preprocessors of case["preproc"] (SupplementalData ...) and logs every RunEngineResult as an observation
    ["result", action, plan_result, exit_status, run_start_uids, interrupted] while handing the uids to the unchanged driver.

case["wrap"]   : list, innermost first, of ["stub"] | ["delete", [commands]] | ["msg_identity"] | ["plan_identity"] |
                 ["baseline", [device indices]] | ["finalize"] | ["inject_md"]
case["preproc"]: list of ["supplemental", [baseline device indices]] | ["plan_identity"] | ["msg_identity"]
These cases are never sent to the Coq model (the "result" observation is outside the model's alphabet)."""
import threading

_LOCK = threading.Lock()


def _wrap(w, g, drv):
    import bluesky.preprocessors as bpp
    from bluesky.utils import Msg
    k = w[0]
    if k == "stub":
        return bpp.stub_wrapper(g)
    if k == "delete":
        cmds = set(w[1])
        return bpp.msg_mutator(g, lambda msg: None if msg.command in cmds else msg)
    if k == "msg_identity":
        return bpp.msg_mutator(g, lambda msg: msg)
    if k == "plan_identity":
        return bpp.plan_mutator(g, lambda msg: (None, None))
    if k == "baseline":
        return bpp.baseline_wrapper(g, [drv.devs[i] for i in w[1]])
    if k == "finalize":
        def fin():
            yield Msg("null")
        return bpp.finalize_wrapper(g, fin)
    if k == "inject_md":
        return bpp.inject_md_wrapper(g, {"k": 1})
    raise ValueError("unknown wrapper %r" % (w,))


def _preproc(p, drv):
    import bluesky.preprocessors as bpp
    if p[0] == "supplemental":
        return bpp.SupplementalData(baseline=[drv.devs[i] for i in p[1]])
    if p[0] == "plan_identity":
        return lambda plan: bpp.plan_mutator(plan, lambda msg: (None, None))
    if p[0] == "msg_identity":
        return lambda plan: bpp.msg_mutator(plan, lambda msg: msg)
    raise ValueError("unknown preprocessor %r" % (p,))


def run_case(case, timeout=20.0):
    """engine_driver.run_case with the two wrappers installed (one case at a time per process)."""
    from harness.drivers import engine_driver as ed
    import bluesky.run_engine as bre
    with _LOCK:
        orig_taped, orig_RE = ed.taped, bre.RunEngine

        def taped2(inner, tape, drv, pid):
            if pid >= 1000:                      # suspender pre/post plans: as before
                return orig_taped(inner, tape, drv, pid)
            t2 = drv.tapes.setdefault(str(2000 + pid), [])
            g = orig_taped(inner, t2, drv, 2000 + pid)
            for w in case.get("wrap", []):
                g = _wrap(w, g, drv)
            return orig_taped(g, tape, drv, pid)

        class RE2(orig_RE):
            def __init__(self, *a, **k):
                if case.get("crr"):
                    k["call_returns_result"] = True
                super().__init__(*a, **k)
                self._resp_installed = False

            def _log(self, action, res):
                if not isinstance(res, bre.RunEngineResult):
                    return res
                drv = self.msg_hook.__self__
                with drv.lock:
                    drv.obs.append(["result", action, drv.canon_val(res.plan_result), res.exit_status,
                                    [drv.canon_val(u) for u in res.run_start_uids], bool(res.interrupted)])
                return tuple(res.run_start_uids)

            def __call__(self, *a, **k):
                if not self._resp_installed:
                    self._resp_installed = True
                    drv = self.msg_hook.__self__
                    for p in case.get("preproc", []):
                        self.preprocessors.append(_preproc(p, drv))
                return self._log("call", super().__call__(*a, **k))

            def resume(self):
                return self._log("resume", super().resume())

            def abort(self, reason=""):
                return self._log("abort", super().abort(reason))

            def stop(self):
                return self._log("stop", super().stop())

            def halt(self):
                return self._log("halt", super().halt())

        ed.taped, bre.RunEngine = taped2, RE2
        try:
            return ed.run_case(case, timeout)
        finally:
            ed.taped, bre.RunEngine = orig_taped, orig_RE
