#!/bin/sh
# Offline build of the whole Coq development from files on disk (full .vo build).
set -e
HERE=$(cd "$(dirname "$0")" && pwd)
cd "$HERE"
PYTHONPATH=${VERIF_REPO:-/repo}/src:$HERE PYTHONHASHSEED=0 /venv/bin/python -m harness.tables
cd "$HERE/coq"
find theories gen -name '*.v' | sort > .files
coq_makefile -f _CoqProject -o Makefile $(cat .files)
timeout 7000 make -j16
