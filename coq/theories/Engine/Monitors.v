(* C41 - monitors of the RunEngine.

   Modelled code (with the repair fixes/C41-a.diff):
     RunBundler.monitor / unmonitor / suspend_monitors / restore_monitors / clear_monitors and the clearing of
     monitors in RunBundler.close_run (src/bluesky/bundlers.py), RunBundler._monitor_params (insertion ordered
     dict obj -> callback) and RunBundler._monitor_suspensions (the counter the repair adds);
     where RunEngine calls them (src/bluesky/run_engine.py): the 'monitor'/'unmonitor' messages, the pause block
     of _run (suspend_monitors of every bundler), the wake-up after a pause (restore_monitors), _start_suspender
     (suspend_monitors: the repair), _resume i.e. the '_resume_from_suspender' message (restore_monitors),
     _close_run, the finally block of _run (clear_monitors of every bundler, bundlers dropped).
   The monitored device is a ledger: subscribe(cb, **kwargs) adds one registration of cb for the channel the kwargs
   name (the 'monitor' message's kwargs, e.g. event_type; channel 0 = no kwargs), clear_sub(cb) removes every
   registration of cb (ophyd's semantics), an update on a channel calls every registration made for that channel
   once; each call of a run's callback emits one Event document of that run.  Per monitored object the model keeps the number of live
   registrations of the bundler's callback (the callback of a dropped entry has none: clear_sub always comes
   first); the log keeps every subscribe / clear_sub call, so the same number can be read off the log alone
   ([live_of]), and the theorems are stated on the log.
   First half: model.  Second half: specification side (no device, no per-bundler counter).  No proofs here. *)
From BV Require Import Base.Prelude Base.KeyMap.
From Coq Require Import NArith ZArith.



Inductive op :=
| OpenRun (k : key)
| CloseRun (k : key)
| Monitor (k : key) (o : N) (c : N)    (* c: the subscription argument (channel / event_type) of the message; 0 = none *)
| Unmonitor (k : key) (o : N)
| PauseBlock          (* _run reaches its pause block: suspend_monitors of every open run *)
| ResumeWake          (* _run wakes up from the pause (resume/abort/stop/halt): restore_monitors *)
| SuspendStart        (* '_start_suspender' is processed *)
| SuspendResume       (* '_resume_from_suspender' is processed: restore_monitors *)
| Finalize            (* the finally block of _run *)
| Update (o : N) (c : N) (v : Z).   (* the device reports a new value on channel c *)

Inductive outcome := OOk | OIllegal | ORejectedDup.

Inductive ev :=
| ESub (o : N) (r : nat) (c : N)      (* device o: subscribe(callback of run r, channel c) *)
| EClr (o : N) (r : nat)              (* device o: clear_sub(callback of run r) *)
| EEvent (r : nat) (o : N) (v : Z)    (* Event document of run r in o's monitor stream *)
| EOut (oc : outcome).

Record bund := {
  b_id : nat;                   (* run number *)
  b_mons : list (N * (N * nat));  (* _monitor_params in insertion order: obj -> (subscription argument of the
                                     'monitor' message, live registrations of the callback made with it) *)
  b_susp : nat                  (* _monitor_suspensions *)
}.

Record state := { runs : list (key * bund); nrun : nat }.
Definition init : state := {| runs := []; nrun := 0 |}.

Definition clr_all (b : bund) : list ev := map (fun oc => EClr (fst oc) (b_id b)) (b_mons b).
Definition sub_all (b : bund) : list ev := map (fun oc => ESub (fst oc) (b_id b) (fst (snd oc))) (b_mons b).

(* RunBundler.suspend_monitors *)
Definition suspend_b (b : bund) : bund * list ev :=
  match b_susp b with
  | O => ({| b_id := b_id b; b_mons := map (fun oc => (fst oc, (fst (snd oc), 0))) (b_mons b); b_susp := 1 |}, clr_all b)
  | S n => ({| b_id := b_id b; b_mons := b_mons b; b_susp := S (S n) |}, [])
  end.

(* RunBundler.restore_monitors *)
Definition restore_b (b : bund) : bund * list ev :=
  match b_susp b with
  | O => (b, [])
  | S O => ({| b_id := b_id b; b_mons := map (fun oc => (fst oc, (fst (snd oc), S (snd (snd oc))))) (b_mons b); b_susp := 0 |}, sub_all b)
  | S (S n) => ({| b_id := b_id b; b_mons := b_mons b; b_susp := S n |}, [])
  end.

(* for current_run in self._run_bundlers.values(): await current_run.f() *)
Fixpoint for_all (f : bund -> bund * list ev) (l : list (key * bund)) : list (key * bund) * list ev :=
  match l with
  | [] => ([], [])
  | (k, b) :: t =>
      let '(b', e) := f b in
      let '(t', e') := for_all f t in
      ((k, b') :: t', e ++ e')
  end.

Definition step (x : state) (a : op) : state * list ev :=
  match a with
  | OpenRun k =>
      match afind k (runs x) with
      | Some _ => (x, [EOut ORejectedDup])
      | None => ({| runs := runs x ++ [(k, {| b_id := nrun x; b_mons := []; b_susp := 0 |})]; nrun := S (nrun x) |},
                 [EOut OOk])
      end
  | CloseRun k =>
      match afind k (runs x) with
      | None => (x, [EOut OIllegal])
      | Some b => ({| runs := aremove k (runs x); nrun := nrun x |}, clr_all b ++ [EOut OOk])
      end
  | Monitor k o c =>
      match afind k (runs x) with
      | None => (x, [EOut OIllegal])
      | Some b =>
          match afind o (b_mons b) with
          | Some _ => (x, [EOut OIllegal])
          | None =>
              let live := match b_susp b with O => 1 | S _ => 0 end in
              ({| runs := aset k {| b_id := b_id b; b_mons := b_mons b ++ [(o, (c, live))]; b_susp := b_susp b |} (runs x);
                  nrun := nrun x |},
               (match b_susp b with O => [ESub o (b_id b) c] | S _ => [] end) ++ [EOut OOk])
          end
      end
  | Unmonitor k o =>
      match afind k (runs x) with
      | None => (x, [EOut OIllegal])
      | Some b =>
          match afind o (b_mons b) with
          | None => (x, [EOut OIllegal])
          | Some _ =>
              ({| runs := aset k {| b_id := b_id b; b_mons := aremove o (b_mons b); b_susp := b_susp b |} (runs x);
                  nrun := nrun x |},
               [EClr o (b_id b); EOut OOk])
          end
      end
  | PauseBlock | SuspendStart =>
      let '(rs, e) := for_all suspend_b (runs x) in ({| runs := rs; nrun := nrun x |}, e)
  | ResumeWake | SuspendResume =>
      let '(rs, e) := for_all restore_b (runs x) in ({| runs := rs; nrun := nrun x |}, e)
  | Finalize =>
      ({| runs := []; nrun := nrun x |}, flat_map (fun kb => clr_all (snd kb)) (runs x))
  | Update o c v =>
      (x, flat_map (fun kb => match afind o (b_mons (snd kb)) with
                              | Some (ch, n) => if N.eqb c ch then repeat (EEvent (b_id (snd kb)) o v) n else []
                              | None => []
                              end) (runs x))
  end.

Fixpoint run_from (x : state) (h : list op) : state * list ev :=
  match h with
  | [] => (x, [])
  | a :: h' =>
      let '(x1, e1) := step x a in
      let '(x2, e2) := run_from x1 h' in
      (x2, e1 ++ e2)
  end.

Definition mlog (h : list op) : list ev := snd (run_from init h).
Definition mstate (h : list op) : state := fst (run_from init h).

(* ------------------------------------------------------------------ reading the device ledger *)

(* live registrations of run r's callback on device o for channel c after the calls in the log:
   subscribe(cb, c) adds one for c, clear_sub(cb) removes those of every channel *)
Fixpoint live_from (n : nat) (o : N) (r : nat) (c : N) (l : list ev) : nat :=
  match l with
  | [] => n
  | ESub o' r' c' :: t => live_from (if N.eqb o o' && Nat.eqb r r' && N.eqb c c' then S n else n) o r c t
  | EClr o' r' :: t => live_from (if N.eqb o o' && Nat.eqb r r' then 0 else n) o r c t
  | _ :: t => live_from n o r c t
  end.
Definition live_of (l : list ev) (o : N) (r : nat) (c : N) : nat := live_from 0 o r c l.

Definition is_event (e : ev) : bool := match e with EEvent _ _ _ => true | _ => false end.

(* ------------------------------------------------------------------ specification side *)

(* which runs are open, which objects each monitors, and how many pauses/suspensions are under way *)
Record sstate := { sruns : list (key * (nat * list (N * N))); snrun : nat; depth : nat }.
Definition sinit : sstate := {| sruns := []; snrun := 0; depth := 0 |}.

Definition sstep (s : sstate) (a : op) : sstate :=
  match a with
  | OpenRun k =>
      match afind k (sruns s) with
      | Some _ => s
      | None => {| sruns := sruns s ++ [(k, (snrun s, []))]; snrun := S (snrun s); depth := depth s |}
      end
  | CloseRun k => {| sruns := aremove k (sruns s); snrun := snrun s; depth := depth s |}
  | Monitor k o c =>
      match afind k (sruns s) with
      | None => s
      | Some (r, os) => match afind o os with
                        | Some _ => s
                        | None => {| sruns := aset k (r, os ++ [(o, c)]) (sruns s); snrun := snrun s; depth := depth s |}
                        end
      end
  | Unmonitor k o =>
      match afind k (sruns s) with
      | None => s
      | Some (r, os) => {| sruns := aset k (r, aremove o os) (sruns s); snrun := snrun s; depth := depth s |}
      end
  | PauseBlock | SuspendStart => {| sruns := sruns s; snrun := snrun s; depth := S (depth s) |}
  | ResumeWake | SuspendResume => {| sruns := sruns s; snrun := snrun s; depth := pred (depth s) |}
  | Finalize => {| sruns := []; snrun := snrun s; depth := depth s |}
  | Update _ _ _ => s
  end.

Definition srun (h : list op) : sstate := fold_left sstep h sinit.

(* o is monitored on channel c by kro's run *)
Definition mon_on (o c : N) (os : list (N * N)) : bool :=
  match afind o os with Some ch => N.eqb c ch | None => false end.

(* run r is open and monitors o on channel c *)
Definition monitored (s : sstate) (r : nat) (o c : N) : bool :=
  existsb (fun kro => Nat.eqb (fst (snd kro)) r && mon_on o c (snd (snd kro))) (sruns s).

(* what an update on channel c must produce: one event per open run monitoring o on that channel, none while
   paused or suspended *)
Definition spec_events (s : sstate) (o c : N) (v : Z) : list ev :=
  match depth s with
  | O => flat_map (fun kro => if mon_on o c (snd (snd kro)) then [EEvent (fst (snd kro)) o v] else []) (sruns s)
  | S _ => []
  end.

(* the events of the whole history, update by update *)
Fixpoint spec_log_from (s : sstate) (h : list op) : list ev :=
  match h with
  | [] => []
  | a :: h' => (match a with Update o c v => spec_events s o c v | _ => [] end) ++ spec_log_from (sstep s a) h'
  end.
Definition spec_log (h : list op) : list ev := spec_log_from sinit h.

(* finding class C41-g: a run is opened while a pause or a suspension is under way (only possible from a
   suspender's pre_plan/post_plan); its bundler starts with no suspension to undo, so its monitors report
   during the rest of that suspension *)
Fixpoint open_while_quiet_from (s : sstate) (h : list op) : bool :=
  match h with
  | [] => false
  | a :: h' =>
      (match a with
       | OpenRun k => match afind k (sruns s) with None => negb (Nat.eqb (depth s) 0) | Some _ => false end
       | _ => false
       end) || open_while_quiet_from (sstep s a) h'
  end.
Definition finding_C41_g (h : list op) : bool := open_while_quiet_from sinit h.

(* ------------------------------------------------------------------ deciding equality of logs (for the tie) *)

Definition outcome_idx (o : outcome) : nat := match o with OOk => 0 | OIllegal => 1 | ORejectedDup => 2 end.

Definition ev_beq (a b : ev) : bool :=
  match a, b with
  | ESub o r c, ESub o' r' c' => N.eqb o o' && Nat.eqb r r' && N.eqb c c'
  | EClr o r, EClr o' r' => N.eqb o o' && Nat.eqb r r'
  | EEvent r o v, EEvent r' o' v' => Nat.eqb r r' && N.eqb o o' && Z.eqb v v'
  | EOut a', EOut b' => Nat.eqb (outcome_idx a') (outcome_idx b')
  | _, _ => false
  end.

(* live registrations per device at the end, read off the state *)
Definition final_live (x : state) : nat :=
  fold_left (fun n kb => fold_left (fun m oc => m + snd (snd oc)) (b_mons (snd kb)) n) (runs x) 0.

Definition case_ok (h : list op) (log : list ev) (left : nat) (fg : bool) : bool :=
  list_beq ev_beq (mlog h) log && Nat.eqb (final_live (mstate h)) left && Bool.eqb (finding_C41_g h) fg.

(* boolean restatement of the main theorem *)
Definition events_ok_b (h : list op) : bool :=
  finding_C41_g h || list_beq ev_beq (filter is_event (mlog h)) (spec_log h).
