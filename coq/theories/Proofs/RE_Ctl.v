(* Trace specification of the engine's control state (message cache, rewindable flag, deferred
   pause, lifecycle state) and the proof that the model Engine/RE.v follows it on EVERY schedule,
   for every plan coalgebra and every device oracle.

   The specification is a monitor [mon] that reads the trace of a run -- the schedule's events
   interleaved with the observations each event produced -- and never looks at the engine state.
   Main theorem [run_follows_spec]: after any schedule the engine's cache / rewindable flag /
   deferred flag / lifecycle state are exactly what the monitor computed from the trace, and the
   monitor's safety flag [mok] still holds, which says
     - C10: the engine only ever becomes Paused while a checkpoint is in effect (cache <> None);
     - C09: the engine only ever starts Pausing because of a hard pause request, a
            `pause(defer=False)` message, or the grace sleep of a checkpoint taken with a
            deferred pause pending.
   Used by Props/C04.v, C09.v, C10.v. *)
From Coq Require Import List String ZArith Bool Arith Lia.
From BV Require Import Engine.RE.
Import ListNotations.

(* ------------------------------------------------------------------ trace items *)
Inductive titem := TEv (e : event) | TObs (o : obs).

(* ------------------------------------------------------------------ the monitor *)
Record mon := {
  mstate : rstate;               (* lifecycle state, from the OState observations *)
  mcache : option (list msg);    (* SPEC of RunEngine._msg_cache: None = no checkpoint in effect *)
  mrw : bool;                    (* SPEC of the rewindable flag *)
  mdef : bool;                   (* SPEC of _deferred_pause_requested *)
  mpend : option msg;            (* the message whose command is being executed *)
  msleep : bool;                 (* the task sleeps out the grace period of a deferred pause at a checkpoint *)
  mcause : bool;                 (* a transition to Pausing is justified right now *)
  mok : bool }.                  (* safety flag (see header) *)

Definition mon0 : mon :=
  {| mstate := Idle; mcache := Some []; mrw := true; mdef := false; mpend := None; msleep := false;
     mcause := false; mok := true |}.

Definition is_pause_now (c : cmd) : bool := match c with CPause false => true | _ => false end.
Definition is_checkpoint (c : cmd) : bool := match c with CCheckpoint => true | _ => false end.

Definition reset_spec (c : option (list msg)) : option (list msg) :=
  match c with Some _ => Some [] | None => None end.

(* effect of a main-thread / loop event, decided from the trace-side state only *)
Definition mon_ev (m : mon) (e : event) : mon :=
  let m := {| mstate := mstate m; mcache := mcache m; mrw := mrw m; mdef := mdef m; mpend := mpend m;
              msleep := match e with EvTask => false | _ => msleep m end;
              mcause := match e with
                        | EvReqPause false => true
                        | EvTask => msleep m
                        | _ => false
                        end;
              mok := mok m |} in
  match e with
  | EvMain (ACall _) =>
      if rstate_eqb (mstate m) Idle then
        {| mstate := mstate m; mcache := Some []; mrw := mrw m; mdef := false; mpend := None; msleep := msleep m;
           mcause := mcause m; mok := mok m |}
      else m
  | EvMain AResume =>
      if rstate_eqb (mstate m) Paused then
        {| mstate := mstate m; mcache := reset_spec (mcache m); mrw := mrw m; mdef := mdef m; mpend := mpend m;
           msleep := msleep m; mcause := mcause m; mok := mok m |}
      else m
  | EvReqPause true =>
      if allowed (mstate m) Pausing then
        {| mstate := mstate m; mcache := mcache m; mrw := mrw m; mdef := true; mpend := mpend m;
           msleep := msleep m; mcause := mcause m; mok := mok m |}
      else m
  | _ => m
  end.

(* effect of a finished command, from the message and its response *)
Definition cache_after (c : cmd) (r : resp) (rw : bool) (cache : option (list msg)) : option (list msg) :=
  match c, r with
  | CCheckpoint, RExn EIMS => cache
  | CCheckpoint, _ => Some []          (* an explicit checkpoint (re-)establishes resumability *)
  | CClearCheckpoint, _ => None
  | CRewindable (Some b), _ => if negb (Bool.eqb b rw) then reset_spec cache else cache
  | CCloseRun _ _, RVal _ => reset_spec cache
  | (CStage | CUnstage), RVal (VDevs (_ :: _)) => reset_spec cache
  | CStartSuspender _ _ _, RVal _ => reset_spec cache
  | _, _ => cache
  end.
Definition rw_after (c : cmd) (rw : bool) : bool :=
  match c with CRewindable (Some b) => b | _ => rw end.
Definition def_after (c : cmd) (r : resp) (d : bool) : bool :=
  match c, r with CPause true, RVal _ => true | _, _ => d end.

Definition mon_obs (m : mon) (o : obs) : mon :=
  match o with
  | OState _ b =>
      {| mstate := b; mcache := mcache m; mrw := mrw m;
         mdef := match b with Pausing => false | _ => mdef m end;
         mpend := mpend m; msleep := msleep m; mcause := mcause m;
         mok := mok m && match b with
                         | Paused => match mcache m with Some _ => true | None => false end
                         | Pausing => mcause m
                         | _ => true
                         end |}
  | OMsg x =>
      {| mstate := mstate m;
         mcache := match mcache m with
                   | Some l => if mrw m && cacheable (mcmd x) then Some (l ++ [x]) else Some l
                   | None => None
                   end;
         mrw := mrw m; mdef := mdef m;
         mpend := match mcmd x with CUnknown => None | _ => Some x end;
         msleep := msleep m; mcause := is_pause_now (mcmd x); mok := mok m |}
  | OResp r =>
      match mpend m with
      | None => {| mstate := mstate m; mcache := mcache m; mrw := mrw m; mdef := mdef m; mpend := None;
                   msleep := msleep m; mcause := false; mok := mok m |}
      | Some x =>
          {| mstate := mstate m; mcache := cache_after (mcmd x) r (mrw m) (mcache m);
             mrw := rw_after (mcmd x) (mrw m); mdef := def_after (mcmd x) r (mdef m); mpend := None;
             msleep := msleep m; mcause := false; mok := mok m |}
      end
  | OTask WFuture =>
      match mpend m with
      | None => m
      | Some x =>
          (* the command suspended: only a checkpoint has already acted (it is sleeping out the
             grace period of a deferred pause) *)
          {| mstate := mstate m;
             mcache := if is_checkpoint (mcmd x) then Some [] else mcache m;
             mrw := mrw m; mdef := mdef m; mpend := None;
             msleep := is_checkpoint (mcmd x) && mdef m; mcause := false; mok := mok m |}
      end
  | _ => m
  end.

Definition mon_item (m : mon) (t : titem) : mon :=
  match t with TEv e => mon_ev m e | TObs o => mon_obs m o end.
Definition mon_obss (m : mon) (l : list obs) : mon := fold_left mon_obs l m.
Definition mon_run (m : mon) (l : list titem) : mon := fold_left mon_item l m.

Lemma mon_obss_app m a b : mon_obss m (a ++ b) = mon_obss (mon_obss m a) b.
Proof. unfold mon_obss. apply fold_left_app. Qed.
Lemma mon_obss_cons m x l : mon_obss m (x :: l) = mon_obss (mon_obs m x) l.
Proof. reflexivity. Qed.
Lemma mon_obss_nil m : mon_obss m [] = m.
Proof. reflexivity. Qed.
Lemma mon_run_app m a b : mon_run m (a ++ b) = mon_run (mon_run m a) b.
Proof. unfold mon_run. apply fold_left_app. Qed.
Lemma mon_run_obs m l : mon_run m (map TObs l) = mon_obss m l.
Proof. revert m; induction l as [|o l IH]; intros m; cbn; [reflexivity | apply IH]. Qed.

(* observations the monitor ignores *)
Definition quiet (o : obs) : bool :=
  match o with
  | OPlanIn _ _ | ODoc _ | ODev _ _ | OBad _ | OReq _ | OOut _ _ _ _ => true
  | OTask WFuture => false
  | OTask _ => true
  | _ => false
  end.
Lemma quiet_id m o : quiet o = true -> mon_obs m o = m.
Proof. destruct o; cbn; try discriminate; try reflexivity. destruct w; cbn; try discriminate; reflexivity. Qed.
Lemma quiet_all m l : forallb quiet l = true -> mon_obss m l = m.
Proof.
  revert m; induction l as [|o l IH]; intros m H; cbn in *; [reflexivity|].
  apply andb_true_iff in H as [H1 H2]. rewrite quiet_id by exact H1. apply IH, H2.
Qed.

Lemma rstate_eqb_eq a b : rstate_eqb a b = true <-> a = b.
Proof. split; [|intros ->; destruct b; reflexivity]. destruct a, b; cbn; try reflexivity; discriminate. Qed.
Lemma rstate_eqb_refl a : rstate_eqb a a = true.
Proof. apply rstate_eqb_eq; reflexivity. Qed.

(* ------------------------------------------------------------------ bundler side invariant:
   a bundler that records interruptions always has the 'interruptions' counter, hence
   record_interruption never fails (needed to know that resume() really rewinds) *)
Definition bok (b : bundler) : bool := implb (bintr b) (amem INTR (bseq b)).
Definition bintr_ok (l : list (nat * bundler)) : bool := forallb (fun kb => bok (snd kb)) l.

Lemma amem_aset {A} k k' (v : A) l : amem k (aset k' v l) = Nat.eqb k k' || amem k l.
Proof.
  unfold amem. induction l as [|[k0 v0] l IH]; cbn.
  - destruct (Nat.eqb k k'); reflexivity.
  - destruct (Nat.eqb k' k0) eqn:E1; cbn.
    + apply Nat.eqb_eq in E1; subst. destruct (Nat.eqb k k0); reflexivity.
    + destruct (Nat.eqb k k0) eqn:E2; cbn; [rewrite orb_true_r; reflexivity | exact IH].
Qed.

Lemma bintr_ok_aset k b l : bintr_ok l = true -> bok b = true -> bintr_ok (aset k b l) = true.
Proof.
  unfold bintr_ok. induction l as [|[k0 b0] l IH]; cbn; intros H Hb.
  - rewrite Hb; reflexivity.
  - apply andb_true_iff in H as [H1 H2]. destruct (Nat.eqb k k0); cbn; [rewrite Hb, H2; reflexivity|].
    rewrite H1; cbn. apply IH; assumption.
Qed.
Lemma bintr_ok_aremove k l : bintr_ok l = true -> bintr_ok (aremove k l) = true.
Proof.
  unfold bintr_ok. induction l as [|[k0 b0] l IH]; cbn; intros H; [reflexivity|].
  apply andb_true_iff in H as [H1 H2]. destruct (Nat.eqb k k0); cbn; [exact H2|]. rewrite H1; cbn. apply IH, H2.
Qed.
Lemma bintr_ok_lookup k l b : bintr_ok l = true -> alookup k l = Some b -> bok b = true.
Proof.
  unfold bintr_ok. induction l as [|[k0 b0] l IH]; cbn; intros H E; [discriminate|].
  apply andb_true_iff in H as [H1 H2]. destruct (Nat.eqb k k0); [inversion E; subst; exact H1 | eapply IH; eassumption].
Qed.
Lemma bintr_ok_map f l : (forall b, bok b = true -> bok (f b) = true) -> bintr_ok l = true ->
  bintr_ok (map (fun kb => (fst kb, f (snd kb))) l) = true.
Proof.
  unfold bintr_ok. intros Hf. induction l as [|[k0 b0] l IH]; cbn; intros H; [reflexivity|].
  apply andb_true_iff in H as [H1 H2]. rewrite Hf by exact H1. cbn. apply IH, H2.
Qed.

Lemma bok_snapshot b : bok b = true -> bok (b_snapshot b) = true.
Proof. unfold bok; cbn; auto. Qed.
Lemma bok_clear b : bok b = true -> bok (b_clear_ckpt b) = true.
Proof. unfold bok; cbn; auto. Qed.
Lemma bok_set_bundle b u n o r : bok b = true -> bok (b_set_bundle b u n o r) = true.
Proof. unfold bok; cbn; auto. Qed.
Lemma bok_add_cached b d : bok b = true -> bok (b_add_cached b d) = true.
Proof. unfold bok; cbn; auto. Qed.

Lemma fill_keeps k ds : forall (acc : list (nat * nat) * list (nat * nat)),
  amem k (fst acc) = true ->
  amem k (fst (fold_left (fun (acc : list (nat * nat) * list (nat * nat)) (d : nat * list nat) =>
                            if amem (fst d) (fst acc) then acc
                            else (aset (fst d) 1 (fst acc), aset (fst d) 1 (snd acc))) ds acc)) = true.
Proof.
  induction ds as [|d ds IH]; intros acc H; cbn; [exact H|].
  apply IH. destruct (amem (fst d) (fst acc)); [exact H|]. cbn. rewrite amem_aset, H. apply orb_true_r.
Qed.
Lemma bok_rewind b : bok b = true -> bok (b_rewind b) = true.
Proof.
  unfold bok, b_rewind; cbn. destruct (bintr b); cbn; [|reflexivity]. intros H.
  apply fill_keeps. cbn. unfold amem in H. destruct (alookup INTR (bseq b)) eqn:E; [|discriminate].
  rewrite amem_aset. reflexivity.
Qed.

Lemma record_intr_list_ok l : bintr_ok l = true ->
  exists r o, record_intr_list l = (r, o, true) /\ bintr_ok r = true /\ forallb quiet o = true.
Proof.
  induction l as [|[k b] l IH]; cbn; intros H.
  - exists [], []. repeat split; reflexivity.
  - unfold bintr_ok in H; cbn in H. apply andb_true_iff in H as [H1 H2]. destruct (IH H2) as (r & o & E & Hr & Ho).
    unfold b_record_intr. unfold bok in H1. destruct (bintr b) eqn:Eb; cbn in H1.
    + unfold amem in H1. destruct (alookup INTR (bseq b)) eqn:El; [|discriminate]. rewrite E.
      eexists _, _. split; [reflexivity|]. split.
      * unfold bintr_ok; cbn. unfold bok at 1; cbn. rewrite amem_aset, Nat.eqb_refl; cbn. exact Hr.
      * cbn. exact Ho.
    + rewrite E. eexists _, _. split; [reflexivity|]. split; [|exact Ho].
      unfold bintr_ok; cbn. unfold bok at 1; rewrite Eb; cbn. exact Hr.
Qed.

Ltac break_match :=
  match goal with
  | |- context [match ?x with _ => _ end] => destruct x eqn:?
  end.
Ltac bm_hyp H :=
  match type of H with
  | context [match ?x with _ => _ end] => destruct x eqn:?
  end.
Ltac inv H := inversion H; subst; clear H.

Section Proofs.
Variable P : Type.
Variable presume : P -> input -> outcome P.
Variable plan_of : nat -> P.
Variable D : Type.
Variable dev : D -> nat -> devmeth -> D * devres.

Notation st := (st P D).

(* the engine state agrees with the trace specification *)
Definition Rc (s : st) (m : mon) : Prop :=
  state P D s = mstate m /\ cache P D s = mcache m /\ rewindable P D s = mrw m /\ deferred P D s = mdef m /\
  mok m = true /\ bintr_ok (bundlers P D s) = true.
Definition Rd (s : st) (m : mon) : Prop := Rc s m /\ mpend m = None.
Definition R (s : st) (m : mon) : Prop := Rd s m /\ (pc P D s = PcCmd KCkptSleep -> msleep m = true).

(* two engine states that the specification cannot tell apart *)
Definition teq (s s' : st) : Prop :=
  state P D s = state P D s' /\ cache P D s = cache P D s' /\ rewindable P D s = rewindable P D s' /\
  deferred P D s = deferred P D s' /\ (bintr_ok (bundlers P D s) = true -> bintr_ok (bundlers P D s') = true).

Lemma teq_refl s : teq s s. Proof. repeat split; auto. Qed.
Lemma teq_trans a b c : teq a b -> teq b c -> teq a c.
Proof. intros (A1 & A2 & A3 & A4 & A5) (B1 & B2 & B3 & B4 & B5). repeat split; try congruence. auto. Qed.
Lemma Rc_teq s s' m : teq s s' -> Rc s m -> Rc s' m.
Proof. intros (A1 & A2 & A3 & A4 & A5) (B1 & B2 & B3 & B4 & B5 & B6). repeat split; try congruence. auto. Qed.

Lemma dcall_q (s : st) d mth s' r o : dcall P D dev s d mth = (s', r, o) -> teq s s' /\ forallb quiet o = true.
Proof. unfold dcall. destruct (dev _ _ _). intros H; inv H. split; [repeat split; auto | reflexivity]. Qed.

Lemma forallb_app {A} (f : A -> bool) a b : forallb f (a ++ b) = forallb f a && forallb f b.
Proof. induction a; cbn; [reflexivity|]. rewrite IHa, andb_assoc. reflexivity. Qed.

Lemma stop_movables_q (s : st) s' o : stop_movables P D dev s = (s', o) -> teq s s' /\ forallb quiet o = true.
Proof.
  unfold stop_movables.
  assert (G : forall l (s0 : st) o0 s1 o1,
             fold_left (fun acc d => let '(s0, os) := acc in
                                     let '(s1, _, o) := dcall P D dev s0 d MStop in (s1, os ++ o)) l (s0, o0) = (s1, o1) ->
             teq s0 s1 /\ (forallb quiet o0 = true -> forallb quiet o1 = true)).
  { induction l as [|d l IH]; intros s0 o0 s1 o1 H; cbn in H.
    - inv H. split; [apply teq_refl | auto].
    - destruct (dcall P D dev s0 d MStop) as [[sa ra] oa] eqn:E. apply IH in H. destruct H as [H1 H2].
      apply dcall_q in E. destruct E as [E1 E2]. split; [eapply teq_trans; eassumption|].
      intros Hq. apply H2. rewrite forallb_app, Hq, E2. reflexivity. }
  intros H. apply G in H. destruct H as [H1 H2]. split; [exact H1 | apply H2; reflexivity].
Qed.

Lemma call_pausables_q (s : st) mth s' e o : call_pausables P D dev s mth = (s', e, o) -> teq s s' /\ forallb quiet o = true.
Proof.
  unfold call_pausables.
  assert (G : forall l (s0 : st) e0 o0 s1 e1 o1,
             fold_left (fun acc d =>
               let '(s0, e, os) := acc in
               match e with
               | Some _ => acc
               | None => if mem_nat d (seen P D s0)
                         then let '(s1, r, o) := dcall P D dev s0 d mth in
                              (s1, match r with DRaise x => Some x | _ => None end, os ++ o)
                         else acc
               end) l (s0, e0, o0) = (s1, e1, o1) ->
             teq s0 s1 /\ (forallb quiet o0 = true -> forallb quiet o1 = true)).
  { induction l as [|d l IH]; intros s0 e0 o0 s1 e1 o1 H; cbn in H.
    - inv H. split; [apply teq_refl | auto].
    - destruct e0.
      + eapply IH; eassumption.
      + destruct (mem_nat d (seen P D s0)).
        * destruct (dcall P D dev s0 d mth) as [[sa ra] oa] eqn:E. apply IH in H. destruct H as [H1 H2].
          apply dcall_q in E. destruct E as [E1 E2]. split; [eapply teq_trans; eassumption|].
          intros Hq. apply H2. rewrite forallb_app, Hq, E2. reflexivity.
        * eapply IH; eassumption. }
  intros H. apply G in H. destruct H as [H1 H2]. split; [exact H1 | apply H2; reflexivity].
Qed.

Lemma record_interruptions_q (s : st) s' o ok :
  bintr_ok (bundlers P D s) = true -> record_interruptions P D s = (s', o, ok) ->
  ok = true /\ teq s s' /\ forallb quiet o = true.
Proof.
  unfold record_interruptions. intros Hb. destruct (record_intr_list_ok _ Hb) as (r & o0 & E & Hr & Ho).
  rewrite E. intros H; inv H. repeat split; auto.
Qed.

Lemma helper_resume_q h i o os : helper_resume P presume h i = (o, os) -> forallb quiet os = true.
Proof. unfold helper_resume. repeat break_match; intros H; inv H; reflexivity. Qed.

Lemma frame_resume_q f i o os : frame_resume P presume f i = (o, os) -> forallb quiet os = true.
Proof.
  unfold frame_resume. destruct f.
  - repeat break_match; intros H; inv H; reflexivity.
  - repeat break_match; intros H; inv H; reflexivity.
  - repeat break_match; intros H; inv H; reflexivity.
  - destruct (helper_resume P presume h i) as [o0 os0] eqn:E. intros H; inv H. eapply helper_resume_q; eassumption.
Qed.

Lemma close_runs_q (s : st) xs rs : forallb quiet (close_runs P D s xs rs) = true.
Proof.
  unfold close_runs. induction (bundlers P D s) as [|kb l IH]; cbn; [reflexivity|].
  rewrite forallb_app, IH. destruct (bopen (snd kb)); reflexivity.
Qed.
Lemma close_frames_q (s : st) : forallb quiet (close_frames P presume D s) = true.
Proof.
  unfold close_frames. induction (rev (plans P D s)) as [|f l IH]; cbn; [reflexivity|].
  rewrite forallb_app, IH. destruct (frame_resume P presume f Close) eqn:E. cbn. erewrite frame_resume_q by eassumption. reflexivity.
Qed.

(* lifecycle changes other than the one to Pausing *)
Definition mset (m : mon) (x : rstate) : mon :=
  {| mstate := x; mcache := mcache m; mrw := mrw m; mdef := mdef m; mpend := mpend m; msleep := msleep m;
     mcause := mcause m; mok := mok m |}.

Lemma mon_state_other m a x :
  x <> Pausing -> (x = Paused -> mcache m <> None) -> mon_obs m (OState a x) = mset m x.
Proof.
  intros H1 H2. unfold mset. destruct x; cbn; try rewrite andb_true_r; try reflexivity; try congruence.
  destruct (mcache m); [rewrite andb_true_r; reflexivity | exfalso; apply H2; reflexivity].
Qed.

Lemma set_state_Rc (s : st) m x s' o :
  Rc s m -> set_state P D s x = Some (s', o) -> x <> Pausing -> (x = Paused -> mcache m <> None) ->
  mon_obss m o = mset m x /\ Rc s' (mset m x).
Proof.
  unfold set_state. intros HR H H1 H2. destruct (allowed (state P D s) x); [|discriminate]. inv H.
  change (mon_obss m [OState (state P D s) x]) with (mon_obs m (OState (state P D s) x)).
  rewrite mon_state_other by assumption. split; [reflexivity|].
  destruct HR as (B1 & B2 & B3 & B4 & B5 & B6). repeat split; cbn; assumption.
Qed.

(* ------------------------------------------------------------------ pause requests *)
Lemma request_pause_defer (s : st) s' e o :
  request_pause P D s true = (s', e, o) ->
  o = [] /\ ((e = None /\ allowed (state P D s) Pausing = true /\ s' = set_deferred P D s true)
             \/ (e <> None /\ allowed (state P D s) Pausing = false /\ s' = s)).
Proof.
  unfold request_pause. destruct (allowed (state P D s) Pausing); cbn; intros H; inv H.
  - split; [reflexivity | left; auto].
  - split; [reflexivity | right; repeat split; auto; discriminate].
Qed.

Definition msame (m m' : mon) : Prop := mpend m' = mpend m /\ msleep m' = msleep m /\ mcause m' = mcause m.

Lemma request_pause_now (s : st) m s' e o :
  Rc s m -> mcause m = true -> request_pause P D s false = (s', e, o) ->
  Rc s' (mon_obss m o) /\ msame m (mon_obss m o).
Proof.
  intros HR Hc. unfold request_pause. destruct (allowed (state P D s) Pausing) eqn:Ea; cbn [negb].
  - cbv iota. cbn [negb].
    match goal with |- context [set_state P D ?s1 Pausing] => remember s1 as s1_ eqn:Es1 end.
    assert (T1 : state P D s1_ = state P D s /\ cache P D s1_ = cache P D s /\ rewindable P D s1_ = rewindable P D s
                 /\ deferred P D s1_ = false /\ bundlers P D s1_ = bundlers P D s).
    { subst s1_. destruct (pc P D (interrupt P D (set_deferred P D s false) CzPause)); cbn; auto. }
    destruct T1 as (T1 & T2 & T3 & T4 & T5). clear Es1.
    unfold set_state. rewrite T1, Ea.
    destruct (record_interruptions P D (set_state_raw P D s1_ Pausing)) as [[s3 o2] ok] eqn:Er.
    destruct HR as (B1 & B2 & B3 & B4 & B5 & B6).
    apply record_interruptions_q in Er; [|cbn; rewrite T5; exact B6].
    destruct Er as (-> & (Q1 & Q2 & Q3 & Q4 & Q5) & Qo). cbn in Q1, Q2, Q3, Q4, Q5.
    intros H; inv H.
    cbn [app]. rewrite mon_obss_cons, quiet_all by exact Qo.
    split; [|repeat split; reflexivity].
    unfold cancel_task. unfold Rc.
    assert (G : forall s4 : st, (s4 = s3 \/ s4 = set_must_cancel P D s3 true) ->
                state P D s4 = Pausing /\ cache P D s4 = mcache m /\ rewindable P D s4 = mrw m /\ deferred P D s4 = false /\
                bintr_ok (bundlers P D s4) = true).
    { intros s4 [-> | ->]; cbn; rewrite <- ?Q1, <- ?Q2, <- ?Q3, <- ?Q4; repeat split; try congruence; apply Q5; rewrite T5; exact B6. }
    cbn [mon_obs mstate mcache mrw mdef mok]. rewrite B5, Hc.
    destruct (pc P D s3); edestruct (G _ ltac:(first [left; reflexivity | right; reflexivity])) as (G1 & G2 & G3 & G4 & G5);
      repeat split; assumption.
  - intros H; inv H. split; [exact HR | repeat split; reflexivity].
Qed.

(* ------------------------------------------------------------------ commands *)
Lemma reset_checkpoint_spec (s : st) :
  state P D (reset_checkpoint P D s) = state P D s /\ cache P D (reset_checkpoint P D s) = reset_spec (cache P D s) /\
  rewindable P D (reset_checkpoint P D s) = rewindable P D s /\ deferred P D (reset_checkpoint P D s) = deferred P D s /\
  (bintr_ok (bundlers P D s) = true -> bintr_ok (bundlers P D (reset_checkpoint P D s)) = true).
Proof.
  unfold reset_checkpoint. destruct (cache P D s) eqn:E; cbn; rewrite ?E; repeat split; auto.
  intros H. apply bintr_ok_map; [apply bok_snapshot | exact H].
Qed.

Lemma put_bundler_teq (s : st) k b : bok b = true -> teq s (put_bundler P D s k b).
Proof. intros Hb. repeat split; cbn; auto. intros H. apply bintr_ok_aset; assumption. Qed.

Lemma get_bundler_bok (s : st) k b : bintr_ok (bundlers P D s) = true -> get_bundler P D s k = Some b -> bok b = true.
Proof. unfold get_bundler. apply bintr_ok_lookup. Qed.

(* a command that finishes without touching what the specification tracks *)
Lemma done_quiet (s : st) m x s' o r :
  Rc s m -> mpend m = Some x -> teq s s' -> forallb quiet o = true ->
  cache_after (mcmd x) r (mrw m) (mcache m) = mcache m -> rw_after (mcmd x) (mrw m) = mrw m ->
  def_after (mcmd x) r (mdef m) = mdef m ->
  Rd s' (mon_obss m (o ++ [OResp r])).
Proof.
  intros HR Hp Ht Hq H1 H2 H3. rewrite mon_obss_app, (quiet_all _ o Hq). cbn [mon_obss fold_left mon_obs]. rewrite Hp.
  apply (Rc_teq _ _ _ Ht) in HR. destruct HR as (B1 & B2 & B3 & B4 & B5 & B6).
  split; [|reflexivity]. unfold Rc; cbn. rewrite H1, H2, H3. repeat split; assumption.
Qed.

Lemma susp_quiet (s : st) m x s' o k :
  Rc s m -> mpend m = Some x -> teq s s' -> forallb quiet o = true -> is_checkpoint (mcmd x) = false -> k <> KCkptSleep ->
  Rd s' (mon_obss m (o ++ [OTask WFuture])) /\ (k = KCkptSleep -> msleep (mon_obss m (o ++ [OTask WFuture])) = true).
Proof.
  intros HR Hp Ht Hq H1 Hk. rewrite mon_obss_app, (quiet_all _ o Hq). cbn [mon_obss fold_left mon_obs]. rewrite Hp.
  apply (Rc_teq _ _ _ Ht) in HR. destruct HR as (B1 & B2 & B3 & B4 & B5 & B6).
  split; [|intros E; contradiction]. split; [|reflexivity]. unfold Rc; cbn. rewrite H1. repeat split; assumption.
Qed.

Lemma finish_read_teq (s : st) run d z o0 s' c o :
  bintr_ok (bundlers P D s) = true -> finish_read P D s run d z o0 = (s', c, o) ->
  teq s s' /\ o = o0 /\ exists r, c = Done r.
Proof.
  unfold finish_read. intros Hb. destruct (get_bundler P D s run) eqn:E.
  - destruct (mem_nat d (bobjs b)); intros H; inv H.
    + split; [apply teq_refl | split; [reflexivity | eauto]].
    + split; [|split; [reflexivity | eauto]]. apply put_bundler_teq. apply bok_set_bundle. eapply get_bundler_bok; eassumption.
  - intros H; inv H. split; [apply teq_refl | split; [reflexivity | eauto]].
Qed.

Lemma add_status_teq (s : st) g sid ok : teq s (add_status P D s g sid ok).
Proof. repeat split; cbn; auto. Qed.

Ltac teq_tac :=
  repeat match goal with
         | |- teq ?a ?a => apply teq_refl
         | H : teq ?a ?b |- teq ?a ?c => apply (teq_trans _ _ _ H)
         | |- teq ?a (add_status _ _ _ _ _ _) => apply add_status_teq
         | |- teq (set_moved _ _ ?s _) _ => apply (teq_trans _ s); [repeat split; cbn; auto|]
         end.

Lemma exec_cmd_R (s : st) m x s' cr o :
  Rc s m -> mpend m = Some x -> mcause m = is_pause_now (mcmd x) ->
  (forall a b c, mcmd x <> CStartSuspender a b c) -> mcmd x <> CUnknown ->
  exec_cmd P D dev s x = (s', cr, o) ->
  match cr with
  | Done r => Rd s' (mon_obss m (o ++ [OResp r]))
  | Susp k => Rd s' (mon_obss m (o ++ [OTask WFuture])) /\
              (k = KCkptSleep -> msleep (mon_obss m (o ++ [OTask WFuture])) = true)
  end.
Proof.
  intros HR Hp Hc Hns Hnu. pose proof HR as (B1 & B2 & B3 & B4 & B5 & B6).
  unfold exec_cmd. destruct (mcmd x) eqn:Ec.
  - (* null *) intros H; inv H. eapply done_quiet; eauto using teq_refl; rewrite Ec; reflexivity.
  - (* sleep *) intros H; inv H. eapply susp_quiet; eauto using teq_refl; [rewrite Ec; reflexivity | discriminate].
  - (* checkpoint *)
    destruct (any_bundling P D s).
    + intros H; inv H. eapply done_quiet; eauto using teq_refl; rewrite Ec; reflexivity.
    + set (s0 := match cache P D s with None => set_cache P D s (Some []) | Some _ => s end).
      assert (T0 : state P D s0 = state P D s /\ rewindable P D s0 = rewindable P D s /\ deferred P D s0 = deferred P D s /\
                   bundlers P D s0 = bundlers P D s /\ reset_spec (cache P D s0) = Some [])
        by (unfold s0; destruct (cache P D s) eqn:Ecs; cbn; rewrite ?Ecs; repeat split).
      destruct T0 as (T1 & T2 & T3 & T4 & T5).
      destruct (reset_checkpoint_spec s0) as (Q1 & Q2 & Q3 & Q4 & Q5).
      rewrite Q4, T3, B4. destruct (mdef m) eqn:Ed; intros H; inv H; cbn [app mon_obss fold_left mon_obs]; rewrite Hp, Ec; cbn.
      * split; [|intros _; exact Ed]. split; [|reflexivity].
        unfold Rc; cbn. rewrite Q1, Q2, Q3, Q4, T1, T2, T3, T5. (repeat split; auto; try congruence). apply Q5. rewrite T4. exact B6.
      * split; [|reflexivity]. unfold Rc; cbn. rewrite Q1, Q2, Q3, Q4, T1, T2, T3, T5. (repeat split; auto; try congruence). apply Q5. rewrite T4. exact B6.
  - (* clear_checkpoint *)
    intros H; inv H. cbn [app mon_obss fold_left mon_obs]. rewrite Hp, Ec. split; [|reflexivity].
    unfold Rc; cbn. (repeat split; auto; try congruence). apply bintr_ok_map; [apply bok_clear | exact B6].
  - (* rewindable *)
    intros H; inv H. cbn [app mon_obss fold_left mon_obs]. rewrite Hp, Ec. split; [|reflexivity].
    destruct v as [b|]; [|unfold Rc; cbn; (repeat split; auto; try congruence)].
    unfold resumable. cbn [cache set_rewindable upd]. rewrite <- B3.
    destruct (cache P D s) eqn:Ecs; cbn [andb].
    + destruct (negb (Bool.eqb b (rewindable P D s))) eqn:En.
      * destruct (reset_checkpoint_spec (set_rewindable P D s b)) as (Q1 & Q2 & Q3 & Q4 & Q5).
        unfold Rc; cbn [mstate mcache mrw mdef mok cache_after rw_after def_after]. rewrite En, Q1, Q2, Q3, Q4. cbn.
        rewrite Ecs, <- B2. (repeat split; auto; try congruence).
      * unfold Rc; cbn [mstate mcache mrw mdef mok cache_after rw_after def_after]. rewrite En. cbn. (repeat split; auto; try congruence).
    + unfold Rc; cbn [mstate mcache mrw mdef mok cache_after rw_after def_after]. cbn. rewrite <- B2.
      destruct (negb (Bool.eqb b (rewindable P D s))); cbn; (repeat split; auto; try congruence).
  - (* pause *)
    unfold request_pause_in_task.
    destruct (request_pause P D s defer) as [[s1 e] o1] eqn:Er. intros H; inv H.
    assert (Hmc : forall (s1 : st) m1, Rc s1 m1 ->
                  Rc (if resumable P D s then s1 else set_must_cancel P D s1 (must_cancel P D s)) m1).
    { intros s1' m1 H1. destruct (resumable P D s); [exact H1 | exact H1]. }
    destruct defer.
    + apply request_pause_defer in Er. destruct Er as (-> & [(-> & Ea & ->) | (Hn & Ea & ->)]).
      * cbn [app mon_obss fold_left mon_obs]. rewrite Hp, Ec. split; [|reflexivity]. apply Hmc. unfold Rc; cbn. (repeat split; auto; try congruence).
      * destruct e; [|congruence]. cbn [app mon_obss fold_left mon_obs]. rewrite Hp, Ec. split; [|reflexivity]. apply Hmc. unfold Rc; cbn. (repeat split; auto; try congruence).
    + apply (request_pause_now _ m) in Er; [|exact HR | rewrite Hc; reflexivity].
      destruct Er as [(C1 & C2 & C3 & C4 & C5 & C6) (S1 & S2 & S3)].
      rewrite mon_obss_app. generalize dependent (mon_obss m o). intros m1 C1 C2 C3 C4 C5 S1 S2 S3.
      cbn [mon_obss fold_left mon_obs]. rewrite S1, Hp, Ec.
      split; [|reflexivity]. apply Hmc. unfold Rc; cbn. destruct e; cbn; (repeat split; auto; try congruence).
  - (* open_run *)
    destruct (amem (mrun x) (bundlers P D s)).
    + intros H; inv H. eapply done_quiet; eauto using teq_refl; rewrite Ec; reflexivity.
    + destruct (record_intr P D s) eqn:Eri; intros H; inv H.
      * eapply done_quiet; eauto; try (rewrite Ec; reflexivity).
        apply (teq_trans _ (set_uids P D s (S (uid_supply P D s)) (run_uids P D s ++ [uid_supply P D s]))); [repeat split; cbn; auto|].
        apply put_bundler_teq. reflexivity.
      * eapply done_quiet; eauto; try (rewrite Ec; reflexivity).
        apply (teq_trans _ (set_uids P D s (S (uid_supply P D s)) (run_uids P D s ++ [uid_supply P D s]))); [repeat split; cbn; auto|].
        apply put_bundler_teq. reflexivity.
  - (* close_run *)
    destruct (get_bundler P D s (mrun x)) eqn:Eg.
    + intros H; inv H. cbn [app mon_obss fold_left mon_obs]. rewrite Hp, Ec. split; [|reflexivity].
      match goal with |- Rc (reset_checkpoint P D ?s0) _ => destruct (reset_checkpoint_spec s0) as (Q1 & Q2 & Q3 & Q4 & Q5) end.
      unfold Rc; cbn [mstate mcache mrw mdef mok cache_after rw_after def_after]. rewrite Q1, Q2, Q3, Q4. cbn. rewrite B2.
      (repeat split; auto; try congruence). apply Q5. cbn. apply bintr_ok_aremove. exact B6.
    + intros H; inv H. eapply done_quiet; eauto using teq_refl; rewrite Ec; reflexivity.
  - (* create *)
    destruct (get_bundler P D s (mrun x)) eqn:Eg.
    + destruct (bbundling b); intros H; inv H.
      * eapply done_quiet; eauto using teq_refl; rewrite Ec; reflexivity.
      * eapply done_quiet; eauto; try (rewrite Ec; reflexivity). apply put_bundler_teq, bok_set_bundle. eapply get_bundler_bok; eassumption.
    + intros H; inv H. eapply done_quiet; eauto using teq_refl; rewrite Ec; reflexivity.
  - (* read *)
    destruct (mobj x) as [d|].
    + destruct (dcall P D dev s d MRead) as [[s1 r] o1] eqn:Ed. apply dcall_q in Ed. destruct Ed as [Et Eq].
      pose proof (Rc_teq _ _ _ Et HR) as (C1 & C2 & C3 & C4 & C5 & C6).
      destruct r.
      * destruct (get_bundler P D s1 (mrun x)) eqn:Eg.
        -- destruct (bbundling b).
           ++ destruct (negb (mem_nat d (bcached b))).
              ** intros H; inv H. eapply susp_quiet; eauto; [rewrite Ec; reflexivity | discriminate].
              ** intros H. apply finish_read_teq in H; [|exact C6]. destruct H as (Ht & -> & r & ->).
                 eapply done_quiet; eauto; try (rewrite Ec; reflexivity). eapply teq_trans; eassumption.
           ++ intros H; inv H. eapply done_quiet; eauto; rewrite Ec; reflexivity.
        -- intros H; inv H. eapply done_quiet; eauto; rewrite Ec; reflexivity.
      * intros H; inv H. eapply done_quiet; eauto; rewrite Ec; reflexivity.
      * intros H; inv H. eapply done_quiet; eauto; rewrite Ec; reflexivity.
      * intros H; inv H. eapply done_quiet; eauto; rewrite Ec; reflexivity.
    + intros H; inv H. eapply done_quiet; eauto using teq_refl; rewrite Ec; reflexivity.
  - (* save *)
    destruct (get_bundler P D s (mrun x)) eqn:Eg.
    + pose proof (get_bundler_bok _ _ _ B6 Eg) as Hb.
      assert (Hbs : forall sq ds, bok (b_set_seq (b_set_bundle b false 0 (bobjs b) (breads b)) sq ds (bintr b)) = true
                                  \/ True) by (intros; right; exact I).
      destruct (negb (bbundling b)).
      * intros H; inv H. eapply done_quiet; eauto using teq_refl; rewrite Ec; reflexivity.
      * destruct (bobjs b) eqn:Eo.
        -- intros H; inv H. eapply done_quiet; eauto; try (rewrite Ec; reflexivity). apply put_bundler_teq, bok_set_bundle, Hb.
        -- cbn [b_set_bundle bdescs bseq bobjs bintr].
           destruct (alookup (bname b) (bdescs b)) eqn:El.
           ++ destruct (negb (list_eq_sorted l0 (n :: l))); intros H; inv H.
              ** eapply done_quiet; eauto; try (rewrite Ec; reflexivity). apply put_bundler_teq, bok_set_bundle, Hb.
              ** eapply done_quiet; eauto; try (rewrite Ec; reflexivity). apply put_bundler_teq.
                 unfold bok in *; cbn. destruct (bintr b); cbn in *; [|reflexivity]. rewrite amem_aset, Hb. apply orb_true_r.
           ++ intros H; inv H. eapply done_quiet; eauto; try (rewrite Ec; reflexivity). apply put_bundler_teq.
              unfold bok in *; cbn. destruct (bintr b); cbn in *; [|reflexivity]. rewrite amem_aset.
              destruct (amem (bname b) (bseq b)); [rewrite Hb; apply orb_true_r | rewrite amem_aset, Hb; rewrite !orb_true_r; reflexivity].
    + intros H; inv H. eapply done_quiet; eauto using teq_refl; rewrite Ec; reflexivity.
  - (* drop *)
    destruct (get_bundler P D s (mrun x)) eqn:Eg.
    + destruct (negb (bbundling b)); intros H; inv H.
      * eapply done_quiet; eauto using teq_refl; rewrite Ec; reflexivity.
      * eapply done_quiet; eauto; try (rewrite Ec; reflexivity). apply put_bundler_teq, bok_set_bundle. eapply get_bundler_bok; eassumption.
    + intros H; inv H. eapply done_quiet; eauto using teq_refl; rewrite Ec; reflexivity.
  - (* set *)
    destruct (mobj x) as [d|].
    + destruct (dcall P D dev (set_moved P D s (insert_sorted d (moved P D s))) d MSet) as [[s1 r] o1] eqn:Ed.
      apply dcall_q in Ed. destruct Ed as [Et Eq].
      assert (Et' : teq s s1) by (eapply teq_trans; [|exact Et]; repeat split; cbn; auto).
      destruct r; intros H; inv H; eapply done_quiet; eauto; try (rewrite Ec; reflexivity).
      all: try (eapply teq_trans; [exact Et' | apply add_status_teq]).
    + intros H; inv H. eapply done_quiet; eauto using teq_refl; rewrite Ec; reflexivity.
  - (* trigger *)
    destruct (mobj x) as [d|].
    + destruct (dcall P D dev s d MTrigger) as [[s1 r] o1] eqn:Ed.
      apply dcall_q in Ed. destruct Ed as [Et Eq].
      destruct r; intros H; inv H; eapply done_quiet; eauto; try (rewrite Ec; reflexivity).
      all: try (eapply teq_trans; [exact Et | apply add_status_teq]).
    + intros H; inv H. eapply done_quiet; eauto using teq_refl; rewrite Ec; reflexivity.
  - (* wait *)
    assert (Tg : forall gs, teq s (set_groups P D s gs)) by (intros; repeat split; cbn; auto).
    destruct (alookup g (groups P D s)) as [[|sid l]|]; intros H; inv H.
    + eapply done_quiet; eauto; rewrite Ec; reflexivity.
    + eapply susp_quiet; eauto; [rewrite Ec; reflexivity | discriminate].
    + eapply done_quiet; eauto; rewrite Ec; reflexivity.
  - (* stage *)
    destruct (mobj x) as [d|].
    + destruct (negb (mem_nat d (stageables P D s))).
      * intros H; inv H. eapply done_quiet; eauto using teq_refl; rewrite Ec; reflexivity.
      * destruct (dcall P D dev s d MStage) as [[s1 r] o1] eqn:Ed. apply dcall_q in Ed. destruct Ed as [Et Eq].
        pose proof (Rc_teq _ _ _ Et HR) as (C1 & C2 & C3 & C4 & C5 & C6).
        assert (G : Rd (reset_checkpoint P D (set_staged P D s1 (insert_sorted d (staged P D s1))))
                       (mon_obss m (o1 ++ [OResp (RVal (VDevs [d]))]))).
        { rewrite mon_obss_app, (quiet_all _ o1 Eq). cbn [mon_obss fold_left mon_obs]. rewrite Hp, Ec. split; [|reflexivity].
          match goal with |- Rc (reset_checkpoint P D ?s0) _ => destruct (reset_checkpoint_spec s0) as (Q1 & Q2 & Q3 & Q4 & Q5) end.
          unfold Rc; cbn [mstate mcache mrw mdef mok cache_after rw_after def_after]. rewrite Q1, Q2, Q3, Q4. cbn. rewrite C2.
          (repeat split; auto; try congruence). }
        destruct r; intros H; inv H; try exact G.
        eapply done_quiet; eauto; rewrite Ec; reflexivity.
    + intros H; inv H. eapply done_quiet; eauto using teq_refl; rewrite Ec; reflexivity.
  - (* unstage *)
    destruct (mobj x) as [d|].
    + destruct (negb (mem_nat d (stageables P D s))).
      * intros H; inv H. eapply done_quiet; eauto using teq_refl; rewrite Ec; reflexivity.
      * destruct (dcall P D dev s d MUnstage) as [[s1 r] o1] eqn:Ed. apply dcall_q in Ed. destruct Ed as [Et Eq].
        pose proof (Rc_teq _ _ _ Et HR) as (C1 & C2 & C3 & C4 & C5 & C6).
        assert (G : Rd (reset_checkpoint P D (set_staged P D s1 (remove_nat d (staged P D s1))))
                       (mon_obss m (o1 ++ [OResp (RVal (VDevs [d]))]))).
        { rewrite mon_obss_app, (quiet_all _ o1 Eq). cbn [mon_obss fold_left mon_obs]. rewrite Hp, Ec. split; [|reflexivity].
          match goal with |- Rc (reset_checkpoint P D ?s0) _ => destruct (reset_checkpoint_spec s0) as (Q1 & Q2 & Q3 & Q4 & Q5) end.
          unfold Rc; cbn [mstate mcache mrw mdef mok cache_after rw_after def_after]. rewrite Q1, Q2, Q3, Q4. cbn. rewrite C2.
          (repeat split; auto; try congruence). }
        destruct r; intros H; inv H; try exact G.
        eapply done_quiet; eauto; rewrite Ec; reflexivity.
    + intros H; inv H. eapply done_quiet; eauto using teq_refl; rewrite Ec; reflexivity.
  - (* stop *)
    destruct (mobj x) as [d|].
    + destruct (dcall P D dev s d MStop) as [[s1 r] o1] eqn:Ed. apply dcall_q in Ed. destruct Ed as [Et Eq].
      intros H; inv H. eapply done_quiet; eauto; rewrite Ec; reflexivity.
    + intros H; inv H. eapply done_quiet; eauto using teq_refl; rewrite Ec; reflexivity.
  - (* wait_for *) intros H; inv H. eapply susp_quiet; eauto using teq_refl; [rewrite Ec; reflexivity | discriminate].
  - (* start_suspender *) exfalso. eapply Hns; reflexivity.
  - (* resume_from_suspender *)
    destruct (call_pausables P D dev s MResume) as [[s1 e] o1] eqn:Ed. apply call_pausables_q in Ed. destruct Ed as [Et Eq].
    intros H; inv H. eapply done_quiet; eauto; rewrite Ec; reflexivity.
  - (* unknown *) congruence.
Qed.

Lemma Rd_teq (s s' : st) m : teq s s' -> Rd s m -> Rd s' m.
Proof. intros Ht [H1 H2]. split; [eapply Rc_teq; eassumption | exact H2]. Qed.

(* ------------------------------------------------------------------ _start_suspender *)
Lemma rewind_spec (s : st) s1 l :
  rewind P D s = (s1, l) ->
  state P D s1 = state P D s /\ cache P D s1 = reset_spec (cache P D s) /\ rewindable P D s1 = rewindable P D s /\
  deferred P D s1 = deferred P D s /\ (bintr_ok (bundlers P D s) = true -> bintr_ok (bundlers P D s1) = true) /\
  (forall l0, cache P D s = Some l0 -> l = l0).
Proof.
  unfold rewind. destruct (cache P D s) as [lc|] eqn:E; intros H; inv H.
  - destruct (Nat.eqb (List.length l) 0); cbn; repeat split; auto; try (intros l1 E1; congruence).
    intros H. apply bintr_ok_map; [apply bok_rewind | exact H].
  - cbn. rewrite E. repeat split; auto. intros l0 E0; discriminate.
Qed.

Lemma exec_start_suspender_R (s : st) m x sid pre post s' cr o :
  Rc s m -> mpend m = Some x -> mcmd x = CStartSuspender sid pre post ->
  exec_start_suspender P plan_of D dev s sid pre post = (s', cr, o) ->
  exists r, cr = Done r /\ Rd s' (mon_obss m (o ++ [OResp r])).
Proof.
  intros HR Hp Ec. pose proof HR as (B1 & B2 & B3 & B4 & B5 & B6). unfold exec_start_suspender.
  destruct (record_interruptions P D s) as [[s1 o1] ok] eqn:E1. apply record_interruptions_q in E1; [|exact B6].
  destruct E1 as (-> & T1 & Q1). cbn [negb].
  destruct (stop_movables P D dev s1) as [s2 o2] eqn:E2. apply stop_movables_q in E2. destruct E2 as [T2 Q2].
  destruct (call_pausables P D dev s2 MPause) as [[s3 e] o3] eqn:E3. apply call_pausables_q in E3. destruct E3 as [T3 Q3].
  assert (T : teq s s3) by (eapply teq_trans; [exact T1|]; eapply teq_trans; eassumption).
  assert (Q : forallb quiet (o1 ++ o2 ++ o3) = true) by (rewrite !forallb_app, Q1, Q2, Q3; reflexivity).
  pose proof (Rc_teq _ _ _ T HR) as (C1 & C2 & C3 & C4 & C5 & C6).
  destruct e.
  - intros H; inv H. eexists; split; [reflexivity|]. eapply done_quiet; eauto; rewrite Ec; reflexivity.
  - destruct (cache P D s3) eqn:Ecs.
    + destruct (rewind P D s3) as [s4 l0] eqn:E4. apply rewind_spec in E4. destruct E4 as (W1 & W2 & W3 & W4 & W5 & W6).
      intros H; inv H. eexists; split; [reflexivity|].
      rewrite mon_obss_app, (quiet_all _ _ Q). cbn [mon_obss fold_left mon_obs]. rewrite Hp, Ec. split; [|reflexivity].
      unfold Rc; cbn. rewrite W1, W2, W3, W4, Ecs, <- C2. repeat split; auto.
    + intros H; inv H. eexists; split; [reflexivity|]. eapply done_quiet; eauto; rewrite Ec; reflexivity.
Qed.

(* ------------------------------------------------------------------ one message *)
Lemma process_R (s : st) m0 x s3 cr o3 :
  Rd s m0 ->
  (let s1 := match mobj x with Some d => set_seen P D s (insert_sorted d (seen P D s)) | None => s end in
   let s2 := match cache P D s1 with
             | Some l => if rewindable P D s1 && cacheable (mcmd x) then set_cache P D s1 (Some (l ++ [x])) else s1
             | None => s1
             end in
   match mcmd x with
   | CStartSuspender sid pre post => exec_start_suspender P plan_of D dev s2 sid pre post
   | _ => exec_cmd P D dev s2 x
   end) = (s3, cr, o3) ->
  match cr with
  | Done r => Rd s3 (mon_obss m0 ([OMsg x] ++ o3 ++ match mcmd x with CUnknown => [] | _ => [OResp r] end))
  | Susp k => Rd s3 (mon_obss m0 ([OMsg x] ++ o3 ++ [OTask WFuture])) /\
              (k = KCkptSleep -> msleep (mon_obss m0 ([OMsg x] ++ o3 ++ [OTask WFuture])) = true)
  end.
Proof.
  intros [HR Hp]. cbv zeta.
  set (s1 := match mobj x with Some d => set_seen P D s (insert_sorted d (seen P D s)) | None => s end).
  assert (T1 : teq s s1) by (unfold s1; destruct (mobj x); repeat split; cbn; auto).
  set (s2 := match cache P D s1 with
             | Some l => if rewindable P D s1 && cacheable (mcmd x) then set_cache P D s1 (Some (l ++ [x])) else s1
             | None => s1
             end).
  set (m1 := mon_obs m0 (OMsg x)).
  assert (HR2 : Rc s2 m1).
  { pose proof (Rc_teq _ _ _ T1 HR) as (C1 & C2 & C3 & C4 & C5 & C6). unfold s2, m1, Rc. cbn [mon_obs mstate mcache mrw mdef mok].
    rewrite <- C2, <- C3. destruct (cache P D s1) eqn:E; [destruct (rewindable P D s1 && cacheable (mcmd x))|]; cbn; rewrite ?E; repeat split; auto. }
  assert (Hc1 : mcause m1 = is_pause_now (mcmd x)) by reflexivity.
  assert (Hp1 : mpend m1 = match mcmd x with CUnknown => None | _ => Some x end) by reflexivity.
  assert (Em : forall l, mon_obss m0 ([OMsg x] ++ l) = mon_obss m1 l) by (intros; reflexivity).
  clearbody s2 m1.
  assert (G : (forall a b c, mcmd x <> CStartSuspender a b c) -> mcmd x <> CUnknown ->
              exec_cmd P D dev s2 x = (s3, cr, o3) ->
              match cr with
              | Done r => Rd s3 (mon_obss m1 (o3 ++ [OResp r]))
              | Susp k => Rd s3 (mon_obss m1 (o3 ++ [OTask WFuture])) /\
                          (k = KCkptSleep -> msleep (mon_obss m1 (o3 ++ [OTask WFuture])) = true)
              end).
  { intros N1 N2. apply exec_cmd_R; auto. rewrite Hp1. destruct (mcmd x); congruence. }
  destruct (mcmd x) eqn:Ec;
    try (intros H; apply G in H; [|intros; discriminate | discriminate]; destruct cr; rewrite !Em; exact H).
  - (* start_suspender *)
    intros H. eapply exec_start_suspender_R in H; eauto. destruct H as (r & -> & H). rewrite Em. exact H.
  - (* unknown *)
    unfold exec_cmd. rewrite Ec. intros H; inv H. rewrite Em. cbn [app]. rewrite mon_obss_nil. split; assumption.
Qed.

(* ------------------------------------------------------------------ the finally block *)
Lemma mset_fields m x : mpend (mset m x) = mpend m /\ msleep (mset m x) = msleep m /\ mcause (mset m x) = mcause m.
Proof. repeat split. Qed.

Lemma quiet_task_end t : quiet (OTask match t with TReturn _ => WReturn | TRaise e => WRaise e end) = true.
Proof. destruct t; reflexivity. Qed.

Lemma finalize_R (s : st) r pend s' o m :
  Rd s m -> finalize P presume D dev s r pend = (s', o) -> R s' (mon_obss m o).
Proof.
  intros [HR Hp]. unfold finalize.
  destruct (stop_movables P D dev (set_pardon P D s true)) as [s2 o2] eqn:E2.
  apply stop_movables_q in E2. destruct E2 as [T2 Q2].
  match goal with |- context [fold_left ?f ?l ?a] => destruct (fold_left f l a) as [s3 o3] eqn:E3 end.
  assert (T3 : teq s2 s3 /\ forallb quiet o3 = true).
  { revert E3. generalize (staged P D s2). intros l.
    assert (G : forall l (s0 : st) o0 s1 o1,
               fold_left (fun acc d => let '(s0, os) := acc in
                                       let '(sa, _, o) := dcall P D dev s0 d MUnstage in (sa, os ++ o)) l (s0, o0) = (s1, o1) ->
               teq s0 s1 /\ (forallb quiet o0 = true -> forallb quiet o1 = true)).
    { induction l0 as [|d l0 IH]; intros s0 o0 s1 o1 H; cbn in H.
      - inv H. split; [apply teq_refl | auto].
      - destruct (dcall P D dev s0 d MUnstage) as [[sa ra] oa] eqn:E. apply IH in H. destruct H as [H1 H2].
        apply dcall_q in E. destruct E as [E1 E2]. split; [eapply teq_trans; eassumption|].
        intros Hq. apply H2. rewrite forallb_app, Hq, E2. reflexivity. }
    intros E3. apply G in E3. destruct E3 as [G1 G2]. split; [exact G1 | apply G2; reflexivity]. }
  destruct T3 as [T3 Q3].
  set (s5 := set_bundlers P D (set_staged P D s3 []) []).
  assert (T5 : teq s s5).
  { eapply teq_trans; [|eapply teq_trans; [exact T2|eapply teq_trans; [exact T3|]]]; repeat split; cbn; auto. }
  pose proof (Rc_teq _ _ _ T5 HR) as HR5.
  assert (Q4 : forallb quiet (close_runs P D (set_staged P D s3 []) (exit_status P D (set_staged P D s3 []))
                                        (if exit_reason_set P D s then RsExnText else reason P D s)) = true) by apply close_runs_q.
  assert (Q5 : forallb quiet (close_frames P presume D s5) = true) by apply close_frames_q.
  destruct (set_state P D s5 Idle) as [[s6 o6]|] eqn:E6.
  - eapply set_state_Rc in E6; [|exact HR5 | discriminate | discriminate]. destruct E6 as [M6 R6].
    intros H; inv H. rewrite !mon_obss_app, (quiet_all _ _ Q2), (quiet_all _ _ Q3), (quiet_all _ _ Q4).
    fold s5. rewrite (quiet_all _ _ Q5), M6.
    cbn [mon_obss fold_left]. rewrite quiet_id by apply quiet_task_end.
    split; [|cbn; discriminate]. split; [|exact Hp].
    destruct R6 as (C1 & C2 & C3 & C4 & C5 & C6). repeat split; cbn; assumption.
  - intros H; inv H. rewrite !mon_obss_app, (quiet_all _ _ Q2), (quiet_all _ _ Q3), (quiet_all _ _ Q4).
    fold s5. rewrite (quiet_all _ _ Q5). cbn [mon_obss fold_left mon_obs].
    split; [|cbn; discriminate]. split; [|exact Hp].
    destruct HR5 as (C1 & C2 & C3 & C4 & C5 & C6). repeat split; cbn; assumption.
Qed.

(* ------------------------------------------------------------------ the _run loop *)
Ltac qfacts :=
  repeat match goal with
         | H : frame_resume _ _ _ _ = (_, _) |- _ => apply frame_resume_q in H
         end.
Ltac qrw :=
  rewrite ?mon_obss_app;
  repeat match goal with
         | H : forallb quiet ?o = true |- context [mon_obss ?m ?o] => rewrite (quiet_all m o H)
         end.
Ltac teq_auto := repeat split; cbn; auto.

Lemma R_exit (s : st) m p : Rd s m -> p <> PcCmd KCkptSleep -> R (set_pc P D s p) m.
Proof. intros H Hp. split; [eapply Rd_teq; [|exact H]; teq_auto | cbn; intros E; congruence]. Qed.

Lemma drive_R fuel : forall (s : st) c os s' o m0,
  Rd s (mon_obss m0 os) -> drive P presume plan_of D dev fuel s c os = (s', o) -> R s' (mon_obss m0 o).
Proof.
  induction fuel as [|fuel IH]; intros s c os s' o m0 HR H; cbn [drive] in H.
  { inv H. rewrite mon_obss_app. cbn [mon_obss fold_left mon_obs]. apply R_exit; [exact HR | discriminate]. }
  (* every recursive call: IH with the accumulated observations *)
  assert (STEP : forall s1 c1 o1, Rd s1 (mon_obss (mon_obss m0 os) o1) ->
                   drive P presume plan_of D dev fuel s1 c1 (os ++ o1) = (s', o) -> R s' (mon_obss m0 o)).
  { intros s1 c1 o1 H1 H2. eapply IH; [|exact H2]. rewrite mon_obss_app. exact H1. }
  assert (STEP0 : forall s1 c1, Rd s1 (mon_obss m0 os) ->
                   drive P presume plan_of D dev fuel s1 c1 os = (s', o) -> R s' (mon_obss m0 o)).
  { intros s1 c1 H1 H2. eapply IH; [|exact H2]. exact H1. }
  remember (mon_obss m0 os) as m eqn:Em. pose proof HR as [HRc Hp]. pose proof HRc as (B1 & B2 & B3 & B4 & B5 & B6).
  destruct c as [ | | | x | popped r | popped | xk | r pending].
  - (* CTop *)
    destruct ((rstate_eqb (state P D s) Pausing || rstate_eqb (state P D s) Suspending) && negb (resumable P D s)) eqn:Eg.
    + match type of H with context [set_state P D ?sx Aborting] => set (s1 := sx) in * end.
      assert (T1 : teq s s1) by (unfold s1; teq_auto).
      destruct (set_state P D s1 Aborting) as [[s2 o1]|] eqn:Es.
      * eapply set_state_Rc in Es; [|eapply Rc_teq; [exact T1 | exact HRc] | discriminate | discriminate].
        destruct Es as [M1 R1]. eapply STEP; [|exact H]. rewrite M1. split; [exact R1 | exact Hp].
      * eapply STEP0; [|exact H]. eapply Rd_teq; eassumption.
    + (* second half of the loop head, for the state after the optional suspending -> running move *)
      assert (K : forall s1 o1,
                 Rd s1 (mon_obss m o1) ->
                 (rstate_eqb (state P D s1) Pausing = true -> cache P D s1 <> None) ->
                 (if negb (permit P D s1) then
                    if negb (rstate_eqb (state P D s1) Pausing) then drive P presume plan_of D dev fuel s1 (CExit (XExn EAssertion)) (os ++ o1)
                    else
                      let '(s2, o2) := stop_movables P D dev s1 in
                      let '(s3, e, o3) := call_pausables P D dev s2 MPause in
                      match e with
                      | Some x => drive P presume plan_of D dev fuel s3 (CExit (XExn x)) (os ++ o1 ++ o2 ++ o3)
                      | None =>
                          match set_state P D s3 Paused with
                          | None => drive P presume plan_of D dev fuel s3 (CExit (XExn ETransition)) (os ++ o1 ++ o2 ++ o3)
                          | Some (s4, o4) => (set_pc P D (set_blocking P D s4 true) PcPaused, os ++ o1 ++ o2 ++ o3 ++ o4 ++ [OTask WFuture])
                          end
                      end
                  else drive P presume plan_of D dev fuel s1 CBody (os ++ o1)) = (s', o) ->
                 R s' (mon_obss m0 o)).
      { intros s1 o1 H1 Hres HK. destruct (negb (permit P D s1)).
        - destruct (negb (rstate_eqb (state P D s1) Pausing)) eqn:Ep.
          + eapply STEP; eassumption.
          + apply negb_false_iff in Ep. specialize (Hres Ep).
            destruct (stop_movables P D dev s1) as [s2 o2] eqn:E2. apply stop_movables_q in E2. destruct E2 as [T2 Q2].
            destruct (call_pausables P D dev s2 MPause) as [[s3 e] o3] eqn:E3. apply call_pausables_q in E3. destruct E3 as [T3 Q3].
            assert (T : teq s1 s3) by (eapply teq_trans; eassumption).
            assert (H3 : Rd s3 (mon_obss m (o1 ++ o2 ++ o3))).
            { rewrite !mon_obss_app, (quiet_all _ _ Q2), (quiet_all _ _ Q3). eapply Rd_teq; eassumption. }
            destruct e.
            * eapply STEP; eassumption.
            * destruct (set_state P D s3 Paused) as [[s4 o4]|] eqn:E4.
              -- destruct H3 as [H3c H3p]. pose proof H3c as (C1 & C2 & C3 & C4 & C5 & C6).
                 eapply set_state_Rc in E4; [|exact H3c | discriminate |].
                 ++ destruct E4 as [M4 R4]. inv HK.
                    replace (os ++ o1 ++ o2 ++ o3 ++ o4 ++ [OTask WFuture]) with (os ++ (o1 ++ o2 ++ o3) ++ o4 ++ [OTask WFuture])
                      by (rewrite <- !app_assoc; reflexivity).
                    rewrite mon_obss_app. rewrite (mon_obss_app _ (o1 ++ o2 ++ o3)). rewrite (mon_obss_app _ o4), M4.
                    cbn [mon_obss fold_left mon_obs mpend mset]. rewrite H3p.
                    split; [|cbn; discriminate]. split; [|exact H3p].
                    destruct R4 as (D1 & D2 & D3 & D4 & D5 & D6). repeat split; cbn; assumption.
                 ++ intros _. rewrite <- C2. destruct T as (T1 & T2' & _). rewrite <- T2'. exact Hres.
              -- eapply STEP; eassumption.
        - eapply STEP; eassumption. }
      destruct (rstate_eqb (state P D s) Suspending) eqn:Esu.
      * destruct (set_state P D s Running) as [[s1 o1]|] eqn:Es.
        -- pose proof Es as Es'. eapply set_state_Rc in Es; [|exact HRc | discriminate | discriminate]. destruct Es as [M1 R1].
           eapply (K s1 o1); [rewrite M1; split; [exact R1 | exact Hp] | | exact H].
           unfold set_state in Es'. destruct (allowed (state P D s) Running); [|discriminate]. inv Es'. cbn. discriminate.
        -- eapply STEP0; eassumption.
      * eapply (K s []); [exact HR | | exact H].
        intros Ep. rewrite Ep in Eg. cbn in Eg. unfold resumable in Eg. destruct (cache P D s); [discriminate | discriminate].
  - (* CBody *)
    destruct (negb (Nat.eqb (List.length (resps P D s)) (List.length (plans P D s)))).
    + eapply STEP0; eassumption.
    + destruct (stashed P D s).
      * eapply STEP0; eassumption.
      * inv H. rewrite mon_obss_app. cbn [mon_obss fold_left mon_obs]. apply R_exit; [exact HR | discriminate].
  - (* CAfterSleep: only the plans are touched *)
    destruct (resps P D s) as [|r rest] eqn:Er; [|destruct (plans P D s) as [|top tlp] eqn:Epl].
    + eapply STEP; [|exact H]. cbn [mon_obss fold_left mon_obs]. exact HR.
    + eapply STEP; [|exact H]. cbn [mon_obss fold_left mon_obs]. exact HR.
    + repeat (bm_hyp H); qfacts;
        try (eapply STEP; [|exact H]; qrw; eapply Rd_teq; [|exact HR]; teq_auto; fail).
  - (* CProcess *) idtac.
    match type of H with
    | context [exec_start_suspender P plan_of D dev ?s2] =>
        destruct (match mcmd x with
                  | CStartSuspender sid pre post => exec_start_suspender P plan_of D dev s2 sid pre post
                  | _ => exec_cmd P D dev s2 x
                  end) as [[s3 cr] o3] eqn:Epr
    end.
    apply (process_R s m x) in Epr; [|exact HR].
    destruct cr.
    + eapply STEP; [exact Epr | exact H].
    + inv H. destruct Epr as [[E1 E2] E3]. rewrite mon_obss_app.
      split; [|cbn; intros Ek; inv Ek; apply E3; reflexivity].
      split; [|exact E2]. destruct E1 as (C1 & C2 & C3 & C4 & C5 & C6). repeat split; cbn; assumption.
  - (* CContinue *)
    eapply STEP0; [|exact H]. destruct popped; [eapply Rd_teq; [|exact HR]; teq_auto | exact HR].
  - (* CCancelled *)
    repeat (bm_hyp H); try (eapply STEP0; [|exact H]; eapply Rd_teq; [|exact HR]; teq_auto; fail).
  - (* CExit *)
    repeat (bm_hyp H);
      try (eapply STEP0; [|exact H]; eapply Rd_teq; [|exact HR]; teq_auto; fail);
      try (inv H; rewrite mon_obss_app; cbn [mon_obss fold_left mon_obs];
           apply R_exit; [eapply Rd_teq; [|exact HR]; teq_auto | discriminate]).
  - (* CFinalize *)
    destruct (finalize P presume D dev s r pending) as [s1 o1] eqn:Ef. inv H.
    rewrite mon_obss_app. eapply finalize_R; eassumption.
Qed.

(* ------------------------------------------------------------------ one task step *)
Definition mtask (m : mon) : mon := mon_ev m EvTask.

Lemma Rd_mtask (s : st) m : Rd s m -> Rd s (mtask m).
Proof. intros [(B1 & B2 & B3 & B4 & B5 & B6) Hp]. split; [repeat split; cbn; assumption | exact Hp]. Qed.

Lemma drive_R0 fuel (s : st) c o1 s' o m :
  Rd s (mon_obss m o1) -> drive P presume plan_of D dev fuel s c o1 = (s', o) -> R s' (mon_obss m o).
Proof. apply drive_R. Qed.

Lemma mon_resp_none m r : mpend m = None ->
  mstate (mon_obs m (OResp r)) = mstate m /\ mcache (mon_obs m (OResp r)) = mcache m /\ mrw (mon_obs m (OResp r)) = mrw m /\
  mdef (mon_obs m (OResp r)) = mdef m /\ mok (mon_obs m (OResp r)) = mok m /\ mpend (mon_obs m (OResp r)) = None.
Proof. intros H. cbn. rewrite H. repeat split. Qed.

Lemma Rd_resp (s : st) m r : Rd s m -> Rd s (mon_obs m (OResp r)).
Proof.
  intros [(B1 & B2 & B3 & B4 & B5 & B6) Hp]. destruct (mon_resp_none m r Hp) as (E1 & E2 & E3 & E4 & E5 & E6).
  split; [unfold Rc; rewrite E1, E2, E3, E4, E5; repeat split; assumption | exact E6].
Qed.

Lemma task_step_R (s : st) m s' o :
  R s m -> task_step P presume plan_of D dev s = (s', o) -> R s' (mon_obss (mtask m) o).
Proof.
  intros [HR Hpc] H. pose proof (Rd_mtask _ _ HR) as HR1. unfold task_step in H.
  set (s0 := set_must_cancel P D s false) in *.
  assert (T0 : teq s s0) by (unfold s0; teq_auto).
  assert (HR0 : Rd s0 (mtask m)) by (eapply Rd_teq; eassumption).
  destruct (pc P D s) eqn:Epc.
  - inv H. cbn [mon_obss fold_left mon_obs]. split; [exact HR1 | rewrite Epc; discriminate].
  - (* PcNotStarted *)
    destruct (must_cancel P D s).
    + inv H. cbn [mon_obss fold_left mon_obs]. split; [eapply Rd_teq; [|exact HR0]; teq_auto | cbn; discriminate].
    + destruct (permit P D s0).
      * match type of H with context [set_state P D ?sx Running] => set (s1 := sx) in * end.
        assert (T1 : teq s0 s1) by (unfold s1; teq_auto).
        destruct (set_state P D s1 Running) as [[s2 o1]|] eqn:Es.
        -- eapply set_state_Rc in Es; [|eapply Rc_teq; [exact T1 | apply HR0] | discriminate | discriminate].
           destruct Es as [M1 R1]. eapply drive_R0; [|exact H]. rewrite M1. split; [exact R1 | apply HR0].
        -- eapply (drive_R0 _ _ _ []); [|exact H]. eapply Rd_teq; eassumption.
      * inv H. cbn [mon_obss fold_left mon_obs]. destruct HR0 as [HRc Hp0]. rewrite Hp0.
        apply R_exit; [split; assumption | discriminate].
  - (* PcPermit0 *)
    destruct (must_cancel P D s).
    + inv H. cbn [mon_obss fold_left mon_obs]. split; [eapply Rd_teq; [|exact HR0]; teq_auto | cbn; discriminate].
    + match type of H with context [set_state P D ?sx Running] => set (s1 := sx) in * end.
      assert (T1 : teq s0 s1) by (unfold s1; teq_auto).
      destruct (set_state P D s1 Running) as [[s2 o1]|] eqn:Es.
      * eapply set_state_Rc in Es; [|eapply Rc_teq; [exact T1 | apply HR0] | discriminate | discriminate].
        destruct Es as [M1 R1]. eapply drive_R0; [|exact H].
        destruct (permit P D s0); [rewrite M1; split; [exact R1 | apply HR0]|].
        rewrite mon_obss_cons. cbn [mon_obs]. rewrite M1. split; [exact R1 | apply HR0].
      * eapply (drive_R0 _ _ _ []); [|exact H]. eapply Rd_teq; eassumption.
  - (* PcSleep0 *)
    destruct (must_cancel P D s); eapply (drive_R0 _ _ _ []); try exact H; exact HR0.
  - (* PcPaused *)
    destruct (must_cancel P D s).
    + eapply (drive_R0 _ _ _ []); [|exact H]; exact HR0.
    + destruct (negb (permit P D s0)).
      * inv H. cbn [mon_obss fold_left mon_obs]. split; [exact HR1 | rewrite Epc; discriminate].
      * destruct (rstate_eqb (state P D s0) Paused).
        -- destruct (set_state P D s0 Running) as [[s1 o1]|] eqn:Es.
           ++ eapply set_state_Rc in Es; [|apply HR0 | discriminate | discriminate].
              destruct Es as [M1 R1]. eapply drive_R0; [|exact H]. rewrite M1. split; [exact R1 | apply HR0].
           ++ eapply (drive_R0 _ _ _ []); [|exact H]. exact HR0.
        -- eapply (drive_R0 _ _ _ []); [|exact H]. exact HR0.
  - (* PcCmd *)
    destruct (must_cancel P D s).
    + eapply (drive_R0 _ _ _ []); [|exact H]; exact HR0.
    + destruct k.
      * (* KSleep *) eapply drive_R0; [|exact H]. cbn [mon_obss fold_left]. apply Rd_resp. exact HR0.
      * (* KCkptSleep *)
        destruct (request_pause P D s0 false) as [[s1 e] o1] eqn:Er.
        apply (request_pause_now _ (mtask m)) in Er; [|apply HR0 | cbn; apply Hpc; reflexivity].
        destruct Er as [C (S1 & S2 & S3)]. eapply drive_R0; [|exact H].
        rewrite mon_obss_app. cbn [mon_obss fold_left]. apply Rd_resp. split; [exact C | rewrite S1; apply HR0].
      * (* KWait *)
        eapply drive_R0; [|exact H]. destruct (all_resolved P D s0 sids); cbn [app mon_obss fold_left]; [|rewrite (quiet_id _ (OBad 6)) by reflexivity];
          apply Rd_resp; exact HR0.
      * (* KWaitFor *)
        eapply drive_R0; [|exact H]. destruct (all_released P D s0 fs); cbn [app mon_obss fold_left]; [|rewrite (quiet_id _ (OBad 7)) by reflexivity];
          apply Rd_resp; exact HR0.
      * (* KReadCache *)
        destruct (finish_read P D (mark_cached P D s0 run d) run d z []) as [[s1 cr] o1] eqn:Ef.
        assert (Tm : teq s0 (mark_cached P D s0 run d)).
        { unfold mark_cached. destruct (get_bundler P D s0 run) eqn:Eg; [|apply teq_refl].
          apply put_bundler_teq, bok_add_cached. eapply get_bundler_bok; [apply HR0 | exact Eg]. }
        apply finish_read_teq in Ef; [|apply (Rc_teq _ _ (mtask m) Tm), HR0]. destruct Ef as (Tf & -> & r & ->).
        eapply drive_R0; [|exact H]. cbn [app mon_obss fold_left]. apply Rd_resp.
        eapply Rd_teq; [|exact HR0]. eapply teq_trans; eassumption.
  - (* PcFinalSleep *)
    destruct (must_cancel P D s); eapply finalize_R; try exact H; exact HR0.
  - inv H. cbn [mon_obss fold_left mon_obs]. split; [exact HR1 | rewrite Epc; discriminate].
Qed.

(* ------------------------------------------------------------------ one event *)
Lemma dcall_pc (s : st) d mth s' r o : dcall P D dev s d mth = (s', r, o) -> pc P D s' = pc P D s.
Proof. unfold dcall. destruct (dev _ _ _). intros H; inv H. reflexivity. Qed.

Lemma call_pausables_pc (s : st) mth s' e o : call_pausables P D dev s mth = (s', e, o) -> pc P D s' = pc P D s.
Proof.
  unfold call_pausables.
  assert (G : forall l (s0 : st) e0 o0 s1 e1 o1,
             fold_left (fun acc d =>
               let '(s0, e, os) := acc in
               match e with
               | Some _ => acc
               | None => if mem_nat d (seen P D s0)
                         then let '(s1, r, o) := dcall P D dev s0 d mth in
                              (s1, match r with DRaise x => Some x | _ => None end, os ++ o)
                         else acc
               end) l (s0, e0, o0) = (s1, e1, o1) -> pc P D s1 = pc P D s0).
  { induction l as [|d l IH]; intros s0 e0 o0 s1 e1 o1 H; cbn in H.
    - inv H. reflexivity.
    - destruct e0.
      + eapply IH; eassumption.
      + destruct (mem_nat d (seen P D s0)).
        * destruct (dcall P D dev s0 d mth) as [[sa ra] oa] eqn:E. apply IH in H. apply dcall_pc in E. congruence.
        * eapply IH; eassumption. }
  intros H. apply G in H. exact H.
Qed.

Lemma record_interruptions_pc (s : st) s' o ok : record_interruptions P D s = (s', o, ok) -> pc P D s' = pc P D s.
Proof. unfold record_interruptions. destruct (record_intr_list (bundlers P D s)) as [[bs os] ok0]. intros H; inv H. reflexivity. Qed.

Lemma rewind_pc (s : st) s1 l : rewind P D s = (s1, l) -> pc P D s1 = pc P D s.
Proof. unfold rewind. destruct (cache P D s); intros H; inv H; [destruct (Nat.eqb (List.length l) 0)|]; reflexivity. Qed.

Lemma req_result_q (s : st) e s' o : req_result P D s e = (s', o) -> teq s s' /\ forallb quiet o = true /\ pc P D s' = pc P D s.
Proof. unfold req_result. intros H; inv H. split; [destruct (mreq P D s); teq_auto | split; [reflexivity | destruct (mreq P D s); reflexivity]]. Qed.

(* events that leave the lifecycle state alone keep every monitor field that [mon_ev] does not set *)
Lemma mon_ev_other m e :
  match e with EvTask | EvMain (ACall _) | EvMain AResume | EvReqPause true => False | _ => True end ->
  mstate (mon_ev m e) = mstate m /\ mcache (mon_ev m e) = mcache m /\ mrw (mon_ev m e) = mrw m /\ mdef (mon_ev m e) = mdef m /\
  mpend (mon_ev m e) = mpend m /\ msleep (mon_ev m e) = msleep m /\ mok (mon_ev m e) = mok m.
Proof.
  intros He. destruct e; try contradiction; try (repeat split; reflexivity).
  - destruct a; try contradiction; repeat split; reflexivity.
  - destruct defer; try contradiction; repeat split; reflexivity.
Qed.

Lemma R_other (s : st) m e :
  match e with EvTask | EvMain (ACall _) | EvMain AResume | EvReqPause true => False | _ => True end ->
  R s m -> R s (mon_ev m e).
Proof.
  intros He [[(B1 & B2 & B3 & B4 & B5 & B6) Hp] Hpc]. destruct (mon_ev_other m e He) as (E1 & E2 & E3 & E4 & E5 & E6 & E7).
  split; [split; [unfold Rc; rewrite E1, E2, E3, E4, E7; repeat split; assumption | rewrite E5; exact Hp] | rewrite E6; exact Hpc].
Qed.

(* a state the specification cannot tell apart, with the task at the same await *)
Lemma R_teq (s s' : st) m : teq s s' -> pc P D s' = pc P D s -> R s m -> R s' m.
Proof. intros T Pp [HR Hpc]. split; [eapply Rd_teq; eassumption | rewrite Pp; exact Hpc]. Qed.

(* abort / stop / halt / suspend requests: move the lifecycle, then cancel or arm the exception slot *)
Lemma req_move (s : st) m (s1 : st) x (f : st -> st) s' o :
  R s m -> teq s s1 -> pc P D s1 = pc P D s -> x <> Pausing -> x <> Paused ->
  (forall s2, teq s2 (f s2) /\ pc P D (f s2) = pc P D s2) ->
  match set_state P D s1 x with
  | None => req_result P D s1 (Some ETransition)
  | Some (s2, o) => let '(s4, o4) := req_result P D (f s2) None in (s4, o ++ o4)
  end = (s', o) ->
  R s' (mon_obss m o).
Proof.
  intros [[HRc Hp] Hpc] T1 P1 Nx1 Nx2 Hf H.
  destruct (set_state P D s1 x) as [[s2 o1]|] eqn:Es.
  - pose proof Es as Es'. eapply set_state_Rc in Es; [|eapply Rc_teq; [exact T1 | exact HRc] | exact Nx1 | intros E; congruence].
    destruct Es as [M1 R1]. destruct (req_result P D (f s2) None) as [s4 o4] eqn:Eq. inv H.
    apply req_result_q in Eq. destruct Eq as (T4 & Q4 & P4). destruct (Hf s2) as [Tf Pf].
    rewrite mon_obss_app, M1, (quiet_all _ _ Q4).
    split; [split; [eapply Rc_teq; [eapply teq_trans; [exact Tf | exact T4] | exact R1] | exact Hp]|].
    rewrite P4, Pf. unfold set_state in Es'. destruct (allowed (state P D s1) x); [|discriminate]. inv Es'. cbn. rewrite P1. exact Hpc.
  - apply req_result_q in H. destruct H as (T4 & Q4 & P4). rewrite (quiet_all _ _ Q4).
    split; [split; [eapply Rc_teq; [eapply teq_trans; [exact T1 | exact T4] | exact HRc] | exact Hp]|].
    rewrite P4, P1. exact Hpc.
Qed.

Lemma cancel_task_q (s : st) : teq s (cancel_task P D s) /\ pc P D (cancel_task P D s) = pc P D s.
Proof. unfold cancel_task. destruct (pc P D s) eqn:E; split; try (teq_auto; fail); try apply teq_refl; cbn; auto. Qed.

Lemma set_state_R (s : st) m x s' o :
  R s m -> set_state P D s x = Some (s', o) -> x <> Pausing -> x <> Paused ->
  R s' (mon_obss m o).
Proof.
  intros [[HRc Hp] Hpc] Es N1 N2. pose proof Es as Es'.
  eapply set_state_Rc in Es; [|exact HRc | exact N1 | intros E; congruence]. destruct Es as [M1 R1]. rewrite M1.
  split; [split; [exact R1 | exact Hp]|]. unfold set_state in Es'. destruct (allowed (state P D s) x); [|discriminate]. inv Es'. cbn. exact Hpc.
Qed.

Lemma push_frame_q (s : st) f : teq s (push_frame P D s f) /\ pc P D (push_frame P D s f) = pc P D s.
Proof. split; teq_auto. Qed.

Lemma step_R (s : st) m e s' o :
  R s m -> step P presume plan_of D dev s e = (s', o) -> R s' (mon_obss (mon_ev m e) o).
Proof.
  intros HR H. pose proof HR as [[HRc Hp] Hpc]. pose proof HRc as (B1 & B2 & B3 & B4 & B5 & B6).
  destruct e; cbn [step] in H.
  - (* EvMain *)
    destruct a.
    + (* ACall *)
      cbn [mon_ev mstate]. rewrite <- B1. destruct (rstate_eqb (state P D s) Idle) eqn:Ei; cbn [negb] in H; inv H; cbn [mon_obss fold_left].
      * split; [split; [unfold Rc; cbn; repeat split; auto | reflexivity] | cbn; discriminate].
      * split; [split; [unfold Rc; cbn; repeat split; auto | exact Hp] | cbn; exact Hpc].
    + (* AResume *)
      cbn [mon_ev mstate]. rewrite B1 in H. destruct (rstate_eqb (mstate m) Paused) eqn:Ei; cbn [negb] in H.
      * match type of H with context [record_interruptions P D ?sx] => set (s1 := sx) in * end.
        assert (T1 : teq s s1) by (unfold s1; teq_auto).
        destruct (record_interruptions P D s1) as [[s2 o2] ok] eqn:E2. pose proof (record_interruptions_pc _ _ _ _ E2) as P2.
        apply record_interruptions_q in E2; [|apply T1; exact B6]. destruct E2 as (-> & T2 & Q2). cbn [negb] in H.
        assert (T : teq s s2) by (eapply teq_trans; eassumption).
        pose proof (Rc_teq _ _ _ T HRc) as (C1 & C2 & C3 & C4 & C5 & C6).
        destruct (cache P D s2) eqn:Ecs.
        -- destruct (rewind P D s2) as [s3 l0] eqn:E3. pose proof (rewind_pc _ _ _ E3) as P3.
           apply rewind_spec in E3. destruct E3 as (W1 & W2 & W3 & W4 & W5 & W6).
           destruct (call_pausables P D dev (push_frame P D s3 (FList l0)) MResume) as [[s5 e] o5] eqn:E5.
           pose proof (call_pausables_pc _ _ _ _ _ E5) as P5. apply call_pausables_q in E5. destruct E5 as [T5 Q5].
           assert (G : forall s6 : st, teq s5 s6 -> pc P D s6 = pc P D s5 ->
                       R s6 (mon_obss {| mstate := mstate m; mcache := reset_spec (mcache m); mrw := mrw m; mdef := mdef m; mpend := mpend m;
                                         msleep := msleep m; mcause := false; mok := mok m |} (o2 ++ o5))).
           { intros s6 T6 P6. rewrite mon_obss_app, (quiet_all _ _ Q2), (quiet_all _ _ Q5).
             split; [split; [|exact Hp]|].
             - eapply Rc_teq; [eapply teq_trans; [exact T5 | exact T6]|].
               unfold Rc; cbn. rewrite W1, W2, W3, W4, Ecs, <- C2. repeat split; auto.
             - cbn [msleep]. rewrite P6, P5. cbn. rewrite P3, P2. exact Hpc. }
           destruct e; inv H; apply G; try (teq_auto; fail); reflexivity.
        -- inv H. rewrite (quiet_all _ _ Q2). split; [split; [|exact Hp]|].
           ++ eapply Rc_teq; [|unfold Rc; cbn; rewrite <- C2, Ecs; cbn; repeat split; eauto]. teq_auto.
           ++ cbn. rewrite P2. exact Hpc.
      * inv H. cbn [mon_obss fold_left]. split; [split; [unfold Rc; cbn; repeat split; auto | exact Hp] | cbn; exact Hpc].
    + inv H. apply (R_other s m (EvMain AAbort) I) in HR. eapply R_teq; [| |exact HR]; teq_auto.
    + inv H. apply (R_other s m (EvMain AStop) I) in HR. eapply R_teq; [| |exact HR]; teq_auto.
    + inv H. apply (R_other s m (EvMain AHalt) I) in HR. eapply R_teq; [| |exact HR]; teq_auto.
  - (* EvMainDone *)
    inv H. apply (R_other s m (EvMainDone a) I) in HR. cbn [mon_obss fold_left mon_obs]. eapply R_teq; [| |exact HR]; teq_auto.
  - (* EvPermit *)
    inv H. apply (R_other s m EvPermit I) in HR. eapply R_teq; [| |exact HR]; teq_auto.
  - (* EvTask *) eapply task_step_R; eassumption.
  - (* EvReqPause *)
    destruct (request_pause P D s defer) as [[s1 e] o1] eqn:Er. destruct (req_result P D s1 e) as [s2 o2] eqn:Eq. inv H.
    apply req_result_q in Eq. destruct Eq as (T2 & Q2 & P2).
    rewrite mon_obss_app, (quiet_all _ o2 Q2). destruct defer.
    + apply request_pause_defer in Er. destruct Er as (-> & [(-> & Ea & ->) | (Hn & Ea & ->)]); cbn [mon_ev mstate mon_obss fold_left]; rewrite <- B1, Ea.
      * split; [split; [eapply Rc_teq; [exact T2|]; unfold Rc; cbn; repeat split; auto | exact Hp] | rewrite P2; cbn; exact Hpc].
      * split; [split; [eapply Rc_teq; [exact T2|]; unfold Rc; cbn; repeat split; auto | exact Hp] | rewrite P2; cbn; exact Hpc].
    + assert (Pp : pc P D s1 = pc P D s).
      { unfold request_pause in Er. destruct (negb (allowed (state P D s) Pausing)); [inv Er; reflexivity|].
        match type of Er with context [set_state P D ?sx Pausing] => set (sa := sx) in * end.
        assert (Pa : pc P D sa = pc P D s) by (unfold sa; destruct (pc P D (interrupt P D (set_deferred P D s false) CzPause)); reflexivity).
        destruct (set_state P D sa Pausing) as [[sb ob]|] eqn:Es; [|inv Er; exact Pa].
        unfold set_state in Es. destruct (allowed (state P D sa) Pausing); [|discriminate]. inv Es.
        destruct (record_interruptions P D (set_state_raw P D sa Pausing)) as [[sc oc] okc] eqn:Ei. apply record_interruptions_pc in Ei. cbn in Ei.
        destruct okc; inv Er; [|cbn; congruence]. destruct (cancel_task_q sc) as [_ Pc]. congruence. }
      apply (request_pause_now _ (mon_ev m (EvReqPause false))) in Er; [| unfold Rc; cbn; repeat split; auto | reflexivity].
      destruct Er as [C (S1 & S2 & S3)].
      split; [split; [eapply Rc_teq; [exact T2 | exact C] | rewrite S1; exact Hp] | rewrite S2, P2, Pp; cbn; exact Hpc].
  - (* EvReqAbort *)
    apply (R_other s m (EvReqAbort rs) I) in HR. destruct (rstate_eqb (state P D s) Idle).
    + apply req_result_q in H. destruct H as (T2 & Q2 & P2). rewrite (quiet_all _ o Q2). eapply R_teq; eassumption.
    + set (s1 := set_exit P D (interrupt P D s CzAbort) XAbort rs) in *.
      eapply (req_move s (mon_ev m (EvReqAbort rs)) s1 Aborting
                (fun s2 => if rstate_eqb (state P D s1) Paused then set_exc_slot P D s2 (Some ERequestAbort) else cancel_task P D s2));
        [exact HR | unfold s1; teq_auto | reflexivity | discriminate | discriminate | | exact H].
      intros s2. destruct (rstate_eqb _ Paused); [split; teq_auto | apply cancel_task_q].
  - (* EvReqStop *)
    apply (R_other s m EvReqStop I) in HR. destruct (rstate_eqb (state P D s) Idle).
    + apply req_result_q in H. destruct H as (T2 & Q2 & P2). rewrite (quiet_all _ o Q2). eapply R_teq; eassumption.
    + set (s1 := interrupt P D s CzStop) in *.
      eapply (req_move s (mon_ev m EvReqStop) s1 Stopping
                (fun s2 => if rstate_eqb (state P D s1) Paused then set_exc_slot P D s2 (Some ERequestStop) else cancel_task P D s2));
        [exact HR | unfold s1; teq_auto | reflexivity | discriminate | discriminate | | exact H].
      intros s2. destruct (rstate_eqb _ Paused); [split; teq_auto | apply cancel_task_q].
  - (* EvReqHalt *)
    apply (R_other s m EvReqHalt I) in HR. destruct (rstate_eqb (state P D s) Idle).
    + apply req_result_q in H. destruct H as (T2 & Q2 & P2). rewrite (quiet_all _ o Q2). eapply R_teq; eassumption.
    + set (s1 := interrupt P D s CzHalt) in *.
      eapply (req_move s (mon_ev m EvReqHalt) s1 Halting
                (fun s2 => if rstate_eqb (state P D s1) Paused
                           then set_exit P D (set_exc_slot P D s2 (Some EPlanHalt)) XAbort (reason P D s2) else cancel_task P D s2));
        [exact HR | unfold s1; teq_auto | reflexivity | discriminate | discriminate | | exact H].
      intros s2. destruct (rstate_eqb _ Paused); [split; teq_auto | apply cancel_task_q].
  - (* EvReqSuspend *)
    apply (R_other s m (EvReqSuspend sid pre post) I) in HR. set (m' := mon_ev m (EvReqSuspend sid pre post)) in *.
    clearbody m'. clear HRc Hp Hpc B1 B2 B3 B4 B5 B6 m. rename m' into m.
    match type of H with context [resumable P D ?sx] => set (s0 := sx) in * end.
    assert (R0 : R s0 m) by (eapply R_teq; [| |exact HR]; unfold s0; teq_auto).
    (* the second half: push the frame / move to suspending *)
    assert (TAIL : forall s3 o3, R s3 (mon_obss m o3) ->
              (let fr := FSingle (mk (CStartSuspender sid pre post)) false in
               if rstate_eqb (state P D s3) Paused then let '(s5, o5) := req_result P D (push_frame P D s3 fr) None in (s5, o3 ++ o5)
               else match set_state P D s3 Suspending with
                    | None => let '(s5, o5) := req_result P D s3 (Some ETransition) in (s5, o3 ++ o5)
                    | Some (s5, o5) => let '(s6, o6) := req_result P D (cancel_task P D (push_frame P D s5 fr)) None in (s6, o3 ++ o5 ++ o6)
                    end) = (s', o) -> R s' (mon_obss m o)).
    { intros s3 o3 R3 HT. cbv zeta in HT. destruct (rstate_eqb (state P D s3) Paused).
      - destruct (req_result P D (push_frame P D s3 _) None) as [s5 o5] eqn:Eq. inv HT.
        apply req_result_q in Eq. destruct Eq as (T5 & Q5 & P5). rewrite mon_obss_app, (quiet_all _ o5 Q5).
        destruct (push_frame_q s3 (FSingle (mk (CStartSuspender sid pre post)) false)) as [Tp Pp].
        eapply R_teq; [eapply teq_trans; [exact Tp | exact T5] | congruence | exact R3].
      - destruct (set_state P D s3 Suspending) as [[s5 o5]|] eqn:Es.
        + eapply set_state_R in Es; [|exact R3 | discriminate | discriminate].
          destruct (req_result P D (cancel_task P D (push_frame P D s5 _)) None) as [s6 o6] eqn:Eq. inv HT.
          apply req_result_q in Eq. destruct Eq as (T6 & Q6 & P6). rewrite !mon_obss_app, (quiet_all _ o6 Q6).
          destruct (push_frame_q s5 (FSingle (mk (CStartSuspender sid pre post)) false)) as [Tp Pp].
          destruct (cancel_task_q (push_frame P D s5 (FSingle (mk (CStartSuspender sid pre post)) false))) as [Tc Pc].
          eapply R_teq; [eapply teq_trans; [exact Tp | eapply teq_trans; [exact Tc | exact T6]] | congruence | exact Es].
        + destruct (req_result P D s3 (Some ETransition)) as [s5 o5] eqn:Eq. inv HT.
          apply req_result_q in Eq. destruct Eq as (T5 & Q5 & P5). rewrite mon_obss_app, (quiet_all _ o5 Q5).
          eapply R_teq; eassumption. }
    destruct (negb (resumable P D s0)).
    + match type of H with context [set_state P D ?sx Aborting] => set (s1 := sx) in * end.
      assert (R1 : R s1 m) by (eapply R_teq; [| |exact R0]; unfold s1; teq_auto).
      destruct (set_state P D s1 Aborting) as [[s2 o2]|] eqn:Es.
      * eapply set_state_R in Es; [|exact R1 | discriminate | discriminate].
        eapply (TAIL _ o2); [|exact H].
        destruct (rstate_eqb (state P D s1) Paused); [exact Es|].
        destruct (cancel_task_q s2) as [Tc Pc]. eapply R_teq; eassumption.
      * destruct (req_result P D s1 (Some ETransition)) as [s4 o4] eqn:Eq.
        apply req_result_q in Eq. destruct Eq as (T4 & Q4 & P4). inv H. cbn [app]. rewrite (quiet_all _ _ Q4). eapply R_teq; eassumption.
    + eapply (TAIL s0 []); [exact R0 | exact H].
  - (* EvRelease *)
    inv H. apply (R_other s m (EvRelease sid) I) in HR. eapply R_teq; [| |exact HR]; teq_auto.
  - (* EvStatus *)
    inv H. apply (R_other s m (EvStatus sid ok) I) in HR. destruct (negb ok && negb (pardon P D _)); eapply R_teq; try exact HR; teq_auto.
  - (* EvResumeTask *)
    inv H. apply (R_other s m EvResumeTask I) in HR. eapply R_teq; [| |exact HR]; teq_auto.
  - (* EvCacheDone *)
    inv H. apply (R_other s m EvCacheDone I) in HR. cbn [mon_obss fold_left].
    destruct (pc P D s) eqn:Epc; try exact HR. destruct k; try exact HR.
    unfold mark_cached. destruct (get_bundler P D s run) eqn:Eg; [|exact HR].
    eapply R_teq; [apply put_bundler_teq, bok_add_cached; eapply get_bundler_bok; eassumption | reflexivity | exact HR].
Qed.

(* ------------------------------------------------------------------ whole schedules *)
(* the trace of a run: each event followed by the observations it produced *)
Fixpoint trace (s : st) (evs : list event) : list titem :=
  match evs with
  | [] => []
  | e :: evs' => let '(s1, o1) := step P presume plan_of D dev s e in TEv e :: map TObs o1 ++ trace s1 evs'
  end.

Fixpoint obs_of (l : list titem) : list obs :=
  match l with [] => [] | TEv _ :: l' => obs_of l' | TObs o :: l' => o :: obs_of l' end.
Fixpoint evs_of (l : list titem) : list event :=
  match l with [] => [] | TEv e :: l' => e :: evs_of l' | TObs _ :: l' => evs_of l' end.

Lemma obs_of_app a b : obs_of (a ++ b) = obs_of a ++ obs_of b.
Proof. induction a as [|[e|o] a IH]; cbn; [reflexivity | exact IH | rewrite IH; reflexivity]. Qed.
Lemma obs_of_map l : obs_of (map TObs l) = l.
Proof. induction l; cbn; [reflexivity | rewrite IHl; reflexivity]. Qed.
Lemma evs_of_app a b : evs_of (a ++ b) = evs_of a ++ evs_of b.
Proof. induction a as [|[e|o] a IH]; cbn; [reflexivity | rewrite IH; reflexivity | exact IH]. Qed.
Lemma evs_of_map l : evs_of (map TObs l) = [].
Proof. induction l; cbn; [reflexivity | exact IHl]. Qed.

(* the trace is exactly the schedule and the observation list of [run] *)
Lemma trace_obs (s : st) evs : obs_of (trace s evs) = snd (run P presume plan_of D dev s evs).
Proof.
  revert s; induction evs as [|e evs IH]; intros s; cbn; [reflexivity|].
  destruct (step P presume plan_of D dev s e) as [s1 o1]. specialize (IH s1).
  destruct (run P presume plan_of D dev s1 evs) as [s2 o2]. cbn in *. rewrite obs_of_app, obs_of_map, IH. reflexivity.
Qed.
Lemma trace_evs (s : st) evs : evs_of (trace s evs) = evs.
Proof.
  revert s; induction evs as [|e evs IH]; intros s; cbn; [reflexivity|].
  destruct (step P presume plan_of D dev s e) as [s1 o1]. cbn. rewrite evs_of_app, evs_of_map, IH. reflexivity.
Qed.

Theorem run_R (s : st) m evs :
  R s m -> R (fst (run P presume plan_of D dev s evs)) (mon_run m (trace s evs)).
Proof.
  revert s m; induction evs as [|e evs IH]; intros s m HR; cbn [trace run]; [exact HR|].
  destruct (step P presume plan_of D dev s e) as [s1 o1] eqn:Es.
  eapply step_R in Es; [|exact HR]. specialize (IH s1 _ Es).
  destruct (run P presume plan_of D dev s1 evs) as [s2 o2]. cbn [fst] in *.
  change (mon_run m (TEv e :: map TObs o1 ++ trace s1 evs)) with (mon_run (mon_ev m e) (map TObs o1 ++ trace s1 evs)).
  rewrite mon_run_app, mon_run_obs. exact IH.
Qed.

Lemma R_init d paus stag rec : R (init P D d paus stag rec) mon0.
Proof. split; [split; [repeat split|reflexivity] | cbn; discriminate]. Qed.

(* Main theorem: from the initial state, after ANY schedule, the engine's control state is what
   the trace specification says, and the safety flag holds. *)
Theorem run_follows_spec d paus stag rec evs :
  let s := fst (run P presume plan_of D dev (init P D d paus stag rec) evs) in
  let m := mon_run mon0 (trace (init P D d paus stag rec) evs) in
  cache P D s = mcache m /\ rewindable P D s = mrw m /\ deferred P D s = mdef m /\ state P D s = mstate m /\ mok m = true.
Proof.
  cbv zeta. destruct (run_R _ _ evs (R_init d paus stag rec)) as [[(B1 & B2 & B3 & B4 & B5 & B6) _] _]. auto.
Qed.

(* the safety flag is monotone: once violated it stays violated; so it holds at every point of the trace *)
Lemma mok_mono_item m t : mok (mon_item m t) = true -> mok m = true.
Proof.
  destruct t as [e|o]; cbn.
  - destruct e; cbn; auto.
    + destruct a; cbn; auto; [destruct (rstate_eqb (mstate m) Idle) | destruct (rstate_eqb (mstate m) Paused)]; cbn; auto.
    + destruct defer; cbn; auto. destruct (allowed (mstate m) Pausing); cbn; auto.
  - destruct o; cbn; auto.
    + destruct (mpend m); cbn; auto.
    + intros H. apply andb_true_iff in H. tauto.
    + destruct w; cbn; auto. destruct (mpend m); cbn; auto.
Qed.
Lemma mok_mono m l : mok (mon_run m l) = true -> mok m = true.
Proof.
  revert m; induction l as [|t l IH]; intros m H; cbn in *; [exact H|]. apply mok_mono_item with (t := t). apply IH. exact H.
Qed.

Theorem spec_ok_at_every_point d paus stag rec evs l1 l2 :
  trace (init P D d paus stag rec) evs = l1 ++ l2 -> mok (mon_run mon0 l1) = true.
Proof.
  intros E. pose proof (run_follows_spec d paus stag rec evs) as H. cbv zeta in H. destruct H as (_ & _ & _ & _ & H).
  rewrite E, mon_run_app in H. eapply mok_mono; exact H.
Qed.

(* C10: whenever the engine becomes Paused, a checkpoint is in effect according to the specification *)
Corollary paused_needs_checkpoint d paus stag rec evs l1 a l2 :
  trace (init P D d paus stag rec) evs = l1 ++ TObs (OState a Paused) :: l2 -> mcache (mon_run mon0 l1) <> None.
Proof.
  intros E. pose proof (spec_ok_at_every_point d paus stag rec evs (l1 ++ [TObs (OState a Paused)]) l2) as H.
  rewrite <- app_assoc in H. specialize (H E). rewrite mon_run_app in H. cbn in H.
  apply andb_true_iff in H. destruct H as [_ H]. destruct (mcache (mon_run mon0 l1)); [discriminate | discriminate].
Qed.

(* C09: whenever the engine starts Pausing, the specification knows why: the running event is a hard pause
   request, or the message being executed is pause(defer=False), or this task step began at the end of the
   grace sleep of a checkpoint taken with a deferred pause pending *)
Corollary pausing_needs_cause d paus stag rec evs l1 a l2 :
  trace (init P D d paus stag rec) evs = l1 ++ TObs (OState a Pausing) :: l2 -> mcause (mon_run mon0 l1) = true.
Proof.
  intros E. pose proof (spec_ok_at_every_point d paus stag rec evs (l1 ++ [TObs (OState a Pausing)]) l2) as H.
  rewrite <- app_assoc in H. specialize (H E). rewrite mon_run_app in H. cbn in H.
  apply andb_true_iff in H. destruct H as [_ H]. exact H.
Qed.

End Proofs.

(* the components of [run_follows_spec], as separate statements *)
Corollary cache_is_trace_spec P presume plan_of D dev d paus stag rec evs :
  cache P D (fst (run P presume plan_of D dev (init P D d paus stag rec) evs)) =
  mcache (mon_run mon0 (trace P presume plan_of D dev (init P D d paus stag rec) evs)).
Proof. exact (proj1 (run_follows_spec P presume plan_of D dev d paus stag rec evs)). Qed.

Corollary deferred_is_trace_spec P presume plan_of D dev d paus stag rec evs :
  deferred P D (fst (run P presume plan_of D dev (init P D d paus stag rec) evs)) =
  mdef (mon_run mon0 (trace P presume plan_of D dev (init P D d paus stag rec) evs)).
Proof. exact (proj1 (proj2 (proj2 (run_follows_spec P presume plan_of D dev d paus stag rec evs)))). Qed.

(* the trace really is the schedule interleaved with the observations of [run] *)
Corollary trace_is_run P presume plan_of D dev s evs :
  obs_of (trace P presume plan_of D dev s evs) = snd (run P presume plan_of D dev s evs) /\
  evs_of (trace P presume plan_of D dev s evs) = evs.
Proof. split; [apply trace_obs | apply trace_evs]. Qed.

(* every reachable engine state satisfies the whole invariant; in particular interruption records never fail *)
Corollary reachable_R P presume plan_of D dev d paus stag rec evs :
  R P D (fst (run P presume plan_of D dev (init P D d paus stag rec) evs))
        (mon_run mon0 (trace P presume plan_of D dev (init P D d paus stag rec) evs)).
Proof. apply run_R. apply R_init. Qed.

Corollary reachable_bintr_ok P presume plan_of D dev d paus stag rec evs :
  bintr_ok (bundlers P D (fst (run P presume plan_of D dev (init P D d paus stag rec) evs))) = true.
Proof. destruct (reachable_R P presume plan_of D dev d paus stag rec evs) as [[(_ & _ & _ & _ & _ & H) _] _]. exact H. Qed.
