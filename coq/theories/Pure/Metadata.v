(* Model of how RunEngine._open_run (src/bluesky/run_engine.py:1853-1887) builds the RunStart
   metadata: scan_id_source, ChainMap precedence, md_validator, md_normalizer, and the persistent
   RE.md.  Dictionaries are association lists (Base/ChainMap.v); strings are interned as N.
   Model only, no proofs (Proofs/Metadata.v). *)
From BV Require Import Base.Prelude Base.ChainMap.

Inductive val :=
| VInt (z : Z)
| VStr (s : N)
| VList (tag : N)      (* some list / other object, identified by a tag *)
| VDict (tag : N).     (* some mapping *)

Definition val_eqb (a b : val) : bool :=
  match a, b with
  | VInt x, VInt y => Z.eqb x y
  | VStr x, VStr y | VList x, VList y | VDict x, VDict y => N.eqb x y
  | _, _ => false
  end.

(* reserved key names *)
Definition k_scan_id : N := 0%N.
Definition k_plan_type : N := 1%N.
Definition k_plan_name : N := 2%N.
Definition k_sample : N := 3%N.

Definition md_t := dict val.

(* the three user-replaceable hooks of the RunEngine *)
Record hooks := {
  validator : md_t -> bool;             (* md_validator(dict(md)): true = returns, false = raises *)
  normalizer : md_t -> option md_t;     (* md_normalizer(deepcopy(md)): None = raises *)
  scan_src : md_t -> option val         (* scan_id_source(self.md): None = raises *)
}.

(* default_scan_id_source: md.get("scan_id", 0) + 1  (str/list + 1 raises TypeError) *)
Definition default_src (md : md_t) : option val :=
  match lookup k_scan_id md with
  | None => Some (VInt 1)
  | Some (VInt z) => Some (VInt (z + 1))
  | Some _ => None
  end.

(* _default_md_validator: "sample" must have .keys or be a str *)
Definition default_validator (md : md_t) : bool :=
  match lookup k_sample md with
  | Some (VInt _) | Some (VList _) => false
  | _ => true
  end.

Definition default_normalizer (md : md_t) : option md_t := Some md.

Definition default_hooks : hooks :=
  {| validator := default_validator; normalizer := default_normalizer; scan_src := default_src |}.

(* one open_run message inside a call RE(plan, **call_kw) *)
Record open_req := {
  call_kw : md_t;        (* self._metadata_per_call *)
  open_kw : md_t;        (* msg.kwargs *)
  plan_type : N;         (* type(self._plan).__name__ *)
  plan_name : N          (* getattr(self._plan, "__name__", "") *)
}.

Definition ident (r : open_req) : md_t :=
  [(k_plan_type, VStr (plan_type r)); (k_plan_name, VStr (plan_name r))].

(* the ChainMap of _open_run, most significant first *)
Definition chain (r : open_req) (md' : md_t) : list md_t := [call_kw r; open_kw r; ident r; md'].

(* ChainMap lookup spelled out: the first of the four sources that has the key *)
Definition first_hit (k : N) (r : open_req) (md' : md_t) : option val :=
  match lookup k (call_kw r) with
  | Some v => Some v
  | None => match lookup k (open_kw r) with
            | Some v => Some v
            | None => match lookup k (ident r) with
                      | Some v => Some v
                      | None => lookup k md'
                      end
            end
  end.

Inductive outcome :=
| Started (doc : md_t)      (* RunStart emitted with this metadata (uid/time not shown), bundler registered *)
| RejectedV                 (* md_validator raised: nothing emitted, no bundler *)
| RejectedN                 (* md_normalizer raised: nothing emitted, no bundler *)
| SourceRaised              (* scan_id_source raised *)
| Illegal                   (* IllegalMessageSequence: open while open / close while closed *)
| Closed.                   (* close_run of the open run *)

(* _open_run for a run key that is not open; returns the new RE.md and what happened *)
Definition open_run (h : hooks) (md : md_t) (r : open_req) : md_t * outcome :=
  match scan_src h md with
  | None => (md, SourceRaised)
  | Some sid =>
      let md' := set k_scan_id sid md in                 (* self.md["scan_id"] = ...  (before validation) *)
      let merged := chain_merge (chain r md') in         (* dict(md) *)
      if validator h merged then
        match normalizer h merged with
        | Some doc => (md', Started doc)
        | None => (md', RejectedN)
        end
      else (md', RejectedV)
  end.

(* ---- histories: calls RE(plan, **kw), each a list of open_run/close_run messages whose
        exceptions the plan catches ---- *)

(* a run key (msg.run): None is the default key; several runs may be open at once under different keys *)
Definition rkey := option N.
Definition rkey_eqb (a b : rkey) : bool := option_beq N.eqb a b.
Definition key_mem (k : rkey) (l : list rkey) : bool := existsb (rkey_eqb k) l.
Definition key_remove (k : rkey) (l : list rkey) : list rkey := filter (fun x => negb (rkey_eqb k x)) l.

Inductive op := Open (key : rkey) (kw : md_t) | Close (key : rkey).

Record call := {
  c_hooks : hooks; c_kw : md_t; c_type : N; c_name : N; c_ops : list op
}.

(* per message: what happened, RE.md afterwards, the keys of self._run_bundlers afterwards *)
Definition step_obs := (outcome * md_t * list rkey)%type.

(* one open_run / close_run message; state = RE.md and the keys of the open runs (insertion order).
   "run_key in self._run_bundlers" is tested BEFORE scan_id_source is called. *)
Definition do_op (c : call) (st : md_t * list rkey) (o : op) : (md_t * list rkey) * outcome :=
  let (md, opens) := st in
  match o with
  | Open key kw =>
      if key_mem key opens then ((md, opens), Illegal)
      else
        match open_run (c_hooks c) md {| call_kw := c_kw c; open_kw := kw; plan_type := c_type c; plan_name := c_name c |} with
        | (md', Started doc) => ((md', opens ++ [key]), Started doc)
        | (md', out) => ((md', opens), out)
        end
  | Close key => if key_mem key opens then ((md, key_remove key opens), Closed) else ((md, opens), Illegal)
  end.

Fixpoint do_ops (c : call) (st : md_t * list rkey) (ops : list op) : (md_t * list rkey) * list step_obs :=
  match ops with
  | [] => (st, [])
  | o :: ops' =>
      match do_op c st o with
      | (st1, out) =>
          match do_ops c st1 ops' with
          | (st2, obs) => (st2, (out, fst st1, snd st1) :: obs)
          end
      end
  end.

(* one RE(...) call: starts with no run open; runs left open are closed by the engine at the end *)
Definition do_call (md : md_t) (c : call) : md_t * list step_obs :=
  match do_ops c (md, []) (c_ops c) with
  | ((md', _), obs) => (md', obs)
  end.

Fixpoint do_calls (md : md_t) (cs : list call) : md_t * list (list step_obs) :=
  match cs with
  | [] => (md, [])
  | c :: cs' =>
      match do_call md c with
      | (md1, o1) => match do_calls md1 cs' with (md2, os) => (md2, o1 :: os) end
      end
  end.

(* ---- reading a history ---- *)

Definition outcomes (os : list (list step_obs)) : list outcome := map (fun x => fst (fst x)) (concat os).

Definition is_started (o : outcome) : bool := match o with Started _ => true | _ => false end.
Definition is_rejected (o : outcome) : bool := match o with RejectedV | RejectedN => true | _ => false end.

(* RE.md["scan_id"] right after each opened run (each RunStart), in order *)
Definition opened_scan_ids (os : list (list step_obs)) : list (option val) :=
  flat_map (fun x => if is_started (fst (fst x)) then [lookup k_scan_id (snd (fst x))] else []) (concat os).

(* finding class C17-a: some open_run was rejected by the validator or the normalizer
   (RE.md["scan_id"] has already been advanced at that point) *)
Definition finding_C17_a (md : md_t) (cs : list call) : bool :=
  existsb is_rejected (outcomes (snd (do_calls md cs))).

(* s+1, s+2, ..., s+n *)
Fixpoint ids_from (s : Z) (n : nat) : list (option val) :=
  match n with O => [] | S n' => Some (VInt (s + 1)) :: ids_from (s + 1) n' end.

(* the scan_id sentence of the property, for a history that starts with RE.md["scan_id"] = s0
   (absent counts as 0): the opened runs got s0+1 .. s0+n and RE.md keeps s0+n *)
Definition scan_id_start (md : md_t) : option Z :=
  match lookup k_scan_id md with None => Some 0%Z | Some (VInt z) => Some z | Some _ => None end.

Definition scan_ids_consecutive (md : md_t) (cs : list call) : Prop :=
  forall s0, scan_id_start md = Some s0 ->
    let r := do_calls md cs in
    let n := length (filter is_started (outcomes (snd r))) in
    opened_scan_ids (snd r) = ids_from s0 n /\
    scan_id_start (fst r) = Some (s0 + Z.of_nat n)%Z.

Definition all_default_src (cs : list call) : Prop :=
  forall c, In c cs -> forall md, scan_src (c_hooks c) md = default_src md.

(* ---- concrete hooks used by the correspondence (mirrored by Python closures) ---- *)

Definition v_accept (md : md_t) : bool := true.
Definition v_reject (md : md_t) : bool := false.
Definition v_require (k : N) (md : md_t) : bool := has k md.
Definition v_forbid (k : N) (v : val) (md : md_t) : bool :=
  match lookup k md with Some v' => negb (val_eqb v v') | None => true end.

Definition n_set (k : N) (v : val) (md : md_t) : option md_t := Some (set k v md).
Definition n_drop (k : N) (md : md_t) : option md_t := Some (remove k md).
Definition n_require (k : N) (md : md_t) : option md_t := if has k md then Some md else None.
Definition n_const (d : md_t) (md : md_t) : option md_t := Some d.
(* move the value of k to k2 (when present) *)
Definition n_rename (k k2 : N) (md : md_t) : option md_t :=
  match lookup k md with Some v => Some (set k2 v (remove k md)) | None => Some md end.

Definition s_const (v : val) (md : md_t) : option val := Some v.
Definition s_plus (n : Z) (md : md_t) : option val :=
  match lookup k_scan_id md with
  | None => Some (VInt n)
  | Some (VInt z) => Some (VInt (z + n))
  | Some _ => None
  end.
Definition s_key (k : N) (md : md_t) : option val :=
  match lookup k md with Some v => Some v | None => Some (VInt 0) end.

(* ---- equality of observations ---- *)
Definition outcome_beq (a b : outcome) : bool :=
  match a, b with
  | Started d, Started d' => dict_beq val_eqb d d'
  | RejectedV, RejectedV | RejectedN, RejectedN | SourceRaised, SourceRaised
  | Illegal, Illegal | Closed, Closed => true
  | _, _ => false
  end.
(* the open-run keys are compared as sets (dict key order is not part of the observation) *)
Definition keys_beq (a b : list rkey) : bool :=
  forallb (fun k => key_mem k b) a && forallb (fun k => key_mem k a) b.
Definition step_beq (a b : step_obs) : bool :=
  outcome_beq (fst (fst a)) (fst (fst b)) && dict_beq val_eqb (snd (fst a)) (snd (fst b)) && keys_beq (snd a) (snd b).
Definition hist_beq (a b : md_t * list (list step_obs)) : bool :=
  dict_beq val_eqb (fst a) (fst b) && list_beq (list_beq step_beq) (snd a) (snd b).

(* boolean restatement of the scan_id sentence (for the generated cases files / model search) *)
Definition option_val_beq := option_beq val_eqb.
Definition scan_ids_consecutive_b (md : md_t) (cs : list call) : bool :=
  match scan_id_start md with
  | None => true
  | Some s0 =>
      let r := do_calls md cs in
      let n := length (filter is_started (outcomes (snd r))) in
      list_beq option_val_beq (opened_scan_ids (snd r)) (ids_from s0 n) &&
      option_beq Z.eqb (scan_id_start (fst r)) (Some (s0 + Z.of_nat n)%Z)
  end.
