"""C09 - a deferred pause takes effect exactly at the next checkpoint."""
from harness.props.engine_common import *  # noqa: F401,F403
from harness.props import engine_common as ec
from harness.props import ctl_common as cc
from harness.drivers import engine_cases_ctl as ecc

ID = "C09"
PROP_FILE = "Props/C09.v"
THEOREMS = ["C09_deferred_is_trace_spec", "C09_defer_request_only_sets_flag", "C09_checkpoint_honours_deferred",
            "C09_grace_sleep_then_pause", "C09_pausing_has_a_cause", "C09_pausing_with_checkpoint_pauses",
            "C09_deferred_pause_end_to_end", "C09_deferred_pause_stays_pending",
            "C09_deferred_pause_after_clear_checkpoint", "C09_empty_replay_is_silent"]
impl_batch = cc.impl_batch
coq_term = cc.coq_term
RULE = ec.RULE + ("; plus C09 extras: checkpoint spacing 0..5, a deferred pause at every `_run` step, plans without a further "
                  "checkpoint, a second call after the first one returned with the deferred request pending, `pause(defer=True)` messages")

_TERMINAL = ("abort", "stop", "halt", "suspend")


def cases(rng, tier):
    return ec.gen_cases(rng, tier) + ecc.c09_cases(rng, tier)


def oracle(case, obs):
    if obs.get("errors"):
        return "driver: " + str(obs["errors"][0])[:200]
    return _analyse(case, obs)[0]


def finding(case, obs):
    return None       # C09-a is repaired (fixes/C09-a.diff): no recorded finding class


def _analyse(case, obs):
    """-> (message, finding id)"""
    r = _analyse0(case, obs)
    return r if isinstance(r, tuple) else (r, None)


def _analyse0(case, obs):
    tl = cc.timeline(obs)
    sp = cc.Spec()
    fresh = cc.fresh_flags(tl, obs["tapes"])
    cur = None              # (index, canon msg, responded?) of the message being processed
    must_pause_at = None    # index of the checkpoint at which the pending deferred pause has to take effect
    other_req = False       # another accepted request since must_pause_at / since the deferred pause took effect
    took_effect = False     # the engine went pausing because of the deferred checkpoint; expecting `paused` next
    after_defer_pause = False   # paused by a deferred pause: the next resume must replay nothing
    expect_fresh = False
    for i, e in enumerate(tl):
        k = e[0]
        if k == "req" and e[1] and e[2] in _TERMINAL:
            other_req = True
        if k == "req" and e[1] and e[2] == "pause" and e[3] is False:
            other_req = True
        if k == "state" and e[2] == "pausing":
            # why does the engine start pausing?
            nxt = next((x for x in tl[i + 1:] if x[0] in ("req", "msg", "task", "out")), None)
            by_request = nxt is not None and nxt[0] == "req" and nxt[2] == "pause" and nxt[3] is False
            by_message = cur is not None and not cur[2] and cur[1]["cmd"] == "pause" and not cur[1]["args"][0]
            by_ckpt = cur is not None and not cur[2] and cur[1]["cmd"] == "checkpoint" and sp.deferred
            if not (by_request or by_message or by_ckpt):
                return "the engine went `pausing` without a pause request, a pause message or a deferred pause reaching a checkpoint"
            if by_ckpt and not by_request:
                took_effect = True
                other_req = False
        if k == "state" and e[1] == "pausing" and e[2] != "paused" and took_effect and not other_req:
            nxt = next((x for x in tl[i + 1:] if x[0] in ("req", "msg", "task", "out")), None)
            if nxt is not None and nxt[0] == "req" and nxt[1] and nxt[2] in _TERMINAL:
                other_req = True       # an abort/stop/halt request landed while the engine was pausing
        if k == "state" and e[1] == "pausing" and e[2] != "paused" and took_effect and not other_req:
            return "the deferred pause took effect at the checkpoint but the engine went %s instead of pausing there" % e[2]
        if k == "msg":
            if took_effect and not other_req:
                return "message %s was executed after the deferred pause took effect at the checkpoint and before the engine was paused" % e[2]["cmd"]
            if must_pause_at is not None and not other_req:
                return "a deferred pause was pending at checkpoint (timeline index %d) but the engine went on to message %s without pausing" % (must_pause_at, e[2]["cmd"])
            if expect_fresh and e[1] is not None:
                if fresh[i] is None:
                    return "resuming from a deferred pause replayed message #%s (%s); nothing is to be replayed" % (e[1], e[2]["cmd"])
                expect_fresh = False
            cur = [i, e[2], False]
            if e[2]["cmd"] == "checkpoint" and sp.deferred:
                must_pause_at = i
                other_req = False
        if k == "resp" and cur is not None:
            cur[2] = True
            if must_pause_at is not None and cur[0] == must_pause_at and cc.is_exn(e[1]):
                must_pause_at = None      # the checkpoint itself failed (inside a bundle / pause not possible)
        if k == "state" and e[2] == "pausing" and must_pause_at is not None:
            must_pause_at = None
        if k == "state" and e[2] == "paused":
            if took_effect and not other_req:
                after_defer_pause = True
                if sp.cache != []:
                    return "paused by a deferred pause at a checkpoint but the messages %s would be replayed on resume" % (sp.cache,)
            took_effect = False
        if k == "main":
            expect_fresh = (e[1] == "resume" and after_defer_pause and sp.state == "paused")
            after_defer_pause = False
        if k == "out":
            if must_pause_at is not None and not other_req and e[2] == "return":
                return "the call returned although a deferred pause was pending at a checkpoint"
            must_pause_at = None
            took_effect = False
            expect_fresh = False
        sp.feed(e)
        if k == "out" and bool(e[-2]) != bool(sp.deferred):
            return "after %s() the engine reports deferred_pause_requested=%s but the trace says %s" % (e[1], e[-2], sp.deferred)
    return None

