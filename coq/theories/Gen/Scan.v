(* Model of the step-scan plans of bluesky.plans (src/bluesky/plans.py) as message lists:
   scan_nd with one_nd_step / move_per_step (skip-if-unchanged position cache) / trigger_and_read,
   stage_wrapper + run_wrapper (normal completion path), one_1d_step (log_scan),
   scan / inner_product_scan / list_scan / grid_scan / list_grid_scan / x2x_scan (relative_set + reset_positions
   wrappers) on top of Pure/Patterns.v, and the metadata they put into open_run.
   Groups are numbered by first appearance.  Devices: motors by id (Movable+Readable with a `position`,
   not Triggerable), detectors by id with a `triggerable` flag.  The motors of a cycler are staged in
   increasing id order (the code iterates a Python set; the harness sorts that block).
   A plan result is the list of messages yielded, and whether the generator then raised.
   Generic over the numeric operations; no proofs in this file. *)
From BV Require Import Base.Prelude Base.OrdFieldS Pure.Snake Pure.Linspace Pure.Patterns.

Section Scan.
  Context {F : Type} (ops : Ops F).

  Inductive obj := OMot (m : nat) | ODet (d : nat).
  Record det := mkDet { det_id : nat; det_trig : bool }.

  Inductive pname := PNscan | PNinner_product_scan | PNlist_scan | PNgrid_scan | PNlist_grid_scan
                   | PNscan_nd | PNlog_scan | PNx2x_scan.
  Inductive ppat := PPnone | PPinner_product | PPinner_list_product | PPouter_product
                  | PPouter_list_product | PPlogspace.

  Record meta := mkMeta {
    md_plan_name : pname;
    md_detectors : list nat;
    md_motors : list nat;
    md_num_points : nat;
    md_num_intervals : Z;
    md_pattern : ppat;
    md_shape : option (list nat);
    md_extents : option (list (F * F));
    md_snaking : option (list bool)
  }.

  Inductive msg :=
  | MStage (o : obj) (g : nat) | MUnstage (o : obj) (g : nat)
  | MOpenRun (md : meta) | MCloseRun
  | MCheckpoint | MSet (m : nat) (v : F) (g : nat) | MWait (g : nat)
  | MTrigger (o : obj) (g : nat) | MCreate | MRead (o : obj) | MSave.

  Inductive result := Done (ms : list msg) | Raised (ms : list msg).

  (* ---- pos_cache: defaultdict(lambda: None) *)
  Definition cache := list (nat * F).
  Fixpoint cache_get (c : cache) (m : nat) : option F :=
    match c with
    | [] => None
    | (k, v) :: r => if k =? m then Some v else cache_get r m
    end.

  (* move_per_step: the loop over step.items() *)
  Fixpoint move_sets (g : nat) (p : @point F) (c : cache) : list msg * cache :=
    match p with
    | [] => ([], c)
    | (m, v) :: r =>
      if match cache_get c m with Some old => o_eqb ops v old | None => false end
      then move_sets g r c
      else let (ms, c') := move_sets g r ((m, v) :: c) in (MSet m v g :: ms, c')
    end.

  (* trigger_and_read(devices): devices with their Triggerable flag; fresh group g *)
  Definition trigger_and_read (devs : list (obj * bool)) (g : nat) : list msg * nat :=
    let trig := filter (fun d => snd d) devs in
    let tmsgs := match trig with
                 | [] => []
                 | _ => map (fun d => MTrigger (fst d) g) trig ++ [MWait g]
                 end in
    (tmsgs ++ [MCreate] ++ map (fun d => MRead (fst d)) devs ++ [MSave],
     match trig with [] => g | _ => S g end).

  Definition det_devs (dets : list det) : list (obj * bool) :=
    map (fun d => (ODet (det_id d), det_trig d)) dets.

  (* one_nd_step *)
  Definition one_nd_step (dets : list det) (g : nat) (c : cache) (p : @point F) : list msg * nat * cache :=
    let (sets, c') := move_sets g p c in
    let devs := det_devs dets ++ map (fun mv => (OMot (fst mv), false)) p in
    let (tr, g') := trigger_and_read devs (S g) in
    (MCheckpoint :: sets ++ [MWait g] ++ tr, g', c').

  Fixpoint nd_steps (dets : list det) (g : nat) (c : cache) (cy : @cyc F) : list msg * nat :=
    match cy with
    | [] => ([], g)
    | p :: r => let '(ms, g', c') := one_nd_step dets g c p in
                let (ms', g'') := nd_steps dets g' c' r in (ms ++ ms', g'')
    end.

  Fixpoint insert_sorted (x : nat) (l : list nat) : list nat :=
    match l with [] => [x] | y :: r => if x <=? y then x :: l else y :: insert_sorted x r end.
  Definition sort_nat (l : list nat) : list nat := fold_right insert_sorted [] l.

  (* stage_wrapper(run_wrapper(body)) on the normal path; returns the next unused group *)
  Definition staged_run (devices : list obj) (md : meta) (body : nat -> list msg * nat) : list msg * nat :=
    let (b, g) := body 1 in
    (map (fun o => MStage o 0) devices ++ [MOpenRun md] ++ b ++ [MCloseRun]
       ++ map (fun o => MUnstage o g) (rev devices), S g).

  Definition det_objs (dets : list det) : list obj := map (fun d => ODet (det_id d)) dets.

  Definition scan_nd_core (dets : list det) (motors : list nat) (cy : @cyc F) (md : meta) : list msg * nat :=
    staged_run (det_objs dets ++ map OMot (sort_nat motors)) md (fun g => nd_steps dets g [] cy).

  Definition nd_meta (name : pname) (pat : ppat) (dets : list det) (motors : list nat) (n : nat)
             (shape : option (list nat)) (extents : option (list (F * F))) (snaking : option (list bool)) : meta :=
    mkMeta name (map det_id dets) motors n (Z.of_nat n - 1) pat shape extents snaking.

  (* scan_nd called directly with a cycler (keys in composition order) *)
  Definition scan_nd (dets : list det) (motors : list nat) (cy : @cyc F) : result :=
    Done (fst (scan_nd_core dets motors cy
                 (nd_meta PNscan_nd PPnone dets (sort_nat motors) (length cy) None None None))).

  (* ---- scan / inner_product_scan *)
  Definition motors3 (args : list (@arg F)) : list nat :=
    flat_map (fun c => match fst (fst c) with AMot m => [m] | _ => [] end) (part3 args).

  Definition scan_core (name : pname) (dets : list det) (num : nat) (args : list (@arg F)) : option (list msg * nat) :=
    match inner_product ops num args with
    | None => None
    | Some cy => Some (scan_nd_core dets (motors3 args) cy
                         (nd_meta name PPinner_product dets (motors3 args) (length cy) None None None))
    end.

  Definition opt_result (o : option (list msg * nat)) : result :=
    match o with Some r => Done (fst r) | None => Raised [] end.

  (* scan(detectors, *args, num=None): numkw = the keyword, else the last positional argument *)
  Definition scan_args (name : pname) (dets : list det) (args : list (@arg F)) (numkw : option nat)
    : option (list msg * nat) :=
    match numkw with
    | Some n => if n =? 0 then None else scan_core name dets n args
    | None =>
      if negb (length args mod 3 =? 1) then None
      else match last args (ABool false) with
           | ANum n => scan_core name dets n (removelast args)
           | _ => None
           end
    end.

  Definition scan (dets : list det) (args : list (@arg F)) (numkw : option nat) : result :=
    opt_result (scan_args PNscan dets args numkw).

  (* inner_product_scan(detectors, num, *args) = scan(detectors, *args, num) *)
  Definition inner_product_scan (dets : list det) (num : nat) (args : list (@arg F)) : result :=
    opt_result (scan_args PNinner_product_scan dets (args ++ [ANum num]) None).

  (* ---- list_scan *)
  Definition motors2 (args : list (@arg F)) : list nat :=
    flat_map (fun c => match fst c with AMot m => [m] | _ => [] end) (part2 args).

  Definition list_scan (dets : list det) (args : list (@arg F)) : result :=
    if negb (length args mod 2 =? 0) then Raised []
    else match all_some (map to_list_axis (part2 args)) with
         | None => Raised []
         | Some axes =>
           let lens := map (fun a => length (snd a)) axes in
           if negb (forallb (fun n => n =? hd 0 lens) lens) then Raised []
           else match inner_list_product ops args with
                | None => Raised []
                | Some cy =>
                  let n := hd 0 lens in
                  let md := mkMeta PNlist_scan (map det_id dets) (motors2 args) n
                                   (if n =? 0 then 0%Z else (Z.of_nat n - 1)%Z)
                                   PPinner_list_product None None None in
                  Done (fst (scan_nd_core dets (motors2 args) cy md))
                end
         end.

  (* ---- grid_scan *)
  Definition set_snake (a : @axis F) (b : bool) : @axis F :=
    mkAxis (ax_motor a) (ax_start a) (ax_stop a) (ax_num a) b.

  Definition args_modified (axes : list (@axis F)) : list (@arg F) :=
    match axes with
    | [] => []
    | a :: r => [AMot (ax_motor a); AVal (ax_start a); AVal (ax_stop a); ANum (ax_num a)]
                ++ flat_map (fun a => [AMot (ax_motor a); AVal (ax_start a); AVal (ax_stop a);
                                       ANum (ax_num a); ABool (ax_snake a)]) r
    end.

  Definition mem (m : nat) (l : list nat) : bool := existsb (Nat.eqb m) l.

  (* chunk_args after the snake_axes override; None = ValueError *)
  Definition grid_axes (args : list (@arg F)) (sa : snake_axes) : option (list (@axis F)) :=
    match classify args with
    | None => None
    | Some p =>
      match sa, p with
      | SAFalse, P2 | SATrue, P2 | SAList _, P2 => None                      (* mixing old and new API *)
      | _, _ =>
        match all_some (map to_axis (chunk p args)) with
        | None => None
        | Some axes =>
          let motors := map (@ax_motor F) axes in
          if negb (nodupb motors) then None
          else match sa with
               | SANone => Some axes                                    (* P2: keep snakeX; P1: all False *)
               | SAFalse => Some (map (fun a => set_snake a false) axes)
               | SATrue => Some (map (fun ka => if fst ka =? 0 then snd ka else set_snake (snd ka) true)
                                     (combine (seq 0 (length axes)) axes))
               | SAList ms =>
                 if negb (nodupb ms) then None
                 else if match motors with m0 :: _ => mem m0 ms | [] => false end then None
                 else if negb (forallb (fun m => mem m motors) ms) then None
                 else Some (map (fun ka => if fst ka =? 0 then snd ka
                                           else set_snake (snd ka) (mem (ax_motor (snd ka)) ms))
                                (combine (seq 0 (length axes)) axes))
               end
        end
      end
    end.

  Definition grid_scan (dets : list det) (args : list (@arg F)) (sa : snake_axes) : result :=
    match grid_axes args sa with
    | None => Raised []
    | Some axes =>
      match outer_product ops (args_modified axes) with
      | None => Raised []
      | Some cy =>
        let motors := map (@ax_motor F) axes in
        let md := nd_meta PNgrid_scan PPouter_product dets motors (length cy)
                          (Some (map (@ax_num F) axes))
                          (Some (map (fun a => (ax_start a, ax_stop a)) axes))
                          (Some (map (@ax_snake F) axes)) in
        Done (fst (scan_nd_core dets motors cy md))
      end
    end.

  (* ---- list_grid_scan *)
  Definition list_min (l : list F) : option F :=          (* Python min(): first minimal element *)
    match l with
    | [] => None
    | x :: r => Some (fold_left (fun acc y => if o_ltb ops y acc then y else acc) r x)
    end.
  Definition list_max (l : list F) : option F :=
    match l with
    | [] => None
    | x :: r => Some (fold_left (fun acc y => if o_ltb ops acc y then y else acc) r x)
    end.

  Definition list_grid_scan (dets : list det) (args : list (@arg F)) (sa : snake_axes) : result :=
    match outer_list_product ops args sa with
    | None => Raised []
    | Some cy =>
      match all_some (map to_list_axis (part2 args)) with
      | None => Raised []
      | Some axes =>
        match all_some (map (fun a => match list_min (snd a), list_max (snd a) with
                                      | Some lo, Some hi => Some (lo, hi) | _, _ => None end) axes) with
        | None => Raised []                                              (* min() of an empty list *)
        | Some ext =>
          let motors := map fst axes in
          let md := nd_meta PNlist_grid_scan PPouter_list_product dets motors (length cy)
                            (Some (map (fun a => length (snd a)) axes)) (Some ext) None in
          Done (fst (scan_nd_core dets motors cy md))
        end
      end
    end.

  (* ---- log_scan: one_1d_step over an oracle sequence (np.logspace), no position cache *)
  Fixpoint steps_1d (dets : list det) (motor : nat) (g : nat) (steps : list F) : list msg * nat :=
    match steps with
    | [] => ([], g)
    | v :: r =>
      let (tr, g') := trigger_and_read (det_devs dets ++ [(OMot motor, false)]) (S g) in
      let (ms', g'') := steps_1d dets motor g' r in
      ([MCheckpoint; MSet motor v g; MWait g] ++ tr ++ ms', g'')
    end.

  Definition log_scan (dets : list det) (motor : nat) (steps : list F) : result :=
    let n := length steps in
    let md := mkMeta PNlog_scan (map det_id dets) [motor] n (Z.of_nat n - 1) PPlogspace None None None in
    Done (fst (staged_run (det_objs dets ++ [OMot motor]) md (fun g => steps_1d dets motor g steps))).

  (* ---- x2x_scan = reset_positions(relative_set(scan(m1, start, stop, m2, start/2, stop/2, num))) *)
  Definition relativize (init : nat -> F) (ms : list msg) : list msg :=
    map (fun m => match m with MSet k v g => MSet k (o_add ops (init k) v) g | x => x end) ms.

  Fixpoint first_sets (ms : list msg) (seen : list nat) : list nat :=
    match ms with
    | [] => []
    | MSet k _ _ :: r => if mem k seen then first_sets r seen else k :: first_sets r (k :: seen)
    | _ :: r => first_sets r seen
    end.

  Definition reset_msgs (init : nat -> F) (moved : list nat) (g : nat) : list msg :=
    map (fun k => MSet k (init k) g) moved ++ [MWait g].

  Definition x2x_scan (dets : list det) (m1 m2 : nat) (start stop : F) (num : nat) (init : nat -> F) : result :=
    let two := o_of_nat ops 2 in
    let args := [AMot m1; AVal start; AVal stop; AMot m2; AVal (o_div ops start two); AVal (o_div ops stop two);
                 ANum num] in
    match scan_args PNx2x_scan dets args None with
    | None => Raised (reset_msgs init [] 0)
    | Some (ms, g) => Done (relativize init ms ++ reset_msgs init (first_sets ms []) g)
    end.

  (* ---- effective positions: what the motors have been told, snapshot at every `save` *)
  Definition posmap := nat -> option F.
  Definition pm_set (pm : posmap) (m : nat) (v : F) : posmap := fun k => if k =? m then Some v else pm k.

  Fixpoint snapshots (ms : list msg) (pm : posmap) : list posmap :=
    match ms with
    | [] => []
    | MSet m v _ :: r => snapshots r (pm_set pm m v)
    | MSave :: r => pm :: snapshots r pm
    | _ :: r => snapshots r pm
    end.

  Fixpoint final_pos (ms : list msg) (pm : posmap) : posmap :=
    match ms with
    | [] => pm
    | MSet m v _ :: r => final_pos r (pm_set pm m v)
    | _ :: r => final_pos r pm
    end.

  Definition result_msgs (r : result) : list msg := match r with Done ms | Raised ms => ms end.
End Scan.

(* ---- specification vocabulary (used by Props/C25.v): well-formed argument lists and documented trajectories *)
Section Vocabulary.
  Context {F : Type}.

  (* scan / inner_product_scan / x2x_scan:  motor1, start1, stop1, ..., motorN, startN, stopN *)
  Definition args3 (axes : list (nat * F * F)) : list (@arg F) :=
    flat_map (fun a => [AMot (fst (fst a)); AVal (snd (fst a)); AVal (snd a)]) axes.

  (* list_scan / list_grid_scan:  motor1, list1, ..., motorN, listN *)
  Definition args_lists (axes : list (nat * list F)) : list (@arg F) :=
    flat_map (fun a => [AMot (fst a); AList (snd a)]) axes.

  (* grid_scan, documented pattern:  motor1, start1, stop1, num1, ..., motorN, startN, stopN, numN *)
  Definition args_grid1 (axes : list (@axis F)) : list (@arg F) :=
    flat_map (fun a => [AMot (ax_motor a); AVal (ax_start a); AVal (ax_stop a); ANum (ax_num a)]) axes.
  (* grid_scan, deprecated pattern (snake booleans after every motor but the first) = args_modified *)

  Definition enumerate {A} (l : list A) : list (nat * A) := combine (seq 0 (length l)) l.

  (* the snaking a grid_scan call asks for (new API), per axis *)
  Definition grid_flags (sa : snake_axes) (motors : list nat) : list bool :=
    map (fun km => match sa with
                   | SANone | SAFalse => false
                   | SATrue => negb (fst km =? 0)
                   | SAList ms => negb (fst km =? 0) && mem (snd km) ms
                   end) (enumerate motors).

  Definition sa_valid (sa : snake_axes) (motors : list nat) : Prop :=
    match sa with
    | SAList ms => NoDup ms /\ (forall m, In m ms -> In m motors) /\ ~ In (hd 0 motors) ms
    | _ => True
    end.

  (* row-major outer product with the requested snaking: point t, axis k has label idx lens flags k t *)
  Definition grid_point (motor : nat -> nat) (value : nat -> nat -> F) (lens : list nat) (flags : list bool)
             (t : nat) : @point F :=
    map (fun k => (motor k, value k (idx lens flags k t))) (seq 0 (length lens)).
  Definition grid_traj (motor : nat -> nat) (value : nat -> nat -> F) (lens : list nat) (flags : list bool)
    : list (@point F) :=
    map (grid_point motor value lens flags) (seq 0 (prodl lens)).
End Vocabulary.

(* ---- structural equality of observations, given an equality on numbers (bit equality for binary64) *)
Section Beq.
  Context {F : Type} (feq : F -> F -> bool).

  Definition obj_beq (a b : obj) : bool :=
    match a, b with OMot x, OMot y | ODet x, ODet y => x =? y | _, _ => false end.

  Definition pname_beq (a b : pname) : bool :=
    match a, b with
    | PNscan, PNscan | PNinner_product_scan, PNinner_product_scan | PNlist_scan, PNlist_scan
    | PNgrid_scan, PNgrid_scan | PNlist_grid_scan, PNlist_grid_scan | PNscan_nd, PNscan_nd
    | PNlog_scan, PNlog_scan | PNx2x_scan, PNx2x_scan => true
    | _, _ => false
    end.

  Definition ppat_beq (a b : ppat) : bool :=
    match a, b with
    | PPnone, PPnone | PPinner_product, PPinner_product | PPinner_list_product, PPinner_list_product
    | PPouter_product, PPouter_product | PPouter_list_product, PPouter_list_product
    | PPlogspace, PPlogspace => true
    | _, _ => false
    end.

  Definition meta_beq (a b : @meta F) : bool :=
    pname_beq (md_plan_name a) (md_plan_name b)
    && lnat_beq (md_detectors a) (md_detectors b)
    && lnat_beq (md_motors a) (md_motors b)
    && (md_num_points a =? md_num_points b)
    && Z.eqb (md_num_intervals a) (md_num_intervals b)
    && ppat_beq (md_pattern a) (md_pattern b)
    && option_beq lnat_beq (md_shape a) (md_shape b)
    && option_beq (list_beq (prod_beq feq feq)) (md_extents a) (md_extents b)
    && option_beq (list_beq Bool.eqb) (md_snaking a) (md_snaking b).

  Definition msg_beq (a b : @msg F) : bool :=
    match a, b with
    | MStage o g, MStage o' g' | MUnstage o g, MUnstage o' g' | MTrigger o g, MTrigger o' g' =>
        obj_beq o o' && (g =? g')
    | MOpenRun m, MOpenRun m' => meta_beq m m'
    | MCloseRun, MCloseRun | MCheckpoint, MCheckpoint | MCreate, MCreate | MSave, MSave => true
    | MSet m v g, MSet m' v' g' => (m =? m') && feq v v' && (g =? g')
    | MWait g, MWait g' => g =? g'
    | MRead o, MRead o' => obj_beq o o'
    | _, _ => false
    end.

  Definition result_beq (a b : @result F) : bool :=
    match a, b with
    | Done x, Done y | Raised x, Raised y => list_beq msg_beq x y
    | _, _ => false
    end.
End Beq.
