"""C12 - device errors reach the plan at the message that caused them."""
from harness.props.engine_common import *  # noqa: F401,F403  (impl_batch/nontrivial/describe/... shared by the engine family)
from harness.props import engine_common as ec
from harness.props import resp_trace as rt
from harness.drivers import engine_encode, engine_cases_resp

ID = "C12"
PROP_FILE = "Props/C12.v"
THEOREMS = ["C12_errors_thrown_at_yield", "C12_exception_response_thrown", "C12_failed_status_prompt",
            "C12_failed_status_thrown", "C12_unhandled_exception_raised"]
COQ_IMPORTS = "From BV Require Import Engine.RE Engine.REInst Engine.RespMon.\nFrom Coq Require Import ZArith."


def cases(rng, tier):
    return ec.gen_cases(rng, tier) + engine_cases_resp.gen(rng, tier)


def problems(obs):
    """every way the real run departs from the property"""
    bad = [b for b in rt.check_responses(obs) if b[0] == "bad"]      # an input no response / engine exception explains
    bad += rt.check_fault_responses(obs)                              # (i) a device fault the command did not answer with
    bad += rt.check_status_failures(obs)                              # (ii) a failed status overtaken by a later message
    bad += rt.check_unhandled(obs)                                    # (iii) an exception leaving the plan that the call swallowed
    return bad


def oracle(case, obs):
    if obs.get("errors"):
        return "driver: " + str(obs["errors"][0])[:200]
    bad = problems(obs)
    if bad:
        return "; ".join(m for _, m in bad[:3])[:600]
    return None


def finding(case, obs):
    return None       # no recorded deviation: every departure is a violation


def coq_term(case, obs):
    """the model reproduces the observation, and both Coq monitors run on the model's trace agree with the
    implementation-side monitors run on the real trace (response discipline of every call's plan; status promptness)"""
    if obs.get("errors") or case.get("no_model"):
        return None
    try:
        e = engine_encode.Enc(case, obs).encode()
    except engine_encode.Unsupported:
        return None
    cb = engine_encode.cb
    ncalls = sum(1 for x in obs["obs"] if x[0] == "main" and x[1] == "call")
    agree = []
    for pid in range(min(ncalls, 3)):
        acc, a = rt.coq_agree_args(obs, pid)
        agree.append("resp_agree (chk %d mon0 tr) %s %s" % (pid, cb(acc), cb(a)))
    agree.append("Bool.eqb (chk_status false tr) %s" % cb(not rt.check_status_failures(obs)))
    conj = rt.coq_and(agree)
    return ("let tp := %s in let ld := %s in let ev := %s in let tr := model_tr tp ld %s %s %s ev in "
            "andb (check tp ld %s %s %s ev %s) (%s)"
            % (e["tapes"], e["ledger"], e["evs"], e["paus"], e["stag"], e["rec"],
               e["paus"], e["stag"], e["rec"], e["obs"], conj))
