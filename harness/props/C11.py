"""C11 - suspension holds the plan until release, then runs the post-plan and rewinds."""
from harness.props.engine_common import *  # noqa: F401,F403
from harness.props import engine_common as ec
from harness.props import ctl_common as cc
from harness.drivers import engine_cases_ctl as ecc

ID = "C11"
PROP_FILE = "Props/C11.v"
THEOREMS = ["C11_suspension_reaches_wait", "C11_wait_blocks_until_release", "C11_release_then_post_rewind",
            "C11_helper_plan_shape", "C11_start_suspender_stops_movers", "C11_caller_not_woken",
            "C11_hold_ok_all_runs", "C11_full_refuted"]
impl_batch = cc.impl_batch
COQ_IMPORTS = ec.COQ_IMPORTS + "\nFrom BV Require Import Proofs.RE_Hold."
RULE = ec.RULE + ("; plus C11 extras: suspension at every `_run` step of plans with moved devices, bundles and waits, with/without "
                  "pre/post plans and interruption recording; overlapping second suspension at every later step with both release "
                  "orders; pause+resume while suspended")


def cases(rng, tier):
    return ec.gen_cases(rng, tier) + ecc.c11_cases(rng, tier)


def _analyse(case, obs):
    """-> (message, finding id) of the first violation, or (None, None)"""
    tl = cc.timeline(obs)
    sp = cc.Spec()
    fresh = cc.fresh_flags(tl, obs["tapes"])
    active = {}        # sid -> dict(started, waited, pre, post, other_susp, paused_resumed, terminal)
    released = set()
    moved = set()
    in_start = None    # sid whose _start_suspender is being processed
    stops = set()
    rec = bool(case.get("record_interruptions"))
    open_runs, intr_seen = set(), set()
    cur = None
    pid = -1
    nin = {}

    def plan_done():
        tape = obs["tapes"].get(str(pid), [])
        return bool(tape) and nin.get(pid, 0) >= len(tape) and tape[-1][1][0] in ("ret", "raise")
    for i, e in enumerate(tl):
        k = e[0]
        if k == "main" and e[1] == "call" and sp.state == "idle":
            active, released, moved = {}, set(), set()
            pid += 1
        if k == "plan_in":
            nin[e[1]] = nin.get(e[1], 0) + 1
        if k == "doc" and e[1] == "start":
            open_runs.add(e[2])
        if k == "doc" and e[1] == "stop":
            open_runs.discard(e[2])
        if k == "inject" and e[1] == "release":
            released.add(e[2])
            active.pop(e[2], None)
        if k == "req" and e[1]:
            if e[2] == "suspend":
                for a in active.values():
                    a["other_susp"] = True
                if sp.cache is not None and sp.state == "suspending" and e[3][0] not in released and not plan_done():
                    active[e[3][0]] = {"started": False, "waited": False, "pre": e[3][1], "post": e[3][2], "other_susp": False,
                                       "paused": False, "terminal": False}
            elif e[2] in ("abort", "stop", "halt"):
                active = {}          # the plan is being torn down: exceptions travel through the helper
            elif e[2] == "pause" and e[3] is False:
                for a in active.values():
                    a["paused"] = True
        if k == "plan_in" and e[2][0] == "throw":
            active = {}              # an exception is travelling down the stack (device failure, failing pre-plan, ...)
        if k == "out" and active:
            a = next(iter(active.values()))
            if not a["paused"]:
                return ("control returned to the caller (%s) while suspension(s) %s were in effect" % (e[2], sorted(active)),
                        "a" if a["other_susp"] else None)
        if k == "msg":
            c = e[2]["cmd"]
            cur = e[2]
            if c == "set" and e[2]["obj"] is not None:
                moved.add(e[2]["obj"])
            if c == "_start_suspender":
                in_start, stops, intr_seen = e[2]["args"][0], set(), set()
                if in_start in active:
                    active[in_start]["started"] = True
            for sid, a in list(active.items()):
                fid = "a" if a["other_susp"] else ("b" if a["paused"] else None)
                fr = fresh[i]
                if e[1] is not None and fr is not None and fr[0] == 1000 + 2 * sid:
                    continue                                   # the suspender's own pre-plan
                if e[1] is None and c == "_start_suspender":
                    continue
                if e[1] is None and c == "rewindable" and e[2]["args"] == [False]:
                    continue
                if e[1] is None and c == "wait_for":
                    if e[2]["args"][0] == [sid]:
                        a["waited"] = True
                    continue
                if fid == "a" and e[1] is None:
                    continue      # the other suspension's own helper messages (its own interval is checked separately)
                if fid == "a" and fr is not None and fr[0] >= 1000:
                    continue      # the other suspension's pre/post plan
                what = ("plan message" if fr is not None else ("replayed message" if e[1] is not None else "engine message"))
                return ("%s %s ran while suspension %d was still in effect (not released)" % (what, c, sid), fid)
        if k == "dev" and in_start is not None and e[2] == "stop":
            stops.add(e[1])
        if k == "doc" and e[1] == "event" and e[3] == "interruptions" and in_start is not None:
            intr_seen.add(e[2])
        if k == "resp" and cur is not None and cur["cmd"] == "_start_suspender" and in_start is not None:
            if not cc.is_exn(e[1]):
                if moved - stops:
                    return ("suspension %d started but moved devices %s were not stopped" % (in_start, sorted(moved - stops)), None)
                if rec and open_runs - intr_seen:
                    return ("suspension %d started with record_interruptions on but runs %s got no interruption record" % (in_start, sorted(open_runs - intr_seen)), None)
            in_start = None
        sp.feed(e)
    return (None, None)


def oracle(case, obs):
    if obs.get("errors"):
        return "driver: " + str(obs["errors"][0])[:200]
    w, _ = _analyse(case, obs)
    if w:
        return w
    return _after_release(case, obs)


def _after_release(case, obs):
    """after the release of an undisturbed suspension: _resume_from_suspender, the post-plan, rewindable <was>, then the
    cached messages (C04 replay), before the plan itself is advanced"""
    tl = cc.timeline(obs)
    sp = cc.Spec()
    fresh = cc.fresh_flags(tl, obs["tapes"])
    st = {}          # sid -> phase record
    for i, e in enumerate(tl):
        k = e[0]
        if k == "req" and e[1] and e[2] != "suspend" and not (e[2] == "pause" and e[3] is True):
            st = {}
        if k == "req" and e[1] and e[2] == "suspend":
            if st:
                st = {}          # overlapping suspensions: covered by the hold check / finding class a
            elif sp.cache is not None and sp.state == "suspending":
                st = {e[3][0]: {"phase": "hold", "post": e[3][2], "replay": None, "rw": sp.rw}}
        if k == "plan_in" and e[2][0] == "throw":
            st = {}
        if k == "out":
            st = {}
        r = None
        if k == "msg":
            for sid, a in list(st.items()):
                c, mid, fr = e[2]["cmd"], e[1], fresh[i]
                if a["phase"] == "hold":
                    if mid is None and c == "wait_for" and e[2]["args"][0] == [sid]:
                        a["phase"] = "waiting"
                elif a["phase"] == "waiting":
                    if not (mid is None and c == "_resume_from_suspender"):
                        return "after the wait of suspension %d the engine ran %s, not _resume_from_suspender" % (sid, c)
                    a["phase"] = "post"
                elif a["phase"] == "post":
                    if fr is not None and fr[0] == 1001 + 2 * sid:
                        continue
                    if not (mid is None and c == "rewindable" and e[2]["args"] == [a["rw"]]):
                        return "after the post-plan of suspension %d the engine ran %s, not rewindable(%s)" % (sid, c, a["rw"])
                    a["phase"] = "replay"
                elif a["phase"] == "replay":
                    exp = a["replay"] or []
                    if exp:
                        if fr is not None or mid != exp[0]:
                            return "after suspension %d the engine ran message #%s (%s) instead of replaying #%s" % (sid, mid, c, exp[0])
                        exp.pop(0)
                    if not exp:
                        st.pop(sid)
        rw_before = sp.rw
        r = sp.feed(e)
        if r is not None and r[0] == "suspend":
            for a in st.values():
                if a["replay"] is None:
                    a["replay"] = list(r[1])
                    a["rw"] = rw_before
    return None


def finding(case, obs):
    if obs.get("errors"):
        return None
    w, fid = _analyse(case, obs)
    return fid


def coq_term(case, obs):
    """the model reproduces the observation AND the Python finding classes stay inside the Coq ones:
    a violation classified a (b) here must be a schedule in finding_C11_a (finding_C11_b) of Proofs/RE_Hold.v"""
    if obs.get("errors"):
        return None
    from harness.drivers import engine_encode
    try:
        e = engine_encode.Enc(case, obs).encode()
    except engine_encode.Unsupported:
        return None
    t = "check %s %s %s %s %s %s %s" % (e["tapes"], e["ledger"], e["paus"], e["stag"], e["rec"], e["evs"], e["obs"])
    fid = finding(case, obs)
    if fid == "a":
        t = "andb (%s) (finding_C11_a %s)" % (t, e["evs"])
    elif fid == "b":
        t = "andb (%s) (finding_C11_b %s)" % (t, e["evs"])
    return t
