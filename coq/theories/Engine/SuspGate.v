(* C31 - installed suspenders gate plan start; removal releases waiters.

   Modelled code:
     RunEngine.install_suspender / remove_suspender            (src/bluesky/run_engine.py 1131-1170)
     RunEngine.__call__ 930-967: for every suspender in RE.suspenders, get_futures(); when some is tripped a
                                 `wait_for [ev.wait ...]` plan is pushed above the user's plan
     SuspenderBase.install / remove / __call__ / get_futures / __set_event (src/bluesky/suspenders.py 60-215):
                                 reused from Pure/SuspCond.v ([step]); here the events are numbered globally, the
                                 release `loop.call_later(sleep, ev.set)` is a timer on a clock that only the history
                                 advances ([ReleaseTimer]), and the signal keeps its current value
                                 (install subscribes with run=True and is called back with it)
     what the engine does meanwhile: waits at the gate until every gate event is set, then processes the plan's
                                 messages and returns; a suspender that trips while the engine waits at the gate
                                 requests a suspension (request_suspend -> _start_suspender, rewindable, wait_for),
                                 whose end (_resume_from_suspender, rewindable) replays the gate's wait_for.
   Outside the model ([PBroken], explicit): a second call while one is active, a further suspension requested
   while a suspension is under way (C11/C13), the plan itself doing anything but `null` messages.
   Values range over an arbitrary type with Python's <, ==, bool() as in Pure/SuspCond.v.  No proofs here. *)
From BV Require Import Base.Prelude Pure.SuspCond.
From Coq Require Import QArith.
Close Scope Q_scope.

Inductive phase :=
| PIdle
| PGate (g : list nat)                 (* waiting in the gate's wait_for on these events *)
| PSusp (inner : nat) (g : list nat)   (* a suspension requested during the gate waits on [inner]; then the gate again *)
| PBroken.

Inductive mtag := MWaitFor (n : nat) | MNull (i : nat) | MStartSusp | MRewindable | MResumeSusp.

Inductive op {T : Type} :=
| Install (s : nat)            (* RE.install_suspender(s) *)
| Remove (s : nat)             (* RE.remove_suspender(s) *)
| RemoveDirect (s : nat)       (* s.remove() *)
| Signal (s : nat) (v : T)     (* the signal of s reports v *)
| Call (k : nat)               (* RE(plan) with a plan of k null messages *)
| ReleaseTimer.                (* the clock advances to the next pending `call_later(sleep, ev.set)` *)
Arguments op : clear implicits.

(* what one operation shows *)
Record orec := mkO {
  o_msgs : list mtag;                         (* messages seen by msg_hook *)
  o_returned : bool;                          (* the blocking call returned during this operation *)
  o_running : bool;                           (* engine state afterwards: running (true) / idle *)
  o_sus : list (bool * bool * option nat);    (* per suspender: RE attached, tripped, pending event *)
  o_sched : list (nat * nat);                 (* call_later(delay, ev.set) scheduled: (event, delay) *)
  o_set : list nat                            (* events that became set *)
}.

Section Model.
  Variable T : Type.
  Variable ltb : T -> T -> bool.
  Variable eqb : T -> T -> bool.
  Variable truthy : T -> bool.

  Record sus1 := mkU {
    u_cfg : susp T;          (* class and thresholds *)
    u_sleep : nat;           (* sleep, in clock ticks *)
    u_val : T;               (* current value of its signal *)
    u_st : sstate;           (* RE attached, _ev, _tripped (Pure/SuspCond.v) *)
    u_in : bool              (* member of RE._suspenders *)
  }.

  Record state := mkSt {
    sus : list sus1;
    nextev : nat;                    (* events created so far *)
    evset : list nat;                (* events that are set *)
    timers : list (nat * nat);       (* pending call_later: (event, deadline) *)
    vt : nat;                        (* the clock *)
    ph : phase;
    plan : nat                       (* number of messages of the active call's plan *)
  }.

  Definition running (x : state) : bool := match ph x with PIdle => false | _ => true end.

  Fixpoint upd_nth {A} (n : nat) (v : A) (l : list A) : list A :=
    match l, n with
    | [], _ => []
    | _ :: t, O => v :: t
    | a :: t, S n' => a :: upd_nth n' v t
    end.

  Definition memb (e : nat) (l : list nat) : bool := existsb (Nat.eqb e) l.
  Definition all_set (g es : list nat) : bool := forallb (fun e => memb e es) g.

  Definition null_msgs (k : nat) : list mtag := map MNull (seq 1 k).

  (* some events became set: what the engine does about it.  -> (phase, messages, returned) *)
  Definition progress (p : phase) (es : list nat) (k : nat) : phase * list mtag * bool :=
    match p with
    | PGate g => if all_set g es then (PIdle, null_msgs k, true) else (PGate g, [], false)
    | PSusp i g =>
        if memb i es then
          if all_set g es then (PIdle, [MResumeSusp; MRewindable; MWaitFor (length g)] ++ null_msgs k, true)
          else (PGate g, [MResumeSusp; MRewindable; MWaitFor (length g)], false)
        else (PSusp i g, [], false)
    | other => (other, [], false)
    end.

  (* the suspender's own step, with globally numbered events *)
  Definition sus_step (x : state) (u : sus1) (o : SuspCond.op T) : sus1 * list obs * nat :=
    let st0 := mkS (st_installed (u_st u)) (st_ev (u_st u)) (st_tripped (u_st u)) (nextev x) in
    let '(st1, os) := SuspCond.step T ltb eqb truthy (u_cfg u) st0 o in
    (mkU (u_cfg u) (u_sleep u) (u_val u) st1 (u_in u), os, st_next st1).

  Definition view (x : state) : list (bool * bool * option nat) :=
    map (fun u => (st_installed (u_st u), st_tripped (u_st u), st_ev (u_st u))) (sus x).

  (* apply what the suspender scheduled: request_suspend / call_later(sleep, ev.set) *)
  Definition after_sus (x : state) (s : nat) (u' : sus1) (os : list obs) (nx : nat) : state * orec :=
    let sus' := upd_nth s u' (sus x) in
    (* releases: immediate when sleep = 0, else a timer *)
    let rels := flat_map (fun o => match o with ORelease e => [e] | _ => [] end) os in
    let reqs := flat_map (fun o => match o with OReq e => [e] | _ => [] end) os in
    let now := if Nat.eqb (u_sleep u') 0 then rels else [] in
    let later := if Nat.eqb (u_sleep u') 0 then [] else map (fun e => (e, vt x + u_sleep u')) rels in
    let es := evset x ++ now in
    (* a suspension requested while the engine is active *)
    let '(p1, m1) :=
      match reqs with
      | [] => (ph x, [])
      | e :: _ =>
          match ph x with
          | PGate g => (PSusp e g, [MStartSusp; MRewindable; MWaitFor 1])
          | PIdle => (PIdle, [])
          | _ => (PBroken, [])
          end
      end in
    let '(p2, m2, ret) := progress p1 es (plan x) in
    let x' := mkSt sus' nx es (timers x ++ later) (vt x) p2 (plan x) in
    (x', mkO (m1 ++ m2) ret (running x') (view x') (map (fun e => (e, u_sleep u')) rels) now).

  Definition quiet (x : state) : state * orec := (x, mkO [] false (running x) (view x) [] []).

  Definition env_of (x : state) : env := mkEnv (running x) true.

  (* events of the tripped installed suspenders, in RE.suspenders order; get_futures() creates a missing event *)
  Fixpoint gate_events (l : list sus1) (nx : nat) : list sus1 * list nat * nat :=
    match l with
    | [] => ([], [], nx)
    | u :: t =>
        if u_in u && st_tripped (u_st u) then
          match st_ev (u_st u) with
          | Some e => let '(t', g, n') := gate_events t nx in (u :: t', e :: g, n')
          | None =>
              if st_installed (u_st u) then
                let u' := mkU (u_cfg u) (u_sleep u) (u_val u) (mkS true (Some nx) true (st_next (u_st u))) (u_in u) in
                let '(t', g, n') := gate_events t (S nx) in (u' :: t', nx :: g, n')
              else let '(t', g, n') := gate_events t nx in (u :: t', g, n')
          end
        else let '(t', g, n') := gate_events t nx in (u :: t', g, n')
    end.

  Definition step (x : state) (a : op T) : state * orec :=
    match ph x with
    | PBroken => quiet x
    | _ =>
      match a with
      | Install s =>
          match nth_error (sus x) s with
          | None => quiet x
          | Some u =>
              let u0 := mkU (u_cfg u) (u_sleep u) (u_val u) (u_st u) true in
              let '(u', os, nx) := sus_step x u0 (OpInstall (u_val u) (env_of x)) in
              after_sus x s u' os nx
          end
      | Remove s =>
          match nth_error (sus x) s with
          | None => quiet x
          | Some u =>
              if u_in u then
                let '(u', os, nx) := sus_step x u OpRemove in
                after_sus x s (mkU (u_cfg u') (u_sleep u') (u_val u') (u_st u') false) os nx
              else quiet x
          end
      | RemoveDirect s =>
          match nth_error (sus x) s with
          | None => quiet x
          | Some u => let '(u', os, nx) := sus_step x u OpRemove in after_sus x s u' os nx
          end
      | Signal s v =>
          match nth_error (sus x) s with
          | None => quiet x
          | Some u =>
              let u0 := mkU (u_cfg u) (u_sleep u) v (u_st u) (u_in u) in
              let '(u', os, nx) := sus_step x u0 (OpValue v (env_of x)) in
              after_sus x s u' os nx
          end
      | Call k =>
          match ph x with
          | PIdle =>
              let '(sus', g, nx) := gate_events (sus x) (nextev x) in
              match g with
              | [] =>
                  let x' := mkSt sus' nx (evset x) (timers x) (vt x) PIdle k in
                  (x', mkO (null_msgs k) true false (view x') [] [])
              | _ =>
                  (* the wait_for is processed at once; it returns at once when every event is already set *)
                  let '(p2, m2, ret) := progress (PGate g) (evset x) k in
                  let x' := mkSt sus' nx (evset x) (timers x) (vt x) p2 k in
                  (x', mkO (MWaitFor (length g) :: m2) ret (running x') (view x') [] [])
              end
          | _ => (mkSt (sus x) (nextev x) (evset x) (timers x) (vt x) PBroken (plan x), mkO [] false true (view x) [] [])
          end
      | ReleaseTimer =>
          match timers x with
          | [] => quiet x
          | (e0, d0) :: _ =>
              let d := fold_left (fun m ed => Nat.min m (snd ed)) (timers x) d0 in
              let fired := map fst (filter (fun ed => Nat.leb (snd ed) d) (timers x)) in
              let rest := filter (fun ed => negb (Nat.leb (snd ed) d)) (timers x) in
              let es := evset x ++ fired in
              let '(p2, m2, ret) := progress (ph x) es (plan x) in
              let x' := mkSt (sus x) (nextev x) es rest (Nat.max (vt x) d) p2 (plan x) in
              (x', mkO m2 ret (running x') (view x') [] fired)
          end
      end
    end.

  Fixpoint run_from (x : state) (h : list (op T)) : state * list orec :=
    match h with
    | [] => (x, [])
    | a :: h' =>
        let '(x1, r) := step x a in
        let '(x2, rs) := run_from x1 h' in
        (x2, r :: rs)
    end.

  Definition init (cfgs : list (susp T * nat * T)) : state :=
    mkSt (map (fun c => mkU (fst (fst c)) (snd (fst c)) (snd c) init_state false) cfgs) 0 [] [] 0 PIdle 0.

  Definition has_null (ms : list mtag) : bool := existsb (fun m => match m with MNull _ => true | _ => false end) ms.

  (* the events a call has to wait for: those of the suspenders that are installed and tripped when it starts *)
  Definition gate_of_call (x : state) : list nat := snd (fst (gate_events (sus x) (nextev x))).

  (* the history never leaves the modelled fragment *)
  Fixpoint in_model_from (x : state) (h : list (op T)) : bool :=
    match h with
    | [] => match ph x with PBroken => false | _ => true end
    | a :: h' => match ph x with PBroken => false | _ => in_model_from (fst (step x a)) h' end
    end.

End Model.

Arguments mkU {T}.
Arguments u_cfg {T}.
Arguments u_sleep {T}.
Arguments u_val {T}.
Arguments u_st {T}.
Arguments u_in {T}.
Arguments sus {T}.
Arguments nextev {T}.
Arguments evset {T}.
Arguments timers {T}.
Arguments vt {T}.
Arguments ph {T}.
Arguments plan {T}.

(* ------------------------------------------------------------------ the rational instance and the tie *)

Definition Qstep := step Q Qltb Qeq_bool Qtruthy.
Definition Qrun := run_from Q Qltb Qeq_bool Qtruthy.
Definition Qinit := init Q.

Definition mtag_beq (a b : mtag) : bool :=
  match a, b with
  | MWaitFor n, MWaitFor m => Nat.eqb n m
  | MNull i, MNull j => Nat.eqb i j
  | MStartSusp, MStartSusp | MRewindable, MRewindable | MResumeSusp, MResumeSusp => true
  | _, _ => false
  end.

Definition sview_beq (a b : bool * bool * option nat) : bool :=
  Bool.eqb (fst (fst a)) (fst (fst b)) && Bool.eqb (snd (fst a)) (snd (fst b)) && option_beq Nat.eqb (snd a) (snd b).

Definition orec_beq (a b : orec) : bool :=
  list_beq mtag_beq (o_msgs a) (o_msgs b) && Bool.eqb (o_returned a) (o_returned b)
  && Bool.eqb (o_running a) (o_running b) && list_beq sview_beq (o_sus a) (o_sus b)
  && list_beq (prod_beq Nat.eqb Nat.eqb) (o_sched a) (o_sched b) && lnat_beq (o_set a) (o_set b).

Definition case_ok (cfgs : list (susp Q * nat * Q)) (h : list (op Q)) (recs : list orec) : bool :=
  list_beq orec_beq (snd (Qrun (Qinit cfgs) h)) recs
  && in_model_from Q Qltb Qeq_bool Qtruthy (Qinit cfgs) h.

(* boolean restatement of the gate theorem on one history (used when a proof breaks): whenever an operation shows
   plan messages, every gate event of the call it belongs to is set *)
Fixpoint gate_ok_from (x : state Q) (g : list nat) (h : list (op Q)) : bool :=
  match h with
  | [] => true
  | a :: h' =>
      let g' := match a, ph x with Call _, PIdle => gate_of_call Q x | _, _ => g end in
      let '(x1, r) := Qstep x a in
      (negb (has_null (o_msgs r)) || all_set g' (evset x1)) && gate_ok_from x1 g' h'
  end.
