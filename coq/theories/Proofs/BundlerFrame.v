(* Proof infrastructure for Engine/Bundler.v: a relational frame rule for the state/error monad.
   [rel R m] : every run of m moves the state along the preorder R (whatever the outcome, Ok or Err);
   invariants are the instance R s s' := I s -> I s'.  The tactic [rel_go] walks a program built from the
   model's combinators and leaves one goal per [modify]. *)
From BV Require Import Base.Prelude Engine.Bundler.
From Coq Require Import ZArith List Bool Lia.
Import ListNotations.

Record preorder := mkPre {
  pr_R :> bstate -> bstate -> Prop;
  pr_refl : forall s, pr_R s s;
  pr_trans : forall a b c, pr_R a b -> pr_R b c -> pr_R a c
}.

Definition rel (R : preorder) {A} (m : M A) : Prop := forall s, R s (fst (m s)).

Section Rel.
  Variable R : preorder.

  Lemma rel_ret {A} (a : A) : rel R (ret a).
  Proof. intro s; apply pr_refl. Qed.
  Lemma rel_fail {A} e : rel R (@fail A e).
  Proof. intro s; apply pr_refl. Qed.
  Lemma rel_get : rel R get.
  Proof. intro s; apply pr_refl. Qed.
  Lemma rel_guard b e : rel R (guard b e).
  Proof. destruct b; [apply rel_ret | apply rel_fail]. Qed.
  Lemma rel_of_opt {A} (o : option A) e : rel R (of_opt o e).
  Proof. destruct o; [apply rel_ret | apply rel_fail]. Qed.
  Lemma rel_of_res {A} (r : res A) : rel R (of_res r).
  Proof. destruct r; [apply rel_ret | apply rel_fail]. Qed.
  Lemma rel_modify f : (forall s, R s (f s)) -> rel R (modify f).
  Proof. intros H s; apply H. Qed.
  Lemma rel_bind {A B} (m : M A) (k : A -> M B) :
    rel R m -> (forall a, rel R (k a)) -> rel R (bind m k).
  Proof.
    intros Hm Hk s. unfold bind. specialize (Hm s). destruct (m s) as [s1 [a|e]]; cbn in *.
    - eapply pr_trans; [exact Hm | apply Hk].
    - exact Hm.
  Qed.
  Lemma rel_iterM {X} (f : X -> M unit) l : (forall x, rel R (f x)) -> rel R (iterM f l).
  Proof.
    intros Hf. induction l as [|x l IH]; cbn [iterM]; [apply rel_ret|].
    apply rel_bind; [apply Hf | intros _; exact IH].
  Qed.
  Lemma rel_swallow m : rel R m -> rel R (swallow m).
  Proof.
    intros Hm s. unfold swallow. specialize (Hm s). destruct (m s) as [s1 [a|e]]; cbn in *; [exact Hm|].
    destruct e; exact Hm.
  Qed.
  Lemma rel_gather2 m1 m2 : rel R m1 -> rel R m2 -> rel R (gather2 m1 m2).
  Proof.
    intros H1 H2 s. unfold gather2. specialize (H1 s). destruct (m1 s) as [s1 r1].
    specialize (H2 s1). destruct (m2 s1) as [s2 r2]. cbn in *. eapply pr_trans; eauto.
  Qed.
End Rel.

(* head symbol of an application *)
Ltac head_of t := lazymatch t with ?f _ => head_of f | _ => t end.

(* [rel_go tac]: decompose; [tac] must solve the goals [R s (f s)] coming from [modify f].
   Named sub-programs are first looked up in the hint database [rel_db], else unfolded. *)
Create HintDb rel_db.
Ltac rel_go tac :=
  lazymatch goal with
  | |- rel _ (bind _ _) => apply rel_bind; [ rel_go tac | intro; rel_go tac ]
  | |- rel _ (ret _) => apply rel_ret
  | |- rel _ (fail _) => apply rel_fail
  | |- rel _ get => apply rel_get
  | |- rel _ (guard _ _) => apply rel_guard
  | |- rel _ (of_opt _ _) => apply rel_of_opt
  | |- rel _ (of_res _) => apply rel_of_res
  | |- rel _ (modify _) => apply rel_modify; intro; tac
  | |- rel _ (iterM _ _) => apply rel_iterM; intro; rel_go tac
  | |- rel _ (swallow _) => apply rel_swallow; rel_go tac
  | |- rel _ (gather2 _ _) => apply rel_gather2; rel_go tac
  | |- rel _ (if ?b then _ else _) => destruct b; rel_go tac
  | |- rel _ (match ?x with _ => _ end) => destruct x; rel_go tac
  | |- rel _ (let _ := _ in _) => cbv zeta; rel_go tac
  | |- rel _ ?m =>
      first [ solve [auto with rel_db]
            | let h := head_of m in unfold h; rel_go tac ]
  end.

(* the Fixpoint programs need their own induction once per preorder; this tactic proves them *)
Ltac rel_fix tac l := induction l; cbn -[bind ret]; rel_go tac.

(* ---- lemmas about run / final / trace *)
Lemma run_app E s h1 h2 :
  run E s (h1 ++ h2) = (fst (run E (fst (run E s h1)) h2), snd (run E s h1) ++ snd (run E (fst (run E s h1)) h2)).
Proof.
  revert s. induction h1 as [|o h1 IH]; intros s; cbn [run app fst snd].
  - destruct (run E s h2); reflexivity.
  - rewrite IH. reflexivity.
Qed.
Lemma final_app E s h1 h2 : final E s (h1 ++ h2) = final E (final E s h1) h2.
Proof. unfold final. rewrite run_app. reflexivity. Qed.
Lemma trace_app E s h1 h2 : trace E s (h1 ++ h2) = trace E s h1 ++ trace E (final E s h1) h2.
Proof. unfold trace, final. rewrite run_app. cbn [snd]. rewrite map_app, concat_app. reflexivity. Qed.
Lemma final_snoc E s h o : final E s (h ++ [o]) = fst (fst (step E (final E s h) o)).
Proof. rewrite final_app. reflexivity. Qed.
Lemma trace_snoc E s h o : trace E s (h ++ [o]) = trace E s h ++ snd (fst (step E (final E s h) o)).
Proof. rewrite trace_app. unfold trace. cbn. rewrite app_nil_r. reflexivity. Qed.

(* an invariant of all reachable states: holds initially, kept by every op *)
Lemma reach_ind (P : bstate -> list doc -> Prop) E s0 :
  P s0 [] ->
  (forall s tr o, P s tr -> P (fst (fst (step E s o))) (tr ++ snd (fst (step E s o)))) ->
  forall h, P (final E s0 h) (trace E s0 h).
Proof.
  intros H0 Hs h. induction h as [|o h IH] using rev_ind.
  - exact H0.
  - rewrite final_snoc, trace_snoc. apply Hs. exact IH.
Qed.

(* ---- inversion of successful / failed runs through the combinators *)
Lemma bind_ok {A B} (m : M A) (k : A -> M B) s s' b :
  bind m k s = (s', Ok b) -> exists a s1, m s = (s1, Ok a) /\ k a s1 = (s', Ok b).
Proof. unfold bind. destruct (m s) as [s1 [a|e]]; intros H; [eauto | discriminate]. Qed.
Lemma bind_err {A B} (m : M A) (k : A -> M B) s s' e :
  bind m k s = (s', Err e) ->
  m s = (s', Err e) \/ exists a s1, m s = (s1, Ok a) /\ k a s1 = (s', Err e).
Proof.
  unfold bind. destruct (m s) as [s1 [a|e']]; intros H; [right; eauto | left].
  inversion H; reflexivity.
Qed.
Lemma get_ok s s' a : get s = (s', Ok a) -> s' = s /\ a = s.
Proof. unfold get. intros H; inversion H; auto. Qed.
Lemma ret_ok {A} (a : A) s s' a' : ret a s = (s', Ok a') -> s' = s /\ a' = a.
Proof. unfold ret. intros H; inversion H; auto. Qed.
Lemma modify_ok f s s' u : modify f s = (s', Ok u) -> s' = f s.
Proof. unfold modify. intros H; inversion H; auto. Qed.
Lemma guard_ok b e s s' u : guard b e s = (s', Ok u) -> s' = s /\ b = true.
Proof. destruct b; cbn; intros H; inversion H; auto. Qed.
Lemma guard_err b e s s' e' : guard b e s = (s', Err e') -> s' = s /\ b = false /\ e' = e.
Proof. destruct b; cbn; intros H; inversion H; auto. Qed.
Lemma of_opt_ok {A} (o : option A) e s s' a : of_opt o e s = (s', Ok a) -> s' = s /\ o = Some a.
Proof. destruct o; cbn; intros H; inversion H; auto. Qed.
Lemma of_opt_err {A} (o : option A) e s s' e' : of_opt o e s = (s', Err e') -> s' = s /\ o = None /\ e' = e.
Proof. destruct o; cbn; intros H; inversion H; auto. Qed.
Lemma of_res_ok {A} (r : res A) s s' a : of_res r s = (s', Ok a) -> s' = s /\ r = Ok a.
Proof. destruct r; cbn; intros H; inversion H; auto. Qed.
Lemma fail_ok {A} e s s' (a : A) : fail e s = (s', Ok a) -> False.
Proof. unfold fail; intros H; discriminate. Qed.

(* [minv]: split every hypothesis [prog s = (s', Ok x)] along binds and primitives, as far as it goes *)
Ltac minv1 :=
  match goal with
  | H : bind _ _ _ = (_, Ok _) |- _ => apply bind_ok in H; destruct H as (? & ? & ? & ?)
  | H : get _ = (_, Ok _) |- _ => apply get_ok in H; destruct H; subst
  | H : ret _ _ = (_, Ok _) |- _ => apply ret_ok in H; destruct H; subst
  | H : modify _ _ = (_, Ok _) |- _ => apply modify_ok in H; subst
  | H : guard _ _ _ = (_, Ok _) |- _ => apply guard_ok in H; destruct H; subst
  | H : of_opt _ _ _ = (_, Ok _) |- _ => apply of_opt_ok in H; destruct H; subst
  | H : of_res _ _ = (_, Ok _) |- _ => apply of_res_ok in H; destruct H; subst
  | H : fail _ _ = (_, Ok _) |- _ => apply fail_ok in H; contradiction
  end.
Ltac minv := repeat minv1.

(* programs made of get / guard / of_opt only do not move the state *)
Lemma iterM_pure {X} (f : X -> M unit) l : (forall x s, fst (f x s) = s) -> forall s, fst (iterM f l s) = s.
Proof.
  intros Hf. induction l as [|x l IH]; intros s; cbn; [reflexivity|].
  unfold bind. specialize (Hf x s). destruct (f x s) as [s1 [u|e]]; cbn in *; subst; [apply IH | reflexivity].
Qed.

(* ---- dict facts *)
Lemma dget_dset_eq {V} (d : dict V) k v : dget (dset d k v) k = Some v.
Proof.
  induction d as [|[k' v'] d IH]; cbn; [rewrite Nat.eqb_refl; reflexivity|].
  destruct (Nat.eqb k k') eqn:Ek; cbn; [rewrite Nat.eqb_refl; reflexivity | rewrite Ek; exact IH].
Qed.
Lemma dget_dset_neq {V} (d : dict V) k k' v : k <> k' -> dget (dset d k v) k' = dget d k'.
Proof.
  intros Hn. induction d as [|[k0 v0] d IH]; cbn.
  - destruct (Nat.eqb k' k) eqn:Ek; [apply Nat.eqb_eq in Ek; congruence | reflexivity].
  - destruct (Nat.eqb k k0) eqn:Ek; cbn.
    + apply Nat.eqb_eq in Ek; subst k0.
      destruct (Nat.eqb k' k) eqn:Ek'; [apply Nat.eqb_eq in Ek'; congruence | reflexivity].
    + destruct (Nat.eqb k' k0); [reflexivity | exact IH].
Qed.
Lemma dget_dset {V} (d : dict V) k k' v :
  dget (dset d k v) k' = if Nat.eqb k k' then Some v else dget d k'.
Proof.
  destruct (Nat.eqb k k') eqn:Ek.
  - apply Nat.eqb_eq in Ek; subst. apply dget_dset_eq.
  - apply Nat.eqb_neq in Ek. apply dget_dset_neq; exact Ek.
Qed.
Lemma dmem_dset {V} (d : dict V) k k' v : dmem (dset d k v) k' = Nat.eqb k k' || dmem d k'.
Proof. unfold dmem. rewrite dget_dset. destruct (Nat.eqb k k'); reflexivity. Qed.

(* invariants as a preorder *)
Definition inv_pre (I : bstate -> Prop) : preorder.
Proof. refine (mkPre (fun s s' => I s -> I s') _ _); auto. Defined.

Lemma step_inv E s o s' docs r :
  step E s o = (s', docs, r) ->
  exists r0, exec E o (clear_buffers s) = (s', r0) /\ docs = b_out s' /\ r = to_result r0.
Proof.
  unfold step. destruct (exec E o (clear_buffers s)) as [s1 r0]. cbn. intros H. inversion H; subst. eauto.
Qed.
Lemma to_result_ok r : to_result r = ROk -> r = Ok tt.
Proof. destruct r as [[]|]; cbn; [reflexivity | discriminate]. Qed.

(* ---- one-step symbolic execution (the program applied to a state) *)
Lemma bind_get_eq {B} (k : bstate -> M B) s : bind get k s = k s s.
Proof. reflexivity. Qed.
Lemma bind_modify_eq {B} f (k : unit -> M B) s : bind (modify f) k s = k tt (f s).
Proof. reflexivity. Qed.
Lemma bind_ret_eq {A B} (a : A) (k : A -> M B) s : bind (ret a) k s = k a s.
Proof. reflexivity. Qed.
Lemma bind_fail_eq {A B} e (k : A -> M B) s : bind (fail e) k s = (s, Err e).
Proof. reflexivity. Qed.
Lemma bind_guard_eq {B} b e (k : unit -> M B) s :
  bind (guard b e) k s = if b then k tt s else (s, Err e).
Proof. destruct b; reflexivity. Qed.
Lemma bind_of_opt_eq {A B} (o : option A) e (k : A -> M B) s :
  bind (of_opt o e) k s = match o with Some a => k a s | None => (s, Err e) end.
Proof. destruct o; reflexivity. Qed.
Lemma bind_bind_eq {A B C} (m : M A) (k : A -> M B) (k' : B -> M C) s :
  bind (bind m k) k' s = bind m (fun a => bind (k a) k') s.
Proof. unfold bind. destruct (m s) as [s1 [a|e]]; reflexivity. Qed.

(* continue with the frame rule on the rest of a program *)
Lemma rel_apply (R : preorder) {A} (m : M A) s : rel R m -> R s (fst (m s)).
Proof. intro H; apply H. Qed.
