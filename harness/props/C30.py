"""C30 - suspenders trip and release exactly on their documented conditions.

The real classes of bluesky.suspenders are driven with a fake signal, a fake RunEngine
(`.state.is_running`, `._loop`, `request_suspend`) and a fake loop (`call_soon_threadsafe`,
`call_later`); observed per operation: what was scheduled (request_suspend for which event /
ev.set for which event / RuntimeError), `tripped`, the pending event, and the answers of the
instance's own _should_suspend/_should_resume.  Events are numbered in creation order.
"""
import contextlib
import io
import itertools
import math
import warnings
from fractions import Fraction

ID = "C30"
PROP_FILE = "Props/C30.v"
THEOREMS = ["C30_constructor_validates_as_documented", "C30_given_values_honoured",
            "C30_conditions_as_documented", "C30_never_both", "C30_tripped_is_last_decision",
            "C30_release_only_on_resume", "C30_request_only_on_suspend",
            "C30_indecisive_value_is_noop", "C30_remove_releases", "C30_rational_instance_is_ordered"]
COQ_IMPORTS = "From BV Require Import Pure.SuspCond.\nFrom Coq Require Import QArith.\nClose Scope Q_scope."
MODELLED = ("bluesky/suspenders.py is modelled: the eight classes' constructors (defaulting, _validate, band check), "
            "_should_suspend/_should_resume and SuspenderBase.__call__/install/remove (RE is None, _ev, _tripped, what is "
            "scheduled on the loop). Values are an abstract type with Python's <, ==, bool(); the theorems assume only "
            "co-transitivity of < (true of every non-NaN number type; NaN and +-inf are outside the rational instance the "
            "correspondence runs, +-inf is still covered by the abstract theorems). Trusted/not modelled: threading.Lock, "
            "asyncio.Event itself, the justification text, what RunEngine.request_suspend does with the request (C11/C31).")
RULE = ("exhaustive: every class x thresholds/band limits/expected values from the 5-point grid {-2,-1,0,1,2} (resume_thresh/"
        "expected_value also None; both allow_resume values; every signal value) x [all value sequences of length <=1 (thorough <=3) "
        "from the grid after install] + de Bruijn sequences over the grid (order 2; thorough 3) with mixed engine-running flags and "
        "remove/re-install; random: float thresholds, values at/next to the thresholds (nextafter), 0, -0.0, bools, huge/tiny floats, "
        "histories of install/remove/value ops; a few non-responsive-loop steps (event creation times out); string values for "
        "SuspendWhenChanged; malformed stream: non-numeric values/thresholds (TypeError, not sent to the model). "
        "non-trivial = constructor rejected, or the history both trips and releases")

GRID = [-2, -1, 0, 1, 2]
CLASSES = ["SuspendBoolHigh", "SuspendBoolLow", "SuspendFloor", "SuspendCeil",
           "SuspendWhenOutsideBand", "SuspendInBand", "SuspendOutBand", "SuspendWhenChanged"]
STR_CODE = {"": 1000003, "a": 1000004, "b": 1000005, "none": 1000006, "2-BM-A": 1000007}


# ----------------------------------------------------------------------------- case generation

def de_bruijn(k, n):
    """Standard de Bruijn sequence B(k, n) over range(k) (cyclic), unrolled with n-1 wrap symbols."""
    a = [0] * (k * n)
    seq = []

    def db(t, p):
        if t > n:
            if n % p == 0:
                seq.extend(a[1:p + 1])
        else:
            a[t] = a[t - p]
            db(t + 1, p)
            for j in range(a[t - p] + 1, k):
                a[t] = j
                db(t + 1, t)

    db(1, 1)
    return seq + seq[:n - 1]


def configs():
    out = [("SuspendBoolHigh", {}), ("SuspendBoolLow", {})]
    for cls in ("SuspendFloor", "SuspendCeil"):
        for s in GRID:
            for r in [None] + GRID:
                out.append((cls, {"suspend_thresh": s, "resume_thresh": r}))
    for cls in ("SuspendWhenOutsideBand", "SuspendInBand", "SuspendOutBand"):
        for b in GRID:
            for t in GRID:
                out.append((cls, {"band_bottom": b, "band_top": t}))
    for e in [None] + GRID:
        for allow in (False, True):
            for sv in GRID:
                out.append(("SuspendWhenChanged", {"expected_value": e, "allow_resume": allow, "sigval": sv}))
    return out


def mk(cls, kw, ops, sleep=0, probes=None):
    return {"cls": cls, "kw": kw, "ops": ops, "sleep": sleep, "probes": GRID if probes is None else probes}


def _first_value(kw):
    return kw.get("sigval", 0)


def cases(rng, tier):
    out = []
    thorough = tier != "quick"
    seqlen = 3 if thorough else 1
    db2 = [GRID[i] for i in de_bruijn(5, 2)]
    db3 = [GRID[i] for i in de_bruijn(5, 3)]
    for cls, kw in configs():
        first = _first_value(kw)
        # all short value sequences after install (engine running)
        for n in range(0, seqlen + 1):
            for vs in itertools.product(GRID, repeat=n):
                out.append(mk(cls, kw, [["install", first, True, True]] + [["value", v, True, True] for v in vs]))
        # de Bruijn walks with mixed running flags, a remove and a re-install in the middle
        for walk in ([db2, db2[::-1]] + ([db3] if thorough else [])):
            ops = [["install", first, rng.random() < 0.7, True]]
            for i, v in enumerate(walk):
                ops.append(["value", v, rng.random() < 0.7, True])
                if i == len(walk) // 2:
                    ops.append(["remove"])
                    ops.append(["value", walk[i - 1], True, True])
                    ops.append(["install", v, rng.random() < 0.5, True])
            out.append(mk(cls, kw, ops))
        # values reported before install are ignored
        out.append(mk(cls, kw, [["value", 2, True, True], ["value", -2, True, True], ["remove"],
                                ["install", first, True, True], ["value", -2, True, True], ["value", 2, True, True]]))
    # random floats
    nrand = 4000 if thorough else 400
    slow_budget = 60 if thorough else 12
    for _ in range(nrand):
        cls = rng.choice(CLASSES)
        c = lambda: rng.choice([rng.uniform(-10, 10), float(rng.randint(-3, 3)), rng.randint(-3, 3), 0, 0.0, -0.0,
                                rng.choice([1e300, -1e300, 5e-324, -5e-324, 2.0 ** 53, 0.1, -0.1])])
        kw = {}
        special = [0, 0.0, -0.0, True, False, 1, -1]
        if cls in ("SuspendFloor", "SuspendCeil"):
            s = c()
            r = rng.choice([None, None, s, c(), s + abs(c()), s - abs(c())])
            kw = {"suspend_thresh": s, "resume_thresh": r}
            special += [s] + ([r] if r is not None else [])
        elif cls in ("SuspendWhenOutsideBand", "SuspendInBand", "SuspendOutBand"):
            b = c()
            t = rng.choice([b + abs(c()) + 0.5, b + 1, c(), b])
            kw = {"band_bottom": b, "band_top": t}
            special += [b, t, (b + t) / 2 if abs(b) < 1e200 and abs(t) < 1e200 else 0]
        elif cls == "SuspendWhenChanged":
            strs = rng.random() < 0.2
            pool = ["", "a", "b", "none", "2-BM-A"] if strs else [0, 0.0, False, 1, 2, 1.5, c()]
            e = rng.choice([None] + pool)
            kw = {"expected_value": e, "allow_resume": rng.random() < 0.6, "sigval": rng.choice(pool)}
            special = list(pool)
        near = []
        for x in special:
            if isinstance(x, float) and math.isfinite(x):
                near += [math.nextafter(x, math.inf), math.nextafter(x, -math.inf)]
        pool = special + near
        if not (cls == "SuspendWhenChanged" and isinstance(pool[0], str)):
            pool = pool + [c() for _ in range(3)]
        ops = [["install", kw.get("sigval", rng.choice(pool)), rng.random() < 0.8, True]]
        for _k in range(rng.randint(1, 12)):
            x = rng.random()
            if x < 0.08:
                ops.append(["remove"])
            elif x < 0.14:
                ops.append(["install", rng.choice(pool), rng.random() < 0.8, True])
            else:
                resp = True
                if slow_budget > 0 and rng.random() < 0.02:
                    resp = False
                    slow_budget -= 1
                ops.append(["value", rng.choice(pool), rng.random() < 0.8, resp])
        out.append(mk(cls, kw, ops, sleep=rng.choice([0, 0, 0.5, 3]), probes=pool[:12]))
    # event creation times out (loop not responsive): RuntimeError, tripped stays set, no event
    for cls, kw in [("SuspendBoolHigh", {}), ("SuspendFloor", {"suspend_thresh": 0, "resume_thresh": 1}),
                    ("SuspendWhenChanged", {"expected_value": 0, "allow_resume": True, "sigval": 0})]:
        out.append(mk(cls, kw, [["install", 0, True, True], ["value", -1 if cls != "SuspendBoolHigh" else 1, True, False],
                                ["value", -1 if cls != "SuspendBoolHigh" else 1, True, True],
                                ["value", 0 if cls != "SuspendFloor" else 1, True, False]]))
    # malformed stream (outside the modelled fragment: no total order between the operands)
    out.append(dict(mk("SuspendFloor", {"suspend_thresh": 0, "resume_thresh": None},
                       [["install", 1, True, True], ["value", None, True, True]]), malformed=True))
    out.append(dict(mk("SuspendCeil", {"suspend_thresh": "x", "resume_thresh": 1}, []), malformed=True))
    out.append(dict(mk("SuspendWhenOutsideBand", {"band_bottom": None, "band_top": 1}, []), malformed=True))
    out.append(dict(mk("SuspendOutBand", {"band_bottom": 0, "band_top": 1},
                       [["install", 0.5, True, True], ["value", "x", True, True]]), malformed=True))
    out.append(dict(mk("SuspendFloor", {"suspend_thresh": 0, "resume_thresh": float("nan")},
                       [["install", 1, True, True], ["value", float("nan"), True, True]]), malformed=True))
    return out


# ----------------------------------------------------------------------------- implementation side

class _Handle:
    def __init__(self, f, a):
        self.f, self.a, self.cancelled = f, a, False

    def cancel(self):
        self.cancelled = True


class _Loop:
    """call_soon_threadsafe runs the callback at once when `responsive`, else queues it until the
    operation is over (a cancelled handle never runs); call_later only records."""

    def __init__(self, rec):
        self.responsive = True
        self.queue = []
        self.rec = rec

    def _note(self, f, delay):
        import asyncio
        owner = getattr(f, "__self__", None)
        if isinstance(owner, asyncio.Event) and getattr(f, "__name__", "") == "set":
            self.rec.append(("release", owner, delay))
            return True
        return False

    def call_soon_threadsafe(self, f, *a):
        h = _Handle(f, a)
        if self._note(f, 0):
            return h
        if self.responsive:
            f(*a)
        else:
            self.queue.append(h)
        return h

    def call_later(self, delay, f, *a):
        if not self._note(f, delay):
            self.rec.append(("later-unknown", None, delay))
        return _Handle(f, a)

    def flush(self):
        q, self.queue = self.queue, []
        for h in q:
            if not h.cancelled:
                h.f(*h.a)


class _State:
    is_running = True


class _RE:
    def __init__(self, rec, pre, post):
        self.rec, self.pre, self.post = rec, pre, post
        self._loop = _Loop(rec)
        self.state = _State()

    def request_suspend(self, fut, *, pre_plan=None, post_plan=None, justification=None):
        import asyncio
        owner = getattr(fut, "__self__", None)
        good = (isinstance(owner, asyncio.Event) and getattr(fut, "__name__", "") == "wait"
                and pre_plan is self.pre and post_plan is self.post and isinstance(justification, str) and justification)
        self.rec.append(("req" if good else "req-bad", owner, None))


class _Signal:
    name = "sig"

    def __init__(self, v):
        self._v = v
        self.subs = []

    @property
    def value(self):
        return self._v

    def get(self):
        return self._v

    def subscribe(self, cb, event_type=None, run=True):
        self.subs.append(cb)
        if run:
            cb(value=self._v, old_value=self._v, timestamp=0.0, obj=self, sub_type="value")
        return len(self.subs)

    def clear_sub(self, cb, event_type=None):
        self.subs = [s for s in self.subs if s is not cb]


def _ctor_args(case):
    kw = dict(case["kw"])
    cls = case["cls"]
    sigval = kw.pop("sigval", 0)
    if cls in ("SuspendFloor", "SuspendCeil"):
        return sigval, [kw["suspend_thresh"]], {"resume_thresh": kw["resume_thresh"]}
    if cls in ("SuspendWhenOutsideBand", "SuspendInBand", "SuspendOutBand"):
        return sigval, [kw["band_bottom"], kw["band_top"]], {}
    if cls == "SuspendWhenChanged":
        return sigval, [], {"expected_value": kw["expected_value"], "allow_resume": kw["allow_resume"]}
    return sigval, [], {}


def impl(case):
    from bluesky import suspenders as S
    rec = []
    pre, post = object(), object()
    RE = _RE(rec, pre, post)
    sigval, a, kw = _ctor_args(case)
    sig = _Signal(sigval)
    sleep = case.get("sleep", 0)
    sink = io.StringIO()
    with warnings.catch_warnings(), contextlib.redirect_stdout(sink):
        warnings.simplefilter("ignore")
        try:
            su = getattr(S, case["cls"])(sig, *a, sleep=sleep, pre_plan=pre, post_plan=post, tripped_message="m", **kw)
        except ValueError:
            return {"ctor": "ValueError", "probes": [], "steps": []}
        except TypeError:
            return {"ctor": "TypeError", "probes": [], "steps": []}
        try:
            probes = [[bool(su._should_suspend(v)), bool(su._should_resume(v))] for v in case["probes"]]
        except TypeError:
            return {"ctor": "ok", "probes": "TypeError", "steps": []}
        events = []   # creation order; kept alive so ids are not reused

        def idx(ev):
            for i, e in enumerate(events):
                if e is ev:
                    return i
            events.append(ev)
            return len(events) - 1

        steps = []
        for op in case["ops"]:
            del rec[:]
            err = None
            conds = None
            try:
                if op[0] == "remove":
                    su.remove()
                else:
                    _, v, run, resp = op
                    RE.state.is_running = bool(run)
                    RE._loop.responsive = bool(resp)
                    sig._v = v
                    if op[0] == "install":
                        su.install(RE)
                    else:
                        su(value=v, old_value=v, timestamp=0.0, obj=sig, sub_type="value")
                    conds = [bool(su._should_suspend(v)), bool(su._should_resume(v))]
            except RuntimeError:
                err = "raise"
                conds = [bool(su._should_suspend(op[1])), bool(su._should_resume(op[1]))]
            except TypeError:
                steps.append({"obs": [["TypeError"]], "tripped": bool(su.tripped), "ev": None, "conds": None})
                break
            RE._loop.flush()
            cur = su._ev
            if cur is not None:
                idx(cur)           # a new event is numbered when it is created
            obs = []
            for kind, ev, delay in rec:
                if kind == "release" and delay != sleep:
                    kind = "release-bad"
                obs.append([kind, idx(ev) if ev is not None else -1])
            if err:
                obs.append([err])
            steps.append({"obs": obs, "tripped": bool(su.tripped), "ev": None if cur is None else idx(cur), "conds": conds})
    return {"ctor": "ok", "probes": probes, "steps": steps}


# ----------------------------------------------------------------------------- Coq side

def q(v):
    """exact value of a bool/int/finite float as m * 2^e (strings: their code)"""
    f = Fraction(STR_CODE[v]) if isinstance(v, str) else Fraction(v)
    n, d = f.numerator, f.denominator
    if d == 1:
        e = 0
        if n != 0 and abs(n) >= 1 << 64:
            e = (n & -n).bit_length() - 1
            n >>= e
    else:
        assert d & (d - 1) == 0, v
        e = -(d.bit_length() - 1)
    return "(Qdy %s %s)" % (("(%d)" % n) if n < 0 else str(n), ("(%d)" % e) if e < 0 else str(e))


def cb(b):
    return "true" if b else "false"


def copt(x, f):
    return "None" if x is None else "(Some %s)" % f(x)


def cl(xs, f=str):
    xs = list(xs)       # cons chains parse faster than the [ ; ] notation
    return "(" + "".join("cons %s (" % f(x) for x in xs) + "nil" + ")" * len(xs) + ")"


def coq_args(case):
    kw, cls = case["kw"], case["cls"]
    if cls == "SuspendBoolHigh":
        return "ABoolHigh"
    if cls == "SuspendBoolLow":
        return "ABoolLow"
    if cls in ("SuspendFloor", "SuspendCeil"):
        return "(%s %s %s)" % ("AFloor" if cls == "SuspendFloor" else "ACeil", q(kw["suspend_thresh"]), copt(kw["resume_thresh"], q))
    if cls in ("SuspendWhenOutsideBand", "SuspendInBand", "SuspendOutBand"):
        con = {"SuspendWhenOutsideBand": "AWhenOutsideBand", "SuspendInBand": "AInBand", "SuspendOutBand": "AOutBand"}[cls]
        return "(%s %s %s)" % (con, q(kw["band_bottom"]), q(kw["band_top"]))
    return "(AWhenChanged %s %s %s)" % (copt(kw["expected_value"], q), cb(kw["allow_resume"]), q(kw["sigval"]))


def coq_op(op):
    if op[0] == "remove":
        return "OpRemove"
    return "(%s %s (mkEnv %s %s))" % ("OpInstall" if op[0] == "install" else "OpValue", q(op[1]), cb(op[2]), cb(op[3]))


def coq_obs(o):
    if o[0] == "req":
        return "(OReq %d%%nat)" % o[1]
    if o[0] == "release":
        return "(ORelease %d%%nat)" % o[1]
    if o[0] == "raise":
        return "ORaise"
    return "(OReq 999999%nat)"     # something the model never does (bad request / wrong delay / unknown call)


def coq_seen(s):
    return "(mkSeen %s %s %s %s)" % (cl(s["obs"], coq_obs), cb(s["tripped"]), copt(s["ev"], lambda e: "%d%%nat" % e),
                                      copt(s["conds"], lambda c: "(%s, %s)" % (cb(c[0]), cb(c[1]))))


def coq_term(case, obs):
    if case.get("malformed"):
        return None
    if obs["ctor"] == "TypeError" or obs["probes"] == "TypeError" or any(o == ["TypeError"] for s in obs["steps"] for o in s["obs"]):
        return "false"       # a well-formed numeric case must not raise TypeError
    ok = obs["ctor"] == "ok"
    probes = cl(zip(case["probes"], obs["probes"]), lambda p: "(%s, (%s, %s))" % (q(p[0]), cb(p[1][0]), cb(p[1][1]))) if ok else "[]"
    return "Qcase_ok %s %s %s %s %s" % (coq_args(case), cb(ok), probes, cl(case["ops"], coq_op), cl(obs["steps"], coq_seen))


# ----------------------------------------------------------------------------- oracle (the property, impl side)

def _doc(case):
    """Documented conditions from the arguments as given: (valid, suspend(v), resume(v))."""
    kw, cls = case["kw"], case["cls"]
    if cls == "SuspendBoolHigh":
        return True, (lambda v: bool(v)), (lambda v: not bool(v))
    if cls == "SuspendBoolLow":
        return True, (lambda v: not bool(v)), (lambda v: bool(v))
    if cls == "SuspendFloor":
        s = kw["suspend_thresh"]
        r = s if kw["resume_thresh"] is None else kw["resume_thresh"]
        return r >= s, (lambda v: v < s), (lambda v: v >= r)
    if cls == "SuspendCeil":
        s = kw["suspend_thresh"]
        r = s if kw["resume_thresh"] is None else kw["resume_thresh"]
        return r <= s, (lambda v: v > s), (lambda v: v <= r)
    if cls in ("SuspendWhenOutsideBand", "SuspendInBand"):
        b, t = kw["band_bottom"], kw["band_top"]
        return b < t, (lambda v: not (b < v < t)), (lambda v: b < v < t)
    if cls == "SuspendOutBand":
        b, t = kw["band_bottom"], kw["band_top"]
        return b < t, (lambda v: b < v < t), (lambda v: not (b < v < t))
    e = kw["sigval"] if kw["expected_value"] is None else kw["expected_value"]
    allow = kw["allow_resume"]
    return True, (lambda v: v != e), (lambda v: bool(allow) and v == e)


def oracle(case, obs):
    if case.get("malformed"):
        return None
    valid, sus, res = _doc(case)
    if obs["ctor"] == "TypeError" or obs["probes"] == "TypeError":
        return "numeric arguments raised TypeError"
    if not valid:
        return None if obs["ctor"] == "ValueError" else "parameters outside the documented range were accepted"
    if obs["ctor"] != "ok":
        return "documented-valid parameters rejected with " + obs["ctor"]
    for v, (ss, sr) in zip(case["probes"], obs["probes"]):
        if ss != sus(v) or sr != res(v):
            return "at value %r the suspender answers suspend=%s resume=%s, documented (for the parameters as given): suspend=%s resume=%s" % (
                v, ss, sr, sus(v), res(v))
        if ss and sr:
            return "suspend and resume conditions both true at %r" % (v,)
    installed, tripped, pending, nev = False, False, None, 0
    for i, (op, st) in enumerate(zip(case["ops"], obs["steps"])):
        exp = []
        if op[0] == "remove":
            if installed and pending is not None:
                exp.append(["release", pending])
            if installed:
                pending = None
            installed, tripped = False, False
        else:
            _, v, run, resp = op
            if op[0] == "install":
                installed = True
            if st["conds"] is None:
                return "step %d: value %r raised TypeError" % (i, v)
            ss, sr = st["conds"]
            if ss != sus(v) or sr != res(v):
                return "step %d: at value %r suspend=%s resume=%s, documented suspend=%s resume=%s" % (i, v, ss, sr, sus(v), res(v))
            if ss and sr:
                return "step %d: suspend and resume conditions both true at %r" % (i, v)
            if installed:
                if sus(v):
                    tripped = True
                    if pending is None:
                        if resp:
                            pending, nev = nev, nev + 1
                            if run:
                                exp.append(["req", pending])
                        else:
                            exp.append(["raise"])
                elif res(v):
                    if pending is not None:
                        exp.append(["release", pending])
                    pending, tripped = None, False
        for o in st["obs"]:
            if o[0] == "release" and op[0] != "remove" and not (res(op[1]) and not sus(op[1])):
                return "step %d: release scheduled at value %r where the resume condition does not hold" % (i, op[1])
            if o[0] == "req" and not sus(op[1]):
                return "step %d: suspension requested at value %r where the suspend condition does not hold" % (i, op[1])
        if st["tripped"] != tripped:
            return "step %d (%r): tripped=%s, the last deciding value says %s" % (i, op, st["tripped"], tripped)
        if st["obs"] != exp:
            return "step %d (%r): scheduled %r, documented behaviour schedules %r" % (i, op, st["obs"], exp)
        if st["ev"] != pending:
            return "step %d (%r): pending event %r, expected %r" % (i, op, st["ev"], pending)
    if len(obs["steps"]) != len(case["ops"]):
        return "history stopped after %d of %d operations" % (len(obs["steps"]), len(case["ops"]))
    return None


def finding(case, obs):
    return None


def nontrivial(case, obs):
    if case.get("malformed"):
        return False
    if obs["ctor"] == "ValueError":
        return True
    flags = [s["tripped"] for s in obs["steps"]]
    return any(flags) and any(a and not b for a, b in zip(flags, flags[1:]))


def describe(case):
    if case.get("malformed"):
        return "malformed"
    n = len(case["ops"])
    return "%s ops=%s" % (case["cls"].replace("Suspend", ""), "0-3" if n <= 3 else "4-15" if n <= 15 else "16+")


def model_search(rng, tier):
    """Search the model's boolean restatement (Qprop_holds) for a failing parameter tuple / value sequence."""
    from harness import core
    cs = []
    for cls, kw in configs():
        vals = [rng.choice(GRID) for _ in range(8)]
        cs.append(mk(cls, kw, [["value", v, True, True] for v in vals]))
    terms = ["Qprop_holds %s %s" % (coq_args(c), cl(c["ops"], lambda o: "(%s, mkEnv true true)" % q(o[1]))) for c in cs]
    try:
        ok, bad, _ = core.eval_cases_in_coq(ID + "search", COQ_IMPORTS, terms)
    except Exception:
        return None
    if ok and bad:
        return {"model_case": cs[bad[0]], "restatement": terms[bad[0]]}
    return None
