(* Proofs about Gen/Simulator.v (RunEngineSimulator.simulate_plan, add_handler, check_limits). *)
From Coq Require Import ZArith List Bool Lia ZifyBool NArith.
From BV Require Import Base.Prelude Gen.Simulator.

(* ---------------------------------------------------------------- simulate_plan = Replay *)

Section Simulate.
  Variable P : Type.
  Variable resume : P -> val -> outcome P.
  Variable H : Type.
  Variable pred : H -> msg -> bool.
  Variable run : H -> msg -> list H -> hres * list H.

  Notation simulate := (simulate P resume H pred run).
  Notation Replay := (Replay P resume H pred run).
  Notation first_match := (first_match H pred).

  (* whatever the loop returns is a replay: messages in order, each answered by the first matching handler *)
  Lemma simulate_sound fuel : forall p a hs acc o,
    simulate fuel p a hs acc = Some o ->
    exists ms, o_msgs o = rev acc ++ ms /\ Replay p a hs ms (o_final o) (o_hs o).
  Proof.
    induction fuel as [|f IH]; intros p a hs acc o E; cbn in E; [discriminate|].
    destruct (resume p a) as [[m|] p'|v|e] eqn:R.
    - destruct (first_match hs m) as [h|] eqn:F.
      + destruct (run h m hs) as [[v|e] hs1] eqn:Rn.
        * apply IH in E as (ms & Hm & Hr). exists (m :: ms). split.
          -- rewrite Hm. cbn. now rewrite <- app_assoc.
          -- eapply R_handled; eauto.
        * injection E as <-. cbn. exists [m]. split; [reflexivity|]. eapply R_handler_raises; eauto.
      + apply IH in E as (ms & Hm & Hr). exists (m :: ms). split.
        * rewrite Hm. cbn. now rewrite <- app_assoc.
        * eapply R_unhandled; eauto.
    - injection E as <-. cbn. exists []. rewrite app_nil_r. split; [reflexivity|]. eapply R_falsy; eauto.
    - injection E as <-. cbn. exists []. rewrite app_nil_r. split; [reflexivity|]. now apply R_return.
    - injection E as <-. cbn. exists []. rewrite app_nil_r. split; [reflexivity|]. now apply R_raise.
  Qed.

  (* every finite replay is computed by the loop, with any sufficient amount of fuel *)
  Lemma simulate_complete p a hs ms fin hs' :
    Replay p a hs ms fin hs' ->
    forall acc, exists fuel, forall fuel', fuel <= fuel' ->
      simulate fuel' p a hs acc = Some {| o_msgs := rev acc ++ ms; o_final := fin; o_hs := hs' |}.
  Proof.
    induction 1 as [p a hs v R | p a hs e R | p a hs p' R
                    | p a hs m p' ms fin hs' R F _ IH
                    | p a hs m p' h v hs1 ms fin hs' R F Rn _ IH
                    | p a hs m p' h e hs1 R F Rn]; intros acc.
    - exists 1. intros [|f] Hf; [lia|]. cbn. rewrite R. now rewrite app_nil_r.
    - exists 1. intros [|f] Hf; [lia|]. cbn. rewrite R. now rewrite app_nil_r.
    - exists 1. intros [|f] Hf; [lia|]. cbn. rewrite R. now rewrite app_nil_r.
    - destruct (IH (m :: acc)) as [fuel Hfuel]. exists (S fuel). intros [|f] Hf; [lia|].
      cbn. rewrite R, F. rewrite Hfuel by lia. cbn. now rewrite <- app_assoc.
    - destruct (IH (m :: acc)) as [fuel Hfuel]. exists (S fuel). intros [|f] Hf; [lia|].
      cbn. rewrite R, F, Rn. rewrite Hfuel by lia. cbn. now rewrite <- app_assoc.
    - exists 1. intros [|f] Hf; [lia|]. cbn. now rewrite R, F, Rn.
  Qed.

  Theorem simulate_replays fuel p hs o :
    simulate fuel p VNone hs [] = Some o -> Replay p VNone hs (o_msgs o) (o_final o) (o_hs o).
  Proof.
    intros E. apply simulate_sound in E as (ms & Hm & Hr). cbn in Hm. now rewrite Hm.
  Qed.

  Theorem replay_simulated p hs ms fin hs' :
    Replay p VNone hs ms fin hs' ->
    exists fuel, forall fuel', fuel <= fuel' ->
      simulate fuel' p VNone hs [] = Some {| o_msgs := ms; o_final := fin; o_hs := hs' |}.
  Proof. intros Hr. exact (simulate_complete _ _ _ _ _ _ Hr []). Qed.

  (* ---- which handler answers ---- *)

  Lemma first_match_app l1 l2 m :
    first_match (l1 ++ l2) m = match first_match l1 m with Some h => Some h | None => first_match l2 m end.
  Proof.
    unfold Simulator.first_match. induction l1 as [|x l1 IH]; cbn; [reflexivity|].
    destruct (pred x m); [reflexivity | exact IH].
  Qed.

  Lemma first_match_cons h hs m :
    first_match (h :: hs) m = if pred h m then Some h else first_match hs m.
  Proof. reflexivity. Qed.

  (* the handler that answers is the first in list order whose predicate holds *)
  Lemma first_match_spec hs m h :
    first_match hs m = Some h <->
    exists pre post, hs = pre ++ h :: post /\ pred h m = true /\ Forall (fun h' => pred h' m = false) pre.
  Proof.
    split.
    - induction hs as [|x hs IH]; [discriminate|]. rewrite first_match_cons.
      destruct (pred x m) eqn:Px.
      + intros [= ->]. exists [], hs. auto.
      + intros E. apply IH in E as (pre & post & -> & Hp & Hall). exists (x :: pre), post. auto.
    - intros (pre & post & -> & Hp & Hall). rewrite first_match_app.
      assert (first_match pre m = None) as ->.
      { induction Hall as [|x pre Hx _ IH]; [reflexivity|]. rewrite first_match_cons. now rewrite Hx. }
      rewrite first_match_cons. now rewrite Hp.
  Qed.

  Lemma first_match_none hs m : first_match hs m = None <-> Forall (fun h => pred h m = false) hs.
  Proof.
    induction hs as [|x hs IH]; [split; [constructor | reflexivity]|]. rewrite first_match_cons.
    destruct (pred x m) eqn:Px.
    - split; [discriminate | intros Hf; inversion Hf; congruence].
    - rewrite IH. split; [now constructor | intros Hf; now inversion Hf].
  Qed.

  (* list.insert position *)
  Definition insert_pos (idx : hindex) (n : nat) : nat :=
    match idx with
    | IdxEnd => n
    | IdxInt i => if (i <? 0)%Z then Z.to_nat (Z.max 0 (i + Z.of_nat n)) else Nat.min (Z.to_nat i) n
    end.

  Lemma add_handler_split (idx : hindex) (h : H) (hs : list H) :
    let k := insert_pos idx (length hs) in
    k <= length hs /\ add_handler idx h hs = firstn k hs ++ h :: skipn k hs.
  Proof.
    destruct idx as [i|]; cbn -[Z.max Z.min Nat.min]; unfold py_insert.
    - destruct (i <? 0)%Z eqn:Ei.
      + split; [lia | reflexivity].
      + replace (Z.to_nat (Z.min i (Z.of_nat (length hs)))) with (Nat.min (Z.to_nat i) (length hs)) by lia.
        split; [lia | reflexivity].
    - assert (Z.of_nat (length hs) <? 0 = false)%Z as -> by lia.
      rewrite Z.min_id, Nat2Z.id. split; [lia | reflexivity].
  Qed.

  (* after add_handler: the handlers before the insertion point win, then the new one, then the rest *)
  Theorem add_handler_position (idx : hindex) (h : H) (hs : list H) m :
    let k := insert_pos idx (length hs) in
    first_match (add_handler idx h hs) m =
    match first_match (firstn k hs) m with
    | Some h' => Some h'
    | None => if pred h m then Some h else first_match (skipn k hs) m
    end.
  Proof.
    intros k. destruct (add_handler_split idx h hs) as [_ ->]. fold k.
    now rewrite first_match_app, first_match_cons.
  Qed.

  (* default index (0): the newest matching handler wins; it changes nothing for other messages *)
  Theorem newest_handler_wins h hs m :
    first_match (add_handler (IdxInt 0) h hs) m = if pred h m then Some h else first_match hs m.
  Proof. rewrite add_handler_position. reflexivity. Qed.

  (* index END: older matching handlers keep winning *)
  Theorem end_handler_loses h hs m :
    first_match (add_handler IdxEnd h hs) m =
    match first_match hs m with Some h' => Some h' | None => if pred h m then Some h else None end.
  Proof.
    rewrite add_handler_position. cbn [insert_pos]. rewrite firstn_all, skipn_all. reflexivity.
  Qed.

  (* add_handler keeps every other handler, in the same relative order *)
  Lemma add_handler_keeps (idx : hindex) (h : H) (hs : list H) :
    let k := insert_pos idx (length hs) in
    firstn k (add_handler idx h hs) = firstn k hs /\ skipn (S k) (add_handler idx h hs) = skipn k hs /\
    nth_error (add_handler idx h hs) k = Some h.
  Proof.
    intros k. destruct (add_handler_split idx h hs) as [Hk ->]. fold k in Hk |- *.
    assert (Hl : length (firstn k hs) = k) by (rewrite firstn_length; lia).
    repeat split.
    - rewrite firstn_app, Hl, Nat.sub_diag. cbn. rewrite app_nil_r, firstn_firstn. f_equal. lia.
    - rewrite skipn_app, Hl. replace (S k - k) with 1 by lia.
      rewrite skipn_all2 by (rewrite Hl; lia). reflexivity.
    - rewrite nth_error_app2 by (rewrite Hl; lia). rewrite Hl, Nat.sub_diag. reflexivity.
  Qed.
End Simulate.

(* ---------------------------------------------------------------- check_limits *)

Lemma dev_eqb_eq a b : dev_eqb a b = true -> a = b.
Proof.
  destruct a, b. unfold dev_eqb; cbn. rewrite !andb_true_iff.
  intros [[[[E1 E2] E3] E4] E5].
  apply N.eqb_eq in E1, E2. apply Bool.eqb_prop in E3. apply Z.eqb_eq in E4, E5. now subst.
Qed.

Section CheckLimits.
  Variable P : Type.
  Variable resume : P -> val -> outcome P.
  Variable limit_ok : dev -> val -> bool.

  Notation check_limits := (check_limits P resume limit_ok).
  Notation offending := (offending limit_ok).
  Notation Drives := (Drives P resume).

  Definition uncheckable (l : list dev) : Prop := Forall (fun d => d_checkable d = false) l.

  Lemma dev_mem_uncheckable d l : uncheckable l -> dev_mem d l = true -> d_checkable d = false.
  Proof.
    intros Hu Hm. unfold dev_mem in Hm. apply existsb_exists in Hm as (d' & Hin & He).
    apply dev_eqb_eq in He; subst d'. unfold uncheckable in Hu. rewrite Forall_forall in Hu. auto.
  Qed.

  Lemma uncheckable_snoc l d : uncheckable l -> d_checkable d = false -> uncheckable (l ++ [d]).
  Proof. intros Hu Hd. apply Forall_app; split; [exact Hu | repeat constructor; exact Hd]. Qed.

  Lemma Drives_snoc p ms p1 m p2 :
    Drives p ms p1 -> resume p1 VNone = Yielded (YMsg m) p2 -> Drives p (ms ++ [m]) p2.
  Proof.
    induction 1 as [p | p m0 p0 ms p' R _ IH]; intros R2; cbn.
    - econstructor; [exact R2 | constructor].
    - econstructor; [exact R | now apply IH].
  Qed.

  (* soundness: a raised limit error comes from the first offending message; OK means the plan ended
     and no message offends; the devices warned about have no check_value *)
  Lemma check_limits_sound_gen fuel : forall p ign r,
    uncheckable ign -> check_limits fuel p ign = Some r ->
    match r with
    | CLLimit d v =>
        exists pre p1 m p2, Drives p pre p1 /\ resume p1 VNone = Yielded (YMsg m) p2 /\
                            Forall (fun m => offending m = None) pre /\ offending m = Some (d, v)
    | CLOk w =>
        exists ms p' v, Drives p ms p' /\ resume p' VNone = Returned v /\
                        Forall (fun m => offending m = None) ms /\ uncheckable w
    | _ => True
    end.
  Proof.
    induction fuel as [|f IH]; intros p ign r Hu E; cbn in E; [discriminate|].
    destruct (resume p VNone) as [[m|] p'|v|e] eqn:R; try (injection E as <-; exact I).
    2:{ injection E as <-. exists [], p, v. repeat split; try constructor; auto. }
    (* a message; common continuation *)
    assert (Hcont : forall ign', uncheckable ign' -> offending m = None ->
                                 check_limits f p' ign' = Some r ->
                                 match r with
                                 | CLLimit d v =>
                                     exists pre p1 m p2, Drives p pre p1 /\ resume p1 VNone = Yielded (YMsg m) p2 /\
                                                         Forall (fun m => offending m = None) pre /\ offending m = Some (d, v)
                                 | CLOk w =>
                                     exists ms p' v, Drives p ms p' /\ resume p' VNone = Returned v /\
                                                     Forall (fun m => offending m = None) ms /\ uncheckable w
                                 | _ => True
                                 end).
    { intros ign' Hu' Hoff E'. specialize (IH _ _ _ Hu' E'). destruct r; auto.
      - destruct IH as (ms & p2 & v & Hd & Hr & Hall & Hw). exists (m :: ms), p2, v.
        repeat split; auto. econstructor; eauto.
      - destruct IH as (pre & p1 & m1 & p2 & Hd & Hr & Hall & Ho). exists (m :: pre), p1, m1, p2.
        repeat split; auto. econstructor; eauto. }
    unfold Simulator.offending in Hcont.
    destruct (is_set m) eqn:Es.
    - destruct (m_obj m) as [d|] eqn:Eo; [|injection E as <-; exact I].
      destruct (dev_mem d ign) eqn:Em.
      + apply (Hcont ign Hu); [|exact E].
        destruct (m_args m); [reflexivity|].
        now rewrite (dev_mem_uncheckable _ _ Hu Em).
      + destruct (m_args m) as [|v args] eqn:Ea; [injection E as <-; exact I|].
        destruct (d_checkable d) eqn:Ec.
        * destruct (limit_ok d v) eqn:El.
          -- apply (Hcont ign Hu); [reflexivity | exact E].
          -- injection E as <-. exists [], p, m, p'. repeat split; try constructor; auto.
             unfold Simulator.offending. now rewrite Es, Eo, Ea, Ec, El.
        * apply (Hcont (ign ++ [d])); [now apply uncheckable_snoc | reflexivity | exact E].
    - apply (Hcont ign Hu); [reflexivity | exact E].
  Qed.

  Theorem check_limits_sound fuel p r :
    check_limits fuel p [] = Some r ->
    match r with
    | CLLimit d v =>
        exists pre p1 m p2, Drives p pre p1 /\ resume p1 VNone = Yielded (YMsg m) p2 /\
                            Forall (fun m => offending m = None) pre /\ offending m = Some (d, v)
    | CLOk w =>
        exists ms p' v, Drives p ms p' /\ resume p' VNone = Returned v /\
                        Forall (fun m => offending m = None) ms /\ uncheckable w
    | _ => True
    end.
  Proof. apply check_limits_sound_gen. constructor. Qed.

  (* completeness: one well-formed, non-offending message is stepped over *)
  Lemma step_over f p m p' ign :
    resume p VNone = Yielded (YMsg m) p' -> wf_msg m = true -> offending m = None -> uncheckable ign ->
    exists ign', uncheckable ign' /\ check_limits (S f) p ign = check_limits f p' ign'.
  Proof.
    intros R Hwf Hoff Hu. cbn. rewrite R. unfold Simulator.offending, wf_msg in *.
    destruct (is_set m); [|exists ign; auto].
    destruct (m_obj m) as [d|]; [|discriminate].
    destruct (m_args m) as [|v args]; [discriminate|].
    destruct (dev_mem d ign); [exists ign; auto|].
    destruct (d_checkable d) eqn:Ec.
    - destruct (limit_ok d v); [exists ign; auto | discriminate].
    - exists (ign ++ [d]). split; [now apply uncheckable_snoc | reflexivity].
  Qed.

  Lemma check_limits_raises_gen p pre p1 :
    Drives p pre p1 -> forall m p2 d v ign,
    resume p1 VNone = Yielded (YMsg m) p2 ->
    Forall (fun m => wf_msg m = true) pre -> Forall (fun m => offending m = None) pre ->
    offending m = Some (d, v) -> uncheckable ign ->
    exists fuel, forall fuel', fuel <= fuel' -> check_limits fuel' p ign = Some (CLLimit d v).
  Proof.
    induction 1 as [p | p m0 p0 ms p' R _ IH]; intros m p2 d v ign R2 Hwf Hall Hoff Hu.
    - exists 1. intros [|f] Hf; [lia|]. cbn. rewrite R2.
      unfold Simulator.offending in Hoff.
      destruct (is_set m); [|discriminate].
      destruct (m_obj m) as [d'|]; [|discriminate].
      destruct (m_args m) as [|v' args]; [discriminate|].
      destruct (d_checkable d') eqn:Ec; cbn in Hoff; [|discriminate].
      destruct (limit_ok d' v') eqn:El; cbn in Hoff; [discriminate|].
      injection Hoff as -> ->.
      destruct (dev_mem d ign) eqn:Em.
      + apply (dev_mem_uncheckable _ _ Hu) in Em. congruence.
      + reflexivity.
    - inversion Hwf as [|? ? Hwf0 Hwf']; subst. inversion Hall as [|? ? Hall0 Hall']; subst.
      (* the ignore list after the step does not depend on the fuel *)
      assert (Hsame : exists ign', uncheckable ign' /\ forall f, check_limits (S f) p ign = check_limits f p0 ign').
      { cbn. rewrite R. unfold Simulator.offending, wf_msg in *.
        destruct (is_set m0); [|exists ign; auto].
        destruct (m_obj m0) as [d0|]; [|discriminate].
        destruct (m_args m0) as [|v0 args0]; [discriminate|].
        destruct (dev_mem d0 ign); [exists ign; auto|].
        destruct (d_checkable d0) eqn:Ec.
        - destruct (limit_ok d0 v0); [exists ign; auto | discriminate].
        - exists (ign ++ [d0]). split; [now apply uncheckable_snoc | reflexivity]. }
      destruct Hsame as (ign1 & Hu1 & Hs).
      destruct (IH m p2 d v ign1 R2 Hwf' Hall' Hoff Hu1) as [fuel Hfuel].
      exists (S fuel). intros [|f] Hf; [lia|]. rewrite Hs. apply Hfuel. lia.
  Qed.

  (* check_limits raises exactly at the first out-of-limits set on a device with check_value,
     whatever the plan does afterwards (it may even never terminate) *)
  Theorem check_limits_raises p pre p1 m p2 d v :
    Drives p pre p1 -> resume p1 VNone = Yielded (YMsg m) p2 ->
    Forall (fun m => wf_msg m = true) pre -> Forall (fun m => offending m = None) pre ->
    offending m = Some (d, v) ->
    exists fuel, forall fuel', fuel <= fuel' -> check_limits fuel' p [] = Some (CLLimit d v).
  Proof. intros Hd R Hwf Hall Hoff. eapply check_limits_raises_gen; eauto. constructor. Qed.

  Lemma check_limits_ok_gen p ms p' :
    Drives p ms p' -> forall v ign,
    resume p' VNone = Returned v ->
    Forall (fun m => wf_msg m = true) ms -> Forall (fun m => offending m = None) ms -> uncheckable ign ->
    exists fuel w, forall fuel', fuel <= fuel' -> check_limits fuel' p ign = Some (CLOk w).
  Proof.
    induction 1 as [p | p m0 p0 ms p' R _ IH]; intros v ign Rv Hwf Hall Hu.
    - exists 1, ign. intros [|f] Hf; [lia|]. cbn. now rewrite Rv.
    - inversion Hwf as [|? ? Hwf0 Hwf']; subst. inversion Hall as [|? ? Hall0 Hall']; subst.
      assert (Hsame : exists ign', uncheckable ign' /\ forall f, check_limits (S f) p ign = check_limits f p0 ign').
      { cbn. rewrite R. unfold Simulator.offending, wf_msg in *.
        destruct (is_set m0); [|exists ign; auto].
        destruct (m_obj m0) as [d0|]; [|discriminate].
        destruct (m_args m0) as [|v0 args0]; [discriminate|].
        destruct (dev_mem d0 ign); [exists ign; auto|].
        destruct (d_checkable d0) eqn:Ec.
        - destruct (limit_ok d0 v0); [exists ign; auto | discriminate].
        - exists (ign ++ [d0]). split; [now apply uncheckable_snoc | reflexivity]. }
      destruct Hsame as (ign1 & Hu1 & Hs).
      destruct (IH v ign1 Rv Hwf' Hall' Hu1) as (fuel & w & Hfuel).
      exists (S fuel), w. intros [|f] Hf; [lia|]. rewrite Hs. apply Hfuel. lia.
  Qed.

  (* ... and never for others: a terminating well-formed plan without an offending message passes *)
  Theorem check_limits_ok p ms p' v :
    Drives p ms p' -> resume p' VNone = Returned v ->
    Forall (fun m => wf_msg m = true) ms -> Forall (fun m => offending m = None) ms ->
    exists fuel w, forall fuel', fuel <= fuel' -> check_limits fuel' p [] = Some (CLOk w).
  Proof. intros Hd R Hwf Hall. eapply check_limits_ok_gen; eauto. constructor. Qed.
End CheckLimits.
