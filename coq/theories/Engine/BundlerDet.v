(* Well-behaved WritesStreamAssets detectors on top of the Bundler model (definitions only).
   A group of detectors is always collected together on one declared stream.  Each detector has written some
   number of frames (its index); asked to collect up to index m (the minimum of the group when several are
   collected together, its own index when alone) it yields its stream_resource the first time and a
   stream_datum for the frames [last, m) it has not reported yet - nothing when m <= last.  This is how
   ophyd-async style detectors implement collect_asset_docs(index). *)
From BV Require Import Base.Prelude Engine.Bundler.
From Coq Require Import ZArith List Bool.
Import ListNotations.

Record detector := mkDet { dt_obj : obj; dt_key : key; dt_sres : nat }.

(* what one detector yields; du = uid of the datum document *)
Definition det_answer (started : bool) (last m : Z) (du : nat) (d : detector) : list asset :=
  if (last <? m)%Z
  then (if started then [] else [AStreamRes (dt_sres d) (dt_key d)]) ++
       [AStreamDatum du (dt_sres d) false true last m]
  else [].

(* the index the group is collected up to, given the detectors' own indices w *)
Definition det_target (dets : list detector) (w : list Z) : option Z :=
  if (1 <? length dets)%nat then zmin_list w else hd_error w.

(* the collect message for the indices w *)
Definition std_collect (dets : list detector) (n : name) (started : bool) (last m : Z) (du : nat) (w : list Z) : op :=
  OCollect (map (fun dw => (dt_obj (fst dw), snd dw, det_answer started last m du (fst dw))) (combine dets w))
           (Some n) false.

(* a cadence: one collect per index vector; group state (last, started) threaded through *)
Fixpoint cadence (dets : list detector) (n : name) (started : bool) (last : Z) (k : nat) (ws : list (list Z)) : list op :=
  match ws with
  | [] => []
  | w :: rest =>
      match det_target dets w with
      | Some m => std_collect dets n started last m k w
                  :: cadence dets n (started || (last <? m)%Z) (Z.max last m) (S k) rest
      | None => []
      end
  end.

(* the documents one collect must produce: per detector (stream_resource once,) one stream_datum with
   indices [last, m) and seq_nums [c, c + (m - last)) *)
Definition det_docs (run de : uid) (started : bool) (last m c : Z) (du : nat) (d : detector) : list doc :=
  if (last <? m)%Z
  then (if started then [] else [DStreamRes (UDev (dt_sres d)) run (dt_key d)]) ++
       [DStreamDatum (UDev du) (UDev (dt_sres d)) de last m c (c + (m - last))%Z]
  else [].

Fixpoint cadence_docs (dets : list detector) (run de : uid) (started : bool) (last c : Z) (k : nat)
         (ws : list (list Z)) : list (list doc) :=
  match ws with
  | [] => []
  | w :: rest =>
      match det_target dets w with
      | Some m => flat_map (det_docs run de started last m c k) dets
                  :: cadence_docs dets run de (started || (last <? m)%Z) (Z.max last m)
                                  (c + Z.max 0 (m - last))%Z (S k) rest
      | None => []
      end
  end.

(* where the group ends up *)
Fixpoint cadence_last (dets : list detector) (last : Z) (ws : list (list Z)) : Z :=
  match ws with
  | [] => last
  | w :: rest => match det_target dets w with
                 | Some m => cadence_last dets (Z.max last m) rest
                 | None => last
                 end
  end.

(* the state a group can be collected in: run open, stream n declared for exactly these objects, its
   descriptor d0 registered with the detectors' keys as its external keys, counter of n at c, the detectors'
   stream resources known to the bundler iff already emitted *)
Definition ready (E : env) (s : bstate) (dets : list detector) (n : name) (d0 : descr) (run : uid) (c : Z)
           (started : bool) : Prop :=
  b_run_open s = true /\ b_run_uid s = Some run /\ dets <> [] /\
  forallb (fun d => dv_collectable (E (dt_obj d)) && dv_wsa (E (dt_obj d))) dets = true /\
  nmem n (declared_get (b_declared s) (to_set (map dt_obj dets))) = true /\
  dget (b_descriptors s) n = Some d0 /\
  set_eqb (stream_keys (de_keys d0)) (map dt_key dets) = true /\
  NoDup (map dt_key dets) /\ NoDup (map dt_sres dets) /\
  dget (b_seq s) n = Some c /\
  (forall d, In d dets ->
     ulookup (b_sres_keys s) (UDev (dt_sres d)) = if started then Some (dt_key d) else None).

Definition results_ok (l : list (list doc * list devcall * result)) : bool :=
  forallb (fun x => match snd x with ROk => true | _ => false end) l.

(* per collect: every stream datum covers indices [last, l1) and seq_nums [c, c1) with equal widths; the next
   collect continues at (l1, c1) *)
Fixpoint tiles (last c : Z) (l : list (list doc)) (last' c' : Z) : Prop :=
  match l with
  | [] => last' = last /\ c' = c
  | docs :: rest =>
      exists l1 c1,
        (forall ia ib sa sb de,
           In (ia, ib, sa, sb, de)
              (flat_map (fun d => match d with
                                  | DStreamDatum _ _ de ia ib sa sb => [(ia, ib, sa, sb, de)]
                                  | _ => []
                                  end) docs) ->
           ia = last /\ ib = l1 /\ sa = c /\ sb = c1) /\
        (last <= l1)%Z /\ (c1 - c = l1 - last)%Z /\ tiles l1 c1 rest last' c'
  end.

(* the cadence of a fresh group (datum uids 100, 101, ... as the harness numbers them) *)
Definition cadence_from (dets : list detector) (n : name) (ws : list (list Z)) : list op :=
  cadence dets n false 0%Z 100 ws.
