"""Implementation-side driver for the paired-action wrappers (C23): fake devices on a parent forest, message
tables (content <-> real Msg objects), canonicalisation of what the real wrappers yield, script runner.

Message content ("view", JSON):
  ["open"] | ["close", exit_status|None, reason-class-name|None] | ["stage", d, g] | ["unstage", d, g] | ["wait", g]
  | ["subscribe", f, name_idx] | ["unsubscribe", tok] | ["install", s] | ["remove", s] | ["monitor", d]
  | ["unmonitor", d] | ["kickoff", d, g] | ["complete", d, g] | ["collect", d] | ["cmd", c, d]
  (c: 0 read, 1 set, 2 trigger, 3 null-with-object, ...)      anything else: ["bad", text]
Groups: a group string the wrapper drew at random is renamed by the command of the first message that carried it
(stage 100, unstage 101, kickoff 102, complete 103; a second distinct random group with the same role gets
role + 1000*k, so sharing/splitting of groups is visible).  Groups of the wrapped plan's own messages are small ints.
Responses sent by the driver: None, small ints (as themselves: tokens, uids), ints >= 50 as FakeStatus objects.
Exceptions thrown by the driver / raised by generated plans are per-name subclasses whose str() is the name, so
that `reason=str(e)` identifies the exception.
"""
import sys

from bluesky.utils import Msg
from harness.drivers import gen_dsl as G

SUBS_NAMES = ["all", "start", "stop", "event", "descriptor"]
ROLE_GROUP = {"stage": 100, "unstage": 101, "kickoff": 102, "complete": 103, "set": 104}
CMD_NAMES = ["read", "set", "trigger", "null", "checkpoint_obj"]


class Dev:
    """A fake device: only what ancestry()/the wrappers look at."""

    def __init__(self, idx, parent=None):
        self.idx = idx
        self.name = "d%d" % idx
        self.parent = parent

    def __repr__(self):
        return "Dev(%d)" % self.idx


class FakeStatus:
    """Satisfies bluesky.protocols.Status (runtime-checkable: attribute presence)."""

    def __init__(self, k):
        self.k = k

    def add_callback(self, callback):
        pass

    def exception(self, timeout=0.0):
        return None

    @property
    def done(self):
        return True

    @property
    def success(self):
        return True

    # generated plans compare what they are sent with small ints: the object stands for the script's integer k
    def __eq__(self, other):
        return self.k == other if isinstance(other, int) else self is other

    def __ne__(self, other):
        return not self.__eq__(other)

    def __hash__(self):
        return id(self)


class Susp:
    def __init__(self, idx):
        self.idx = idx


def make_forest(n, parents):
    """parents: list of [child, parent] index pairs (parent index < child index)."""
    pm = {c: p for c, p in parents}
    devs = []
    for i in range(n):
        devs.append(Dev(i, devs[pm[i]] if i in pm else None))
    return devs


# ------------------------------------------------------------------------------ exceptions whose str() is their name

def _mk_exc():
    out = {}
    for name, cls in G.EXC.items():
        if issubclass(cls, Exception):
            out[name] = type(name, (cls,), {"__str__": (lambda n: (lambda self: n))(name)})
        else:
            out[name] = cls
    return out


TEXC = _mk_exc()
TEXC_NAME = {v: k for k, v in TEXC.items()}


def exc_name(e):
    n = TEXC_NAME.get(type(e))
    if n is None:
        n = G.EXC_NAME.get(type(e))
    return n if n is not None else "?" + type(e).__name__


_CACHE = {}


def compile_prog(prog):
    """gen_dsl's compiler with the named exception classes."""
    import json
    key = json.dumps(prog)
    f = _CACHE.get(key)
    if f is None:
        src, top = G.source(prog)
        ns = {"_EXC": TEXC, "_name": exc_name, "_hole": G._hole, "_keep": G._keep,
              "RunEngineControlException": G.RunEngineControlException}
        exec(compile(src, "<dsl>", "exec"), ns)
        f = ns[top]
        if len(_CACHE) > 50000:
            _CACHE.clear()
        _CACHE[key] = f
    return f


# ------------------------------------------------------------------------------ contexts

class Ctx:
    """Everything one run needs: devices, the wrapped plan's message objects, callables, suspenders."""

    def __init__(self, case):
        self.devs = make_forest(case.get("ndev", 0), case.get("parents", []))
        self.funcs = [(lambda i: (lambda name, doc: None))(i) for i in range(4)]
        self.func_id = {id(f): i for i, f in enumerate(self.funcs)}
        self.susps = [Susp(i) for i in range(4)]
        self.views = [list(v) for v in case["msgs"]]
        self.msgs = [self.msg_of(v) for v in self.views]
        self.msg_id = {id(m): i for i, m in enumerate(self.msgs)}
        self.groups = {}          # random group string -> canonical id
        self.role_count = {}
        self.log = []
        self.lists = case.get("lists")      # answers k < 50 stand for these device lists (lazily_stage cases)

    def msg_of(self, v):
        t = v[0]
        D = self.devs
        if t == "open":
            return Msg("open_run")
        if t == "close":
            return Msg("close_run", exit_status=v[1], reason=v[2])
        if t == "stage":
            return Msg("stage", D[v[1]], group=v[2])
        if t == "unstage":
            return Msg("unstage", D[v[1]], group=v[2])
        if t == "wait":
            return Msg("wait", None, group=v[1])
        if t == "monitor":
            return Msg("monitor", D[v[1]], name=D[v[1]].name + "_monitor")
        if t == "unmonitor":
            return Msg("unmonitor", D[v[1]])
        if t == "kickoff":
            return Msg("kickoff", D[v[1]], group=v[2])
        if t == "complete":
            return Msg("complete", D[v[1]], group=v[2])
        if t == "collect":
            return Msg("collect", D[v[1]])
        if t == "cmd":
            return Msg(CMD_NAMES[v[1]], D[v[2]])
        raise ValueError(v)

    def group(self, g, role):
        if isinstance(g, int):
            return g
        if g in self.groups:
            return self.groups[g]
        if not isinstance(g, str) or role not in ROLE_GROUP:
            return 999
        k = self.role_count.get(role, 0)
        self.role_count[role] = k + 1
        self.groups[g] = ROLE_GROUP[role] + 1000 * k
        return self.groups[g]

    def view(self, m):
        """Canonical content of a message the wrapper made."""
        if not isinstance(m, Msg):
            return ["bad", "not a Msg: %r" % (m,)]
        c, o, a, k = m.command, m.obj, m.args, dict(m.kwargs)
        dev = o.idx if isinstance(o, Dev) else None
        try:
            if c == "open_run" and o is None and not a and not k:
                return ["open"]
            if c == "close_run" and o is None and not a and set(k) == {"exit_status", "reason"}:
                r = k["reason"]
                if r is not None:
                    r = r if r in TEXC else ("RuntimeError" if r == "generator ignored GeneratorExit" else
                                             "TypeError" if str(r).startswith("can't send non-None") else "?" + str(r))
                return ["close", k["exit_status"], r]
            if c in ("stage", "unstage") and dev is not None and not a and set(k) == {"group"}:
                return [c, dev, self.group(k["group"], c)]
            if c == "stage" and dev is not None and not a and not k:
                return [c, dev, 0]                   # lazily_stage_wrapper's Msg('stage', root): no group
            if c == "wait" and o is None and not a and set(k) == {"group"}:
                return ["wait", self.group(k["group"], None)]
            if c == "subscribe" and o is None and len(a) == 2 and not k and id(a[0]) in self.func_id and a[1] in SUBS_NAMES:
                return ["subscribe", self.func_id[id(a[0])], SUBS_NAMES.index(a[1])]
            if c == "unsubscribe" and o is None and not a and set(k) == {"token"}:
                return ["unsubscribe", canon_val(k["token"])]
            if c in ("install_suspender", "remove_suspender") and o is None and len(a) == 1 and not k and isinstance(a[0], Susp):
                return ["install" if c == "install_suspender" else "remove", a[0].idx]
            if c == "monitor" and dev is not None and not a and k == {"name": o.name + "_monitor"}:
                return ["monitor", dev]
            if c in ("unmonitor", "collect") and dev is not None and not a and not k:
                return [c, dev]
            if c in ("kickoff", "complete") and dev is not None and not a and set(k) == {"group"}:
                return [c, dev, self.group(k["group"], c)]
            if c in CMD_NAMES and dev is not None and not a and not k:
                return ["cmd", CMD_NAMES.index(c), dev]
        except Exception as e:  # noqa: BLE001
            return ["bad", "%s: %r" % (type(e).__name__, m)]
        return ["bad", repr(m)]

    def observe(self, m):
        """["id", i] for one of the wrapped plan's own Msg objects (passed through unchanged), else ["v", view]."""
        i = self.msg_id.get(id(m))
        if i is not None:
            return ["id", i]
        return ["v", self.view(m)]

    def plan(self, prog, gid=0):
        g = compile_prog(prog)(self.msgs, [], self.log, gid)
        G.KEEP.append(g)
        if len(G.KEEP) > 50000:
            del G.KEEP[:25000]
        return g


def resp(k, ctx=None):
    if k is None:
        return None
    if k >= 50:
        return FakeStatus(k)
    if ctx is not None and ctx.lists is not None and getattr(ctx, "stage_out", False):
        return [ctx.devs[i] for i in ctx.lists[k]]      # the answer to the wrapper's own stage message: a device list
    return k


def canon_val(v, ctx=None):
    if v is None or (isinstance(v, int) and not isinstance(v, bool)):
        return v
    if isinstance(v, FakeStatus):
        return v.k
    if isinstance(v, list) and ctx is not None and ctx.lists is not None and all(isinstance(d, Dev) for d in v):
        ids = [d.idx for d in v]
        if ids in ctx.lists:
            return ctx.lists.index(ids)
    return "?" + repr(v)


def step(ctx, gen, inp):
    try:
        if inp[0] == "send":
            m = gen.send(resp(inp[1], ctx))
        elif inp[0] == "throw":
            m = gen.throw(TEXC[inp[1]]())
        else:
            gen.close()
            return ["c"], False
    except StopIteration as e:
        return ["r", canon_val(e.value, ctx)], False
    except BaseException as e:  # noqa: BLE001
        return ["e", exc_name(e)], False
    o = ctx.observe(m)
    ctx.stage_out = (o[0] == "v" and o[1][0] == "stage")
    return ["y"] + o, True


def run_script(case, build, script):
    """build(ctx) -> generator.  Returns (consumed script, trace, plan input log)."""
    ctx = Ctx(case)
    gen = build(ctx)
    G.KEEP.append(gen)
    trace = []
    for inp in script:
        o, alive = step(ctx, gen, inp)
        trace.append(o)
        if not alive:
            break
    return script[:len(trace)], trace, [list(x) for x in ctx.log]


def inject_scripts(case, build, base, deviations, maxlen, pairs=0, rng=None):
    """The all-[base] script (until the generator stops, at most maxlen), and for every position each deviation
    followed by [base] again; optionally `pairs` random scripts with two deviations."""
    full = [["send", None]] + [base] * (maxlen - 1)       # a generator must be started with None
    s0, t0, _ = run_script(case, build, full)
    out = [s0]
    seen = {repr(s0)}
    n = len(s0)
    for k in range(n):
        for a in deviations:
            s = full[:k] + [a] + full[k + 1:]
            s1, _, _ = run_script(case, build, s)
            if repr(s1) not in seen:
                seen.add(repr(s1))
                out.append(s1)
    for _ in range(pairs):
        s = list(full)
        for _ in range(2):
            s[rng.randrange(max(1, n))] = rng.choice(deviations)
        s1, _, _ = run_script(case, build, s)
        if repr(s1) not in seen:
            seen.add(repr(s1))
            out.append(s1)
    return out


def exhaustive_scripts(case, build, alphabet, depth):
    out = []

    def rec(prefix):
        s, t, _ = run_script(case, build, prefix)
        if len(t) < len(prefix) or (prefix and t[-1][0] != "y") or len(prefix) == depth:
            out.append(list(prefix))
            return
        for a in alphabet:
            rec(prefix + [a])

    rec([])
    return out


# ------------------------------------------------------------------------------ Coq printing

def c_view(v):
    t = v[0]
    if t == "open":
        return "VOpen"
    if t == "close":
        st = "None" if v[1] is None else "(Some (str [%s]))" % "; ".join(str(ord(ch)) for ch in v[1])
        r = "None" if v[2] is None else "(Some %s)" % G.COQ_EXN[v[2]]
        return "(VClose %s %s)" % (st, r)
    if t in ("stage", "unstage", "kickoff", "complete"):
        return "(V%s %d %d)" % (t.capitalize(), v[1], v[2])
    if t == "wait":
        return "(VWait %d)" % v[1]
    if t == "subscribe":
        return "(VSubscribe %d %d)" % (v[1], v[2])
    if t == "unsubscribe":
        return "(VUnsubscribe %s)" % G.c_val(v[1])
    if t in ("install", "remove", "monitor", "unmonitor", "collect"):
        return "(V%s %d)" % (t.capitalize(), v[1])
    if t == "cmd":
        return "(VCmd %d %d)" % (v[1], v[2])
    raise ValueError("message content outside the modelled vocabulary: %r" % (v,))


def universe(case, runs):
    """The case's own messages, then every other content observed, in first-appearance order."""
    tbl = [list(v) for v in case["msgs"]]
    for _, trace in runs:
        for o in trace:
            if o[0] == "y" and o[1] == "v" and o[2] not in tbl:
                tbl.append(o[2])
    return tbl


def c_obs(o, tbl):
    if o[0] == "y":
        if o[1] == "id":
            return "OYield %d" % o[2]
        return "OYield %d" % tbl.index(o[2])       # first index holding that content
    return G.c_obs(o)


def c_runs(runs, tbl):
    return "[" + "; ".join("(%s, [%s])" % (G.c_script(s), "; ".join(c_obs(o, tbl) for o in t)) for s, t in runs) + "]"


def c_tbl(tbl):
    return "[" + "; ".join(c_view(v) for v in tbl) + "]"


def c_list(xs):
    return "[" + "; ".join(str(x) for x in xs) + "]"
