(* C10: closed statements around Proofs/RE_C10.v -- non-vacuity of the end-to-end theorem on recorded real runs, the
   refutation of [C10_full] as first stated, and the witness that the exit status is 'abort' only if the plans let the
   exception through.  Everything is closed by vm_compute. *)
From Coq Require Import List String ZArith Bool Arith.
From BV Require Import Engine.RE Engine.REInst Proofs.RE_Ctl Proofs.RE_Hold Proofs.RE_C10.
Import ListNotations.

Notation wrun tapes ledger s evs := (run TP (t_resume tapes) t_plan_of nat (t_dev ledger) s evs) (only parsing).
Notation winit paus stag rec := (init TP nat 0 paus stag rec) (only parsing).
Definition has_o (x : obs) (l : list obs) : bool := if in_dec obs_eq_dec x l then true else false.
Definition never_paused_b (l : list obs) : bool := forallb (fun x => match x with OState _ Paused => false | _ => true end) l.

(* ex_c10_susp : engine_cases_ctl.c10_cases, tag "c10 nested clear@3 suspend@6" *)
Definition ex_c10_susp_tapes : list (nat * list tout) := [(0, [TY {| mid := (Some 0); mcmd := COpenRun; mobj := None; mrun := 1 |}; TY {| mid := (Some 1); mcmd := CCheckpoint; mobj := None; mrun := 0 |}; TY {| mid := (Some 2); mcmd := COpenRun; mobj := None; mrun := 2 |}; TY {| mid := (Some 3); mcmd := CClearCheckpoint; mobj := None; mrun := 0 |}; TY {| mid := (Some 4); mcmd := CNull; mobj := None; mrun := 0 |}; TY {| mid := (Some 5); mcmd := (CCreate 0); mobj := None; mrun := 2 |}; TE EFailedPause])].
Definition ex_c10_susp_ledger : list devres := [].
Definition ex_c10_susp_evs : list event := [EvMain (ACall 0); EvPermit; EvTask; EvTask; EvTask; EvTask; EvTask; EvTask; EvTask; EvReqSuspend 0 false false; EvTask; EvTask; EvMainDone (ACall 0)].
Definition ex_c10_susp_paus := [2]. Definition ex_c10_susp_stag := [0; 3]. Definition ex_c10_susp_rec := false.
Definition ex_c10_susp_obs : list obs := [(OState Idle Running); (OTask WSleep0); (OPlanIn 0 (Send VNone)); (OMsg {| mid := (Some 0); mcmd := COpenRun; mobj := None; mrun := 1 |}); (ODoc (DStart 0)); (OResp (RVal (VUid 0))); (OTask WSleep0); (OPlanIn 0 (Send (VUid 0))); (OMsg {| mid := (Some 1); mcmd := CCheckpoint; mobj := None; mrun := 0 |}); (OResp (RVal VNone)); (OTask WSleep0); (OPlanIn 0 (Send VNone)); (OMsg {| mid := (Some 2); mcmd := COpenRun; mobj := None; mrun := 2 |}); (ODoc (DStart 1)); (OResp (RVal (VUid 1))); (OTask WSleep0); (OPlanIn 0 (Send (VUid 1))); (OMsg {| mid := (Some 3); mcmd := CClearCheckpoint; mobj := None; mrun := 0 |}); (OResp (RVal VNone)); (OTask WSleep0); (OPlanIn 0 (Send VNone)); (OMsg {| mid := (Some 4); mcmd := CNull; mobj := None; mrun := 0 |}); (OResp (RVal VNone)); (OTask WSleep0); (OPlanIn 0 (Send VNone)); (OMsg {| mid := (Some 5); mcmd := (CCreate 0); mobj := None; mrun := 2 |}); (OResp (RVal VNone)); (OTask WSleep0); (OState Running Aborting); (OReq false); (OPlanIn 0 (Throw EFailedPause)); (OTask WSleep0); (ODoc (DStop 0 XAbort RsEmpty [])); (ODoc (DStop 1 XAbort RsEmpty [])); (OState Aborting Idle); (OTask WReturn); (OOut OutInterrupted Idle false false)].
(* ex_c10_fin : engine_cases_ctl.c10_cases, tag "c10 fin clear@3 pause@6" *)
Definition ex_c10_fin_tapes : list (nat * list tout) := [(0, [TY {| mid := (Some 0); mcmd := CStage; mobj := (Some 0); mrun := 0 |}; TY {| mid := (Some 1); mcmd := COpenRun; mobj := None; mrun := 0 |}; TY {| mid := (Some 2); mcmd := CCheckpoint; mobj := None; mrun := 0 |}; TY {| mid := (Some 3); mcmd := CClearCheckpoint; mobj := None; mrun := 0 |}; TY {| mid := (Some 4); mcmd := (CSet 1); mobj := (Some 1); mrun := 0 |}; TY {| mid := (Some 5); mcmd := CNull; mobj := None; mrun := 0 |}; TY {| mid := (Some 6); mcmd := (CCloseRun None RsEmpty); mobj := None; mrun := 0 |}; TY {| mid := (Some 7); mcmd := CUnstage; mobj := (Some 0); mrun := 0 |}; TE EFailedPause])].
Definition ex_c10_fin_ledger : list devres := [DUnit; DStatus 0 false; DUnit; DUnit].
Definition ex_c10_fin_evs : list event := [EvMain (ACall 0); EvPermit; EvTask; EvTask; EvTask; EvTask; EvTask; EvTask; EvStatus 0 true; EvReqPause false; EvPermit; EvTask; EvTask; EvTask; EvTask; EvTask; EvMainDone (ACall 0)].
Definition ex_c10_fin_paus := [2]. Definition ex_c10_fin_stag := [0; 3]. Definition ex_c10_fin_rec := false.
Definition ex_c10_fin_obs : list obs := [(OState Idle Running); (OTask WSleep0); (OPlanIn 0 (Send VNone)); (OMsg {| mid := (Some 0); mcmd := CStage; mobj := (Some 0); mrun := 0 |}); (ODev 0 MStage); (OResp (RVal (VDevs [0]))); (OTask WSleep0); (OPlanIn 0 (Send (VDevs [0]))); (OMsg {| mid := (Some 1); mcmd := COpenRun; mobj := None; mrun := 0 |}); (ODoc (DStart 0)); (OResp (RVal (VUid 0))); (OTask WSleep0); (OPlanIn 0 (Send (VUid 0))); (OMsg {| mid := (Some 2); mcmd := CCheckpoint; mobj := None; mrun := 0 |}); (OResp (RVal VNone)); (OTask WSleep0); (OPlanIn 0 (Send VNone)); (OMsg {| mid := (Some 3); mcmd := CClearCheckpoint; mobj := None; mrun := 0 |}); (OResp (RVal VNone)); (OTask WSleep0); (OPlanIn 0 (Send VNone)); (OMsg {| mid := (Some 4); mcmd := (CSet 1); mobj := (Some 1); mrun := 0 |}); (ODev 1 MSet); (OResp (RVal (VStatus 0))); (OTask WSleep0); (OState Running Pausing); (OReq true); (OState Pausing Aborting); (OPlanIn 0 (Throw EFailedPause)); (OMsg {| mid := (Some 5); mcmd := CNull; mobj := None; mrun := 0 |}); (OResp (RVal VNone)); (OTask WSleep0); (OPlanIn 0 (Send VNone)); (OMsg {| mid := (Some 6); mcmd := (CCloseRun None RsEmpty); mobj := None; mrun := 0 |}); (ODoc (DStop 0 XSuccess RsEmpty [])); (OResp (RVal (VUid 0))); (OTask WSleep0); (OPlanIn 0 (Send (VUid 0))); (OMsg {| mid := (Some 7); mcmd := CUnstage; mobj := (Some 0); mrun := 0 |}); (ODev 0 MUnstage); (OResp (RVal (VDevs [0]))); (OTask WSleep0); (OPlanIn 0 (Send (VDevs [0]))); (OTask WSleep0); (ODev 1 MStop); (OState Aborting Idle); (OTask WReturn); (OOut OutInterrupted Idle false false)].

(* the pause request of ex_c10_fin (try/finally plan) lands after clear_checkpoint: index 9 of the schedule; the
   continuation up to the end of the task is [EvPermit; EvTask x 5] *)
Definition fin_evs1 := firstn 9 ex_c10_fin_evs.
Definition fin_evs2 := [EvPermit; EvTask; EvTask; EvTask; EvTask; EvTask].
Example c10_end_to_end_nonvacuous_pause :
  check ex_c10_fin_tapes ex_c10_fin_ledger ex_c10_fin_paus ex_c10_fin_stag ex_c10_fin_rec ex_c10_fin_evs ex_c10_fin_obs = true /\
  ex_c10_fin_evs = fin_evs1 ++ EvReqPause false :: fin_evs2 ++ [EvMainDone (ACall 0)] /\
  let s1 := fst (wrun ex_c10_fin_tapes ex_c10_fin_ledger (winit ex_c10_fin_paus ex_c10_fin_stag ex_c10_fin_rec) fin_evs1) in
  let o1 := snd (wrun ex_c10_fin_tapes ex_c10_fin_ledger (winit ex_c10_fin_paus ex_c10_fin_stag ex_c10_fin_rec) fin_evs1) in
  let s3 := fst (wrun ex_c10_fin_tapes ex_c10_fin_ledger s1 (EvReqPause false :: fin_evs2)) in
  let o := snd (wrun ex_c10_fin_tapes ex_c10_fin_ledger s1 (EvReqPause false :: fin_evs2)) in
  state TP nat s1 = Running /\ cache TP nat s1 = None /\ exc_slot TP nat s1 = None /\ pc TP nat s1 = PcSleep0 /\
  main_err TP nat s1 = None /\ forallb cont_ev fin_evs2 = true /\ no_bad (o1 ++ o) = true /\
  (exists r, pc TP nat s3 = PcDone r) /\
  (* what the theorem then says, seen on the run *)
  never_paused_b o = true /\ fin o = Some (OPlanIn 0 (Throw EFailedPause)) /\
  has_o (OMsg {| mid := Some 6; mcmd := CCloseRun None RsEmpty; mobj := None; mrun := 0 |}) o = true /\
  has_o (OMsg {| mid := Some 7; mcmd := CUnstage; mobj := Some 0; mrun := 0 |}) o = true /\
  state TP nat s3 = Idle /\ bundlers TP nat s3 = [].
Proof. vm_compute. repeat split. eexists; reflexivity. Qed.

(* the suspension request of ex_c10_susp (two nested open runs) lands after clear_checkpoint: index 9 *)
Definition susp_evs1 := firstn 9 ex_c10_susp_evs.
Definition susp_evs2 := [EvTask; EvTask].
Example c10_end_to_end_nonvacuous_suspend :
  check ex_c10_susp_tapes ex_c10_susp_ledger ex_c10_susp_paus ex_c10_susp_stag ex_c10_susp_rec ex_c10_susp_evs ex_c10_susp_obs = true /\
  ex_c10_susp_evs = susp_evs1 ++ EvReqSuspend 0 false false :: susp_evs2 ++ [EvMainDone (ACall 0)] /\
  let s1 := fst (wrun ex_c10_susp_tapes ex_c10_susp_ledger (winit ex_c10_susp_paus ex_c10_susp_stag ex_c10_susp_rec) susp_evs1) in
  let o1 := snd (wrun ex_c10_susp_tapes ex_c10_susp_ledger (winit ex_c10_susp_paus ex_c10_susp_stag ex_c10_susp_rec) susp_evs1) in
  let s3 := fst (wrun ex_c10_susp_tapes ex_c10_susp_ledger s1 (EvReqSuspend 0 false false :: susp_evs2)) in
  let o := snd (wrun ex_c10_susp_tapes ex_c10_susp_ledger s1 (EvReqSuspend 0 false false :: susp_evs2)) in
  state TP nat s1 = Running /\ cache TP nat s1 = None /\ exc_slot TP nat s1 = None /\
  (exists k, pc TP nat s1 = PcSleep0 \/ pc TP nat s1 = PcCmd k) /\
  main_err TP nat s1 = None /\ forallb cont_ev susp_evs2 = true /\ no_bad (o1 ++ o) = true /\
  (exists r, pc TP nat s3 = PcDone r) /\
  never_paused_b o = true /\ fin o = Some (OPlanIn 0 (Throw EFailedPause)) /\
  existsb (fun x => match x with ODoc (DStop 0 XAbort _ _) => true | _ => false end) o = true /\
  existsb (fun x => match x with ODoc (DStop 1 XAbort _ _) => true | _ => false end) o = true /\
  state TP nat s3 = Idle.
Proof. vm_compute. repeat split; try (eexists; reflexivity). exists KSleep. left; reflexivity. Qed.

(* ex_c10_pa : engine_cases_ctl.c10_cases, tag "c10 fin clear@3 pause+abort@6" *)
Definition ex_c10_pa_tapes : list (nat * list tout) := [(0, [TY {| mid := (Some 0); mcmd := CStage; mobj := (Some 0); mrun := 0 |}; TY {| mid := (Some 1); mcmd := COpenRun; mobj := None; mrun := 0 |}; TY {| mid := (Some 2); mcmd := CCheckpoint; mobj := None; mrun := 0 |}; TY {| mid := (Some 3); mcmd := CClearCheckpoint; mobj := None; mrun := 0 |}; TY {| mid := (Some 4); mcmd := (CSet 1); mobj := (Some 1); mrun := 0 |}; TY {| mid := (Some 5); mcmd := CNull; mobj := None; mrun := 0 |}; TY {| mid := (Some 6); mcmd := (CCloseRun None RsEmpty); mobj := None; mrun := 0 |}; TY {| mid := (Some 7); mcmd := CUnstage; mobj := (Some 0); mrun := 0 |}; TE EFailedPause])].
Definition ex_c10_pa_ledger : list devres := [DUnit; DStatus 0 false; DUnit; DUnit].
Definition ex_c10_pa_evs : list event := [EvMain (ACall 0); EvPermit; EvTask; EvTask; EvTask; EvTask; EvTask; EvTask; EvStatus 0 true; EvReqPause false; EvPermit; EvTask; EvReqAbort (RsGiven 1); EvTask; EvTask; EvTask; EvTask; EvMainDone (ACall 0)].
Definition ex_c10_pa_paus := [2]. Definition ex_c10_pa_stag := [0; 3]. Definition ex_c10_pa_rec := false.
Definition ex_c10_pa_obs : list obs := [(OState Idle Running); (OTask WSleep0); (OPlanIn 0 (Send VNone)); (OMsg {| mid := (Some 0); mcmd := CStage; mobj := (Some 0); mrun := 0 |}); (ODev 0 MStage); (OResp (RVal (VDevs [0]))); (OTask WSleep0); (OPlanIn 0 (Send (VDevs [0]))); (OMsg {| mid := (Some 1); mcmd := COpenRun; mobj := None; mrun := 0 |}); (ODoc (DStart 0)); (OResp (RVal (VUid 0))); (OTask WSleep0); (OPlanIn 0 (Send (VUid 0))); (OMsg {| mid := (Some 2); mcmd := CCheckpoint; mobj := None; mrun := 0 |}); (OResp (RVal VNone)); (OTask WSleep0); (OPlanIn 0 (Send VNone)); (OMsg {| mid := (Some 3); mcmd := CClearCheckpoint; mobj := None; mrun := 0 |}); (OResp (RVal VNone)); (OTask WSleep0); (OPlanIn 0 (Send VNone)); (OMsg {| mid := (Some 4); mcmd := (CSet 1); mobj := (Some 1); mrun := 0 |}); (ODev 1 MSet); (OResp (RVal (VStatus 0))); (OTask WSleep0); (OState Running Pausing); (OReq true); (OState Pausing Aborting); (OPlanIn 0 (Throw EFailedPause)); (OMsg {| mid := (Some 5); mcmd := CNull; mobj := None; mrun := 0 |}); (OResp (RVal VNone)); (OTask WSleep0); (OReq false); (OPlanIn 0 (Send VNone)); (OMsg {| mid := (Some 6); mcmd := (CCloseRun None RsEmpty); mobj := None; mrun := 0 |}); (ODoc (DStop 0 XSuccess RsEmpty [])); (OResp (RVal (VUid 0))); (OTask WSleep0); (OPlanIn 0 (Send (VUid 0))); (OMsg {| mid := (Some 7); mcmd := CUnstage; mobj := (Some 0); mrun := 0 |}); (ODev 0 MUnstage); (OResp (RVal (VDevs [0]))); (OTask WSleep0); (OPlanIn 0 (Send (VDevs [0]))); (OTask WSleep0); (ODev 1 MStop); (OState Aborting Idle); (OTask WReturn); (OOut OutInterrupted Idle false false)].

(* the pause of ex_c10_pa lands after clear_checkpoint (index 9); an abort request follows during the cleanup *)
Definition pa_evs1 := firstn 9 ex_c10_pa_evs.
Definition pa_evs2 := [EvPermit; EvTask; EvReqAbort (RsGiven 1); EvTask; EvTask; EvTask; EvTask].
Example c10_any_requests_nonvacuous :
  check ex_c10_pa_tapes ex_c10_pa_ledger ex_c10_pa_paus ex_c10_pa_stag ex_c10_pa_rec ex_c10_pa_evs ex_c10_pa_obs = true /\
  ex_c10_pa_evs = pa_evs1 ++ EvReqPause false :: pa_evs2 ++ [EvMainDone (ACall 0)] /\
  let s1 := fst (wrun ex_c10_pa_tapes ex_c10_pa_ledger (winit ex_c10_pa_paus ex_c10_pa_stag ex_c10_pa_rec) pa_evs1) in
  let o1 := snd (wrun ex_c10_pa_tapes ex_c10_pa_ledger (winit ex_c10_pa_paus ex_c10_pa_stag ex_c10_pa_rec) pa_evs1) in
  let s3 := fst (wrun ex_c10_pa_tapes ex_c10_pa_ledger s1 (EvReqPause false :: pa_evs2)) in
  let o := snd (wrun ex_c10_pa_tapes ex_c10_pa_ledger s1 (EvReqPause false :: pa_evs2)) in
  state TP nat s1 = Running /\ cache TP nat s1 = None /\ forallb ok_ev pa_evs2 = true /\ no_bad (o1 ++ o) = true /\
  (exists r, pc TP nat s3 = PcDone r) /\
  never_paused_b o = true /\ state TP nat s3 = Idle /\ bundlers TP nat s3 = [] /\ interrupted TP nat s3 = true.
Proof. vm_compute. repeat split. eexists; reflexivity. Qed.

(* ---- [C10_full] (Props/C10.v) as first stated is false: it lets the call that ends be ANY main-thread call; for
   `EvMainDone AAbort` the model reports the request's own result (the run uids), not an interruption.  The recorded
   run ex_nockpt of Proofs/RE_CtlExamples.v, ended by that event *)
Definition C10_full_statement : Prop :=
  forall (P : Type) (presume : P -> input -> outcome P) (plan_of : nat -> P) (D : Type) (dev : D -> nat -> devmeth -> D * devres)
         (d : D) (paus stag : list nat) (rec : bool) (evs1 evs2 : list event) (req : event) (a : mainact),
    (req = EvReqPause false \/ exists sid pre post, req = EvReqSuspend sid pre post) ->
    let s1 := fst (run P presume plan_of D dev (init P D d paus stag rec) evs1) in
    state P D s1 = Running -> cache P D s1 = None ->
    Forall (fun e => e = EvTask) evs2 ->
    let o := snd (run P presume plan_of D dev s1 (req :: evs2 ++ [EvMainDone a])) in
    (forall x, In x o -> match x with OBad _ => False | _ => True end) ->
    (exists w, In (OTask w) o /\ (w = WReturn \/ exists e, w = WRaise e)) ->
    (forall x, In x o -> match x with OState _ Paused => False | _ => True end) /\
    exists out dfr rsm, In (OOut out Idle dfr rsm) o /\ out <> OutReturn (run_uids P D s1).

Definition nk_tapes : list (nat * list tout) :=
  [(0, [TY {| mid := Some 0; mcmd := COpenRun; mobj := None; mrun := 0 |}; TY {| mid := Some 1; mcmd := CCheckpoint; mobj := None; mrun := 0 |};
        TY {| mid := Some 2; mcmd := CClearCheckpoint; mobj := None; mrun := 0 |}; TY {| mid := Some 3; mcmd := CNull; mobj := None; mrun := 0 |};
        TE EFailedPause])].
Definition nk_evs1 : list event := [EvMain (ACall 0); EvPermit; EvTask; EvTask; EvTask; EvTask; EvTask].

Example c10_full_witness :
  let s1 := fst (wrun nk_tapes [] (winit [] [] false) nk_evs1) in
  state TP nat s1 = Running /\ cache TP nat s1 = None /\ run_uids TP nat s1 = [0] /\
  snd (wrun nk_tapes [] s1 (EvReqPause false :: [EvTask; EvTask] ++ [EvMainDone AAbort])) =
    [OState Running Pausing; OReq true; OState Pausing Aborting; OPlanIn 0 (Throw EFailedPause); OTask WSleep0;
     ODoc (DStop 0 XAbort RsEmpty []); OState Aborting Idle; OTask WReturn; OOut (OutReturn [0]) Idle false false].
Proof. vm_compute. repeat split. Qed.

Theorem c10_full_refuted : ~ C10_full_statement.
Proof.
  intros H. destruct c10_full_witness as (A & B & U & E).
  specialize (H TP (t_resume nk_tapes) t_plan_of nat (t_dev []) 0 [] [] false nk_evs1 [EvTask; EvTask] (EvReqPause false) AAbort
                (or_introl eq_refl) A B (Forall_cons _ eq_refl (Forall_cons _ eq_refl (Forall_nil _)))).
  cbv zeta in H. rewrite E, U in H.
  destruct H as [_ (out & dfr & rsm & Hin & Hne)].
  - intros x Hx. repeat (destruct Hx as [<-|Hx]; [exact I|]). destruct Hx.
  - exists WReturn. split; [|left; reflexivity]. do 7 right. left. reflexivity.
  - repeat (destruct Hin as [Hin|Hin]; [try discriminate Hin|]); [|destruct Hin].
    injection Hin as <- _ _. apply Hne. reflexivity.
Qed.

(* ---- exit status 'abort' is NOT guaranteed: a plan that catches FailedPause and finishes normally ends the loop
   with a normal return; the run the engine closes itself gets exit status 'success' (the call still ends
   RunEngineInterrupted, idle, never paused).  The status is decided by how the outermost plan ends (C02). *)
Definition sw_tapes : list (nat * list tout) :=
  [(0, [TY {| mid := Some 0; mcmd := COpenRun; mobj := None; mrun := 0 |}; TY {| mid := Some 1; mcmd := CCheckpoint; mobj := None; mrun := 0 |};
        TY {| mid := Some 2; mcmd := CClearCheckpoint; mobj := None; mrun := 0 |}; TY {| mid := Some 3; mcmd := CNull; mobj := None; mrun := 0 |};
        TY {| mid := Some 4; mcmd := CNull; mobj := None; mrun := 0 |}; TR VNone])].
Definition sw_evs : list event :=
  [EvMain (ACall 0); EvPermit; EvTask; EvTask; EvTask; EvTask; EvTask; EvReqPause false; EvTask; EvTask; EvTask; EvMainDone (ACall 0)].
Example c10_status_success_when_plan_swallows :
  let o := snd (wrun sw_tapes [] (winit [] [] false) sw_evs) in
  no_bad o = true /\ never_paused_b o = true /\
  has_o (OPlanIn 0 (Throw EFailedPause)) o = true /\
  has_o (ODoc (DStop 0 XSuccess RsEmpty [])) o = true /\
  has_o (OOut OutInterrupted Idle false false) o = true.
Proof. vm_compute. repeat split. Qed.
