(* Observation side of the Bundler model, used by the correspondence terms: canonical renaming of generated
   uids by first appearance (the same scan order as harness/drivers/bundler_driver.py: a document's own uid
   first, then the uids it refers to), dict-valued fields sorted by key, boolean equality on documents,
   device calls and results.  Executable definitions only. *)
From BV Require Import Base.Prelude Engine.Bundler.
From Coq Require Import ZArith List Bool.
Import ListNotations.

Definition null_dev : devspec := mkDev false false false false false false false false false [] [].
Definition env_of (l : dict devspec) : env := fun o => match dget l o with Some d => d | None => null_dev end.

Fixpoint dinsert {V} (k : nat) (v : V) (d : dict V) : dict V :=
  match d with
  | [] => [(k, v)]
  | (k', v') :: d' => if Nat.ltb k k' then (k, v) :: d else (k', v') :: dinsert k v d'
  end.
Definition dsort {V} (d : dict V) : dict V := fold_right (fun kv acc => dinsert (fst kv) (snd kv) acc) [] d.
Definition nsort (l : list nat) : list nat := map fst (dsort (map (fun x => (x, tt)) l)).

(* first-appearance renaming of UGen uids *)
Definition cmap := dict nat.
Definition cuid (m : cmap) (u : uid) : cmap * uid :=
  match u with
  | UDev _ => (m, u)
  | UGen n => match dget m n with
              | Some i => (m, UGen i)
              | None => (m ++ [(n, length m)], UGen (length m))
              end
  end.

Definition canon_doc (m : cmap) (d : doc) : cmap * doc :=
  match d with
  | DStart u => let '(m, u) := cuid m u in (m, DStart u)
  | DDescr d =>
      let '(m, u) := cuid m (de_uid d) in
      let '(m, r) := cuid m (de_run d) in
      (m, DDescr (mkDescr u r (de_name d) (dsort (de_keys d)) (dsort (de_objkeys d)) (dsort (de_cfg d))))
  | DEvent u de seq data filled =>
      let '(m, u) := cuid m u in
      let '(m, de) := cuid m de in
      (m, DEvent u de seq (dsort data) (nsort filled))
  | DStreamRes u run k =>
      let '(m, u) := cuid m u in let '(m, run) := cuid m run in (m, DStreamRes u run k)
  | DStreamDatum u sres de ia ib sa sb =>
      let '(m, u) := cuid m u in let '(m, sres) := cuid m sres in let '(m, de) := cuid m de in
      (m, DStreamDatum u sres de ia ib sa sb)
  | DResource u run => let '(m, u) := cuid m u in let '(m, run) := cuid m run in (m, DResource u run)
  | DDatum u r => let '(m, u) := cuid m u in let '(m, r) := cuid m r in (m, DDatum u r)
  | DStop u run st reason ne =>
      let '(m, u) := cuid m u in let '(m, run) := cuid m run in (m, DStop u run st reason (dsort ne))
  end.

Fixpoint canon_docs (m : cmap) (l : list doc) : cmap * list doc :=
  match l with
  | [] => (m, [])
  | d :: l' => let '(m, d) := canon_doc m d in let '(m, r) := canon_docs m l' in (m, d :: r)
  end.

(* callbacks handed to subscribe / clear_sub: renamed by first appearance in the device-call ledger, as the driver
   does (a monitor started while the monitors are suspended is not subscribed at once) *)
Definition canon_cb (m : cmap) (c : nat) : cmap * nat :=
  match dget m c with
  | Some i => (m, i)
  | None => (m ++ [(c, length m)], length m)
  end.
Definition canon_call (m : cmap) (c : devcall) : cmap * devcall :=
  match c with
  | CSubscribe o cb => let '(m, cb) := canon_cb m cb in (m, CSubscribe o cb)
  | CClearSub o cb => let '(m, cb) := canon_cb m cb in (m, CClearSub o cb)
  | _ => (m, c)
  end.
Fixpoint canon_calls (m : cmap) (l : list devcall) : cmap * list devcall :=
  match l with
  | [] => (m, [])
  | c :: l' => let '(m, c) := canon_call m c in let '(m, r) := canon_calls m l' in (m, c :: r)
  end.

Definition obs := (list doc * list devcall * result)%type.
Fixpoint canon_obs2 (m mc : cmap) (l : list obs) : list obs :=
  match l with
  | [] => []
  | (docs, calls, r) :: l' =>
      let '(m, docs) := canon_docs m docs in
      let '(mc, calls) := canon_calls mc calls in
      (docs, calls, r) :: canon_obs2 m mc l'
  end.
Definition canon_obs (m : cmap) (l : list obs) : list obs := canon_obs2 m [] l.

(* ---- boolean equalities *)
Definition dict_beq {V} (eqv : V -> V -> bool) : dict V -> dict V -> bool := list_beq (prod_beq Nat.eqb eqv).
Definition optnat_beq := option_beq Nat.eqb.
Definition optZ_beq := option_beq Z.eqb.
Definition descr_beq (a b : descr) : bool :=
  uid_eqb (de_uid a) (de_uid b) && uid_eqb (de_run a) (de_run b) && Nat.eqb (de_name a) (de_name b)
  && dict_beq (prod_beq optnat_beq ext_eqb) (de_keys a) (de_keys b)
  && dict_beq lnat_beq (de_objkeys a) (de_objkeys b)
  && dict_beq optZ_beq (de_cfg a) (de_cfg b).
Definition status_beq (a b : status) : bool :=
  match a, b with SSuccess, SSuccess | SAbort, SAbort | SFail, SFail => true | _, _ => false end.
Definition doc_beq (a b : doc) : bool :=
  match a, b with
  | DStart u, DStart u' => uid_eqb u u'
  | DDescr d, DDescr d' => descr_beq d d'
  | DEvent u de s da f, DEvent u' de' s' da' f' =>
      uid_eqb u u' && uid_eqb de de' && Z.eqb s s' && dict_beq Z.eqb da da' && lnat_beq f f'
  | DStreamRes u r k, DStreamRes u' r' k' => uid_eqb u u' && uid_eqb r r' && Nat.eqb k k'
  | DStreamDatum u sr de ia ib sa sb, DStreamDatum u' sr' de' ia' ib' sa' sb' =>
      uid_eqb u u' && uid_eqb sr sr' && uid_eqb de de' && Z.eqb ia ia' && Z.eqb ib ib' && Z.eqb sa sa' && Z.eqb sb sb'
  | DResource u r, DResource u' r' => uid_eqb u u' && uid_eqb r r'
  | DDatum u r, DDatum u' r' => uid_eqb u u' && uid_eqb r r'
  | DStop u r st re ne, DStop u' r' st' re' ne' =>
      uid_eqb u u' && uid_eqb r r' && status_beq st st' && Nat.eqb re re' && dict_beq Z.eqb ne ne'
  | _, _ => false
  end.
Definition devcall_beq (a b : devcall) : bool :=
  match a, b with
  | CDescribe o, CDescribe o' | CDescribeCfg o, CDescribeCfg o' | CReadCfg o, CReadCfg o'
  | CDescribeCollect o, CDescribeCollect o' | CGetIndex o, CGetIndex o' => Nat.eqb o o'
  | CSubscribe o c, CSubscribe o' c' | CClearSub o c, CClearSub o' c' => Nat.eqb o o' && Nat.eqb c c'
  | CCollectAssets o i, CCollectAssets o' i' => Nat.eqb o o' && optZ_beq i i'
  | CConfigure o v, CConfigure o' v' => Nat.eqb o o' && Z.eqb v v'
  | _, _ => false
  end.
Definition err_beq (a b : err) : bool :=
  match a, b with
  | EIllegalMessageSequence, EIllegalMessageSequence | EValueError, EValueError | ERuntimeError, ERuntimeError
  | EAssertionError, EAssertionError | EKeyError, EKeyError | EAttributeError, EAttributeError
  | EEventModelValueError, EEventModelValueError | EEventModelValidationError, EEventModelValidationError
  | EEventModelError, EEventModelError | ETypeError, ETypeError | EUnmodelled, EUnmodelled => true
  | _, _ => false
  end.
Definition result_beq (a b : result) : bool :=
  match a, b with ROk, ROk => true | RErr e, RErr e' => err_beq e e' | _, _ => false end.
Definition obs_beq (a b : obs) : bool :=
  list_beq doc_beq (fst (fst a)) (fst (fst b)) && list_beq devcall_beq (snd (fst a)) (snd (fst b))
  && result_beq (snd a) (snd b).

(* the model run on a case, canonicalised like the driver's observation *)
Definition run_obs (devs : dict devspec) (strict record_int : bool) (h : list op) : list obs :=
  canon_obs [] (snd (run (env_of devs) (init strict record_int) h)).
(* the model makes no claim from the first op it answers with EUnmodelled on *)
Fixpoint agree_list (a b : list obs) : bool :=
  match a, b with
  | [], [] => true
  | x :: a', y :: b' =>
      if result_beq (snd x) (RErr EUnmodelled) then true else obs_beq x y && agree_list a' b'
  | _, _ => false
  end.
Definition agrees (devs : dict devspec) (strict record_int : bool) (h : list op) (expected : list obs) : bool :=
  agree_list (run_obs devs strict record_int h) expected.
(* index of the first op whose observation differs (for diagnosis) *)
Fixpoint first_diff (a b : list obs) (i : nat) : option nat :=
  match a, b with
  | [], [] => None
  | x :: a', y :: b' => if obs_beq x y then first_diff a' b' (S i) else Some i
  | _, _ => Some i
  end.
Definition has_unmodelled (l : list obs) : bool :=
  existsb (fun o => result_beq (snd o) (RErr EUnmodelled)) l.
