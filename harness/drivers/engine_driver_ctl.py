"""Variant of the engine driver for the control-flow properties C03/C04/C09/C10/C11.

It does NOT copy engine_driver.py: it subclasses its Driver and only changes
  * the fake devices when the case says {"posdev": true}: a device's reading is a function of the
    last positions its `set` messages gave to the devices (replay-deterministic, which the stock
    device -- a counter that increases with every read -- is not); used by the C03 differential cases;
  * `resolve_arg`: the argument "@cb" of a `subscribe` message becomes a callable;
  * `fire`: releasing a suspension nobody waits for is reported as ineffective to on_idle.
Everything else (loop, logging task factory, tapes, observation format) is engine_driver's.
"""
import threading

from harness.drivers import engine_driver as ed


class PosDev(ed.Dev):
    """reading = 10 * own position + sum over the other devices of (index+1) * their position"""

    def __init__(self, drv, idx, flags):
        self.pos = 0
        super().__init__(drv, idx, flags)

    @property
    def value(self):
        tot = 10 * self.pos
        for d in getattr(self.drv, "devs", []):
            if d is not self:
                tot += (d.idx + 1) * getattr(d, "pos", 0)
        return tot

    @value.setter
    def value(self, v):     # the stock read() does `self.value += 1`: ignored here
        pass

    def set(self, v, **kw):
        st = self._call("set")
        self.pos = int(v)
        return st


_POS_CLASSES = {}


def make_posdev(drv, idx, flags):
    key = ("stage" in flags, "pause" in flags)
    if key not in _POS_CLASSES:
        bases = tuple(([ed._StageMixin] if key[0] else []) + ([ed._PauseMixin] if key[1] else []) + [PosDev])
        _POS_CLASSES[key] = type("PosDev_%d%d" % key, bases, {"__hash__": ed.Dev.__hash__})
    return _POS_CLASSES[key](drv, idx, flags)


class CtlDriver(ed.Driver):
    def resolve_arg(self, a):
        if a == "@cb":
            def cb(name, doc):
                return None
            return cb
        return a

    def fire(self, inj):
        # a release nobody is waiting for wakes nothing up: tell on_idle to go on with the next injection
        # (otherwise a case whose releases come in the "wrong" order sits on an idle loop until it times out)
        if inj.get("req") == "release":
            ev = self.events.get(inj["sid"])
            waited = ev is not None and not ev.is_set() and len(getattr(ev, "_waiters", ())) > 0
            r = super().fire(inj)
            return bool(r) and waited
        return super().fire(inj)

    def run(self):
        old = ed.make_dev
        if self.case.get("posdev"):
            ed.make_dev = make_posdev
        try:
            return super().run()
        finally:
            ed.make_dev = old


def run_case(case, timeout=20.0):
    d = CtlDriver(case)
    box = {}

    def target():
        try:
            box["out"] = d.run()
        except BaseException as e:  # pragma: no cover
            box["out"] = {"errors": ["driver crashed: %r" % (e,)], "sched": d.sched, "obs": d.obs, "tapes": d.tapes,
                          "msgs": d.msg_list, "devcalls": d.devcalls}
    th = threading.Thread(target=target, daemon=True)
    th.start()
    th.join(timeout)
    if th.is_alive():
        return {"errors": ["timeout: case did not finish in %.0fs" % timeout],
                "sched": list(d.sched), "obs": list(d.obs), "tapes": d.tapes, "msgs": d.msg_list, "devcalls": d.devcalls}
    return box["out"]


if __name__ == "__main__":
    import json
    import sys
    out = run_case(json.loads(sys.argv[1]))
    for k in ("sched", "obs"):
        print(k)
        for x in out[k]:
            print("   ", x)
    print(out["errors"])
