(* Proofs about the Q instance of Pure/Adaptive.v: termination bounds and range invariants of
   adaptive_core and _tune_core for every detector response sequence. *)
From Coq Require Import ZArith QArith Qminmax Qround Qabs List Bool Lia Lqa.
From BV Require Import Base.NumOps Pure.Adaptive.
Import ListNotations.
Local Open Scope Q_scope.

(* ------------------------------------------------------------------ booleans <-> order *)
Lemma Qltb_true a b : Qltb a b = true <-> a < b.
Proof.
  unfold Qltb. rewrite negb_true_iff. split; intros H.
  - apply Qnot_le_lt. intros L. apply Qle_bool_iff in L. congruence.
  - destruct (Qle_bool b a) eqn:E; auto. apply Qle_bool_iff in E. exfalso. apply (Qlt_not_le _ _ H E).
Qed.
Lemma Qltb_false a b : Qltb a b = false <-> b <= a.
Proof.
  unfold Qltb. rewrite negb_false_iff. apply Qle_bool_iff.
Qed.
Lemma Qleb_false a b : Qle_bool a b = false <-> b < a.
Proof.
  split; intros H.
  - apply Qnot_le_lt. intros L. apply Qle_bool_iff in L. congruence.
  - destruct (Qle_bool a b) eqn:E; auto. apply Qle_bool_iff in E. exfalso. apply (Qlt_not_le _ _ H E).
Qed.

Lemma of_nat_S_Q n : inject_Z (Z.of_nat (S n)) == inject_Z (Z.of_nat n) + 1.
Proof. rewrite Nat2Z.inj_succ. unfold Z.succ. rewrite inject_Z_plus. reflexivity. Qed.

Lemma of_nat_nonneg_Q n : 0 <= inject_Z (Z.of_nat n).
Proof. change 0 with (inject_Z 0). rewrite <- Zle_Qle. lia. Qed.

Lemma Qceil_nat_ge q : q <= inject_Z (Z.of_nat (Qceil_nat q)).
Proof.
  unfold Qceil_nat. destruct (Z_le_gt_dec 0 (Qceiling q)) as [H|H].
  - rewrite Z2Nat.id by exact H. apply Qle_ceiling.
  - apply Qle_trans with (inject_Z (Qceiling q)); [apply Qle_ceiling|].
    rewrite <- Zle_Qle. lia.
Qed.

Lemma clip_bounds x lo hi : lo <= hi -> lo <= clip Qops x lo hi /\ clip Qops x lo hi <= hi.
Proof.
  intros H. unfold clip; cbn.
  destruct (Qltb x lo) eqn:E1; [split; lra|].
  apply Qltb_false in E1.
  destruct (Qltb hi x) eqn:E2; [split; lra|].
  apply Qltb_false in E2. split; lra.
Qed.

(* ------------------------------------------------------------------ adaptive_scan *)
Section AdaptiveProof.
  Variable p : aparams (F:=Q).
  Variable det : nat -> Q.
  Hypothesis Hvalid : a_valid Qops p = true.

  Notation mn := (a_min p).
  Notation mx := (a_max p).
  Notation m := (a_m p).
  Notation t := (a_t p).
  Notation delta := (a_delta p).

  Lemma valid_facts : 0 < mn /\ mn < mx /\ (a_backstep p = true -> a_thr p < 1).
  Proof.
    unfold a_valid in Hvalid. cbn in Hvalid.
    apply andb_true_iff in Hvalid as [H12 H3]. apply andb_true_iff in H12 as [H1 H2].
    apply Qltb_true in H1. apply Qltb_true in H2. split; [|split]; auto.
    intros B. rewrite B in H3. cbn in H3. apply Qltb_true in H3. exact H3.
  Qed.

  Lemma m_facts : 0 < m /\ m <= mn /\ m <= a_step0 p /\ a_step0 p < mx /\ m < mx.
  Proof.
    destruct valid_facts as (H1 & H2 & _).
    assert (S0 : a_step0 p == (mx - mn) / 2) by reflexivity.
    assert (S1 : 0 < a_step0 p) by (rewrite S0; apply Qlt_shift_div_l; lra).
    assert (S2 : a_step0 p < mx) by (rewrite S0; apply Qlt_shift_div_r; lra).
    assert (M1 : m <= mn) by apply Q.le_min_r.
    assert (M2 : m <= a_step0 p) by apply Q.le_min_l.
    assert (M3 : 0 < m).
    { unfold a_m. apply Q.min_glb_lt; auto. }
    split; [|split; [|split; [|split]]]; auto; lra.
  Qed.

  Lemma t_facts : 0 <= t /\ t < 1 /\ (a_backstep p = true -> a_thr p <= t).
  Proof.
    destruct valid_facts as (_ & _ & H3). unfold a_t.
    destruct (a_backstep p).
    - specialize (H3 eq_refl). split; [|split].
      + apply Q.le_max_r.
      + apply Q.max_lub_lt; lra.
      + intros _. apply Q.le_max_l.
    - split; [|split]; try lra; try discriminate.
  Qed.

  Lemma delta_facts : 0 < delta /\ delta == (1 - t) * m.
  Proof.
    destruct m_facts as (M & _). destruct t_facts as (T0 & T1 & _).
    split; [|reflexivity]. unfold a_delta. nra.
  Qed.

  (* the step proposed by the body stays within [m, max_step] *)
  Lemma new_step_bounds (c : bool) (x step : Q) :
    m <= step -> step <= mx ->
    let ns := if c then clip Qops x mn mx
              else npmin2 Qops (o_mul Qops step (tenths Qops 11)) mx in
    m <= ns /\ ns <= mx.
  Proof.
    intros L U. destruct m_facts as (M0 & M1 & _ & _ & M4).
    destruct valid_facts as (V1 & V2 & _).
    destruct c; cbv zeta.
    - destruct (clip_bounds x mn mx) as [A B]; [lra|]. split; lra.
    - unfold npmin2. cbn [o_ltb o_mul Qops].
      change (tenths Qops 11) with (11#10).
      destruct (Qltb (step * (11#10)) mx) eqn:E.
      + apply Qltb_true in E. split; lra.
      + split; lra.
  Qed.

  Definition blend (ns step : Q) : Q := o_add Qops (o_mul Qops (tenths Qops 2) ns) (o_mul Qops (tenths Qops 8) step).
  Lemma blend_eq ns step : blend ns step == (2#10) * ns + (8#10) * step.
  Proof. reflexivity. Qed.

  (* ---------------- forward scans (stop >= start) *)
  Section Forward.
    Hypothesis Hdir : Qle_bool (a_start p) (a_stop p) = true.

    Definition InvP (s : astate (F:=Q)) : Prop :=
      as_past s <> None /\ m <= as_step s /\ as_step s <= mx /\ a_start p <= as_next s - as_step s.

    (* the potential  (stop - anchor)/m * (1 + (max-m)/delta) + (step - m)/delta,  scaled by m*delta;
       anchor = next_pos - step is the last accepted position *)
    Definition PotP (s : astate (F:=Q)) : Q :=
      (a_stop p - (as_next s - as_step s)) * (delta + mx - m) + (as_step s - m) * m.

    Lemma dir_pos : a_dir Qops p = 1.
    Proof. unfold a_dir. cbn [o_leb Qops]. rewrite Hdir. reflexivity. Qed.

    Lemma cond_pos s : a_cond Qops p s = true <-> as_next s < a_stop p.
    Proof.
      unfold a_cond. rewrite dir_pos. cbn [o_ltb o_mul Qops]. rewrite Qltb_true. split; intros H; lra.
    Qed.

    Lemma body_pos s :
      InvP s -> a_cond Qops p s = true ->
      InvP (a_body Qops p det s) /\ PotP (a_body Qops p det s) <= PotP s - m * delta.
    Proof.
      intros (Hp & L & U & An) C. apply cond_pos in C.
      destruct m_facts as (M0 & M1 & M2 & M3 & M4).
      destruct t_facts as (T0 & T1 & T2). destruct delta_facts as (D0 & D1).
      destruct s as [nx st past k]. cbn [as_past as_step as_next] in *.
      destruct past as [pI|]; [|congruence].
      unfold a_body. cbn [as_past as_step as_next as_k]. rewrite dir_pos.
      match goal with |- context [if negb ?c then ?a else ?b] => 
        pose proof (new_step_bounds (negb c) (o_div Qops (a_target p) (o_div Qops (o_abs Qops (o_sub Qops (det k) pI)) st)) st L U) as NB;
        cbv zeta in NB; set (ns := if negb c then a else b) in * end.
      destruct NB as [NL NU].
      destruct (a_backstep p && o_ltb Qops ns (o_mul Qops st (a_thr p))) eqn:B.
      - apply andb_true_iff in B as [B1 B2]. cbn [o_ltb o_mul Qops] in B2. apply Qltb_true in B2.
        specialize (T2 B1).
        unfold InvP, PotP. cbn [as_past as_step as_next o_add o_sub o_mul Qops].
        assert (X : st * a_thr p <= st * t) by nra.
        assert (Y : (st - ns) * m >= delta * m) by nra.
        split; [split; [congruence|split; [lra|split; [lra|lra]]]|].
        nra.
      - fold (blend ns st). pose proof (blend_eq ns st) as BE. set (st' := blend ns st) in *.
        unfold InvP, PotP. cbn [as_past as_step as_next o_add o_sub o_mul Qops].
        assert (Y1 : st * (delta + mx - m) >= m * (delta + mx - m)) by nra.
        assert (Y2 : m * (mx - m) >= m * (st' - st)) by nra.
        split; [split; [congruence|split; [lra|split; [lra|lra]]]|].
        nra.
    Qed.

    Lemma pot_pos s : InvP s -> a_cond Qops p s = true -> 0 < PotP s.
    Proof.
      intros (Hp & L & U & An) C. apply cond_pos in C.
      destruct m_facts as (M0 & M1 & M2 & M3 & M4). destruct delta_facts as (D0 & D1).
      unfold PotP.
      assert (X : 0 < (a_stop p - (as_next s - as_step s)) * (delta + mx - m)) by (apply Qmult_lt_0_compat; lra).
      assert (Y : 0 <= (as_step s - m) * m) by (apply Qmult_le_0_compat; lra).
      lra.
    Qed.

    Definition in_fwd (x : Q) : Prop := a_start p <= x /\ x < a_stop p.

    Lemma loop_pos : forall fuel s,
      InvP s -> PotP s < inject_Z (Z.of_nat fuel) * (m * delta) ->
      snd (a_loop Qops p det fuel s) = true /\ Forall in_fwd (fst (a_loop Qops p det fuel s)).
    Proof.
      destruct m_facts as (M0 & _). destruct delta_facts as (D0 & _).
      assert (MD : 0 < m * delta) by (apply Qmult_lt_0_compat; lra).
      induction fuel as [|f IH]; intros s I Hpot; cbn [a_loop].
      - destruct (a_cond Qops p s) eqn:C; [|split; [reflexivity|constructor]].
        pose proof (pot_pos s I C) as PP. change (inject_Z (Z.of_nat 0)) with 0 in Hpot. lra.
      - destruct (a_cond Qops p s) eqn:C; [|split; [reflexivity|constructor]].
        destruct (body_pos s I C) as [I' D].
        rewrite of_nat_S_Q in Hpot.
        destruct (IH (a_body Qops p det s) I') as [F1 F2]; [nra|].
        cbn [fst snd]. split; [exact F1|].
        constructor; [|exact F2].
        destruct I as (Hp & L & U & An). apply cond_pos in C. split; lra.
    Qed.
  End Forward.

  (* ---------------- backward scans (stop < start): every iteration moves next_pos down by >= m,
     including the "backstep" (next_pos -= step ignores direction_sign there) *)
  Section Backward.
    Hypothesis Hdir : Qle_bool (a_start p) (a_stop p) = false.

    Definition InvN (s : astate (F:=Q)) : Prop :=
      m <= as_step s /\ as_step s <= mx /\ as_next s <= a_start p.

    Lemma dir_neg : a_dir Qops p = -1#1.
    Proof. unfold a_dir. cbn [o_leb Qops]. rewrite Hdir. reflexivity. Qed.

    Lemma cond_neg s : a_cond Qops p s = true <-> a_stop p < as_next s.
    Proof.
      unfold a_cond. rewrite dir_neg. cbn [o_ltb o_mul Qops]. rewrite Qltb_true. split; intros H; lra.
    Qed.

    Lemma body_neg s :
      InvN s -> InvN (a_body Qops p det s) /\ as_next (a_body Qops p det s) <= as_next s - m.
    Proof.
      intros (L & U & An).
      destruct m_facts as (M0 & M1 & M2 & M3 & M4).
      destruct s as [nx st past k]. cbn [as_past as_step as_next] in *.
      unfold a_body. cbn [as_past as_step as_next as_k]. rewrite dir_neg.
      destruct past as [pI|].
      - match goal with |- context [if negb ?c then ?a else ?b] => 
          pose proof (new_step_bounds (negb c) (o_div Qops (a_target p) (o_div Qops (o_abs Qops (o_sub Qops (det k) pI)) st)) st L U) as NB;
          cbv zeta in NB; set (ns := if negb c then a else b) in * end.
        destruct NB as [NL NU].
        destruct (a_backstep p && o_ltb Qops ns (o_mul Qops st (a_thr p))) eqn:B.
        + unfold InvN. cbn [as_past as_step as_next o_add o_sub o_mul Qops]. repeat split; lra.
        + fold (blend ns st). pose proof (blend_eq ns st) as BE. set (st' := blend ns st) in *.
          unfold InvN. cbn [as_past as_step as_next o_add o_sub o_mul Qops]. repeat split; lra.
      - unfold InvN. cbn [as_past as_step as_next o_add o_sub o_mul Qops]. repeat split; lra.
    Qed.

    Definition in_bwd (x : Q) : Prop := a_stop p < x /\ x <= a_start p.

    Lemma loop_neg : forall fuel s,
      InvN s -> as_next s - a_stop p < inject_Z (Z.of_nat fuel) * m ->
      snd (a_loop Qops p det fuel s) = true /\ Forall in_bwd (fst (a_loop Qops p det fuel s)).
    Proof.
      destruct m_facts as (M0 & _).
      induction fuel as [|f IH]; intros s I Hpot; cbn [a_loop].
      - destruct (a_cond Qops p s) eqn:C; [|split; [reflexivity|constructor]].
        apply cond_neg in C. change (inject_Z (Z.of_nat 0)) with 0 in Hpot. lra.
      - destruct (a_cond Qops p s) eqn:C; [|split; [reflexivity|constructor]].
        destruct (body_neg s I) as [I' D].
        rewrite of_nat_S_Q in Hpot.
        destruct (IH (a_body Qops p det s) I') as [F1 F2]; [nra|].
        cbn [fst snd]. split; [exact F1|].
        constructor; [|exact F2].
        destruct I as (L & U & An). apply cond_neg in C. split; lra.
    Qed.
  End Backward.
End AdaptiveProof.

Lemma of_nat_le_Q a b : (a <= b)%nat -> inject_Z (Z.of_nat a) <= inject_Z (Z.of_nat b).
Proof. intros H. rewrite <- Zle_Qle. lia. Qed.

Lemma of_nat_add_Q a b : inject_Z (Z.of_nat (a + b)) == inject_Z (Z.of_nat a) + inject_Z (Z.of_nat b).
Proof. rewrite Nat2Z.inj_add, inject_Z_plus. reflexivity. Qed.

Theorem adaptive_terminates_in_range (p : aparams (F:=Q)) (det : nat -> Q) (fuel : nat) :
  (a_bound p <= fuel)%nat ->
  match adaptive_scan Qops p det fuel with
  | AValueError => a_valid Qops p = false
  | ARan vis fin => a_valid Qops p = true /\ fin = true /\ Forall (a_in_range p) vis
  end.
Proof.
  intros Hfuel. unfold adaptive_scan. destruct (a_valid Qops p) eqn:V; [|reflexivity].
  split; [reflexivity|].
  destruct (m_facts p V) as (M0 & M1 & M2 & M3 & M4).
  destruct (delta_facts p V) as (D0 & D1).
  apply of_nat_le_Q in Hfuel.
  destruct (Qle_bool (a_start p) (a_stop p)) eqn:Hdir.
  - (* forward *)
    unfold a_bound in Hfuel. rewrite Hdir in Hfuel. cbv zeta in Hfuel.
    rewrite of_nat_add_Q in Hfuel.
    match type of Hfuel with inject_Z (Z.of_nat (Qceil_nat ?phi)) + _ <= _ =>
      pose proof (Qceil_nat_ge phi) as CE; set (phi1 := phi) in *;
      set (c := inject_Z (Z.of_nat (Qceil_nat phi1))) in * end.
    change (inject_Z (Z.of_nat 2)) with 2 in Hfuel.
    destruct fuel as [|f]; [change (inject_Z (Z.of_nat 0)) with 0 in Hfuel; pose proof (of_nat_nonneg_Q (Qceil_nat phi1)); fold c in H; lra|].
    rewrite of_nat_S_Q in Hfuel.
    cbn [a_loop]. destruct (a_cond Qops p (a_init Qops p)) eqn:C.
    2:{ cbn [fst snd]. split; [reflexivity|constructor]. }
    assert (S1 : a_body Qops p det (a_init Qops p)
                 = mkAS (F:=Q) (a_start p + a_step0 p * 1) (a_step0 p) (Some (det 0%nat)) 1).
    { unfold a_body, a_init. cbn [as_past as_step as_next as_k]. rewrite (dir_pos p Hdir). reflexivity. }
    rewrite S1.
    set (s1 := mkAS (F:=Q) (a_start p + a_step0 p * 1) (a_step0 p) (Some (det 0%nat)) 1).
    assert (I1 : InvP p s1).
    { unfold InvP, s1. cbn [as_past as_step as_next]. split; [congruence|]. split; [lra|]. split; lra. }
    assert (P1 : PotP p s1 == phi1 * (a_m p * a_delta p)).
    { unfold PotP, s1, phi1. cbn [as_past as_step as_next]. field. split; lra. }
    destruct (loop_pos p det V Hdir f s1 I1) as [F1 F2].
    { rewrite P1. assert (0 < a_m p * a_delta p) by (apply Qmult_lt_0_compat; lra).
      apply Qmult_lt_compat_r; [assumption|]. lra. }
    cbn [fst snd]. split; [exact F1|]. constructor.
    + unfold a_in_range. rewrite Hdir. apply (cond_pos p Hdir) in C. unfold a_init in *. cbn [as_next] in *. split; lra.
    + eapply Forall_impl; [|exact F2]. intros x Hx. unfold a_in_range. rewrite Hdir. exact Hx.
  - (* backward *)
    unfold a_bound in Hfuel. rewrite Hdir in Hfuel.
    rewrite of_nat_add_Q in Hfuel.
    match type of Hfuel with inject_Z (Z.of_nat (Qceil_nat ?phi)) + _ <= _ =>
      pose proof (Qceil_nat_ge phi) as CE; set (phi1 := phi) in *;
      set (c := inject_Z (Z.of_nat (Qceil_nat phi1))) in * end.
    change (inject_Z (Z.of_nat 2)) with 2 in Hfuel.
    assert (I0 : InvN p (a_init Qops p)).
    { unfold InvN, a_init. cbn [as_step as_next]. fold (a_step0 p). change (o_div Qops (o_sub Qops (a_max p) (a_min p)) (o_of_Z Qops 2)) with (a_step0 p). split; [lra|]. split; lra. }
    destruct (loop_neg p det V Hdir fuel (a_init Qops p) I0) as [F1 F2].
    { unfold a_init. cbn [as_next].
      assert (E : a_start p - a_stop p == phi1 * a_m p) by (unfold phi1; field; lra).
      rewrite E. apply Qmult_lt_compat_r; [assumption|]. lra. }
    split; [exact F1|].
    eapply Forall_impl; [|exact F2]. intros x Hx. unfold a_in_range. rewrite Hdir. exact Hx.
Qed.

(* ------------------------------------------------------------------ tune_centroid *)
Lemma Qabs_cases x : (0 <= x /\ Qabs x == x) \/ (x <= 0 /\ Qabs x == - x).
Proof.
  destruct (Qlt_le_dec x 0) as [H|H].
  - right. split; [lra|]. apply Qabs_neg. lra.
  - left. split; [lra|]. apply Qabs_pos. lra.
Qed.

Ltac qabs x := let H := fresh "A" in destruct (Qabs_cases x) as [[? H]|[? H]]; rewrite ?H in *.

Lemma clip_lip a b lo hi : lo <= hi ->
  Qabs (clip Qops b lo hi - clip Qops a lo hi) <= Qabs (b - a).
Proof.
  intros H. unfold clip; cbn [o_ltb Qops].
  destruct (Qltb a lo) eqn:A1; [apply Qltb_true in A1|apply Qltb_false in A1];
  (destruct (Qltb hi a) eqn:A2; [apply Qltb_true in A2|apply Qltb_false in A2]);
  (destruct (Qltb b lo) eqn:B1; [apply Qltb_true in B1|apply Qltb_false in B1]);
  (destruct (Qltb hi b) eqn:B2; [apply Qltb_true in B2|apply Qltb_false in B2]);
  match goal with |- Qabs ?x <= Qabs ?y => qabs x; qabs y; lra end.
Qed.

Lemma pymin_spec a b : pymin Qops a b <= a /\ pymin Qops a b <= b /\ (pymin Qops a b == a \/ pymin Qops a b == b).
Proof.
  unfold pymin; cbn [o_ltb Qops]. destruct (Qltb b a) eqn:E; [apply Qltb_true in E|apply Qltb_false in E];
  (split; [lra|split; [lra|]]); [right|left]; reflexivity.
Qed.
Lemma pymax_spec a b : a <= pymax Qops a b /\ b <= pymax Qops a b /\ (pymax Qops a b == a \/ pymax Qops a b == b).
Proof.
  unfold pymax; cbn [o_ltb Qops]. destruct (Qltb a b) eqn:E; [apply Qltb_true in E|apply Qltb_false in E];
  (split; [lra|split; [lra|]]); [right|left]; reflexivity.
Qed.
Lemma pymin_Qmin a b : pymin Qops a b == Qmin a b.
Proof.
  destruct (pymin_spec a b) as (H1 & H2 & H3). destruct (Q.min_spec a b) as [[L E]|[L E]]; rewrite E; destruct H3; lra.
Qed.
Lemma pymax_Qmax a b : pymax Qops a b == Qmax a b.
Proof.
  destruct (pymax_spec a b) as (H1 & H2 & H3). destruct (Q.max_spec a b) as [[L E]|[L E]]; rewrite E; destruct H3; lra.
Qed.

Section TuneProof.
  Variable p : tparams (F:=Q).
  Variable det : nat -> Q.
  Variable rb : nat -> Q -> Q.
  Hypothesis Hmin : 0 < t_min p.
  Hypothesis Hsf : 1 < t_factor p.
  Hypothesis Hnum : (2 <= t_num p)%Z.

  Notation lo := (t_low Qops p).
  Notation hi := (t_high Qops p).
  Notation n1 := (inject_Z (t_num p - 1)).
  Notation nq := (inject_Z (t_num p)).
  Notation dl := (t_delta p).
  Notation isf := (1 / t_factor p).

  Lemma n1_facts : 1 <= n1 /\ nq == n1 + 1.
  Proof.
    split.
    - change 1 with (inject_Z 1). rewrite <- Zle_Qle. lia.
    - change 1 with (inject_Z 1). rewrite <- inject_Z_plus. replace (t_num p - 1 + 1)%Z with (t_num p) by lia. reflexivity.
  Qed.

  Lemma isf_facts : 0 < isf /\ isf < 1 /\ isf * t_factor p == 1.
  Proof.
    split; [apply Qlt_shift_div_l; lra|]. split; [apply Qlt_shift_div_r; lra|]. field. lra.
  Qed.

  Lemma dl_facts : 0 < dl /\ dl == n1 * t_min p * (1 - isf).
  Proof.
    destruct n1_facts as [N _]. destruct isf_facts as (I0 & I1 & _).
    split; [|reflexivity]. unfold t_delta.
    apply Qmult_lt_0_compat; [apply Qmult_lt_0_compat|]; lra.
  Qed.

  Lemma lohi_facts : lo <= t_start p /\ t_start p <= hi /\ lo <= t_stop p /\ t_stop p <= hi /\ lo <= hi.
  Proof.
    unfold t_low, t_high.
    destruct (pymin_spec (t_start p) (t_stop p)) as (A & B & _).
    destruct (pymax_spec (t_start p) (t_stop p)) as (C & D & _).
    repeat split; lra.
  Qed.

  Definition InvT (s : tstate (F:=Q)) (j : Q) : Prop :=
    (lo <= ts_start s /\ ts_start s <= hi) /\ (lo <= ts_stop s /\ ts_stop s <= hi) /\
    ts_step s * n1 == ts_stop s - ts_start s /\
    (0 <= j /\ j <= n1) /\ ts_next s == ts_start s + j * ts_step s.

  (* potential  num * |stop - start| / delta + (num - j),  scaled by delta *)
  Definition PotT (s : tstate (F:=Q)) (j : Q) : Q :=
    nq * Qabs (ts_stop s - ts_start s) + (nq - j) * dl.

  Lemma cond_T s : t_cond Qops p s = true ->
    t_min p <= Qabs (ts_step s) /\ lo <= ts_next s /\ ts_next s <= hi.
  Proof.
    unfold t_cond. cbn [o_leb o_abs Qops]. intros H.
    apply andb_true_iff in H as [H H3]. apply andb_true_iff in H as [H1 H2].
    apply Qle_bool_iff in H1, H2, H3. auto.
  Qed.

  Lemma body_T s j s' :
    InvT s j -> t_cond Qops p s = true -> t_body Qops p det rb s = Some s' ->
    exists j', InvT s' j' /\ PotT s' j' <= PotT s j - dl.
  Proof.
    intros (Ist & Isp & Istep & (J0 & J1) & Inext) C B.
    apply cond_T in C as (C1 & C2 & C3).
    destruct n1_facts as [N1 NQ]. destruct isf_facts as (I0 & I1 & I2).
    destruct dl_facts as [D0 D1]. destruct lohi_facts as (_ & _ & _ & _ & LH).
    destruct s as [st sp step next sI sxI pk k]. cbn [ts_start ts_stop ts_step ts_next ts_sumI ts_sumxI ts_peak ts_k] in *.
    unfold t_body in B. cbn [ts_start ts_stop ts_step ts_next ts_sumI ts_sumxI ts_peak ts_k] in B.
    cbn [o_add o_sub o_mul o_div o_leb o_ltb o_eqb o_zero o_one o_abs Qops] in B.
    destruct (pymin_spec st sp) as (m1 & m2 & m3). destruct (pymax_spec st sp) as (x1 & x2 & x3).
    destruct (Qle_bool (pymin Qops st sp) (next + step) && Qle_bool (next + step) (pymax Qops st sp)) eqn:R.
    - (* next point of the same pass *)
      injection B as <-. apply andb_true_iff in R as [R1 R2]. apply Qle_bool_iff in R1, R2.
      exists (j + 1). unfold InvT, PotT. cbn [ts_start ts_stop ts_step ts_next].
      assert (SN : step * (j + 1) <= step * n1 /\ 0 <= step \/ step * n1 <= step * (j + 1) /\ step <= 0).
      { destruct (Qlt_le_dec step 0) as [S|S]; [right|left]; split; try lra.
        - assert (sp <= st) by nra. destruct m3, x3; nra.
        - assert (st <= sp) by nra. destruct m3, x3; nra. }
      assert (SZ : ~ step == 0).
      { intros Z. rewrite Z in C1. change (Qabs 0) with 0 in C1. lra. }
      assert (JJ : j + 1 <= n1).
      { destruct SN as [[S1 S2]|[S1 S2]].
        - assert (0 < step) by (destruct (Qlt_le_dec 0 step); [assumption|exfalso; apply SZ; lra]).
          apply Qmult_lt_0_le_reg_r with step; [assumption|]. lra.
        - assert (step < 0) by (destruct (Qlt_le_dec step 0); [assumption|exfalso; apply SZ; lra]).
          apply Qmult_lt_0_le_reg_r with (- step); [lra|]. lra. }
      split; [|lra].
      repeat split; try lra.
    - destruct (Qeq_bool (sI + det k) 0) eqn:Z; [discriminate|].
      injection B as <-.
      set (peak := (sxI + rb k next * det k) / (sI + det k)) in *.
      set (half := (sp - st) / t_factor p / inject_Z 2) in *.
      destruct (clip_bounds (peak - half) lo hi LH) as [a1 a2].
      destruct (clip_bounds (peak + half) lo hi LH) as [b1 b2].
      pose proof (clip_lip (peak - half) (peak + half) lo hi LH) as LIP.
      set (ca := clip Qops (peak - half) lo hi) in *. set (cb := clip Qops (peak + half) lo hi) in *.
      assert (HQ : peak + half - (peak - half) == (sp - st) * isf).
      { unfold half. change (inject_Z 2) with 2. field. lra. }
      rewrite HQ in LIP.
      assert (RA : Qabs ((sp - st) * isf) == Qabs (sp - st) * isf).
      { rewrite Qabs_Qmult. rewrite (Qabs_pos isf) by lra. reflexivity. }
      rewrite RA in LIP.
      assert (RS : Qabs step * n1 == Qabs (sp - st)).
      { rewrite <- Istep. rewrite Qabs_Qmult. rewrite (Qabs_pos n1) by lra. reflexivity. }
      set (R0 := Qabs (sp - st)) in *.
      assert (K1 : t_min p * n1 <= R0) by (rewrite <- RS; nra).
      assert (K2 : dl <= R0 - R0 * isf).
      { rewrite D1. assert (n1 * t_min p * (1 - isf) <= R0 * (1 - isf)) by nra. lra. }
      assert (AB : Qabs (ca - cb) == Qabs (cb - ca)).
      { rewrite <- (Qabs_opp (cb - ca)). apply Qabs_wd. ring. }
      exists 0. unfold InvT, PotT. cbn [ts_start ts_stop ts_step ts_next].
      assert (NZ : ~ n1 == 0) by lra.
      destruct (t_snake p).
      + split.
        * repeat split; try lra. field. exact NZ.
        * rewrite AB. set (R1 := Qabs (cb - ca)) in *.
          assert (G1 : j * dl <= n1 * dl) by nra.
          assert (G2 : nq * (R1 + dl) <= nq * R0) by (apply Qmult_le_l; lra).
          assert (G3 : nq * dl == n1 * dl + dl) by (rewrite NQ; ring).
          fold R0. lra.
      + split.
        * repeat split; try lra. field. exact NZ.
        * set (R1 := Qabs (cb - ca)) in *.
          assert (G1 : j * dl <= n1 * dl) by nra.
          assert (G2 : nq * (R1 + dl) <= nq * R0) by (apply Qmult_le_l; lra).
          assert (G3 : nq * dl == n1 * dl + dl) by (rewrite NQ; ring).
          fold R0. lra.
  Qed.

  Definition in_lim (x : Q) : Prop := lo <= x /\ x <= hi.

  Lemma loop_T : forall fuel s j,
    InvT s j -> PotT s j < inject_Z (Z.of_nat fuel) * dl ->
    snd (t_loop Qops p det rb fuel s) <> TOutOfFuel /\ Forall in_lim (fst (t_loop Qops p det rb fuel s)).
  Proof.
    destruct dl_facts as [D0 _]. destruct n1_facts as [N1 NQ].
    assert (PP : forall s j, InvT s j -> dl <= PotT s j).
    { intros s j (_ & _ & _ & (J0 & J1) & _). unfold PotT.
      assert (0 <= nq * Qabs (ts_stop s - ts_start s)) by (apply Qmult_le_0_compat; [lra|apply Qabs_nonneg]).
      assert ((nq - j) * dl >= 1 * dl) by (apply Qmult_le_compat_r; lra). lra. }
    induction fuel as [|f IH]; intros s j I Hpot; cbn [t_loop].
    - destruct (t_cond Qops p s) eqn:C; [|split; [discriminate|constructor]].
      specialize (PP s j I). change (inject_Z (Z.of_nat 0)) with 0 in Hpot. lra.
    - destruct (t_cond Qops p s) eqn:C; [|split; [discriminate|constructor]].
      pose proof (cond_T s C) as (_ & C2 & C3).
      destruct (t_body Qops p det rb s) as [s'|] eqn:B.
      + destruct (body_T s j s' I C B) as (j' & I' & D).
        rewrite of_nat_S_Q in Hpot.
        destruct (IH s' j' I') as [F1 F2]; [nra|].
        cbn [fst snd]. split; [exact F1|]. constructor; [split; assumption|exact F2].
      + cbn [fst snd]. split; [discriminate|]. constructor; [split; assumption|constructor].
  Qed.

  (* ---- the final park: centroid of non-negative weights at read-back positions within the limits *)
  Hypothesis Hdet : forall k, 0 <= det k.
  Hypothesis Hrb : forall k x, in_lim x -> in_lim (rb k x).

  Definition InvS (s : tstate (F:=Q)) : Prop :=
    0 <= ts_sumI s /\ lo * ts_sumI s <= ts_sumxI s /\ ts_sumxI s <= hi * ts_sumI s /\
    (forall x, ts_peak s = Some x -> in_lim x).

  Lemma body_S s s' :
    InvS s -> t_cond Qops p s = true -> t_body Qops p det rb s = Some s' -> InvS s'.
  Proof.
    intros (S0 & S1 & S2 & S3) C B. apply cond_T in C as (_ & C2 & C3).
    destruct s as [st sp step next sI sxI pk k]. cbn [ts_start ts_stop ts_step ts_next ts_sumI ts_sumxI ts_peak ts_k] in *.
    pose proof (Hdet k) as W. destruct (Hrb k next (conj C2 C3)) as [P1 P2].
    unfold t_body in B. cbn [ts_start ts_stop ts_step ts_next ts_sumI ts_sumxI ts_peak ts_k] in B.
    cbn [o_add o_sub o_mul o_div o_leb o_ltb o_eqb o_zero o_one o_abs Qops] in B.
    assert (X1 : lo * det k <= rb k next * det k) by (apply Qmult_le_compat_r; assumption).
    assert (X2 : rb k next * det k <= hi * det k) by (apply Qmult_le_compat_r; assumption).
    destruct (Qle_bool (pymin Qops st sp) (next + step) && Qle_bool (next + step) (pymax Qops st sp)) eqn:R.
    - injection B as <-. unfold InvS. cbn [ts_sumI ts_sumxI ts_peak].
      split; [lra|]. split; [lra|]. split; [lra|exact S3].
    - destruct (Qeq_bool (sI + det k) 0) eqn:Z; [discriminate|].
      injection B as <-. unfold InvS. cbn [ts_sumI ts_sumxI ts_peak].
      split; [lra|]. split; [lra|]. split; [lra|].
      intros x E. injection E as <-.
      assert (NZ : ~ sI + det k == 0).
      { intros E. apply Qeq_bool_iff in E. congruence. }
      assert (POS : 0 < sI + det k).
      { destruct (Qlt_le_dec 0 (sI + det k)); [assumption|]. exfalso. apply NZ. lra. }
      split.
      + apply Qle_shift_div_l; [exact POS|]. lra.
      + apply Qle_shift_div_r; [exact POS|]. lra.
  Qed.

  Lemma loop_S : forall fuel s x,
    InvS s -> snd (t_loop Qops p det rb fuel s) = TParked (Some x) -> in_lim x.
  Proof.
    induction fuel as [|f IH]; intros s x I E; cbn [t_loop] in E.
    - destruct (t_cond Qops p s) eqn:C; cbn [snd] in E; [discriminate|].
      injection E as E. destruct I as (_ & _ & _ & S3). exact (S3 x E).
    - destruct (t_cond Qops p s) eqn:C; cbn [snd] in E.
      + destruct (t_body Qops p det rb s) as [s'|] eqn:B; cbn [snd] in E; [|discriminate].
        exact (IH s' x (body_S s s' I C B) E).
      + injection E as E. destruct I as (_ & _ & _ & S3). exact (S3 x E).
  Qed.
End TuneProof.

Lemma in_lim_limits p x : in_lim p x <-> t_in_limits p x.
Proof.
  unfold in_lim, t_in_limits, t_low, t_high. rewrite pymin_Qmin, pymax_Qmax. tauto.
Qed.

Theorem tune_terminates_in_limits (p : tparams (F:=Q)) (det : nat -> Q) (rb : nat -> Q -> Q) (fuel : nat) :
  0 < t_min p -> 1 < t_factor p -> (2 <= t_num p)%Z -> (t_bound p <= fuel)%nat ->
  exists vis e,
    tune_centroid Qops p det rb fuel = TRan vis e /\ e <> TOutOfFuel /\
    Forall (t_in_limits p) vis /\
    ((forall k, 0 <= det k) -> (forall k x, t_in_limits p x -> t_in_limits p (rb k x)) ->
     forall x, e = TParked (Some x) -> t_in_limits p x).
Proof.
  intros Hmin Hsf Hnum Hfuel.
  destruct (n1_facts p Hnum) as [N1 NQ]. destruct (dl_facts p Hmin Hsf Hnum) as [D0 D1].
  destruct (lohi_facts p) as (L1 & L2 & L3 & L4 & LH).
  unfold tune_centroid. cbn [o_leb o_zero o_one Qops].
  assert (E1 : Qle_bool (t_min p) 0 = false) by (apply Qleb_false; exact Hmin).
  assert (E2 : Qle_bool (t_factor p) 1 = false) by (apply Qleb_false; exact Hsf).
  assert (E3 : Z.eqb (t_num p) 1 = false) by (apply Z.eqb_neq; lia).
  rewrite E1, E2, E3.
  assert (NZ : ~ inject_Z (t_num p - 1) == 0) by lra.
  assert (I0 : InvT p (t_init Qops p) 0).
  { unfold InvT, t_init. cbn [ts_start ts_stop ts_step ts_next o_sub o_div o_of_Z Qops].
    repeat split; try lra. field. exact NZ. }
  apply of_nat_le_Q in Hfuel. unfold t_bound in Hfuel. rewrite of_nat_add_Q in Hfuel.
  match type of Hfuel with inject_Z (Z.of_nat (Qceil_nat ?phi)) + _ <= _ =>
    pose proof (Qceil_nat_ge phi) as CE; set (phi1 := phi) in *;
    set (c := inject_Z (Z.of_nat (Qceil_nat phi1))) in * end.
  change (inject_Z (Z.of_nat 1)) with 1 in Hfuel.
  assert (P0 : PotT p (t_init Qops p) 0 == phi1 * t_delta p).
  { unfold PotT, t_init, phi1. cbn [ts_start ts_stop]. field. lra. }
  destruct (loop_T p det rb Hmin Hsf Hnum fuel (t_init Qops p) 0 I0) as [F1 F2].
  { rewrite P0. apply Qmult_lt_compat_r; [exact D0|]. lra. }
  eexists _, _. split; [reflexivity|]. split; [exact F1|]. split.
  - eapply Forall_impl; [|exact F2]. intros x. apply in_lim_limits.
  - intros Hdet Hrb x E. apply in_lim_limits.
    apply (loop_S p det rb Hdet) with (fuel := fuel) (s := t_init Qops p).
    + intros k y Hy. apply in_lim_limits. apply Hrb. apply in_lim_limits. exact Hy.
    + unfold InvS, t_init. cbn [ts_sumI ts_sumxI ts_peak o_zero Qops]. split; [lra|]. split; [lra|]. split; [lra|]. intros y Hy; discriminate.
    + exact E.
Qed.

(* ------------------------------------------------------------------ C29-a over Q: why the argument check is needed.
   Without it (the loop as it is), backstep with threshold > 1.1 on a flat signal steps back on every
   reading, the anchor never moves and next_pos = start + step <= start + max_step < stop for ever. *)
Section PinnedQ.
  Variable p : aparams (F:=Q).
  Variable c : Q.
  Hypothesis Hmn : 0 < a_min p.
  Hypothesis Hmx : a_min p < a_max p.
  Hypothesis Hbs : a_backstep p = true.
  Hypothesis Hthr : 11#10 < a_thr p.
  Hypothesis Hlong : a_start p + a_max p < a_stop p.

  Definition InvPin (s : astate (F:=Q)) : Prop :=
    as_past s = Some c /\ as_next s - as_step s == a_start p /\ 0 < as_step s /\ as_step s <= a_max p.

  Lemma pin_dir : Qle_bool (a_start p) (a_stop p) = true.
  Proof. apply Qle_bool_iff. lra. Qed.

  Lemma pin_step s : InvPin s -> a_cond Qops p s = true /\ InvPin (a_body Qops p (fun _ => c) s).
  Proof.
    intros (Hp & An & S0 & S1). split.
    - apply (cond_pos p pin_dir). lra.
    - destruct s as [nx st past k]. cbn [as_past as_step as_next] in *. subst past.
      unfold a_body. cbn [as_past as_step as_next as_k]. rewrite (dir_pos p pin_dir).
      cbn [o_abs o_sub o_div o_eqb o_zero Qops].
      assert (Z : Qeq_bool (Qabs (c - c) / st) 0 = true).
      { apply Qeq_bool_iff. assert (E : c - c == 0) by ring. rewrite E. change (Qabs 0) with 0. unfold Qdiv. ring. }
      rewrite Z. cbn [negb].
      unfold npmin2. cbn [o_ltb o_mul Qops]. change (tenths Qops 11) with (11#10).
      set (ns := if Qltb (st * (11 # 10)) (a_max p) then st * (11 # 10) else a_max p).
      assert (NS : 0 < ns /\ ns <= a_max p /\ ns <= st * (11#10)).
      { unfold ns. destruct (Qltb (st * (11 # 10)) (a_max p)) eqn:E;
          [apply Qltb_true in E|apply Qltb_false in E]; repeat split; lra. }
      destruct NS as (N0 & N1 & N2).
      assert (B : Qltb ns (st * a_thr p) = true) by (apply Qltb_true; nra).
      rewrite Hbs, B. cbn [andb].
      unfold InvPin. cbn [as_past as_step as_next o_add o_sub o_mul Qops].
      split; [reflexivity|]. split; [lra|]. split; lra.
  Qed.

  Lemma pin_forever : forall fuel s, InvPin s -> snd (a_loop Qops p (fun _ => c) fuel s) = false.
  Proof.
    induction fuel as [|f IH]; intros s I; destruct (pin_step s I) as [C I']; cbn [a_loop]; rewrite C; cbn [snd].
    - reflexivity.
    - apply IH. exact I'.
  Qed.

  Lemma unvalidated_loop_diverges :
    forall fuel, snd (a_loop Qops p (fun _ => c) fuel (a_init Qops p)) = false.
  Proof.
    intros [|f]; cbn [a_loop].
    - assert (C : a_cond Qops p (a_init Qops p) = true).
      { apply (cond_pos p pin_dir). unfold a_init. cbn [as_next]. lra. }
      rewrite C. reflexivity.
    - assert (C : a_cond Qops p (a_init Qops p) = true).
      { apply (cond_pos p pin_dir). unfold a_init. cbn [as_next]. lra. }
      rewrite C. cbn [snd]. apply pin_forever.
      unfold a_body, a_init. cbn [as_past as_step as_next as_k]. rewrite (dir_pos p pin_dir).
      unfold InvPin. cbn [as_past as_step as_next o_add o_sub o_mul o_div o_of_Z Qops].
      change (inject_Z 2) with 2.
      assert (S0 : 0 < (a_max p - a_min p) / 2) by (apply Qlt_shift_div_l; lra).
      assert (S1 : (a_max p - a_min p) / 2 < a_max p) by (apply Qlt_shift_div_r; lra).
      split; [reflexivity|]. split; [ring|]. split; lra.
  Qed.
End PinnedQ.

(* ------------------------------------------------------------------ divergence (any instance) *)
Local Close Scope Q_scope.
Section Diverge.
  Context {F : Type} (O : Ops F) (p : aparams (F:=F)) (det : nat -> F).

  Definition diverges (s : astate (F:=F)) : Prop := forall fuel, snd (a_loop O p det fuel s) = false.

  Lemma diverges_step s : a_cond O p s = true -> diverges (a_body O p det s) -> diverges s.
  Proof.
    intros C D [|f]; cbn [a_loop]; rewrite C; cbn [snd]; [reflexivity|apply D].
  Qed.

  Fixpoint a_iter (n : nat) (s : astate (F:=F)) : astate (F:=F) :=
    match n with 0 => s | S n' => a_iter n' (a_body O p det s) end.
  Fixpoint a_conds (n : nat) (s : astate (F:=F)) : bool :=
    match n with 0 => true | S n' => a_cond O p s && a_conds n' (a_body O p det s) end.

  Lemma diverges_iter n : forall s, a_conds n s = true -> diverges (a_iter n s) -> diverges s.
  Proof.
    induction n as [|n IH]; intros s C D; cbn in *; [exact D|].
    apply andb_true_iff in C as [C1 C2]. apply diverges_step; [exact C1|]. apply IH; assumption.
  Qed.
End Diverge.

Section DivergeConst.
  Context {F : Type} (O : Ops F) (p : aparams (F:=F)) (c : F).

  Definition with_k (s : astate (F:=F)) (k : nat) : astate (F:=F) :=
    mkAS (as_next s) (as_step s) (as_past s) k.

  Lemma body_with_k s k :
    a_body O p (fun _ => c) (with_k s k) = with_k (a_body O p (fun _ => c) s) (S k).
  Proof.
    unfold a_body, with_k. cbn [as_next as_step as_past as_k].
    destruct (as_past s) as [pI|]; [|reflexivity].
    match goal with |- context [if ?b then _ else _] => destruct b end; reflexivity.
  Qed.

  (* a state the body maps to itself (up to the reading counter) while the guard holds: pinned forever *)
  Lemma diverges_fixpoint s :
    a_cond O p s = true ->
    a_body O p (fun _ => c) s = with_k s (S (as_k s)) ->
    diverges O p (fun _ => c) s.
  Proof.
    intros C B.
    assert (G : forall fuel k, snd (a_loop O p (fun _ => c) fuel (with_k s k)) = false).
    { induction fuel as [|f IH]; intros k; cbn [a_loop];
        change (a_cond O p (with_k s k)) with (a_cond O p s); rewrite C; cbn [snd]; [reflexivity|].
      rewrite body_with_k, B. apply (IH (S k)). }
    intros fuel. specialize (G fuel (as_k s)). destruct s; exact G.
  Qed.
End DivergeConst.

(* ------------------------------------------------------------------ binary64 witnesses *)
From Coq Require Import PrimFloat.

(* C29-b: start = 2^54, stop = 2^54 + 64, min_step 0.25, max_step 1, no backstep, flat signal:
   next_pos + step == next_pos in binary64, the scan never leaves 2^54 *)
Definition wit_b : aparams (F:=float) :=
  mkA (0x1p+54)%float (0x1.0000000000001p+54)%float (0x1p-2)%float (0x1p+0)%float
      (0x1.999999999999ap-4)%float (0x1p-1)%float false.

Lemma wit_b_diverges :
  a_valid Fops wit_b = true /\ a_huge Fops wit_b = true /\
  forall fuel, snd (a_loop Fops wit_b (fun _ => 1%float) fuel (a_init Fops wit_b)) = false.
Proof.
  split; [vm_compute; reflexivity|]. split; [vm_compute; reflexivity|].
  apply (diverges_iter Fops wit_b (fun _ => 1%float) 200); [vm_compute; reflexivity|].
  apply diverges_fixpoint; vm_compute; reflexivity.
Qed.

(* C29-a: what the loop does when the argument check of fixes/C29-a.diff is absent:
   adaptive_scan(start 0, stop 5, min_step 0.25, max_step 1, target_delta 0.1, backstep, threshold 1.5)
   on a flat signal steps back every time and stays at 1.0 *)
Definition wit_a : aparams (F:=float) :=
  mkA 0%float 5%float (0x1p-2)%float 1%float (0x1.999999999999ap-4)%float (0x1.8p+0)%float true.

Lemma wit_a_diverges :
  a_valid Fops wit_a = false /\
  forall fuel, snd (a_loop Fops wit_a (fun _ => 1%float) fuel (a_init Fops wit_a)) = false.
Proof.
  split; [vm_compute; reflexivity|].
  apply (diverges_iter Fops wit_a (fun _ => 1%float) 20); [vm_compute; reflexivity|].
  apply diverges_fixpoint; vm_compute; reflexivity.
Qed.

(* C29-c: tune_centroid(-1.5, -0.5, min_step 0.5, num 2, step_factor 2), readings 0.1, 0, 0, ...:
   the rounded centroid fl(fl(-1.5 * 0.1) / 0.1) = -1.5000000000000002 is below the lower limit *)
Definition wit_c : tparams (F:=float) :=
  mkT (-0x1.8p+0)%float (-0x1p-1)%float (0x1p-1)%float 2%Z 2%float false.
Definition wit_c_det (k : nat) : float := match k with O => (0x1.999999999999ap-4)%float | _ => 0%float end.

Lemma wit_c_parks_outside :
  let r := tune_centroid Fops wit_c wit_c_det (fun _ x => x) 11 in
  (forall k, PrimFloat.leb 0 (wit_c_det k) = true) /\
  finding_C29_c Fops wit_c r = true /\
  exists x, park_of r = Some x /\ PrimFloat.ltb x (t_low Fops wit_c) = true.
Proof.
  cbv zeta. split; [intros [|k]; vm_compute; reflexivity|]. split; [vm_compute; reflexivity|].
  eexists. split; vm_compute; reflexivity.
Qed.
