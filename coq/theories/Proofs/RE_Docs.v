(* Document-stream theorems about the engine model Engine/RE.v (C01, C05, C14, C40):
   for every plan, device and schedule the stepped trace of a run is accepted by the document
   monitor Engine/DocMon.v.

   Layer 1: every helper of the model, [drive], [task_step] and [step] act on the
            document-relevant part of the state ([abs]) as a sequence of a few bundler operations
            (relation [T]); pure control-flow reasoning, no invariants.
   Layer 2: each bundler operation keeps the bundler invariant [Inv] and the relation [Rel] between
            the bundlers and the monitor state; the monitor accepts what the operation emits. *)
From Coq Require Import List String ZArith Bool Arith Lia.
From BV Require Import Engine.RE Engine.REInst Engine.DocMon.
Import ListNotations.
Local Open Scope nat_scope.

(* ================================================================== abstraction of bundlers *)
Record ab := { auid : nat; aopen : bool; aseq : list (nat * nat); acopy : list (nat * nat);
               adescs : list (nat * list nat); aintr : bool }.

Definition abs_b (b : bundler) : ab :=
  {| auid := buid b; aopen := bopen b; aseq := bseq b; acopy := bseqcopy b; adescs := bdescs b; aintr := bintr b |}.

Definition snap (sq cp : list (nat * nat)) : list (nat * nat) :=
  fold_left (fun acc kv => aset (fst kv) (snd kv) acc) sq cp.

Definition a_snapshot (b : ab) : ab :=
  {| auid := auid b; aopen := aopen b; aseq := aseq b; acopy := snap (aseq b) (acopy b); adescs := adescs b; aintr := aintr b |}.
Definition a_clear (b : ab) : ab :=
  {| auid := auid b; aopen := aopen b; aseq := aseq b; acopy := []; adescs := adescs b; aintr := aintr b |}.
Definition rw_fill (acc : list (nat * nat) * list (nat * nat)) (d : nat * list nat) :=
  if amem (fst d) (fst acc) then acc else (aset (fst d) 1 (fst acc), aset (fst d) 1 (snd acc)).
Definition a_rewind (b : ab) : ab :=
  let seq0 := match alookup INTR (aseq b) with Some n => aset INTR n (acopy b) | None => acopy b end in
  let r := fold_left rw_fill (adescs b) (seq0, acopy b) in
  {| auid := auid b; aopen := aopen b; aseq := fst r; acopy := snd r; adescs := adescs b; aintr := aintr b |}.
Definition a_setseq (b : ab) (sq : list (nat * nat)) (ds : list (nat * list nat)) : ab :=
  {| auid := auid b; aopen := aopen b; aseq := sq; acopy := acopy b; adescs := ds; aintr := aintr b |}.
Definition a_new (rec : bool) (u : nat) : ab :=
  {| auid := u; aopen := true; aseq := if rec then [(INTR, 1)] else []; acopy := []; adescs := []; aintr := rec |}.
Definition a_num (b : ab) : list (nat * nat) := map (fun kv => (fst kv, snd kv - 1)) (aseq b).

Definition cnt (sq : list (nat * nat)) (name : nat) : nat :=
  match alookup name sq with Some c => c | None => 1 end.

Definition a_record_intr (b : ab) : option (ab * list obs) :=
  if aintr b then
    match alookup INTR (aseq b) with
    | Some n => Some (a_setseq b (aset INTR (S n) (aseq b)) (adescs b), [ODoc (DIntr (auid b) n)])
    | None => None
    end
  else Some (b, []).

Fixpoint a_intr_list (l : list (nat * ab)) : list (nat * ab) * list obs * bool :=
  match l with
  | [] => ([], [], true)
  | (k, b) :: l' =>
      match a_record_intr b with
      | None => ((k, b) :: l', [], false)
      | Some (b', o) => let '(r, os, ok) := a_intr_list l' in ((k, b') :: r, o ++ os, ok)
      end
  end.

Definition amap (f : ab -> ab) (l : list (nat * ab)) : list (nat * ab) := map (fun kb => (fst kb, f (snd kb))) l.
Definition abl (l : list (nat * bundler)) : list (nat * ab) := map (fun kb => (fst kb, abs_b (snd kb))) l.

Definition a_stops (l : list (nat * ab)) (xs : exit_st) (rs : reason_t) : list obs :=
  flat_map (fun kb => if aopen (snd kb) then [ODoc (DStop (auid (snd kb)) xs rs (a_num (snd kb)))] else []) l.

Record A := { a_bs : list (nat * ab); a_uid : nat; a_st : rstate; a_rec : bool }.
Definition with_bs (a : A) (l : list (nat * ab)) : A := {| a_bs := l; a_uid := a_uid a; a_st := a_st a; a_rec := a_rec a |}.
Definition with_st (a : A) (x : rstate) : A := {| a_bs := a_bs a; a_uid := a_uid a; a_st := x; a_rec := a_rec a |}.

(* observations that carry nothing the monitor reacts to *)
Definition quiet1 (o : obs) : bool :=
  match o with
  | ODoc _ | OState _ _ => false
  | OMsg m => negb (is_susp_msg m)
  | _ => true
  end.
Definition quiet (l : list obs) : Prop := forallb quiet1 l = true.

Lemma quiet_nil : quiet []. Proof. reflexivity. Qed.
Lemma quiet_app a b : quiet a -> quiet b -> quiet (a ++ b).
Proof. unfold quiet. intros; rewrite forallb_app; apply andb_true_iff; split; assumption. Qed.
Lemma quiet_app_inv a b : quiet (a ++ b) -> quiet a /\ quiet b.
Proof. unfold quiet. rewrite forallb_app. intros H; apply andb_true_iff in H; exact H. Qed.

(* ================================================================== the operations *)
Inductive T : A -> list obs -> A -> Prop :=
| T_quiet a o : quiet o -> T a o a
| T_app a1 o1 a2 o2 a3 : T a1 o1 a2 -> T a2 o2 a3 -> T a1 (o1 ++ o2) a3
| T_state a x : (x <> Idle \/ a_bs a = []) -> x <> Pausing -> T a [OState (a_st a) x] (with_st a x)
| T_open a k :
    amem k (a_bs a) = false ->
    T a (ODoc (DStart (a_uid a)) :: (if a_rec a then [ODoc (DDescr (a_uid a) INTR [])] else []))
      {| a_bs := aset k (a_new (a_rec a) (a_uid a)) (a_bs a); a_uid := S (a_uid a); a_st := a_st a; a_rec := a_rec a |}
| T_close a k b xs rs :
    alookup k (a_bs a) = Some b ->
    T a [ODoc (DStop (auid b) xs rs (a_num b))] (with_bs a (aremove k (a_bs a)))
| T_save_old a k b name objs data :
    alookup k (a_bs a) = Some b -> alookup name (adescs b) = Some objs ->
    T a [ODoc (DEvent (auid b) name (cnt (aseq b) name) data)]
      (with_bs a (aset k (a_setseq b (aset name (S (cnt (aseq b) name)) (aseq b)) (adescs b)) (a_bs a)))
| T_save_new a k b name objs data :
    alookup k (a_bs a) = Some b -> alookup name (adescs b) = None -> objs <> [] ->
    let seq1 := if amem name (aseq b) then aseq b else aset name 1 (aseq b) in
    T a [ODoc (DDescr (auid b) name objs); ODoc (DEvent (auid b) name (cnt seq1 name) data)]
      (with_bs a (aset k (a_setseq b (aset name (S (cnt seq1 name)) seq1) (adescs b ++ [(name, objs)])) (a_bs a)))
| T_pause a bs' docs ok :
    a_intr_list (a_bs a) = (bs', docs, ok) ->
    T a (OState (a_st a) Pausing :: docs) {| a_bs := bs'; a_uid := a_uid a; a_st := Pausing; a_rec := a_rec a |}
| T_susp a m bs' docs ok q bs'' :
    is_susp_msg m = true -> a_intr_list (a_bs a) = (bs', docs, ok) -> quiet q ->
    (bs'' = bs' \/ bs'' = amap a_rewind bs') ->
    T a (OMsg m :: docs ++ q) (with_bs a bs'')
| T_snapshot a : T a [] (with_bs a (amap a_snapshot (a_bs a)))
| T_clear a : T a [] (with_bs a (amap a_clear (a_bs a)))
| T_closeall a xs rs : T a (a_stops (a_bs a) xs rs) (with_bs a []).

Lemma T_nil a : T a [] a. Proof. apply T_quiet, quiet_nil. Qed.
Lemma T_snoc_quiet a o a' q : T a o a' -> quiet q -> T a (o ++ q) a'.
Proof. intros H Hq. eapply T_app; [exact H | apply T_quiet, Hq]. Qed.

(* a resume accepted by a paused engine *)
Definition ResumeT (a : A) (o : list obs) (a' : A) : Prop :=
  exists bs' docs ok q bs'',
    a_intr_list (a_bs a) = (bs', docs, ok) /\ quiet q /\ o = docs ++ q /\
    (bs'' = bs' \/ bs'' = amap a_rewind bs') /\ a' = with_bs a bs''.

Definition StepT (e : event) (a : A) (o : list obs) (a' : A) : Prop :=
  match e with
  | EvMain AResume => if rstate_eqb (a_st a) Paused then ResumeT a o a' else (o = [] /\ a' = a)
  | _ => T a o a'
  end.

(* ================================================================== facts on the abstraction *)
Lemma abl_aset k b l : abl (aset k b l) = aset k (abs_b b) (abl l).
Proof.
  induction l as [|[k' b'] l IH]; [reflexivity|]. cbn [aset abl map fst snd].
  destruct (Nat.eqb k k') eqn:E; cbn; [reflexivity | f_equal; exact IH].
Qed.
Lemma abl_aremove k l : abl (aremove k l) = aremove k (abl l).
Proof.
  induction l as [|[k' b'] l IH]; [reflexivity|]. cbn [aremove abl map fst snd].
  destruct (Nat.eqb k k') eqn:E; cbn; [reflexivity | f_equal; exact IH].
Qed.
Lemma alookup_abl k l : alookup k (abl l) = option_map abs_b (alookup k l).
Proof.
  induction l as [|[k' b'] l IH]; [reflexivity|]. cbn [alookup abl map fst snd].
  destruct (Nat.eqb k k'); [reflexivity | exact IH].
Qed.
Lemma amem_abl k l : amem k (abl l) = amem k l.
Proof. unfold amem. rewrite alookup_abl. destruct (alookup k l); reflexivity. Qed.
Lemma abl_map f g l : (forall b, abs_b (f b) = g (abs_b b)) ->
  abl (map (fun kb => (fst kb, f (snd kb))) l) = amap g (abl l).
Proof.
  intros H. unfold abl, amap. rewrite !map_map. apply map_ext. intros [k b]; cbn. rewrite H; reflexivity.
Qed.
Lemma abl_aset_same k b b' l : alookup k l = Some b -> abs_b b' = abs_b b -> abl (aset k b' l) = abl l.
Proof.
  intros H E. induction l as [|[k' b0] l IH]; [discriminate|]. cbn [alookup] in H. cbn [aset].
  destruct (Nat.eqb k k') eqn:Ek.
  - inversion H; subst. apply Nat.eqb_eq in Ek; subst. cbn. rewrite E; reflexivity.
  - cbn. f_equal. apply IH; exact H.
Qed.

Lemma b_record_intr_abs b :
  match b_record_intr b with
  | Some (b', o) => a_record_intr (abs_b b) = Some (abs_b b', o)
  | None => a_record_intr (abs_b b) = None
  end.
Proof.
  unfold b_record_intr, a_record_intr; cbn. destruct (bintr b) eqn:Eb; [|reflexivity].
  destruct (alookup INTR (bseq b)); [|reflexivity]. unfold a_setseq, abs_b, b_set_seq; cbn. rewrite Eb. reflexivity.
Qed.

Lemma record_intr_list_abs l r o ok : record_intr_list l = (r, o, ok) -> a_intr_list (abl l) = (abl r, o, ok).
Proof.
  revert r o ok; induction l as [|[k b] l IH]; intros r o ok H.
  - cbn in H; inversion H; subst; reflexivity.
  - cbn [record_intr_list] in H. change (abl ((k, b) :: l)) with ((k, abs_b b) :: abl l). cbn [a_intr_list].
    pose proof (b_record_intr_abs b) as Hb. destruct (b_record_intr b) as [[b' o']|].
    + rewrite Hb. destruct (record_intr_list l) as [[r0 os] ok0]. rewrite (IH _ _ _ eq_refl).
      inversion H; subst; reflexivity.
    + rewrite Hb. inversion H; subst; reflexivity.
Qed.

Lemma rstate_eqb_true a b : rstate_eqb a b = true <-> a = b.
Proof. destruct a, b; vm_compute; split; intros H; try reflexivity; discriminate. Qed.
Lemma rstate_eqb_false a b : rstate_eqb a b = false <-> a <> b.
Proof. destruct a, b; vm_compute; split; intros H; try reflexivity; try discriminate; try congruence; exfalso; apply H; reflexivity. Qed.

(* ================================================================== layer 1 *)
Ltac bm_hyp H :=
  match type of H with
  | context [match ?x with _ => _ end] => destruct x eqn:?
  end.
Ltac break_match :=
  match goal with
  | |- context [match ?x with _ => _ end] => destruct x eqn:?
  end.
Ltac norm_hyps :=
  repeat match goal with
         | H : (if ?c then _ else _) = _ |- _ => destruct c eqn:?
         | H : Some (_, _) = Some (_, _) |- _ => inversion H; subst; clear H
         | H : (_, _) = (_, _) |- _ => inversion H; subst; clear H
         | H : match ?x with _ => _ end = (_, _) |- _ => destruct x eqn:?
         end.

Section Proofs.
Variable P : Type.
Variable presume : P -> input -> outcome P.
Variable plan_of : nat -> P.
Variable D : Type.
Variable dev : D -> nat -> devmeth -> D * devres.

Notation st := (RE.st P D).

Definition abs (s : st) : A :=
  {| a_bs := abl (bundlers P D s); a_uid := uid_supply P D s; a_st := state P D s; a_rec := record_intr P D s |}.

(* setters that do not touch the abstraction *)
Lemma abs_set_pc s x : abs (set_pc P D s x) = abs s. Proof. reflexivity. Qed.
Lemma abs_set_must_cancel s x : abs (set_must_cancel P D s x) = abs s. Proof. reflexivity. Qed.
Lemma abs_set_permit s x : abs (set_permit P D s x) = abs s. Proof. reflexivity. Qed.
Lemma abs_set_blocking s x : abs (set_blocking P D s x) = abs s. Proof. reflexivity. Qed.
Lemma abs_set_plans s x : abs (set_plans P D s x) = abs s. Proof. reflexivity. Qed.
Lemma abs_set_resps s x : abs (set_resps P D s x) = abs s. Proof. reflexivity. Qed.
Lemma abs_set_cache s x : abs (set_cache P D s x) = abs s. Proof. reflexivity. Qed.
Lemma abs_set_rewindable s x : abs (set_rewindable P D s x) = abs s. Proof. reflexivity. Qed.
Lemma abs_set_exc_slot s x : abs (set_exc_slot P D s x) = abs s. Proof. reflexivity. Qed.
Lemma abs_set_stashed s x : abs (set_stashed P D s x) = abs s. Proof. reflexivity. Qed.
Lemma abs_set_interrupted s x : abs (set_interrupted P D s x) = abs s. Proof. reflexivity. Qed.
Lemma abs_set_deferred s x : abs (set_deferred P D s x) = abs s. Proof. reflexivity. Qed.
Lemma abs_set_exit s x r : abs (set_exit P D s x r) = abs s. Proof. reflexivity. Qed.
Lemma abs_set_staged s x : abs (set_staged P D s x) = abs s. Proof. reflexivity. Qed.
Lemma abs_set_moved s x : abs (set_moved P D s x) = abs s. Proof. reflexivity. Qed.
Lemma abs_set_seen s x : abs (set_seen P D s x) = abs s. Proof. reflexivity. Qed.
Lemma abs_set_groups s x : abs (set_groups P D s x) = abs s. Proof. reflexivity. Qed.
Lemma abs_set_statuses s x : abs (set_statuses P D s x) = abs s. Proof. reflexivity. Qed.
Lemma abs_set_futs s x : abs (set_futs P D s x) = abs s. Proof. reflexivity. Qed.
Lemma abs_set_pardon s x : abs (set_pardon P D s x) = abs s. Proof. reflexivity. Qed.
Lemma abs_set_dst s x : abs (set_dst P D s x) = abs s. Proof. reflexivity. Qed.
Lemma abs_set_task_set s x : abs (set_task_set P D s x) = abs s. Proof. reflexivity. Qed.
Lemma abs_set_ghost s c l i : abs (set_ghost P D s c l i) = abs s. Proof. reflexivity. Qed.
Lemma abs_interrupt s c : abs (interrupt P D s c) = abs s. Proof. reflexivity. Qed.
Lemma abs_set_main s a b c d : abs (set_main P D s a b c d) = abs s. Proof. reflexivity. Qed.
Lemma abs_set_mreq s x : abs (set_mreq P D s x) = abs s. Proof. reflexivity. Qed.
Lemma abs_set_ers s x : abs (set_ers P D s x) = abs s. Proof. reflexivity. Qed.
Lemma abs_pop_plan s : abs (pop_plan P D s) = abs s. Proof. reflexivity. Qed.
Lemma abs_replace_top s f : abs (replace_top P D s f) = abs s. Proof. reflexivity. Qed.
Lemma abs_push_frame s f : abs (push_frame P D s f) = abs s. Proof. reflexivity. Qed.
Lemma abs_cancel_task s : abs (cancel_task P D s) = abs s.
Proof. unfold cancel_task. destruct (pc P D s); reflexivity. Qed.
Lemma abs_clear_call s : abs (clear_call P D s) = abs s. Proof. reflexivity. Qed.
Lemma abs_add_status s g sid ok : abs (add_status P D s g sid ok) = abs s. Proof. reflexivity. Qed.
Lemma abs_set_bundlers s l : abs (set_bundlers P D s l) = with_bs (abs s) (abl l). Proof. reflexivity. Qed.

Hint Rewrite abs_set_pc abs_set_must_cancel abs_set_permit abs_set_blocking abs_set_plans abs_set_resps abs_set_cache
  abs_set_rewindable abs_set_exc_slot abs_set_stashed abs_set_interrupted abs_set_deferred abs_set_exit abs_set_staged
  abs_set_moved abs_set_seen abs_set_groups abs_set_statuses abs_set_futs abs_set_pardon abs_set_dst abs_set_task_set
  abs_set_ghost abs_interrupt abs_set_main abs_set_mreq abs_set_ers abs_pop_plan abs_replace_top abs_push_frame
  abs_cancel_task abs_clear_call abs_add_status : absdb.

Lemma with_bs_same s : with_bs (abs s) (abl (bundlers P D s)) = abs s. Proof. reflexivity. Qed.

(* ------------------------------------------------------------------ helpers *)
Lemma set_state_T (s : st) x s' o :
  (x <> Idle \/ bundlers P D s = []) -> x <> Pausing -> set_state P D s x = Some (s', o) -> T (abs s) o (abs s').
Proof.
  unfold set_state. intros Hx Hp. destruct (allowed (state P D s) x); intros H; [|discriminate].
  inversion H; subst. change (abs (set_state_raw P D s x)) with (with_st (abs s) x).
  apply (T_state (abs s) x); [|exact Hp]. destruct Hx as [Hx|Hx]; [left; exact Hx | right; cbn; rewrite Hx; reflexivity].
Qed.

Lemma dcall_q (s : st) d m s' r o : dcall P D dev s d m = (s', r, o) -> quiet o /\ abs s' = abs s.
Proof. unfold dcall. destruct (dev _ _ _). intros H; inversion H; subst. split; reflexivity. Qed.

Lemma stop_movables_q (s : st) s' o : stop_movables P D dev s = (s', o) -> quiet o /\ abs s' = abs s.
Proof.
  unfold stop_movables.
  assert (G : forall l (s0 : st) o0 s1 o1, quiet o0 ->
             fold_left (fun acc d => let '(s0, os) := acc in
                                     let '(s1, _, o) := dcall P D dev s0 d MStop in (s1, os ++ o)) l (s0, o0) = (s1, o1) ->
             quiet o1 /\ abs s1 = abs s0).
  { induction l as [|d l IH]; intros s0 o0 s1 o1 H0 H; cbn in H.
    - inversion H; subst; split; [assumption | reflexivity].
    - destruct (dcall P D dev s0 d MStop) as [[sa ra] oa] eqn:E. apply dcall_q in E as [Eq Ea].
      apply IH in H; [|apply quiet_app; assumption]. destruct H as [H1 H2]. split; [exact H1 | congruence]. }
  intros H. eapply G; [apply quiet_nil | exact H].
Qed.

Lemma call_pausables_q (s : st) m s' e o : call_pausables P D dev s m = (s', e, o) -> quiet o /\ abs s' = abs s.
Proof.
  unfold call_pausables.
  assert (G : forall l (s0 : st) e0 o0 s1 e1 o1, quiet o0 ->
             fold_left (fun acc d =>
               let '(s0, e, os) := acc in
               match e with
               | Some _ => acc
               | None => if mem_nat d (seen P D s0)
                         then let '(s1, r, o) := dcall P D dev s0 d m in
                              (s1, match r with DRaise x => Some x | _ => None end, os ++ o)
                         else acc
               end) l (s0, e0, o0) = (s1, e1, o1) -> quiet o1 /\ abs s1 = abs s0).
  { induction l as [|d l IH]; intros s0 e0 o0 s1 e1 o1 H0 H; cbn in H.
    - inversion H; subst; split; [assumption | reflexivity].
    - destruct e0.
      + eapply IH; eassumption.
      + destruct (mem_nat d (seen P D s0)).
        * destruct (dcall P D dev s0 d m) as [[sa ra] oa] eqn:E. apply dcall_q in E as [Eq Ea].
          apply IH in H; [|apply quiet_app; assumption]. destruct H as [H1 H2]. split; [exact H1 | congruence].
        * eapply IH; eassumption. }
  intros H. eapply G; [apply quiet_nil | exact H].
Qed.

Lemma record_interruptions_a (s : st) s' o ok :
  record_interruptions P D s = (s', o, ok) ->
  a_intr_list (a_bs (abs s)) = (a_bs (abs s'), o, ok) /\ abs s' = with_bs (abs s) (a_bs (abs s')).
Proof.
  unfold record_interruptions. destruct (record_intr_list (bundlers P D s)) as [[bs os] ok0] eqn:E.
  intros H; inversion H; subst. apply record_intr_list_abs in E. split; [exact E | reflexivity].
Qed.

Lemma request_pause_T (s : st) d s' e o : request_pause P D s d = (s', e, o) -> T (abs s) o (abs s').
Proof.
  unfold request_pause. intros H.
  destruct (negb (allowed (state P D s) Pausing)); [inversion H; subst; apply T_nil|].
  destruct d; [inversion H; subst; autorewrite with absdb; apply T_nil|].
  match type of H with context [set_state P D ?s1 Pausing] => remember s1 as s1' eqn:Es1 end.
  assert (Ea : abs s1' = abs s).
  { subst s1'. destruct (pc P D (interrupt P D (set_deferred P D s false) CzPause)); reflexivity. }
  unfold set_state in H. destruct (allowed (state P D s1') Pausing).
  - destruct (record_interruptions P D (set_state_raw P D s1' Pausing)) as [[s3 o2] ok] eqn:E3.
    apply record_interruptions_a in E3 as [E3 E4].
    assert (Hs' : abs s' = abs s3) by (destruct ok; inversion H; subst; autorewrite with absdb; reflexivity).
    assert (Ho : o = OState (state P D s1') Pausing :: o2) by (destruct ok; inversion H; subst; reflexivity).
    rewrite Hs', Ho, E4, <- Ea.
    apply (T_pause (abs s1') _ _ ok). exact E3.
  - inversion H; subst. rewrite Ea. apply T_nil.
Qed.

Lemma request_pause_in_task_T (s : st) d s' e o : request_pause_in_task P D s d = (s', e, o) -> T (abs s) o (abs s').
Proof.
  unfold request_pause_in_task. destruct (request_pause P D s d) as [[s1 e1] o1] eqn:E.
  apply request_pause_T in E. intros H; inversion H; subst; clear H.
  destruct (resumable P D s); [exact E | rewrite abs_set_must_cancel; exact E].
Qed.

Lemma reset_checkpoint_T (s : st) : T (abs s) [] (abs (reset_checkpoint P D s)).
Proof.
  unfold reset_checkpoint. destruct (cache P D s); [|apply T_nil].
  unfold map_bundlers. rewrite abs_set_bundlers. autorewrite with absdb.
  rewrite (abl_map b_snapshot a_snapshot) by reflexivity. apply (T_snapshot (abs s)).
Qed.

Lemma finish_read_q (s : st) run d z o0 s' c o : finish_read P D s run d z o0 = (s', c, o) -> o = o0 /\ abs s' = abs s.
Proof.
  unfold finish_read, get_bundler, put_bundler. destruct (alookup run (bundlers P D s)) as [b|] eqn:E.
  - destruct (mem_nat d (bobjs b)); intros H; inversion H; subst; split; try reflexivity.
    rewrite abs_set_bundlers. rewrite (abl_aset_same _ b) by (assumption || reflexivity). reflexivity.
  - intros H; inversion H; subst; split; reflexivity.
Qed.

Lemma mark_cached_q (s : st) run d : abs (mark_cached P D s run d) = abs s.
Proof.
  unfold mark_cached, get_bundler, put_bundler. destruct (alookup run (bundlers P D s)) as [b|] eqn:E; [|reflexivity].
  rewrite abs_set_bundlers. rewrite (abl_aset_same _ b) by (assumption || reflexivity). reflexivity.
Qed.

Lemma helper_resume_q h i o os : helper_resume P presume h i = (o, os) -> quiet os.
Proof.
  unfold helper_resume. repeat break_match; intros H; inversion H; subst; reflexivity.
Qed.

Lemma frame_resume_q f i o os : frame_resume P presume f i = (o, os) -> quiet os.
Proof.
  unfold frame_resume. destruct f.
  - repeat break_match; intros H; inversion H; subst; reflexivity.
  - repeat break_match; intros H; inversion H; subst; reflexivity.
  - repeat break_match; intros H; inversion H; subst; reflexivity.
  - destruct (helper_resume P presume h i) as [o0 os0] eqn:E. intros H; inversion H; subst.
    eapply helper_resume_q; eassumption.
Qed.


Ltac use_q :=
  repeat match goal with
         | H : dcall _ _ _ _ _ _ = _ |- _ => apply dcall_q in H; destruct H as [? ?]
         | H : stop_movables _ _ _ _ = _ |- _ => apply stop_movables_q in H; destruct H as [? ?]
         | H : call_pausables _ _ _ _ _ = _ |- _ => apply call_pausables_q in H; destruct H as [? ?]
         | H : frame_resume _ _ _ _ = _ |- _ => apply frame_resume_q in H
         end.
Ltac abs_norm :=
  autorewrite with absdb in *;
  repeat match goal with
         | H : abs ?x = abs ?x |- _ => clear H
         | H : abs ?x = abs ?y |- _ => rewrite H in *; clear H
         end;
  autorewrite with absdb in *.
Ltac quiet_tac :=
  repeat match goal with
         | |- quiet (_ ++ _) => apply quiet_app
         | |- quiet [] => apply quiet_nil
         | |- quiet _ => assumption
         | |- quiet _ => reflexivity
         end.

Lemma put_same (s : st) k b b' :
  alookup k (bundlers P D s) = Some b -> abs_b b' = abs_b b -> abs (put_bundler P D s k b') = abs s.
Proof.
  intros H E. unfold put_bundler. rewrite abs_set_bundlers. rewrite (abl_aset_same _ b) by assumption. reflexivity.
Qed.

Lemma open_T (s : st) m s' c o :
  mcmd m = COpenRun -> exec_cmd P D dev s m = (s', c, o) -> T (abs s) o (abs s').
Proof.
  intros Hm. unfold exec_cmd. rewrite Hm. destruct (amem (mrun m) (bundlers P D s)) eqn:Em.
  - intros H; inversion H; subst. apply T_nil.
  - pose proof (T_open (abs s) (mrun m)) as HT. cbn [a_bs a_uid a_rec a_st abs] in HT.
    rewrite amem_abl in HT. specialize (HT Em).
    destruct (record_intr P D s) eqn:Er; intros H; inversion H; subst; clear H;
      unfold put_bundler; rewrite abs_set_bundlers; rewrite abl_aset;
      unfold with_bs, abs in *; cbn [a_uid a_st a_rec a_bs set_uids upd2 record_intr uid_supply state bundlers] in *;
      rewrite ?Er in *; exact HT.
Qed.

Lemma close_T (s : st) m es rs s' c o :
  mcmd m = CCloseRun es rs -> exec_cmd P D dev s m = (s', c, o) -> T (abs s) o (abs s').
Proof.
  intros Hm. unfold exec_cmd, get_bundler. rewrite Hm. destruct (alookup (mrun m) (bundlers P D s)) as [b|] eqn:Eb.
  - intros H; inversion H; subst; clear H.
    change [ODoc (DStop (buid b) (match es with Some x => x | None => XSuccess end) rs (num_events b))]
      with ([ODoc (DStop (auid (abs_b b)) (match es with Some x => x | None => XSuccess end) rs (a_num (abs_b b)))] ++ []).
    eapply T_app; [|apply reset_checkpoint_T].
    rewrite abs_set_bundlers, abl_aremove. apply (T_close (abs s)). cbn. rewrite alookup_abl, Eb. reflexivity.
  - intros H; inversion H; subst. apply T_nil.
Qed.

Lemma save_T (s : st) m s' c o :
  mcmd m = CSave -> exec_cmd P D dev s m = (s', c, o) -> T (abs s) o (abs s').
Proof.
  intros Hm. unfold exec_cmd, get_bundler. rewrite Hm. destruct (alookup (mrun m) (bundlers P D s)) as [b|] eqn:Eb.
  2: { intros H; inversion H; subst. apply T_nil. }
  destruct (negb (bbundling b)); [intros H; inversion H; subst; apply T_nil|].
  destruct (bobjs b) as [|d0 ds] eqn:Eo.
  { intros H; inversion H; subst. rewrite (put_same _ _ b) by (assumption || reflexivity). apply T_nil. }
  cbn [bdescs b_set_bundle bseq bobjs breads bintr].
  assert (Ha : alookup (mrun m) (a_bs (abs s)) = Some (abs_b b)) by (cbn; rewrite alookup_abl, Eb; reflexivity).
  destruct (alookup (bname b) (bdescs b)) as [objs|] eqn:Ed.
  - destruct (negb (list_eq_sorted objs (d0 :: ds))).
    + intros H; inversion H; subst. rewrite (put_same _ _ b) by (assumption || reflexivity). apply T_nil.
    + intros H; inversion H; subst; clear H. unfold put_bundler. rewrite abs_set_bundlers, abl_aset.
      exact (T_save_old (abs s) (mrun m) (abs_b b) (bname b) objs (breads b) Ha Ed).
  - intros H; inversion H; subst; clear H. unfold put_bundler. rewrite abs_set_bundlers, abl_aset.
    assert (Hne : d0 :: ds <> []) by discriminate.
    exact (T_save_new (abs s) (mrun m) (abs_b b) (bname b) (d0 :: ds) (breads b) Ha Ed Hne).
Qed.

Lemma exec_cmd_T (s : st) m s' c o : exec_cmd P D dev s m = (s', c, o) -> T (abs s) o (abs s').
Proof.
  destruct (mcmd m) eqn:Hm.
  all: try (eapply open_T; eassumption).
  all: try (eapply close_T; eassumption).
  all: try (eapply save_T; eassumption).
  all: unfold exec_cmd, get_bundler; rewrite Hm.
  - (* null *) intros H; inversion H; subst; apply T_nil.
  - (* sleep *) intros H; inversion H; subst; apply T_nil.
  - (* checkpoint *)
    destruct (any_bundling P D s); [intros H; inversion H; subst; apply T_nil|].
    set (s0 := match cache P D s with None => set_cache P D s (Some []) | Some _ => s end).
    assert (Ea0 : abs s0 = abs s) by (unfold s0; destruct (cache P D s); reflexivity).
    destruct (deferred P D (reset_checkpoint P D s0)); intros H; inversion H; subst; rewrite <- Ea0; apply reset_checkpoint_T.
  - (* clear_checkpoint *)
    intros H; inversion H; subst. unfold map_bundlers. rewrite abs_set_bundlers. autorewrite with absdb.
    rewrite (abl_map b_clear_ckpt a_clear) by reflexivity. apply (T_clear (abs s)).
  - (* rewindable *)
    intros H; inversion H; subst; clear H. destruct v as [b|]; [|apply T_nil].
    destruct (resumable P D (set_rewindable P D s b) && negb (Bool.eqb b (rewindable P D s))); [|apply T_nil].
    apply (reset_checkpoint_T (set_rewindable P D s b)).
  - (* pause *)
    destruct (request_pause_in_task P D s defer) as [[s1 e] o1] eqn:E. intros H; inversion H; subst.
    eapply request_pause_in_task_T; eassumption.
  - (* create *)
    destruct (alookup (mrun m) (bundlers P D s)) as [b|] eqn:Eb; [|intros H; inversion H; subst; apply T_nil].
    destruct (bbundling b); intros H; inversion H; subst; [apply T_nil|].
    rewrite (put_same _ _ b) by (assumption || reflexivity). apply T_nil.
  - (* read *)
    destruct (mobj m) as [d|]; [|intros H; inversion H; subst; apply T_nil].
    destruct (dcall P D dev s d MRead) as [[s1 r] o1] eqn:E. apply dcall_q in E as [Eq Ea].
    destruct r; try (intros H; inversion H; subst; rewrite Ea; apply T_quiet; assumption).
    destruct (alookup (mrun m) (bundlers P D s1)) as [b|] eqn:Eb;
      [|intros H; inversion H; subst; rewrite Ea; apply T_quiet; assumption].
    destruct (bbundling b); [|intros H; inversion H; subst; rewrite Ea; apply T_quiet; assumption].
    destruct (negb (mem_nat d (bcached b))); [intros H; inversion H; subst; rewrite Ea; apply T_quiet; assumption|].
    intros H. apply finish_read_q in H as [Ho Hs]. subst. rewrite Hs, Ea. apply T_quiet; assumption.
  - (* drop *)
    destruct (alookup (mrun m) (bundlers P D s)) as [b|] eqn:Eb; [|intros H; inversion H; subst; apply T_nil].
    destruct (negb (bbundling b)); intros H; inversion H; subst; [apply T_nil|].
    rewrite (put_same _ _ b) by (assumption || reflexivity). apply T_nil.
  - (* set *)
    destruct (mobj m) as [d|]; [|intros H; inversion H; subst; apply T_nil].
    destruct (dcall P D dev (set_moved P D s (insert_sorted d (moved P D s))) d MSet) as [[s1 r] o1] eqn:E.
    apply dcall_q in E as [Eq Ea]. autorewrite with absdb in Ea.
    destruct r; intros H; inversion H; subst; autorewrite with absdb; rewrite Ea; apply T_quiet; assumption.
  - (* trigger *)
    destruct (mobj m) as [d|]; [|intros H; inversion H; subst; apply T_nil].
    destruct (dcall P D dev s d MTrigger) as [[s1 r] o1] eqn:E.
    apply dcall_q in E as [Eq Ea].
    destruct r; intros H; inversion H; subst; autorewrite with absdb; rewrite Ea; apply T_quiet; assumption.
  - (* wait *)
    destruct (alookup g (groups P D s)) as [[|x l]|]; intros H; inversion H; subst; autorewrite with absdb; apply T_nil.
  - (* stage *)
    destruct (mobj m) as [d|]; [|intros H; inversion H; subst; apply T_nil].
    destruct (negb (mem_nat d (stageables P D s))); [intros H; inversion H; subst; apply T_nil|].
    destruct (dcall P D dev s d MStage) as [[s1 r] o1] eqn:E. apply dcall_q in E as [Eq Ea].
    destruct r; intros H; inversion H; subst; try (rewrite Ea; apply T_quiet; assumption).
    all: rewrite <- (app_nil_r o); eapply T_app; [apply T_quiet; eassumption|];
      rewrite <- Ea; apply (reset_checkpoint_T (set_staged P D s1 (insert_sorted d (staged P D s1)))).
  - (* unstage *)
    destruct (mobj m) as [d|]; [|intros H; inversion H; subst; apply T_nil].
    destruct (negb (mem_nat d (stageables P D s))); [intros H; inversion H; subst; apply T_nil|].
    destruct (dcall P D dev s d MUnstage) as [[s1 r] o1] eqn:E. apply dcall_q in E as [Eq Ea].
    destruct r; intros H; inversion H; subst; try (rewrite Ea; apply T_quiet; assumption).
    all: rewrite <- (app_nil_r o); eapply T_app; [apply T_quiet; eassumption|];
      rewrite <- Ea; apply (reset_checkpoint_T (set_staged P D s1 (remove_nat d (staged P D s1)))).
  - (* stop *)
    destruct (mobj m) as [d|]; [|intros H; inversion H; subst; apply T_nil].
    destruct (dcall P D dev s d MStop) as [[s1 r] o1] eqn:E. apply dcall_q in E as [Eq Ea].
    intros H; inversion H; subst. rewrite Ea. apply T_quiet; assumption.
  - (* wait_for *) intros H; inversion H; subst; apply T_nil.
  - (* start_suspender through exec_cmd: unreachable from drive *)
    intros H; inversion H; subst. apply T_quiet. reflexivity.
  - (* resume_from_suspender *)
    destruct (call_pausables P D dev s MResume) as [[s1 e] o1] eqn:E. apply call_pausables_q in E as [Eq Ea].
    intros H; inversion H; subst. rewrite Ea. apply T_quiet; assumption.
  - (* unknown *) intros H; inversion H; subst; apply T_nil.
Qed.


(* ------------------------------------------------------------------ suspension, finalize *)
Lemma rewind_a (s : st) s' l :
  RE.rewind P D s = (s', l) -> abs s' = abs s \/ abs s' = with_bs (abs s) (amap a_rewind (a_bs (abs s))).
Proof.
  unfold RE.rewind. destruct (cache P D s) as [l0|]; intros H; inversion H; subst; [|left; reflexivity].
  destruct (Nat.eqb (List.length l) 0); [left; reflexivity|].
  right. unfold map_bundlers. rewrite abs_set_bundlers. autorewrite with absdb.
  rewrite (abl_map b_rewind a_rewind) by reflexivity. reflexivity.
Qed.

Lemma exec_start_suspender_T (s : st) m sid pre post s' c o :
  is_susp_msg m = true ->
  exec_start_suspender P plan_of D dev s sid pre post = (s', c, o) -> T (abs s) ([OMsg m] ++ o) (abs s').
Proof.
  intros Hm. unfold exec_start_suspender.
  destruct (record_interruptions P D s) as [[s1 o1] ok] eqn:E1. apply record_interruptions_a in E1 as [E1 E1'].
  destruct ok; cbn [negb].
  2: { intros H; inversion H; subst. rewrite E1'. rewrite <- (app_nil_r o).
       eapply (T_susp (abs s) m _ o false []); [exact Hm | exact E1 | apply quiet_nil | left; reflexivity]. }
  destruct (stop_movables P D dev s1) as [s2 o2] eqn:E2. apply stop_movables_q in E2 as [Q2 A2].
  destruct (call_pausables P D dev s2 MPause) as [[s3 e] o3] eqn:E3. apply call_pausables_q in E3 as [Q3 A3].
  assert (Hq : quiet (o2 ++ o3)) by (apply quiet_app; assumption).
  assert (A31 : abs s3 = abs s1) by congruence.
  destruct e.
  { intros H; inversion H; subst. rewrite A31, E1'.
    eapply (T_susp (abs s) m _ o1 true (o2 ++ o3)); [exact Hm | exact E1 | exact Hq | left; reflexivity]. }
  destruct (cache P D s3) eqn:Ec.
  2: { intros H; inversion H; subst. rewrite A31, E1'.
       eapply (T_susp (abs s) m _ o1 true (o2 ++ o3)); [exact Hm | exact E1 | exact Hq | left; reflexivity]. }
  destruct (RE.rewind P D s3) as [s4 l4] eqn:E4. apply rewind_a in E4.
  intros H; inversion H; subst. autorewrite with absdb.
  destruct E4 as [E4|E4]; rewrite E4, A31, E1'.
  - eapply (T_susp (abs s) m _ o1 true (o2 ++ o3)); [exact Hm | exact E1 | exact Hq | left; reflexivity].
  - eapply (T_susp (abs s) m _ o1 true (o2 ++ o3)); [exact Hm | exact E1 | exact Hq | right; reflexivity].
Qed.

Lemma process_T (s : st) m s3 cr o3 :
  (match mcmd m with
   | CStartSuspender sid pre post => exec_start_suspender P plan_of D dev s sid pre post
   | _ => exec_cmd P D dev s m
   end) = (s3, cr, o3) -> T (abs s) ([OMsg m] ++ o3) (abs s3).
Proof.
  destruct (mcmd m) eqn:Hm; intros H;
    try (eapply T_app; [apply T_quiet; unfold quiet; cbn; unfold is_susp_msg; rewrite Hm; reflexivity
                       | eapply exec_cmd_T; exact H]).
  eapply exec_start_suspender_T; [unfold is_susp_msg; rewrite Hm; reflexivity | exact H].
Qed.

Lemma close_runs_a (s : st) xs rs : close_runs P D s xs rs = a_stops (abl (bundlers P D s)) xs rs.
Proof.
  unfold close_runs, a_stops. induction (bundlers P D s) as [|[k b] l IH]; [reflexivity|].
  cbn [flat_map abl map fst snd]. rewrite IH. reflexivity.
Qed.

Lemma close_frames_q (s : st) : quiet (close_frames P presume D s).
Proof.
  unfold close_frames. induction (rev (plans P D s)) as [|f l IH]; cbn; [apply quiet_nil|].
  apply quiet_app; [|exact IH]. destruct (frame_resume P presume f Close) eqn:E. cbn. eapply frame_resume_q; eassumption.
Qed.

Lemma unstage_fold_q : forall l (s0 : st) o0 s1 o1, quiet o0 ->
  fold_left (fun acc d => let '(s0, os) := acc in
                          let '(sa, _, o) := dcall P D dev s0 d MUnstage in (sa, os ++ o)) l (s0, o0) = (s1, o1) ->
  quiet o1 /\ abs s1 = abs s0.
Proof.
  induction l as [|d l IH]; intros s0 o0 s1 o1 H0 H; cbn in H.
  - inversion H; subst; split; [assumption | reflexivity].
  - destruct (dcall P D dev s0 d MUnstage) as [[sa ra] oa] eqn:E. apply dcall_q in E as [Eq Ea].
    apply IH in H; [|apply quiet_app; assumption]. destruct H as [H1 H2]. split; [exact H1 | congruence].
Qed.

Lemma finalize_T (s : st) r pend s' o : finalize P presume D dev s r pend = (s', o) -> T (abs s) o (abs s').
Proof.
  unfold finalize.
  destruct (stop_movables P D dev (set_pardon P D s true)) as [s2 o2] eqn:E2.
  apply stop_movables_q in E2 as [Q2 A2]. autorewrite with absdb in A2.
  match goal with |- context [fold_left ?f ?l ?a] => destruct (fold_left f l a) as [s3 o3] eqn:E3 end.
  apply unstage_fold_q in E3 as [Q3 A3]; [|apply quiet_nil].
  rewrite close_runs_a. autorewrite with absdb.
  set (s5 := set_bundlers P D (set_staged P D s3 []) []).
  assert (A5 : abs s5 = with_bs (abs s) []).
  { unfold s5. rewrite abs_set_bundlers. autorewrite with absdb. rewrite A3, A2. reflexivity. }
  assert (Hst : T (abs s) (o2 ++ o3 ++ a_stops (abl (bundlers P D s3)) (exit_status P D (set_staged P D s3 [])) (if exit_reason_set P D s then RsExnText else reason P D s) ++ close_frames P presume D s5) (abs s5)).
  { eapply T_app; [apply T_quiet; exact Q2|]. eapply T_app; [apply T_quiet; exact Q3|].
    eapply T_app; [|apply T_quiet; apply close_frames_q].
    rewrite A5. replace (abl (bundlers P D s3)) with (a_bs (abs s)) by (rewrite <- A2, <- A3; reflexivity).
    apply (T_closeall (abs s)). }
  destruct (set_state P D s5 Idle) as [[s6 o6]|] eqn:E6.
  - apply set_state_T in E6; [|right; reflexivity|discriminate].
    intros H; inversion H; subst; clear H. autorewrite with absdb.
    rewrite !app_assoc. eapply T_app; [|apply T_quiet; reflexivity].
    eapply T_app; [|exact E6]. rewrite <- !app_assoc. exact Hst.
  - intros H; inversion H; subst; clear H. autorewrite with absdb.
    rewrite !app_assoc. eapply T_app; [|apply T_quiet; reflexivity]. rewrite <- !app_assoc. exact Hst.
Qed.


(* ------------------------------------------------------------------ drive *)
Ltac use_T :=
  repeat match goal with
         | H : set_state _ _ _ Idle = Some _ |- _ => fail 1
         | H : set_state _ _ _ _ = Some _ |- _ => apply set_state_T in H; [| left; discriminate | discriminate]
         | H : request_pause _ _ _ _ = _ |- _ => apply request_pause_T in H
         | H : exec_cmd _ _ _ _ _ = _ |- _ => apply exec_cmd_T in H
         | H : finalize _ _ _ _ _ _ _ = _ |- _ => apply finalize_T in H
         | H : finish_read _ _ _ _ _ _ _ = _ |- _ => apply finish_read_q in H; destruct H as [? ?]; subst
         end.
Ltac T_one := first [ eassumption | apply T_nil | apply T_quiet; solve [quiet_tac] ].
Ltac T_chain :=
  lazymatch goal with
  | |- T _ (_ ++ _) _ => first [ T_one | eapply T_app; [T_chain | T_chain] ]
  | |- T _ [_] _ => T_one
  | |- T ?a (?x :: ?l) ?b => first [ T_one | change (T a ([x] ++ l) b); eapply T_app; [T_chain | T_chain] ]
  | |- T _ _ _ => T_one
  end.
Ltac prep := norm_hyps; use_q; use_T; abs_norm.

Lemma T_proc_chain a0 os a1 (m : msg) o3 a3 X b :
  T a0 os a1 -> T a1 ([OMsg m] ++ o3) a3 -> T a3 X b -> T a0 (os ++ [OMsg m] ++ o3 ++ X) b.
Proof.
  intros H1 H2 H3. rewrite (app_assoc [OMsg m]). eapply T_app; [exact H1|]. eapply T_app; eassumption.
Qed.

Lemma drive_T fuel : forall (s : st) c os s' o a0,
  T a0 os (abs s) -> drive P presume plan_of D dev fuel s c os = (s', o) -> T a0 o (abs s').
Proof.
  induction fuel as [|fuel IH]; intros s c os s' o a0 Hos H; cbn [drive] in H.
  - inversion H; subst. autorewrite with absdb. apply T_snoc_quiet; [exact Hos | reflexivity].
  - destruct c.
    + (* CTop *)
      repeat (bm_hyp H);
        try (inversion H; subst; clear H; prep; T_chain; fail);
        try (eapply IH; [|exact H]; prep; T_chain; fail).
    + (* CBody *)
      repeat (bm_hyp H);
        try (inversion H; subst; clear H; prep; T_chain; fail);
        try (eapply IH; [|exact H]; prep; T_chain; fail).
    + (* CAfterSleep *)
      repeat (bm_hyp H);
        try (inversion H; subst; clear H; prep; T_chain; fail);
        try (eapply IH; [|exact H]; prep; T_chain; fail).
    + (* CProcess *)
      cbv zeta in H.
      match type of H with
      | context [match ?x with _ => _ end] =>
          match x with
          | context [exec_start_suspender] => destruct x as [[s3 cr] o3] eqn:Hp
          end
      end.
      apply process_T in Hp.
      assert (Hp' : T (abs s) ([OMsg m] ++ o3) (abs s3)).
      { revert Hp. destruct (mobj m); destruct (cache P D _); try destruct (rewindable P D _ && cacheable (mcmd m));
          autorewrite with absdb; intros Hp; exact Hp. }
      clear Hp. destruct cr.
      * eapply IH; [|exact H]. eapply T_proc_chain; [exact Hos | exact Hp' |].
        destruct (mcmd m); apply T_quiet; reflexivity.
      * inversion H; subst; clear H. autorewrite with absdb.
        eapply T_proc_chain; [exact Hos | exact Hp' |]. apply T_quiet; reflexivity.
    + (* CContinue *)
      eapply IH; [|exact H]. destruct popped; autorewrite with absdb; exact Hos.
    + (* CCancelled *)
      repeat (bm_hyp H);
        try (inversion H; subst; clear H; prep; T_chain; fail);
        try (eapply IH; [|exact H]; prep; T_chain; fail).
    + (* CExit *)
      repeat (bm_hyp H);
        try (inversion H; subst; clear H; prep; T_chain; fail);
        try (eapply IH; [|exact H]; prep; T_chain; fail).
    + (* CFinalize *)
      destruct (finalize P presume D dev s r pending) as [s1 o1] eqn:E. apply finalize_T in E.
      inversion H; subst. eapply T_app; eassumption.
Qed.


(* ------------------------------------------------------------------ task_step, step *)
Hint Rewrite mark_cached_q : absdb.

Lemma task_step_T (s : st) s' o : task_step P presume plan_of D dev s = (s', o) -> T (abs s) o (abs s').
Proof.
  unfold task_step. intros H.
  repeat (bm_hyp H);
    try (inversion H; subst; clear H; prep; T_chain; fail);
    try (eapply drive_T; [|exact H]; prep; T_chain; fail);
    try (apply finalize_T in H; abs_norm; exact H).
Qed.

Lemma req_result_q (s : st) e s' o : req_result P D s e = (s', o) -> quiet o /\ abs s' = abs s.
Proof.
  unfold req_result. intros H; inversion H; subst. split; [reflexivity|].
  destruct (mreq P D s); reflexivity.
Qed.

Ltac split_ifs :=
  repeat match goal with
         | H : context [if ?c then _ else _] |- _ => destruct c eqn:?
         end.
Ltac use_rr :=
  repeat match goal with
         | H : req_result _ _ _ _ = _ |- _ => apply req_result_q in H; destruct H as [? ?]
         end.

Lemma resume_T (s : st) s' o :
  state P D s = Paused -> step P presume plan_of D dev s (EvMain AResume) = (s', o) -> ResumeT (abs s) o (abs s').
Proof.
  intros Hp. cbn [step]. rewrite Hp. change (negb (rstate_eqb Paused Paused)) with false. cbv iota.
  match goal with |- context [record_interruptions P D ?s1] => destruct (record_interruptions P D s1) as [[s2 o2] ok] eqn:E2 end.
  apply record_interruptions_a in E2 as [E2 E2']. autorewrite with absdb in E2, E2'.
  unfold ResumeT.
  destruct ok; cbn [negb].
  2: { intros H; inversion H; subst. exists (a_bs (abs s2)), o, false, [], (a_bs (abs s2)).
       autorewrite with absdb. repeat split; [exact E2 | rewrite app_nil_r; reflexivity | left; reflexivity | exact E2']. }
  destruct (cache P D s2) eqn:Ec.
  2: { intros H; inversion H; subst. exists (a_bs (abs s2)), o, true, [], (a_bs (abs s2)).
       autorewrite with absdb. repeat split; [exact E2 | rewrite app_nil_r; reflexivity | left; reflexivity | exact E2']. }
  destruct (RE.rewind P D s2) as [s3 l3] eqn:E3. apply rewind_a in E3.
  destruct (call_pausables P D dev (push_frame P D s3 (FList l3)) MResume) as [[s5 e] o5] eqn:E5.
  apply call_pausables_q in E5 as [Q5 A5]. autorewrite with absdb in A5.
  assert (Hs' : abs s' = abs s3 -> exists bs'', (bs'' = a_bs (abs s2) \/ bs'' = amap a_rewind (a_bs (abs s2))) /\ abs s' = with_bs (abs s) bs'').
  { intros Hs'. destruct E3 as [E3|E3].
    - exists (a_bs (abs s2)). split; [left; reflexivity|]. rewrite Hs', E3. exact E2'.
    - exists (amap a_rewind (a_bs (abs s2))). split; [right; reflexivity|]. rewrite Hs', E3, E2'. reflexivity. }
  intros H.
  assert (Hso : abs s' = abs s3 /\ o = o2 ++ o5).
  { destruct e; inversion H; subst; autorewrite with absdb; split; (exact A5 || reflexivity). }
  destruct Hso as [Hs Ho]. destruct (Hs' Hs) as (bs'' & Hb & Hab).
  exists (a_bs (abs s2)), o2, true, o5, bs''. repeat split; assumption.
Qed.

Lemma step_T (s : st) e s' o : step P presume plan_of D dev s e = (s', o) -> StepT e (abs s) o (abs s').
Proof.
  destruct e as [a|a| | |defer|rs| | |sid pre post|sid|sid ok| |]; try destruct a; cbn [StepT].
  all: try (intros H; apply task_step_T in H; exact H).
  all: try (cbn [step]; intros H; inversion H; subst; autorewrite with absdb; apply T_nil).
  all: try (cbn [step]; intros H; inversion H; subst; autorewrite with absdb; apply T_quiet; reflexivity).
  - (* ACall *)
    cbn [step]. intros H. destruct (negb (rstate_eqb (state P D s) Idle)); inversion H; subst; autorewrite with absdb; apply T_nil.
  - (* AResume *)
    destruct (rstate_eqb (a_st (abs s)) Paused) eqn:Ep.
    + apply rstate_eqb_true in Ep. apply resume_T. exact Ep.
    + cbn [a_st abs] in Ep. cbn [step]. rewrite Ep. cbn [negb]. intros H; inversion H; subst. split; reflexivity.
  - (* EvReqPause *)
    cbn [step]. destruct (request_pause P D s defer) as [[s1 e1] o1] eqn:E1. apply request_pause_T in E1.
    destruct (req_result P D s1 e1) as [s2 o2] eqn:E2. apply req_result_q in E2 as [Q2 A2].
    intros H; inversion H; subst. rewrite A2. eapply T_app; [exact E1 | apply T_quiet; exact Q2].
  - (* EvReqAbort *)
    cbn [step]. intros H. repeat (bm_hyp H); use_rr; split_ifs;
      try (inversion H; subst; clear H; prep; T_chain; fail).
  - (* EvReqStop *)
    cbn [step]. intros H. repeat (bm_hyp H); use_rr; split_ifs;
      try (inversion H; subst; clear H; prep; T_chain; fail).
  - (* EvReqHalt *)
    cbn [step]. intros H. repeat (bm_hyp H); use_rr; split_ifs;
      try (inversion H; subst; clear H; prep; T_chain; fail).
  - (* EvReqSuspend *)
    cbn [step]. intros H. cbv zeta in H. repeat (bm_hyp H); use_rr; split_ifs;
      try (inversion H; subst; clear H; prep; T_chain; fail).
  - (* EvStatus *)
    cbn [step]. intros H. destruct (negb ok && negb (pardon P D (set_statuses P D s (aset sid (Some ok) (statuses P D s)))));
      inversion H; subst; autorewrite with absdb; apply T_nil.
  - (* EvCacheDone *)
    cbn [step]. intros H. inversion H; subst. destruct (pc P D s) as [| | | | |k| |]; try apply T_nil.
    destruct k; try apply T_nil. autorewrite with absdb. apply T_nil.
Qed.

End Proofs.
