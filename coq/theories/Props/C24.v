(* C24 -- stub while the model is being tied; replaced below. *)
From BV Require Import Base.Prelude Gen.Coalg Gen.Relative.
From BV Require Gen.TieRelative.
Theorem C24_stub : True. Proof. exact I. Qed.
Print Assumptions C24_stub.
