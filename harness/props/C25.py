"""C25 - step scans visit exactly the documented trajectory."""
import itertools
import math
from fractions import Fraction

ID = "C25"
PROP_FILE = "Props/C25.v"
THEOREMS = []          # filled in at the bottom (kept next to the Coq file's list)
COQ_IMPORTS = ("From BV Require Import Base.OrdFieldS Base.FloatOps Pure.Snake Pure.Linspace Pure.Patterns Gen.Scan.\n"
               "From Coq Require Import PrimFloat.")
MODELLED = ("bluesky.plans scan/inner_product_scan/list_scan/grid_scan/list_grid_scan/scan_nd/log_scan/x2x_scan are "
            "modelled as message lists (Gen/Scan.v) on top of plan_patterns (Pure/Patterns.v) and numpy.linspace "
            "(Pure/Linspace.v, numpy's algorithm); stage_wrapper/run_wrapper/trigger_and_read/relative_set/"
            "reset_positions are modelled on their normal-completion path for the harness' fake devices (motors: "
            "Movable+Readable with `position`, not Triggerable; detectors: Readable, optionally Triggerable); cycler, "
            "numpy (linspace as transcribed, logspace as an oracle sequence), toolz.partition and CPython generators "
            "are trusted.  Theorems are over Q; the same Gallina text instantiated with binary64 (PrimFloat) is what "
            "the correspondence runs bit-exactly: rounding, absorption, overflow and signed zeros are only tested.")
RULE = ("exhaustive: scan with 1..4 motors x num 1..7 (three endpoint families), grid_scan/list_grid_scan for all "
        "shapes with 1..3 axes of length <= 3 (quick) x both argument patterns x snake_axes None/False/True/subsets, "
        "list_scan 1..3 motors x lengths 1..4, x2x_scan num 1..6, log_scan num 1..6, scan_nd on random cyclers with "
        "repeated positions; random starts/stops incl. reversed, equal endpoints, 0.1-style fractions, 1e300 / "
        "subnormal magnitudes, signed zeros; detectors 0..2 with/without trigger; malformed stream: wrong argument "
        "counts, misplaced motors, repeated motors, ragged lists, mixed old/new snake API, slowest motor in "
        "snake_axes, unknown motor in snake_axes, num=0.  non-trivial = at least 2 points and 2 set messages")
PARALLEL = False


# ============================================================================= floats

def fh(x):
    return float(x).hex()


def unhex(h):
    return float.fromhex(h)


def coq_float(h):
    x = unhex(h)
    if math.isnan(x):
        return "nan"
    if math.isinf(x):
        return "infinity" if x > 0 else "neg_infinity"
    return "(%s)%%float" % h if h.startswith("-") else "%s%%float" % h


# ============================================================================= case construction

POOL = [0.0, 1.0, -1.0, 2.0, 0.5, 3.0, -2.5, 0.1, 0.3, 10.0, 1e-3, 7.25, -0.0, 1e300, -1e300, 5e-324, 1e-310, 1.0 / 3.0,
        123456.789, 2.0 ** 53, 1e16]


def _rfloat(rng):
    r = rng.random()
    if r < 0.7:
        return rng.choice(POOL[:12])
    if r < 0.85:
        return rng.choice(POOL)
    return round(rng.uniform(-50, 50), rng.randint(0, 3))


def _dets(rng):
    n = rng.choice([0, 1, 1, 2])
    return [[i, rng.random() < 0.6] for i in range(n)]


def _scan_args(motors, ends):
    toks = []
    for m, (a, b) in zip(motors, ends):
        toks += [["m", m], ["v", fh(a)], ["v", fh(b)]]
    return toks


def _grid_args(motors, ends, nums, flags, pattern):
    toks = []
    for i, (m, (a, b), n) in enumerate(zip(motors, ends, nums)):
        toks += [["m", m], ["v", fh(a)], ["v", fh(b)], ["n", n]]
        if pattern == 2 and i > 0:
            toks.append(["b", bool(flags[i])])
    return toks


def _list_args(motors, lists):
    toks = []
    for m, l in zip(motors, lists):
        toks += [["m", m], ["l", [fh(x) for x in l]]]
    return toks


FAMILIES = [lambda k: (float(k), float(k) + 2.0), lambda k: (1.0 + k, -1.0), lambda k: (0.1 * (k + 1), 0.1 * (k + 1)),
            lambda k: (-0.3, 0.7 + k)]


def cases(rng, tier):
    out = []
    D1 = [[0, True]]
    D2 = [[0, False], [1, True]]
    # ---- scan: motors 1..4 x num 1..7 x endpoint families (num positional and by keyword)
    for nm in range(1, 5):
        for num in range(1, 8):
            for fi, fam in enumerate(FAMILIES[:3]):
                ends = [fam(k) for k in range(nm)]
                kw = (nm + num + fi) % 2 == 0
                args = _scan_args(range(nm), ends)
                out.append({"plan": "scan", "dets": D1 if fi else D2, "args": args if kw else args + [["n", num]],
                            "numkw": num if kw else None})
    for num in range(1, 8):
        out.append({"plan": "inner_product_scan", "dets": D1, "num": num,
                    "args": _scan_args([1, 0], [(0.0, 1.0), (5.0, 5.0)])})
    # ---- grid_scan / list_grid_scan: all small shapes x argument patterns x snake settings
    maxlen = 3 if tier == "quick" else 4
    for n in range(1, 4):
        for shape in itertools.product(range(1, maxlen + 1), repeat=n):
            if tier == "quick" and n == 3 and sum(shape) % 2 == 0:
                continue
            motors = list(range(n))
            ends = [FAMILIES[(k + sum(shape)) % 4](k) for k in range(n)]
            sas = [None, False, True] + [list(s) for r in range(1, n) for s in itertools.combinations(range(1, n), r)]
            for j, sa in enumerate(sas):
                out.append({"plan": "grid_scan", "dets": D1 if j % 2 else [], "snake_axes": sa,
                            "args": _grid_args(motors, ends, shape, [False] * n, 1)})
            if n > 1:
                for fl in itertools.product([False, True], repeat=n - 1):
                    out.append({"plan": "grid_scan", "dets": D1, "snake_axes": None,
                                "args": _grid_args(motors, ends, shape, [False] + list(fl), 2)})
            lists = [[ends[k][0] + (i * i - i) * 0.5 for i in range(L)] for k, L in enumerate(shape)]
            sas2 = [False, True] + [list(s) for r in range(1, n + 1) for s in itertools.combinations(range(n), r)]
            for j, sa in enumerate(sas2):
                out.append({"plan": "list_grid_scan", "dets": D2 if j % 2 else D1, "snake_axes": sa,
                            "args": _list_args(motors, lists)})
    # ---- list_scan
    for nm in range(1, 4):
        for L in range(1, 5):
            lists = [[float((i * (k + 2)) % 3) - k for i in range(L)] for k in range(nm)]
            out.append({"plan": "list_scan", "dets": D1, "args": _list_args(range(nm), lists)})
    # ---- x2x_scan, log_scan
    for num in range(1, 7):
        out.append({"plan": "x2x_scan", "dets": D1, "m1": 0, "m2": 1, "start": fh(-1.0), "stop": fh(2.0 + num),
                    "num": num, "init": [fh(0.25), fh(-3.0)]})
        out.append({"plan": "log_scan", "dets": D2, "motor": 0, "start": fh(-1.0), "stop": fh(1.0 + num), "num": num})
    # ---- random
    nrand = 200 if tier == "quick" else 4000
    for j in range(nrand):
        kind = j % 8
        dets = _dets(rng)
        if kind == 0:
            nm = rng.randint(1, 4)
            num = rng.randint(1, 9)
            motors = rng.sample(range(5), nm)
            ends = [(_rfloat(rng), _rfloat(rng)) for _ in range(nm)]
            kw = rng.random() < 0.5
            args = _scan_args(motors, ends)
            out.append({"plan": "scan", "dets": dets, "args": args if kw else args + [["n", num]], "numkw": num if kw else None})
        elif kind == 1:
            nm = rng.randint(1, 3)
            shape = [rng.randint(1, 4) for _ in range(nm)]
            motors = rng.sample(range(5), nm)
            ends = [(_rfloat(rng), _rfloat(rng)) for _ in range(nm)]
            if rng.random() < 0.5 and nm > 1:
                out.append({"plan": "grid_scan", "dets": dets, "snake_axes": None,
                            "args": _grid_args(motors, ends, shape, [False] + [rng.random() < 0.6 for _ in shape[1:]], 2)})
            else:
                sa = rng.choice([None, False, True, [m for m in motors[1:] if rng.random() < 0.6]])
                out.append({"plan": "grid_scan", "dets": dets, "snake_axes": sa,
                            "args": _grid_args(motors, ends, shape, [False] * nm, 1)})
        elif kind == 2:
            nm = rng.randint(1, 3)
            motors = rng.sample(range(5), nm)
            lists = [[_rfloat(rng) for _ in range(rng.randint(1, 4))] for _ in range(nm)]
            sa = rng.choice([False, True, [m for m in motors if rng.random() < 0.6]])
            out.append({"plan": "list_grid_scan", "dets": dets, "snake_axes": sa, "args": _list_args(motors, lists)})
        elif kind == 3:
            nm = rng.randint(1, 3)
            L = rng.randint(1, 7)
            motors = rng.sample(range(5), nm)
            # repeated neighbours on purpose: exercises the skip-if-unchanged cache
            lists = [[rng.choice([0.0, 1.0, -0.0, 2.5]) for _ in range(L)] for _ in range(nm)]
            out.append({"plan": "list_scan", "dets": dets, "args": _list_args(motors, lists)})
        elif kind == 4:
            nm = rng.randint(1, 3)
            L = rng.randint(0 if nm == 1 else 1, 6)
            motors = rng.sample(range(5), nm)
            pts = [[fh(rng.choice([0.0, 1.0, 2.0, float("nan")]) if rng.random() < 0.85 else _rfloat(rng)) for _ in range(nm)] for _ in range(L)]
            out.append({"plan": "scan_nd", "dets": dets, "motors": motors, "points": pts})
        elif kind == 5:
            num = rng.randint(1, 7)
            out.append({"plan": "x2x_scan", "dets": dets, "m1": 2, "m2": 0, "start": fh(_rfloat(rng)), "stop": fh(_rfloat(rng)),
                        "num": num, "init": [fh(_rfloat(rng)), fh(_rfloat(rng))]})
        elif kind == 6:
            num = rng.randint(1, 7)
            out.append({"plan": "log_scan", "dets": dets, "motor": rng.randint(0, 3), "start": fh(rng.choice(POOL[:12])),
                        "stop": fh(rng.choice(POOL[:12])), "num": num})
        else:
            num = rng.randint(1, 6)
            nm = rng.randint(1, 3)
            motors = rng.sample(range(5), nm)
            out.append({"plan": "inner_product_scan", "dets": dets, "num": num,
                        "args": _scan_args(motors, [(_rfloat(rng), _rfloat(rng)) for _ in range(nm)])})
    # ---- malformed / edge stream
    g2 = _grid_args([0, 1], [(0.0, 1.0), (2.0, 3.0)], [2, 2], [False, True], 2)
    g1 = _grid_args([0, 1], [(0.0, 1.0), (2.0, 3.0)], [2, 2], [False, False], 1)
    s2 = _scan_args([0, 1], [(0.0, 1.0), (2.0, 3.0)])
    bad = [
        {"plan": "scan", "dets": D1, "args": s2, "numkw": 0, "mal": "num0kw"},
        {"plan": "scan", "dets": D1, "args": s2 + [["n", 0]], "numkw": None, "mal": "num0pos"},
        {"plan": "scan", "dets": D1, "args": s2, "numkw": None, "mal": "nonum"},
        {"plan": "scan", "dets": D1, "args": s2[:-1], "numkw": 3, "mal": "count"},
        {"plan": "scan", "dets": D1, "args": _scan_args([0, 0], [(0.0, 1.0), (2.0, 3.0)]), "numkw": 3, "mal": "dup"},
        {"plan": "scan", "dets": D1, "args": [], "numkw": 3, "mal": "empty"},
        {"plan": "inner_product_scan", "dets": D1, "num": 0, "args": s2, "mal": "num0pos"},
        {"plan": "grid_scan", "dets": D1, "args": g2, "snake_axes": True, "mal": "mixed"},
        {"plan": "grid_scan", "dets": D1, "args": g2, "snake_axes": False, "mal": "mixed"},
        {"plan": "grid_scan", "dets": D1, "args": g2, "snake_axes": [1], "mal": "mixed"},
        {"plan": "grid_scan", "dets": D1, "args": g1, "snake_axes": [0], "mal": "slowest"},
        {"plan": "grid_scan", "dets": D1, "args": g1, "snake_axes": [1, 1], "mal": "dupaxes"},
        {"plan": "grid_scan", "dets": D1, "args": g1, "snake_axes": [3], "mal": "unknown"},
        {"plan": "grid_scan", "dets": D1, "args": g1[:-1], "snake_axes": None, "mal": "count"},
        {"plan": "grid_scan", "dets": D1, "args": g1[1:] + g1[:1], "snake_axes": None, "mal": "misplaced"},
        {"plan": "grid_scan", "dets": D1, "args": _grid_args([0, 0], [(0.0, 1.0), (2.0, 3.0)], [2, 2], [False] * 2, 1),
         "snake_axes": None, "mal": "dup"},
        {"plan": "grid_scan", "dets": D1, "args": [], "snake_axes": None, "mal": "empty"},
        {"plan": "list_scan", "dets": D1, "args": _list_args([0, 1], [[0.0, 1.0], [1.0]]), "mal": "ragged"},
        {"plan": "list_scan", "dets": D1, "args": _list_args([0, 1], [[0.0, 1.0], [1.0, 2.0]])[:-1], "mal": "count"},
        {"plan": "list_scan", "dets": D1, "args": _list_args([0, 0], [[0.0, 1.0], [1.0, 2.0]]), "mal": "dup"},
        {"plan": "list_scan", "dets": D1, "args": [], "mal": "empty"},
        {"plan": "list_grid_scan", "dets": D1, "args": _list_args([0, 0], [[0.0, 1.0], [1.0, 2.0]]), "snake_axes": True, "mal": "dup"},
        {"plan": "list_grid_scan", "dets": D1, "args": _list_args([0, 1], [[0.0, 1.0], []]), "snake_axes": True, "mal": "emptylist"},
        {"plan": "list_grid_scan", "dets": D1, "args": [], "snake_axes": False, "mal": "empty"},
        {"plan": "x2x_scan", "dets": D1, "m1": 0, "m2": 0, "start": fh(0.0), "stop": fh(1.0), "num": 3,
         "init": [fh(1.0), fh(1.0)], "mal": "dup"},
        {"plan": "x2x_scan", "dets": D1, "m1": 0, "m2": 1, "start": fh(0.0), "stop": fh(1.0), "num": 0,
         "init": [fh(1.0), fh(2.0)], "mal": "num0pos"},
    ]
    # pattern-ambiguous grid argument counts (24 = 6x4 = 4+4x5) with one point per axis but one
    amb = [0, 1, 2, 3, 4]
    out.append({"plan": "grid_scan", "dets": [], "snake_axes": None,
                "args": _grid_args(amb, [(float(k), k + 1.0) for k in amb], [1, 2, 1, 2, 1], [False, True, False, True, True], 2)})
    out.append({"plan": "grid_scan", "dets": [], "snake_axes": [1, 3, 5],
                "args": _grid_args(amb + [5], [(float(k), k + 1.0) for k in range(6)], [1, 2, 1, 2, 1, 2], [False] * 6, 1)})
    return out + bad


# ============================================================================= implementation side

PLAN_NAMES = ["scan", "inner_product_scan", "list_scan", "grid_scan", "list_grid_scan", "scan_nd", "log_scan", "x2x_scan"]
PATTERNS = {None: "PPnone", "inner_product": "PPinner_product", "inner_list_product": "PPinner_list_product",
            "outer_product": "PPouter_product", "outer_list_product": "PPouter_list_product", "logspace": "PPlogspace"}


class _Env:
    def __init__(self, case):
        from harness.drivers.scan_fakes import FakeMotor, make_det
        self.FakeMotor = FakeMotor
        self.motors = {}
        self.dets = [make_det("d%d" % i, trig) for i, trig in case["dets"]]
        self.det_ids = {id(d): i for d, (i, _) in zip(self.dets, case["dets"])}

    def motor(self, k, pos=0.0):
        if k not in self.motors:
            self.motors[k] = self.FakeMotor("m%d" % k, pos)
        return self.motors[k]

    def args(self, toks):
        out = []
        for kind, v in toks:
            if kind == "m":
                out.append(self.motor(v))
            elif kind == "v":
                out.append(unhex(v))
            elif kind == "l":
                out.append([unhex(x) for x in v])
            else:
                out.append(v)
        return out

    def sa(self, sa):
        if isinstance(sa, list):
            return [self.motor(k) for k in sa]
        return sa

    def obj(self, o):
        for k, m in self.motors.items():
            if m is o:
                return ["m", k]
        if id(o) in self.det_ids:
            return ["d", self.det_ids[id(o)]]
        return ["?", repr(o)]

    def name_id(self, name):
        return int(name[1:])


def _project(env, msgs):
    groups = {}

    def grp(g):
        if g not in groups:
            groups[g] = len(groups)
        return groups[g]

    out = []
    for m in msgs:
        c = m.command
        if c in ("stage", "unstage"):
            out.append([c, env.obj(m.obj), grp(m.kwargs.get("group"))])
        elif c == "open_run":
            md = m.kwargs
            ext = md.get("extents")
            out.append(["open", {
                "plan_name": md.get("plan_name"),
                "detectors": [env.name_id(n) for n in md.get("detectors", [])],
                "motors": [env.name_id(n) for n in md.get("motors", [])],
                "num_points": md.get("num_points"),
                "num_intervals": md.get("num_intervals"),
                "plan_pattern": md.get("plan_pattern"),
                "shape": None if md.get("shape") is None else [int(x) for x in md["shape"]],
                "extents": None if ext is None else [[fh(a), fh(b)] for a, b in ext],
                "snaking": None if md.get("snaking") is None else [bool(x) for x in md["snaking"]],
            }])
        elif c == "close_run":
            out.append(["close"])
        elif c == "checkpoint":
            out.append(["cp"])
        elif c == "set":
            (v,) = m.args
            out.append(["set", env.obj(m.obj)[1], fh(v), grp(m.kwargs.get("group"))])
        elif c == "wait":
            out.append(["wait", grp(m.kwargs.get("group"))])
        elif c == "trigger":
            out.append(["trig", env.obj(m.obj), grp(m.kwargs.get("group"))])
        elif c == "create":
            out.append(["create"] if m.kwargs.get("name") == "primary" else ["other", "create:" + str(m.kwargs)])
        elif c == "read":
            out.append(["read", env.obj(m.obj)])
        elif c == "save":
            out.append(["save"])
        else:
            out.append(["other", c])
    # the motors of a cycler are staged in Python-set order: canonicalise that block (see Gen/Scan.v)
    i = 0
    while i < len(out) and out[i][0] == "stage":
        i += 1
    j = i
    while j > 0 and out[j - 1][1][0] == "m":
        j -= 1
    out[j:i] = sorted(out[j:i], key=lambda e: e[1][1])
    k = next((t for t, e in enumerate(out) if e[0] == "unstage"), None)
    if k is not None:
        e = k
        while e < len(out) and out[e][0] == "unstage" and out[e][1][0] == "m":
            e += 1
        out[k:e] = sorted(out[k:e], key=lambda x: -x[1][1])
    for e in out:
        if e[0] == "open" and e[1]["plan_name"] == "scan_nd":
            e[1]["motors"] = sorted(e[1]["motors"])
    return out


def impl(case):
    import numpy as np
    import bluesky.plans as bp
    from cycler import cycler
    from functools import reduce
    import operator
    from harness.drivers.scan_fakes import drive

    env = _Env(case)
    plan = case["plan"]
    extra = {}
    msgs = []

    def collect(gen):
        # iterate by hand so that messages yielded before an exception are kept
        from harness.drivers.scan_fakes import drive_into
        return drive_into(gen, msgs)

    raised = None
    try:
        if plan == "scan":
            kw = {} if case["numkw"] is None else {"num": case["numkw"]}
            gen = bp.scan(env.dets, *env.args(case["args"]), **kw)
        elif plan == "inner_product_scan":
            gen = bp.inner_product_scan(env.dets, case["num"], *env.args(case["args"]))
        elif plan == "list_scan":
            gen = bp.list_scan(env.dets, *env.args(case["args"]))
        elif plan == "grid_scan":
            gen = bp.grid_scan(env.dets, *env.args(case["args"]), snake_axes=env.sa(case["snake_axes"]))
        elif plan == "list_grid_scan":
            gen = bp.list_grid_scan(env.dets, *env.args(case["args"]), snake_axes=env.sa(case["snake_axes"]))
        elif plan == "scan_nd":
            ms = [env.motor(k) for k in case["motors"]]
            cols = [[unhex(p[i]) for p in case["points"]] for i in range(len(ms))]
            gen = bp.scan_nd(env.dets, reduce(operator.add, [cycler(m, c) for m, c in zip(ms, cols)]))
        elif plan == "log_scan":
            steps = np.logspace(unhex(case["start"]), unhex(case["stop"]), case["num"])
            extra["oracle_steps"] = [fh(x) for x in steps]
            gen = bp.log_scan(env.dets, env.motor(case["motor"]), unhex(case["start"]), unhex(case["stop"]), case["num"])
        elif plan == "x2x_scan":
            m1 = env.motor(case["m1"], unhex(case["init"][0]))
            m2 = env.motor(case["m2"], unhex(case["init"][1]))
            gen = bp.x2x_scan(env.dets, m1, m2, unhex(case["start"]), unhex(case["stop"]), case["num"])
        else:
            raise RuntimeError("unknown plan " + plan)
        collect(gen)
    except (ValueError, TypeError, RuntimeError, StopIteration) as e:
        raised = type(e).__name__
    obs = {"msgs": _project(env, msgs), "raised": raised}
    if plan == "x2x_scan":
        obs["final"] = [fh(env.motors[case["m1"]].position), fh(env.motors[case["m2"]].position)]
    obs.update(extra)
    return obs


# ============================================================================= model side

def cl(xs, f=str):
    return "[" + "; ".join(f(x) for x in xs) + "]"


def cb(b):
    return "true" if b else "false"


def _tok(t):
    kind, v = t
    if kind == "m":
        return "AMot %d" % v
    if kind == "v":
        return "AVal %s" % coq_float(v)
    if kind == "n":
        return "ANum %d" % v
    if kind == "b":
        return "ABool %s" % cb(v)
    return "AList %s" % cl(v, coq_float)


def _sa(sa):
    if sa is None:
        return "SANone"
    if sa is True:
        return "SATrue"
    if sa is False:
        return "SAFalse"
    return "(SAList %s)" % cl(sa)


def _obj(o):
    return "(OMot %d)" % o[1] if o[0] == "m" else "(ODet %d)" % o[1]


def _opt(x, f):
    return "None" if x is None else "(Some %s)" % f(x)


def _md(md):
    if md["plan_name"] not in PLAN_NAMES or md["plan_pattern"] not in PATTERNS:
        return None
    if md["num_points"] is None or md["num_intervals"] is None or md["num_points"] < 0:
        return None
    return "(mkMeta PN%s %s %s %d (%d)%%Z %s %s %s %s)" % (
        md["plan_name"], cl(md["detectors"]), cl(md["motors"]), md["num_points"], md["num_intervals"],
        PATTERNS[md["plan_pattern"]], _opt(md["shape"], cl),
        _opt(md["extents"], lambda e: cl(e, lambda p: "(%s, %s)" % (coq_float(p[0]), coq_float(p[1])))),
        _opt(md["snaking"], lambda s: cl(s, cb)))


def _msg(m):
    k = m[0]
    if k == "stage":
        return "MStage %s %d" % (_obj(m[1]), m[2])
    if k == "unstage":
        return "MUnstage %s %d" % (_obj(m[1]), m[2])
    if k == "open":
        md = _md(m[1])
        return None if md is None else "MOpenRun " + md
    if k == "close":
        return "MCloseRun"
    if k == "cp":
        return "MCheckpoint"
    if k == "set":
        return "MSet %d %s %d" % (m[1], coq_float(m[2]), m[3])
    if k == "wait":
        return "MWait %d" % m[1]
    if k == "trig":
        return "MTrigger %s %d" % (_obj(m[1]), m[2])
    if k == "create":
        return "MCreate"
    if k == "read":
        return "MRead %s" % _obj(m[1])
    if k == "save":
        return "MSave"
    return None


def coq_term(case, obs):
    ms = [_msg(m) for m in obs["msgs"]]
    if any(m is None for m in ms):
        return "false"        # something the model has no constructor for was observed
    exp = "(%s %s)" % ("Raised" if obs["raised"] else "Done", cl(ms))
    dets = cl(case["dets"], lambda d: "mkDet %d %s" % (d[0], cb(d[1])))
    plan = case["plan"]
    if plan == "scan":
        call = "scan FOps %s %s %s" % (dets, cl(case["args"], _tok), _opt(case["numkw"], str))
    elif plan == "inner_product_scan":
        call = "inner_product_scan FOps %s %d %s" % (dets, case["num"], cl(case["args"], _tok))
    elif plan == "list_scan":
        call = "list_scan FOps %s %s" % (dets, cl(case["args"], _tok))
    elif plan == "grid_scan":
        call = "grid_scan FOps %s %s %s" % (dets, cl(case["args"], _tok), _sa(case["snake_axes"]))
    elif plan == "list_grid_scan":
        call = "list_grid_scan FOps %s %s %s" % (dets, cl(case["args"], _tok), _sa(case["snake_axes"]))
    elif plan == "scan_nd":
        pts = cl(case["points"], lambda p: cl(zip(case["motors"], p), lambda mv: "(%d, %s)" % (mv[0], coq_float(mv[1]))))
        call = "scan_nd FOps %s %s (%s : list (list (nat * float)))" % (dets, cl(case["motors"]), pts)
    elif plan == "log_scan":
        call = "log_scan %s %d %s" % (dets, case["motor"], cl(obs["oracle_steps"], coq_float))
    else:
        i1, i2 = coq_float(case["init"][0]), coq_float(case["init"][1])
        init = "(fun k => if Nat.eqb k %d then %s else %s)" % (case["m1"], i1, i2)
        call = "x2x_scan FOps %s %d %d %s %s %d %s" % (dets, case["m1"], case["m2"], coq_float(case["start"]),
                                                      coq_float(case["stop"]), case["num"], init)
    return "result_beq fbits_eqb (%s) %s" % (call, exp)


# ============================================================================= the property, implementation side

def _exact_linspace(a, b, n):
    """the documented sequence start + i*(stop-start)/(num-1) as exact rationals (finite inputs)"""
    a, b = Fraction(a), Fraction(b)
    if n == 1:
        return [a]
    return [a + (b - a) * i / (n - 1) for i in range(n)]


def _snake_idx(lens, flags, k, t):
    R = 1
    for x in lens[k + 1:]:
        R *= x
    d = (t // R) % lens[k]
    return lens[k] - 1 - d if (flags[k] and (t // (R * lens[k])) % 2 == 1) else d


def _documented(case, obs):
    """(motors, points as lists of floats, expected md entries, relative?) or None when the call must raise."""
    import numpy as np
    plan = case["plan"]
    toks = case.get("args", [])

    def val(t):
        return unhex(t[1])

    if plan in ("scan", "inner_product_scan"):
        if plan == "scan" and case["numkw"] is None:
            if len(toks) % 3 != 1 or toks[-1][0] != "n":
                return None
            num, toks = toks[-1][1], toks[:-1]
        elif plan == "scan":
            num = case["numkw"]
            if num <= 0:
                return None
        else:
            num = case["num"]
        if len(toks) % 3 or not toks:
            return None
        trip = [toks[i:i + 3] for i in range(0, len(toks), 3)]
        if any([t[0][0], t[1][0], t[2][0]] != ["m", "v", "v"] for t in trip):
            return None
        motors = [t[0][1] for t in trip]
        if len(set(motors)) != len(motors):
            return None
        cols = [np.linspace(val(t[1]), val(t[2]), num) for t in trip]
        exact = [(val(t[1]), val(t[2]), num) for t in trip]
        return {"motors": motors, "points": [[float(c[i]) for c in cols] for i in range(num)],
                "md": {"num_points": num, "num_intervals": num - 1, "plan_name": plan, "plan_pattern": "inner_product",
                       "motors": motors}, "lin": [[(e, i) for e in exact] for i in range(num)]}
    if plan == "list_scan":
        if len(toks) % 2 or not toks:
            return None
        pairs = [toks[i:i + 2] for i in range(0, len(toks), 2)]
        if any([p[0][0], p[1][0]] != ["m", "l"] for p in pairs):
            return None
        motors = [p[0][1] for p in pairs]
        lens = [len(p[1][1]) for p in pairs]
        if len(set(motors)) != len(motors) or len(set(lens)) != 1:
            return None
        n = lens[0]
        return {"motors": motors, "points": [[unhex(p[1][1][i]) for p in pairs] for i in range(n)],
                "md": {"num_points": n, "num_intervals": max(n, 1) - 1, "plan_name": plan,
                       "plan_pattern": "inner_list_product", "motors": motors}}
    if plan == "grid_scan":
        from harness.props.C26 import _placement_ok
        sa = case["snake_axes"]
        pat = 1 if _placement_ok(toks, 1) else 2 if _placement_ok(toks, 2) else None
        if pat is None or not toks:
            return None
        if sa is not None and pat == 2:
            return None
        full = toks if pat == 1 else toks[:4] + [["b", False]] + toks[4:]
        w = 4 if pat == 1 else 5
        rows = [full[i:i + w] for i in range(0, len(full), w)]
        motors = [r[0][1] for r in rows]
        if len(set(motors)) != len(motors):
            return None
        flags = [False if pat == 1 else r[4][1] for r in rows]
        if sa is True:
            flags = [i > 0 for i in range(len(rows))]
        elif sa is False:
            flags = [False] * len(rows)
        elif isinstance(sa, list):
            if len(set(sa)) != len(sa) or motors[0] in sa or any(m not in motors for m in sa):
                return None
            flags = [i > 0 and m in sa for i, m in enumerate(motors)]
        lens = [r[3][1] for r in rows]
        cols = [np.linspace(val(r[1]), val(r[2]), r[3][1]) for r in rows]
        tot = 1
        for L in lens:
            tot *= L
        pts = [[float(cols[k][_snake_idx(lens, flags, k, t)]) for k in range(len(rows))] for t in range(tot)]
        return {"motors": motors, "points": pts,
                "md": {"num_points": tot, "num_intervals": tot - 1, "plan_name": plan, "plan_pattern": "outer_product",
                       "motors": motors, "shape": lens, "snaking": flags,
                       "extents": [[fh(val(r[1])), fh(val(r[2]))] for r in rows]}}
    if plan == "list_grid_scan":
        pairs = [toks[i:i + 2] for i in range(0, len(toks) - 1, 2)]
        if not pairs or any([p[0][0], p[1][0]] != ["m", "l"] for p in pairs):
            return None
        motors = [p[0][1] for p in pairs]
        lists = [[unhex(x) for x in p[1][1]] for p in pairs]
        if len(set(motors)) != len(motors) or any(not l for l in lists):
            return None
        sa = case["snake_axes"]
        flags = [i > 0 for i in range(len(motors))] if sa is True else [False] * len(motors) if not sa else [m in sa for m in motors]
        lens = [len(l) for l in lists]
        tot = 1
        for L in lens:
            tot *= L
        pts = [[lists[k][_snake_idx(lens, flags, k, t)] for k in range(len(motors))] for t in range(tot)]
        return {"motors": motors, "points": pts,
                "md": {"num_points": tot, "num_intervals": tot - 1, "plan_name": plan, "plan_pattern": "outer_list_product",
                       "motors": motors, "shape": lens}, "extents_cover": True}
    if plan == "scan_nd":
        pts = [[unhex(x) for x in p] for p in case["points"]]
        return {"motors": case["motors"], "points": pts,
                "md": {"num_points": len(pts), "num_intervals": len(pts) - 1, "plan_name": plan, "plan_pattern": None,
                       "motors": sorted(case["motors"])}}
    if plan == "log_scan":
        steps = [unhex(x) for x in obs["oracle_steps"]]
        return {"motors": [case["motor"]], "points": [[s] for s in steps], "always_set": True,
                "md": {"num_points": len(steps), "num_intervals": len(steps) - 1, "plan_name": plan,
                       "plan_pattern": "logspace", "motors": [case["motor"]]}}
    if plan == "x2x_scan":
        if case["m1"] == case["m2"]:
            return None
        num = case["num"]
        a, b = unhex(case["start"]), unhex(case["stop"])
        i1, i2 = unhex(case["init"][0]), unhex(case["init"][1])
        c1, c2 = np.linspace(a, b, num), np.linspace(a / 2, b / 2, num)
        return {"motors": [case["m1"], case["m2"]], "points": [[i1 + float(c1[i]), i2 + float(c2[i])] for i in range(num)],
                "md": {"num_points": num, "num_intervals": num - 1, "plan_name": plan, "plan_pattern": "inner_product",
                       "motors": [case["m1"], case["m2"]]}, "restore": [i1, i2],
                "lin": [[((a, b, num), i), ((a / 2, b / 2, num), i)] for i in range(num)], "offset": [i1, i2]}
    return None


def _same(x, y):
    return (x == y) or (math.isnan(x) and math.isnan(y))


def _zero_points(case):
    """num = 0 given positionally is not rejected by scan(): documented nowhere; the code either runs an
    empty scan (one motor) or fails inside cycler (several motors).  Either way nothing may move."""
    p = case["plan"]
    if p == "scan" and case["numkw"] is None:
        t = case["args"]
        return len(t) % 3 == 1 and t[-1] == ["n", 0]
    return p in ("inner_product_scan", "x2x_scan") and case["num"] == 0


def oracle(case, obs):
    msgs = obs["msgs"]
    if _zero_points(case):
        if any(m[0] in ("set", "save", "create") for m in msgs):
            return "a scan over zero points moved or measured something"
        if not obs["raised"]:
            md = [m[1] for m in msgs if m[0] == "open"]
            if len(md) != 1 or md[0]["num_points"] != 0:
                return "empty scan does not record num_points = 0"
        return None
    doc = _documented(case, obs)
    if doc is None:
        if not obs["raised"]:
            return "malformed call accepted"
        if any(m[0] in ("set", "open", "stage") for m in msgs):
            return "malformed call moved or staged something before raising"
        return None
    if obs["raised"]:
        return "valid call raised " + obs["raised"]
    for m in msgs:
        if m[0] == "other":
            return "unexpected message " + m[1]
    opens = [i for i, m in enumerate(msgs) if m[0] == "open"]
    closes = [i for i, m in enumerate(msgs) if m[0] == "close"]
    if len(opens) != 1 or len(closes) != 1 or opens[0] > closes[0]:
        return "not exactly one run"
    body = msgs[opens[0] + 1:closes[0]]
    md = msgs[opens[0]][1]
    # one checkpointed create/read/save group per point, positions after each point's wait
    pos = {}
    if "restore" in doc:
        pos = dict(zip(doc["motors"], doc["restore"]))
    groups = []
    i = 0
    while i < len(body):
        if body[i][0] != "cp":
            return "point %d does not start with a checkpoint (%s)" % (len(groups), body[i][0])
        i += 1
        nset, g = 0, None
        while i < len(body) and body[i][0] == "set":
            pos[body[i][1]] = unhex(body[i][2])
            g = body[i][3] if g is None else g
            if body[i][3] != g:
                return "sets of one point use different groups"
            nset += 1
            i += 1
        if i >= len(body) or body[i][0] != "wait" or (g is not None and body[i][1] != g):
            return "point %d: moves are not waited for before reading" % len(groups)
        i += 1
        tg = None
        while i < len(body) and body[i][0] == "trig":
            tg = body[i][2]
            i += 1
        if tg is not None:
            if i >= len(body) or body[i] != ["wait", tg]:
                return "point %d: triggers are not waited for" % len(groups)
            i += 1
        if i >= len(body) or body[i][0] != "create":
            return "point %d: no create after the move" % len(groups)
        i += 1
        reads = []
        while i < len(body) and body[i][0] == "read":
            reads.append(body[i][1])
            i += 1
        if i >= len(body) or body[i][0] != "save":
            return "point %d: bundle not saved" % len(groups)
        i += 1
        want_reads = [["d", d[0]] for d in case["dets"]] + [["m", m] for m in doc["motors"]]
        if reads != want_reads:
            return "point %d reads %s, expected detectors then motors %s" % (len(groups), reads, want_reads)
        groups.append((dict(pos), nset))
    pts = doc["points"]
    if len(groups) != len(pts):
        return "%d points were measured, the documented trajectory has %d" % (len(groups), len(pts))
    for t, ((snap, nset), p) in enumerate(zip(groups, pts)):
        for m, v in zip(doc["motors"], p):
            if m not in snap:
                return "point %d: motor %d was never moved" % (t, m)
            if not _same(snap[m], v):
                return "point %d: motor %d is at %r, documented position %r" % (t, m, snap[m], v)
        if doc.get("always_set") and nset != 1:
            return "point %d: log_scan did not set its motor" % t
    # the documented arithmetic progression, checked in exact arithmetic (finite, non-overflowing inputs)
    for t, row in enumerate(doc.get("lin", [])):
        for k, ((a, b, n), i) in enumerate(row):
            if not all(map(math.isfinite, (a, b))) or not math.isfinite(b - a) or abs(a) > 1e150 or abs(b) > 1e150:
                continue
            ex = _exact_linspace(a, b, n)[i]
            off = doc.get("offset", [0.0] * len(row))[k]
            got = Fraction(groups[t][0][doc["motors"][k]]) - Fraction(off)
            # relative part + the absolute resolution of binary64 (subnormal spacing)
            tol = Fraction(max(abs(a), abs(b), abs(off))) * Fraction(1, 2 ** 48) + 4 * Fraction(5e-324)
            if abs(got - ex) > tol:
                return "point %d motor %d: %r is not start + i*(stop-start)/(num-1)" % (t, doc["motors"][k], float(got))
    # metadata consistent with what was done
    for k, v in doc["md"].items():
        if md.get(k) != v:
            return "metadata %s = %r, the scan did %r" % (k, md.get(k), v)
    if md["num_points"] != len(groups):
        return "num_points %r but %d points measured" % (md["num_points"], len(groups))
    if md.get("shape") is not None:
        tot = 1
        for L in md["shape"]:
            tot *= L
        if tot != len(groups):
            return "shape %r does not multiply to the %d points measured" % (md["shape"], len(groups))
    if md.get("extents") is not None:
        for k, (lo, hi) in enumerate(md["extents"]):
            lo, hi = sorted([unhex(lo), unhex(hi)])
            for snap, _ in groups:
                x = snap[doc["motors"][k]]
                if math.isfinite(x) and math.isfinite(lo) and math.isfinite(hi) and not (lo <= x <= hi):
                    return "motor %d visits %r outside the recorded extents [%r, %r]" % (doc["motors"][k], x, lo, hi)
    if "restore" in doc:
        if [unhex(x) for x in obs["final"]] != doc["restore"]:
            return "x2x_scan left the motors at %r, they started at %r" % (obs["final"], doc["restore"])
    return None


def nontrivial(case, obs):
    return (not obs["raised"]) and sum(1 for m in obs["msgs"] if m[0] == "save") >= 2 and \
        sum(1 for m in obs["msgs"] if m[0] == "set") >= 2


def describe(case):
    p = case["plan"]
    if "mal" in case:
        return "%s malformed:%s" % (p, case["mal"])
    if p in ("grid_scan", "list_grid_scan"):
        sa = case["snake_axes"]
        return "%s snake_axes=%s" % (p, "list" if isinstance(sa, list) else sa)
    if p == "scan":
        return "scan num=%s" % ("kw" if case["numkw"] is not None else "positional")
    return p


THEOREMS = ["C25_linspace", "C25_scan_nd", "C25_scan", "C25_inner_product_scan", "C25_list_scan", "C25_grid_scan",
            "C25_grid_scan_old_pattern", "C25_list_grid_scan", "C25_x2x_scan", "C25_log_scan"]
