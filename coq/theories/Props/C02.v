(* C02 - exit status, reason and raised exception reflect how the run ended.

   Model: Engine/RE.v.  The statement is split along the code path (`_run`'s exception ladder, its
   finally block, __call__/resume), each part for every state, plan and device:
   (1) the mapping cause -> exit status (the ladder), (2) the cause is how the outermost plan ended,
   (3) the finally block gives every run still open a RunStop with the engine's status and reason,
   (4) between the decision and the finally block only an abort/halt request (or a new call) changes
   status or reason, an abort request always leaves status 'abort' and its reason, (5) what the
   blocking call reports, (6) FailedStatus originates only in a status that finished unsuccessfully.
   (7) the interruption mark is set by the requests and sticky until the next call/resume.
   PARTIAL: the end-to-end statement C02_full ("the first cause decides") is not proved as one
   theorem; run_wrapper's own close_run (Gen/Wrappers.v, C22/C23) and the exception chaining
   (`FailedStatus` -> device exception, a Python `__cause__`) are outside this model: the chaining is
   checked on the implementation side only. *)
From Coq Require Import List ZArith Bool.
From BV Require Import Engine.RE Engine.REInst Engine.DocMon Proofs.RE_Docs Proofs.RE_DocsCor Proofs.RE_Exit.
Import ListNotations.

(* (1) success for normal completion and RequestStop; abort for FailedPause, RequestAbort, a
   cancellation, PlanHalt; fail otherwise, with the reason marked "exception text" (except for a
   stray GeneratorExit, reported as ValueError) and the task raising the error *)
Theorem C02_exit_mapping :
  forall (P : Type) (presume : P -> input -> outcome P) (plan_of : nat -> P)
         (D : Type) (dev : D -> nat -> devmeth -> D * devres) fuel (s : st P D) x os,
    drive P presume plan_of D dev (S fuel) s (CExit x) os =
      if sleeps x
      then (set_pc P D (set_exit P D s (exit_of x) (reason P D s)) (PcFinalSleep (result_of x)), os ++ [OTask WSleep0])
      else match x with
           | XExn e =>
               let s1 := set_exit P D s XFail (reason P D s) in
               let s2 := match e with EGeneratorExit => s1 | _ => set_ers P D s1 true end in
               drive P presume plan_of D dev fuel s2 (CFinalize (TReturn NO_RETURN) (Some (raised_of e))) os
           | XRet _ => (s, os)
           end.
Proof. exact exit_mapping. Qed.
Print Assumptions C02_exit_mapping.

Example C02_mapping_table :
  exit_of (XRet VNone) = XSuccess /\ exit_of (XExn ERequestStop) = XSuccess /\
  exit_of (XExn ERequestAbort) = XAbort /\ exit_of (XExn EPlanHalt) = XAbort /\ exit_of (XExn EFailedPause) = XAbort /\
  exit_of (XExn ECancelled) = XAbort /\
  exit_of (XExn EUser1) = XFail /\ exit_of (XExn EDev) = XFail /\ exit_of (XExn EFailedStatus) = XFail /\ exit_of (XExn EIMS) = XFail.
Proof. repeat split. Qed.

(* (2) with one plan frame left, the way that frame ends is the cause *)
Theorem C02_plan_end_decides :
  forall (P : Type) (presume : P -> input -> outcome P) (plan_of : nat -> P)
         (D : Type) (dev : D -> nat -> devmeth -> D * devres) fuel (s : st P D) top r os,
    plans P D s = [top] -> resps P D s = [r] -> exc_slot P D s = None -> stashed P D s = None ->
    let i := match r with RVal v => Send v | RExn e => Throw e end in
    let s2 := set_resps P D s [] in
    match frame_resume P presume top i with
    | (Returned v, po) =>
        drive P presume plan_of D dev (S (S fuel)) s CAfterSleep os =
        drive P presume plan_of D dev (S fuel) (pop_plan P D s2) (CExit (XRet v)) (os ++ po)
    | (Raised e, po) =>
        is_Exception e = true ->
        drive P presume plan_of D dev (S (S fuel)) s CAfterSleep os =
        drive P presume plan_of D dev (S fuel) (pop_plan P D s2) (CExit (XExn e)) (os ++ po)
    | (Yielded _ _, _) => True
    end.
Proof. exact plan_end_decides. Qed.
Print Assumptions C02_plan_end_decides.

(* (3) the finally block: one RunStop per bundler still open, carrying the engine's exit status and
   reason (the exception text when the run failed), nothing else; the bundler table is emptied *)
Theorem C02_finalize_closes_open_runs :
  forall (P : Type) (presume : P -> input -> outcome P)
         (D : Type) (dev : D -> nat -> devmeth -> D * devres) (s : st P D) r pend s' o,
    finalize P presume D dev s r pend = (s', o) ->
    docs_of o = stops_of (bundlers P D s) (exit_status P D s) (if exit_reason_set P D s then RsExnText else reason P D s) /\
    bundlers P D s' = [] /\ exit_status P D s' = exit_status P D s /\
    (pc P D s' = PcDone (final_result P D s r pend) \/ pc P D s' = PcDone (TRaise ETransition)).
Proof. exact finalize_spec. Qed.
Print Assumptions C02_finalize_closes_open_runs.

(* (4) *)
Theorem C02_status_stable_until_finalize :
  forall (P : Type) (presume : P -> input -> outcome P) (plan_of : nat -> P)
         (D : Type) (dev : D -> nat -> devmeth -> D * devres) (s : st P D) e s' o,
    decides e = false -> step P presume plan_of D dev s e = (s', o) -> keep P D s s'.
Proof. exact keep_until_finalize. Qed.
Print Assumptions C02_status_stable_until_finalize.

Theorem C02_abort_request_sets_reason :
  forall (P : Type) (presume : P -> input -> outcome P) (plan_of : nat -> P)
         (D : Type) (dev : D -> nat -> devmeth -> D * devres) (s : st P D) rs s' o,
    state P D s <> Idle -> step P presume plan_of D dev s (EvReqAbort rs) = (s', o) ->
    exit_status P D s' = XAbort /\ reason P D s' = rs /\ interrupted P D s' = true.
Proof. exact abort_request_sets_reason. Qed.
Print Assumptions C02_abort_request_sets_reason.

Theorem C02_final_sleep_step :
  forall (P : Type) (presume : P -> input -> outcome P) (plan_of : nat -> P)
         (D : Type) (dev : D -> nat -> devmeth -> D * devres) (s : st P D) r,
    pc P D s = PcFinalSleep r ->
    task_step P presume plan_of D dev s =
      finalize P presume D dev (set_must_cancel P D s false) r (if must_cancel P D s then Some ECancelled else None).
Proof. exact final_sleep_step. Qed.
Print Assumptions C02_final_sleep_step.

(* (3)+(4) composed: the decision reaches the RunStops *)
Theorem C02_decision_reaches_stops :
  forall (P : Type) (presume : P -> input -> outcome P) (plan_of : nat -> P)
         (D : Type) (dev : D -> nat -> devmeth -> D * devres) (s : st P D) r evs s1 o1 s2 o2,
    pc P D s = PcFinalSleep r -> forallb (fun e => negb (decides e)) evs = true ->
    run P presume plan_of D dev s evs = (s1, o1) -> step P presume plan_of D dev s1 EvTask = (s2, o2) ->
    docs_of o2 = stops_of (bundlers P D s1) (exit_status P D s) (if exit_reason_set P D s then RsExnText else reason P D s) /\
    bundlers P D s2 = [] /\ exists res, pc P D s2 = PcDone res.
Proof. exact decision_reaches_stops. Qed.
Print Assumptions C02_decision_reaches_stops.

Theorem C02_fail_closes_at_once :
  forall (P : Type) (presume : P -> input -> outcome P) (plan_of : nat -> P)
         (D : Type) (dev : D -> nat -> devmeth -> D * devres) fuel (s : st P D) e os s' o,
    sleeps (XExn e) = false -> e <> EGeneratorExit ->
    drive P presume plan_of D dev (S (S fuel)) s (CExit (XExn e)) os = (s', o) ->
    docs_of o = docs_of os ++ stops_of (bundlers P D s) XFail RsExnText /\ bundlers P D s' = [] /\
    (pc P D s' = PcDone (TRaise e) \/ pc P D s' = PcDone (TRaise ETransition)).
Proof. exact fail_closes_at_once. Qed.
Print Assumptions C02_fail_closes_at_once.

(* (5) RE(...) / resume(): the task's own exception is re-raised; otherwise RunEngineInterrupted
   iff the engine was interrupted, else the run uids *)
Theorem C02_outcome_of_call :
  forall (P : Type) (presume : P -> input -> outcome P) (plan_of : nat -> P)
         (D : Type) (dev : D -> nat -> devmeth -> D * devres) (s : st P D) a,
    (a = AResume \/ exists pid, a = ACall pid) -> main_err P D s = None ->
    snd (step P presume plan_of D dev s (EvMainDone a)) =
      [OOut (match pc P D s with
             | PcDone (TRaise ECancelled) => if interrupted P D s then OutInterrupted else OutReturn (run_uids P D s)
             | PcDone (TRaise e) => OutRaise e
             | _ => if interrupted P D s then OutInterrupted else OutReturn (run_uids P D s)
             end) (state P D s) (deferred P D s) (resumable P D s)].
Proof. exact outcome_of_call. Qed.
Print Assumptions C02_outcome_of_call.

(* (6) *)
Theorem C02_failed_status_origin :
  forall (P : Type) (presume : P -> input -> outcome P) (plan_of : nat -> P)
         (D : Type) (dev : D -> nat -> devmeth -> D * devres) (s : st P D) e s' o,
    e <> EvTask -> step P presume plan_of D dev s e = (s', o) ->
    exc_slot P D s' = Some EFailedStatus ->
    exc_slot P D s = Some EFailedStatus \/ exists sid, e = EvStatus sid false.
Proof. exact failed_status_only_from_status. Qed.
Print Assumptions C02_failed_status_origin.

(* (7) the interruption mark: set by every stop / halt / abort request on an engine that is not idle
   (and by an accepted pause), it survives every event except a new call and a resume: so after such a
   request the blocking call reports RunEngineInterrupted unless the task itself raises, by (5) *)
Theorem C02_interrupted_sticky :
  forall (P : Type) (presume : P -> input -> outcome P) (plan_of : nat -> P)
         (D : Type) (dev : D -> nat -> devmeth -> D * devres) (s : st P D) e s' o,
    match e with EvMain (ACall _) | EvMain AResume => False | _ => True end ->
    step P presume plan_of D dev s e = (s', o) -> interrupted P D s = true -> interrupted P D s' = true.
Proof. exact interrupted_sticky. Qed.
Print Assumptions C02_interrupted_sticky.

Theorem C02_stop_halt_request_marks :
  forall (P : Type) (presume : P -> input -> outcome P) (plan_of : nat -> P)
         (D : Type) (dev : D -> nat -> devmeth -> D * devres) (s : st P D) e s' o,
    (e = EvReqStop \/ e = EvReqHalt) -> state P D s <> Idle ->
    step P presume plan_of D dev s e = (s', o) -> interrupted P D s' = true.
Proof. exact stop_halt_request_marks. Qed.
Print Assumptions C02_stop_halt_request_marks.

(* the end-to-end reading that is NOT proved as a single theorem: "classify the call by the first of
   {plan returned, stop, abort, halt, failed pause, unhandled exception}; then every engine-made RunStop
   carries the status of that class and the call reports Return / Interrupted / the exception".
   (1)-(7) are its links; what is missing is their composition over a whole schedule, which needs the
   lifecycle invariant of Proofs/RE_Inv.v (e.g. that RequestStop is only ever thrown in state 'stopping',
   entered by a stop request, which by (7) leaves the mark). *)
Definition C02_full : Prop :=
  forall (P : Type) (presume : P -> input -> outcome P) (plan_of : nat -> P)
         (D : Type) (dev : D -> nat -> devmeth -> D * devres) (d : D) (paus stag : list nat) (rec : bool) (evs : list event),
    forall u xs rs num, In (ODoc (DStop u xs rs num)) (snd (run P presume plan_of D dev (init P D d paus stag rec) evs)) ->
    xs = XSuccess \/ interrupted P D (fst (run P presume plan_of D dev (init P D d paus stag rec) evs)) = true \/
    exists e, In (OTask (WRaise e)) (snd (run P presume plan_of D dev (init P D d paus stag rec) evs)).

(* non-vacuity, recorded from the implementation: a plan raising with its run open (fail, exception
   text, re-raised), an abort (abort, given reason, interrupted), a stop (success, interrupted) *)
(* exf: {"plan": ["seq", ["m", "open_run", null, [], {}, null], ["m", "checkpoint", null, [], {}, null], ["m", "create", null, [], {"name": "primary"}, null], ["m", "read", 1, [], {}, null], ["m", "save", null, [], {}, null], ["m", "null", null, [], {}, null], ["raise", "EUser1"]], "devs": [["stage"], [], ["pause"], ["stage"]], "inject": [], "script": [], "tag": "dx1 plain"} *)
Definition exf_tapes := [(0, [TY {| mid := (Some 0); mcmd := COpenRun; mobj := None; mrun := 0 |}; TY {| mid := (Some 1); mcmd := CCheckpoint; mobj := None; mrun := 0 |}; TY {| mid := (Some 2); mcmd := (CCreate 0); mobj := None; mrun := 0 |}; TY {| mid := (Some 3); mcmd := CRead; mobj := (Some 1); mrun := 0 |}; TY {| mid := (Some 4); mcmd := CSave; mobj := None; mrun := 0 |}; TY {| mid := (Some 5); mcmd := CNull; mobj := None; mrun := 0 |}; TE EUser1])].
Definition exf_ledger := [DVal (0)%Z].
Definition exf_paus := [2].
Definition exf_stag := [0; 3].
Definition exf_rec := false.
Definition exf_evs := [EvMain (ACall 0); EvPermit; EvTask; EvTask; EvTask; EvTask; EvTask; EvCacheDone; EvTask; EvTask; EvTask; EvTask; EvMainDone (ACall 0)].
Definition exf_obs : list obs := [(OState Idle Running); (OTask WSleep0); (OPlanIn 0 (Send VNone)); (OMsg {| mid := (Some 0); mcmd := COpenRun; mobj := None; mrun := 0 |}); (ODoc (DStart 0)); (OResp (RVal (VUid 0))); (OTask WSleep0); (OPlanIn 0 (Send (VUid 0))); (OMsg {| mid := (Some 1); mcmd := CCheckpoint; mobj := None; mrun := 0 |}); (OResp (RVal VNone)); (OTask WSleep0); (OPlanIn 0 (Send VNone)); (OMsg {| mid := (Some 2); mcmd := (CCreate 0); mobj := None; mrun := 0 |}); (OResp (RVal VNone)); (OTask WSleep0); (OPlanIn 0 (Send VNone)); (OMsg {| mid := (Some 3); mcmd := CRead; mobj := (Some 1); mrun := 0 |}); (ODev 1 MRead); (OTask WFuture); (OResp (RVal (VReading 1 (0)%Z))); (OTask WSleep0); (OPlanIn 0 (Send (VReading 1 (0)%Z))); (OMsg {| mid := (Some 4); mcmd := CSave; mobj := None; mrun := 0 |}); (ODoc (DDescr 0 0 [1])); (ODoc (DEvent 0 0 1 [(1, (0)%Z)])); (OResp (RVal VNone)); (OTask WSleep0); (OPlanIn 0 (Send VNone)); (OMsg {| mid := (Some 5); mcmd := CNull; mobj := None; mrun := 0 |}); (OResp (RVal VNone)); (OTask WSleep0); (OPlanIn 0 (Send VNone)); (ODoc (DStop 0 XFail RsExnText [(0, 1)])); (OState Running Idle); (OTask (WRaise EUser1)); (OOut (OutRaise EUser1) Idle false true)].
(* exa: {"plan": ["seq", ["m", "open_run", null, [], {}, null], ["m", "checkpoint", null, [], {}, null], ["m", "create", null, [], {"name": "primary"}, null], ["m", "read", 1, [], {}, null], ["m", "save", null, [], {}, null], ["m", "null", null, [], {}, null], ["m", "null", null, [], {}, null]], "devs": [["stage"], [], ["pause"], ["stage"]], "inject": [{"at": 5, "req": "abort"}], "script": [], "tag": "dx0 abort@5"} *)
Definition exa_tapes := [(0, [TY {| mid := (Some 0); mcmd := COpenRun; mobj := None; mrun := 0 |}; TY {| mid := (Some 1); mcmd := CCheckpoint; mobj := None; mrun := 0 |}; TY {| mid := (Some 2); mcmd := (CCreate 0); mobj := None; mrun := 0 |}; TY {| mid := (Some 3); mcmd := CRead; mobj := (Some 1); mrun := 0 |}; TE ERequestAbort])].
Definition exa_ledger := [DVal (0)%Z].
Definition exa_paus := [2].
Definition exa_stag := [0; 3].
Definition exa_rec := false.
Definition exa_evs := [EvMain (ACall 0); EvPermit; EvTask; EvTask; EvTask; EvTask; EvTask; EvCacheDone; EvReqAbort (RsGiven 1); EvTask; EvTask; EvMainDone (ACall 0)].
Definition exa_obs : list obs := [(OState Idle Running); (OTask WSleep0); (OPlanIn 0 (Send VNone)); (OMsg {| mid := (Some 0); mcmd := COpenRun; mobj := None; mrun := 0 |}); (ODoc (DStart 0)); (OResp (RVal (VUid 0))); (OTask WSleep0); (OPlanIn 0 (Send (VUid 0))); (OMsg {| mid := (Some 1); mcmd := CCheckpoint; mobj := None; mrun := 0 |}); (OResp (RVal VNone)); (OTask WSleep0); (OPlanIn 0 (Send VNone)); (OMsg {| mid := (Some 2); mcmd := (CCreate 0); mobj := None; mrun := 0 |}); (OResp (RVal VNone)); (OTask WSleep0); (OPlanIn 0 (Send VNone)); (OMsg {| mid := (Some 3); mcmd := CRead; mobj := (Some 1); mrun := 0 |}); (ODev 1 MRead); (OTask WFuture); (OState Running Aborting); (OReq true); (OPlanIn 0 (Throw ERequestAbort)); (OTask WSleep0); (ODoc (DStop 0 XAbort (RsGiven 1) [])); (OState Aborting Idle); (OTask WReturn); (OOut OutInterrupted Idle false true)].
(* exs: {"plan": ["seq", ["m", "open_run", null, [], {}, null], ["m", "checkpoint", null, [], {}, null], ["m", "create", null, [], {"name": "primary"}, null], ["m", "read", 1, [], {}, null], ["m", "save", null, [], {}, null], ["m", "null", null, [], {}, null], ["m", "null", null, [], {}, null]], "devs": [["stage"], [], ["pause"], ["stage"]], "inject": [{"at": 5, "req": "stop"}], "script": [], "tag": "dx0 stop@5"} *)
Definition exs_tapes := [(0, [TY {| mid := (Some 0); mcmd := COpenRun; mobj := None; mrun := 0 |}; TY {| mid := (Some 1); mcmd := CCheckpoint; mobj := None; mrun := 0 |}; TY {| mid := (Some 2); mcmd := (CCreate 0); mobj := None; mrun := 0 |}; TY {| mid := (Some 3); mcmd := CRead; mobj := (Some 1); mrun := 0 |}; TE ERequestStop])].
Definition exs_ledger := [DVal (0)%Z].
Definition exs_paus := [2].
Definition exs_stag := [0; 3].
Definition exs_rec := false.
Definition exs_evs := [EvMain (ACall 0); EvPermit; EvTask; EvTask; EvTask; EvTask; EvTask; EvCacheDone; EvReqStop; EvTask; EvTask; EvMainDone (ACall 0)].
Definition exs_obs : list obs := [(OState Idle Running); (OTask WSleep0); (OPlanIn 0 (Send VNone)); (OMsg {| mid := (Some 0); mcmd := COpenRun; mobj := None; mrun := 0 |}); (ODoc (DStart 0)); (OResp (RVal (VUid 0))); (OTask WSleep0); (OPlanIn 0 (Send (VUid 0))); (OMsg {| mid := (Some 1); mcmd := CCheckpoint; mobj := None; mrun := 0 |}); (OResp (RVal VNone)); (OTask WSleep0); (OPlanIn 0 (Send VNone)); (OMsg {| mid := (Some 2); mcmd := (CCreate 0); mobj := None; mrun := 0 |}); (OResp (RVal VNone)); (OTask WSleep0); (OPlanIn 0 (Send VNone)); (OMsg {| mid := (Some 3); mcmd := CRead; mobj := (Some 1); mrun := 0 |}); (ODev 1 MRead); (OTask WFuture); (OState Running Stopping); (OReq true); (OPlanIn 0 (Throw ERequestStop)); (OTask WSleep0); (ODoc (DStop 0 XSuccess RsEmpty [])); (OState Stopping Idle); (OTask WReturn); (OOut OutInterrupted Idle false true)].
Example C02_nonvacuous :
  let of_ t l p s r e := model_obs t l p s r e in
  check exf_tapes exf_ledger exf_paus exf_stag exf_rec exf_evs exf_obs = true /\
  In (ODoc (DStop 0 XFail RsExnText [(0, 1)])) (of_ exf_tapes exf_ledger exf_paus exf_stag exf_rec exf_evs) /\
  In (OOut (OutRaise EUser1) Idle false true) (of_ exf_tapes exf_ledger exf_paus exf_stag exf_rec exf_evs) /\
  check exa_tapes exa_ledger exa_paus exa_stag exa_rec exa_evs exa_obs = true /\
  In (ODoc (DStop 0 XAbort (RsGiven 1) [])) (of_ exa_tapes exa_ledger exa_paus exa_stag exa_rec exa_evs) /\
  In (OOut OutInterrupted Idle false true) (of_ exa_tapes exa_ledger exa_paus exa_stag exa_rec exa_evs) /\
  check exs_tapes exs_ledger exs_paus exs_stag exs_rec exs_evs exs_obs = true /\
  In (ODoc (DStop 0 XSuccess RsEmpty [])) (of_ exs_tapes exs_ledger exs_paus exs_stag exs_rec exs_evs) /\
  In (OOut OutInterrupted Idle false true) (of_ exs_tapes exs_ledger exs_paus exs_stag exs_rec exs_evs).
Proof. vm_compute. repeat split; auto 40. Qed.
