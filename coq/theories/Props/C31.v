(* C31 - installed suspenders gate plan start and removal releases waiters.
   Model: Engine/SuspGate.v (RunEngine.install_suspender / remove_suspender, the gate of RunEngine.__call__
   src/bluesky/run_engine.py 930-967, SuspenderBase.install / remove / __call__ / get_futures / __set_event
   src/bluesky/suspenders.py through the model of Pure/SuspCond.v, the release delay as a timer, what the
   engine shows while it waits).  Histories: install / RE.remove_suspender / suspender.remove() / signal values /
   calls / timer firings, in any order, any number of suspenders of any of the eight classes, any sleeps; values of
   an arbitrary type with Python's <, ==, bool().  States are arbitrary unless a theorem says [settled]
   (the engine has reacted to every set event), which every reachable state is (C31_reachable_settled). *)
From BV Require Import Base.Prelude Pure.SuspCond Engine.SuspGate Proofs.SuspGate.
From Coq Require Import QArith.
Close Scope Q_scope.

(* A suspender that is installed and tripped when the call starts holds the plan back: whatever happens
   afterwards (any operations but a further call), if any message of the plan has been processed then its
   pending event has been set. *)
Theorem C31_tripped_suspender_gates_the_plan :
  forall T ltb eqb truthy (x : state T) k (h : list (op T)) x1 r1 x2 rs s u e,
    ph x = PIdle ->
    nth_error (sus x) s = Some u -> u_in u = true -> st_tripped (u_st u) = true -> st_ev (u_st u) = Some e ->
    step T ltb eqb truthy x (Call k) = (x1, r1) -> no_call T h = true -> run_from T ltb eqb truthy x1 h = (x2, rs) ->
    (exists r, In r (r1 :: rs) /\ has_null (o_msgs r) = true) -> In e (evset x2).
Proof. exact tripped_suspender_gates_the_plan. Qed.
Print Assumptions C31_tripped_suspender_gates_the_plan.

(* per operation: plan messages show up only in an operation after which every event of the gate is set
   (at the call itself: only with an empty gate, or one whose events are all set already) *)
Theorem C31_plan_starts_only_behind_open_gate :
  forall T ltb eqb truthy (x : state T) (a : op T) x' r,
    step T ltb eqb truthy x a = (x', r) -> has_null (o_msgs r) = true ->
    match a with
    | Call _ => ph x = PIdle /\ (gate_of_call T x = [] \/ all_set (gate_of_call T x) (evset x') = true)
    | _ => exists g, gate_list (ph x) = Some g /\ all_set g (evset x') = true
    end.
Proof. exact plan_starts_only_behind_open_gate. Qed.
Print Assumptions C31_plan_starts_only_behind_open_gate.

(* ... and an event is set only through a release: by the operation itself (removal of the attached suspender
   holding it, or a value meeting its resume condition and not its suspend condition; sleep 0) or by a timer that
   such an operation started earlier *)
Theorem C31_gate_event_set_only_by_release :
  forall T ltb eqb truthy (x : state T) (a : op T),
    (forall e, In e (evset (fst (step T ltb eqb truthy x a))) ->
               In e (evset x) \/ In e (map fst (timers x)) \/ releasing T ltb eqb truthy x a e) /\
    (forall e d, In (e, d) (timers (fst (step T ltb eqb truthy x a))) ->
                 In (e, d) (timers x) \/ releasing T ltb eqb truthy x a e).
Proof. exact event_set_only_by_release. Qed.
Print Assumptions C31_gate_event_set_only_by_release.

(* removing a suspender (suspender.remove(), or RE.remove_suspender of an installed one) that holds an event:
   the release is scheduled with its sleep (the event is set at once when the sleep is 0, else a timer is pending),
   it is detached, not tripped and holds nothing; RE.remove_suspender also drops it from RE.suspenders *)
Theorem C31_remove_releases_and_detaches :
  forall T ltb eqb truthy (x : state T) s u e (a : op T),
    ph x <> PBroken -> nth_error (sus x) s = Some u ->
    st_installed (u_st u) = true -> st_ev (u_st u) = Some e ->
    (a = RemoveDirect s \/ (a = Remove s /\ u_in u = true)) ->
    exists u',
      nth_error (sus (fst (step T ltb eqb truthy x a))) s = Some u' /\
      st_installed (u_st u') = false /\ st_tripped (u_st u') = false /\ st_ev (u_st u') = None /\
      (a = Remove s -> u_in u' = false) /\
      o_sched (snd (step T ltb eqb truthy x a)) = [(e, u_sleep u)] /\
      (u_sleep u = 0 -> In e (evset (fst (step T ltb eqb truthy x a))) /\ o_set (snd (step T ltb eqb truthy x a)) = [e]) /\
      (u_sleep u <> 0 -> In (e, vt x + u_sleep u) (timers (fst (step T ltb eqb truthy x a))) /\
                         o_set (snd (step T ltb eqb truthy x a)) = []).
Proof. exact remove_releases_and_detaches. Qed.
Print Assumptions C31_remove_releases_and_detaches.

(* a removed suspender no longer reacts to signal changes: nothing scheduled, nothing shown, no suspender field,
   no event, no timer and not the engine changes *)
Theorem C31_removed_ignores_signals :
  forall T ltb eqb truthy (x : state T) s u v,
    ph x <> PBroken -> settled T x -> nth_error (sus x) s = Some u -> st_installed (u_st u) = false ->
    let x' := fst (step T ltb eqb truthy x (Signal s v)) in
    let r := snd (step T ltb eqb truthy x (Signal s v)) in
    view T x' = view T x /\ evset x' = evset x /\ timers x' = timers x /\ ph x' = ph x /\ nextev x' = nextev x /\
    vt x' = vt x /\ plan x' = plan x /\
    o_msgs r = [] /\ o_returned r = false /\ o_sched r = [] /\ o_set r = [] /\
    (forall s', s' <> s -> nth_error (sus x') s' = nth_error (sus x) s').
Proof. exact removed_ignores_signals. Qed.
Print Assumptions C31_removed_ignores_signals.

(* removing it again is harmless (after a removal the suspender is detached and not tripped: removed_is_detached) *)
Theorem C31_remove_idempotent :
  forall T ltb eqb truthy (x : state T) s u,
    ph x <> PBroken -> settled T x -> nth_error (sus x) s = Some u -> st_installed (u_st u) = false ->
    st_tripped (u_st u) = false ->
    let x' := fst (step T ltb eqb truthy x (RemoveDirect s)) in
    let r := snd (step T ltb eqb truthy x (RemoveDirect s)) in
    view T x' = view T x /\ evset x' = evset x /\ timers x' = timers x /\ ph x' = ph x /\
    o_msgs r = [] /\ o_returned r = false /\ o_sched r = [] /\ o_set r = [].
Proof. exact remove_idempotent. Qed.
Print Assumptions C31_remove_idempotent.

Theorem C31_engine_remove_of_unknown_is_noop :
  forall T ltb eqb truthy (x : state T) s u,
    nth_error (sus x) s = Some u -> u_in u = false -> step T ltb eqb truthy x (Remove s) = quiet T x.
Proof. exact engine_remove_of_unknown_is_noop. Qed.
Print Assumptions C31_engine_remove_of_unknown_is_noop.

(* every state a history reaches is settled, and a removal leaves the suspender detached and not tripped: the
   hypotheses of the three theorems above are met along every history *)
Theorem C31_reachable_settled :
  forall T ltb eqb truthy cfgs (h : list (op T)),
    settled T (fst (run_from T ltb eqb truthy (init T cfgs) h)).
Proof. intros. apply run_settled. apply init_settled. Qed.
Print Assumptions C31_reachable_settled.

Theorem C31_removed_is_detached :
  forall T ltb eqb truthy (x : state T) s u (a : op T),
    ph x <> PBroken -> nth_error (sus x) s = Some u -> (a = RemoveDirect s \/ (a = Remove s /\ u_in u = true)) ->
    exists u', nth_error (sus (fst (step T ltb eqb truthy x a))) s = Some u' /\
               st_installed (u_st u') = false /\ st_tripped (u_st u') = false.
Proof. exact removed_is_detached. Qed.
Print Assumptions C31_removed_is_detached.

(* non-vacuity: a BoolHigh suspender (sleep 0) and a Floor suspender with hysteresis (sleep 2 ticks) are installed
   and tripped; the call waits at the gate for both; a third trip/release of the first while waiting is a
   suspension inside the gate; the second is removed (its release needs the timer); only then the plan runs *)
Definition cfgs_nv : list (susp Q * nat * Q) := [(@SBoolHigh Q, 0, 0%Q); (@SFloor Q 3%Q 4%Q, 2, 5%Q)].
Definition h_nv : list (op Q) :=
  [Install 0; Install 1; Signal 0 1%Q; Signal 1 1%Q; Call 2; Signal 0 0%Q; Signal 0 1%Q; Signal 0 0%Q;
   Remove 1; Signal 1 0%Q; RemoveDirect 1; ReleaseTimer].

Example C31_nonvacuous :
  in_model_from Q Qltb Qeq_bool Qtruthy (Qinit cfgs_nv) h_nv = true /\
  map (fun r => (o_msgs r, o_returned r)) (snd (Qrun (Qinit cfgs_nv) h_nv))
  = [([], false); ([], false); ([], false); ([], false);
     ([MWaitFor 2], false); ([], false);
     ([MStartSusp; MRewindable; MWaitFor 1], false); ([MResumeSusp; MRewindable; MWaitFor 2], false);
     ([], false); ([], false); ([], false);
     ([MNull 1; MNull 2], true)] /\
  gate_ok_from (Qinit cfgs_nv) [] h_nv = true.
Proof. vm_compute. repeat split. Qed.
