(* Proofs for C34 (model: Pure/JsonW.v). *)
From BV Require Import Base.Prelude Pure.JsonW.
From Coq Require Import NArith.
Local Open Scope N_scope.

Lemma str_beq_eq : forall a b, str_beq a b = true <-> a = b.
Proof. apply list_beq_eq. intros x y. apply N.eqb_eq. Qed.

Lemma str_beq_refl : forall a, str_beq a a = true.
Proof. intros a. now apply str_beq_eq. Qed.

Lemma str_beq_neq : forall a b, a <> b -> str_beq a b = false.
Proof. intros a b H. destruct (str_beq a b) eqn:E; [|reflexivity]. apply str_beq_eq in E. contradiction. Qed.

(* ---- file system --------------------------------------------------------------- *)
Lemma fs_get_write_same : forall f n c, fs_get (fs_write f n c) n = Some c.
Proof.
  induction f as [|[m c0] f IH]; intros n c; cbn.
  - now rewrite str_beq_refl.
  - destruct (str_beq m n) eqn:E; cbn; rewrite E; [reflexivity | apply IH].
Qed.

Lemma fs_get_write_other : forall f n c o, o <> n -> fs_get (fs_write f n c) o = fs_get f o.
Proof.
  induction f as [|[m c0] f IH]; intros n c o H; cbn.
  - rewrite str_beq_neq; [reflexivity | congruence].
  - destruct (str_beq m n) eqn:E; cbn.
    + apply str_beq_eq in E. subst m. rewrite str_beq_neq by congruence. reflexivity.
    + destruct (str_beq m o); [reflexivity | now apply IH].
Qed.

Lemma fs_get_append_same : forall f n c,
  fs_get (fs_append f n c) n = Some (match fs_get f n with Some c0 => c0 ++ c | None => c end).
Proof.
  induction f as [|[m c0] f IH]; intros n c; cbn.
  - now rewrite str_beq_refl.
  - destruct (str_beq m n) eqn:E; cbn; rewrite E; [reflexivity | apply IH].
Qed.

Lemma fs_get_append_other : forall f n c o, o <> n -> fs_get (fs_append f n c) o = fs_get f o.
Proof.
  induction f as [|[m c0] f IH]; intros n c o H; cbn.
  - rewrite str_beq_neq; [reflexivity | congruence].
  - destruct (str_beq m n) eqn:E; cbn.
    + apply str_beq_eq in E. subst m. rewrite str_beq_neq by congruence. reflexivity.
    + destruct (str_beq m o); [reflexivity | now apply IH].
Qed.

(* ---- text layout --------------------------------------------------------------- *)
Definition nlfree (s : str) : Prop := ~ In NL s.

Lemma join_cons2 : forall sep a b r, join sep (a :: b :: r) = a ++ sep ++ join sep (b :: r).
Proof. reflexivity. Qed.

Lemma join_mid : forall sep mids e0 es,
  join sep (e0 :: mids ++ [es]) = e0 ++ sep ++ concat (map (fun e => e ++ sep) mids) ++ es.
Proof.
  intros sep mids. induction mids as [|m mids IH]; intros e0 es.
  - cbn. reflexivity.
  - change (e0 :: (m :: mids) ++ [es]) with (e0 :: m :: (mids ++ [es])).
    rewrite join_cons2. rewrite IH. cbn [map concat]. now rewrite <- !app_assoc.
Qed.

Lemma split_on_nl_nonempty : forall s, split_on_nl s <> [].
Proof.
  destruct s as [|c t]; cbn; [discriminate|].
  destruct (N.eqb c NL); [discriminate|]. destruct (split_on_nl t); discriminate.
Qed.

Lemma split_on_nl_nlfree : forall a, nlfree a -> split_on_nl a = [a].
Proof.
  induction a as [|c a IH]; intros H; cbn; [reflexivity|].
  destruct (N.eqb c NL) eqn:E.
  - apply N.eqb_eq in E. exfalso. apply H. now left.
  - rewrite IH; [reflexivity|]. intros X. apply H. now right.
Qed.

Lemma split_on_nl_app : forall a b, nlfree a -> split_on_nl (a ++ NL :: b) = a :: split_on_nl b.
Proof.
  induction a as [|c a IH]; intros b H; cbn.
  - reflexivity.
  - destruct (N.eqb c NL) eqn:E.
    + apply N.eqb_eq in E. exfalso. apply H. now left.
    + rewrite IH; [reflexivity|]. intros X. apply H. now right.
Qed.

Lemma split_on_nl_segments_nlfree : forall s, Forall nlfree (split_on_nl s).
Proof.
  induction s as [|c t IH]; cbn.
  - constructor; [intros [] | constructor].
  - destruct (N.eqb c NL) eqn:E.
    + constructor; [intros [] | exact IH].
    + destruct (split_on_nl t) as [|h r]; [constructor; [|constructor]|].
      * intros [X|[]]. subst. now rewrite N.eqb_refl in E.
      * inversion IH; subst. constructor; [|assumption].
        intros [X|X]; [subst; now rewrite N.eqb_refl in E | contradiction].
Qed.

Lemma split_on_nl_join : forall s, join [NL] (split_on_nl s) = s.
Proof.
  induction s as [|c t IH]; cbn; [reflexivity|].
  destruct (N.eqb c NL) eqn:E.
  - apply N.eqb_eq in E. subst c. pose proof (split_on_nl_nonempty t) as NE.
    destruct (split_on_nl t) as [|h r]; [contradiction|]. rewrite join_cons2. cbn. now rewrite <- IH.
  - pose proof (split_on_nl_nonempty t) as NE.
    destruct (split_on_nl t) as [|h r]; [contradiction|].
    destruct r as [|h2 r].
    + cbn in *. now rewrite IH.
    + rewrite join_cons2. rewrite join_cons2 in IH. cbn. now rewrite <- IH.
Qed.

(* segments of a rendered array body *)
Fixpoint body_segs (es : list str) : list str :=
  match es with
  | [] => []
  | [e] => [e; [RB]]
  | e :: r => (e ++ [COMMA]) :: body_segs r
  end.

Lemma body_segs_cons2 : forall a b r, body_segs (a :: b :: r) = (a ++ [COMMA]) :: body_segs (b :: r).
Proof. reflexivity. Qed.

Lemma body_segs_shape : forall e r, exists y z l, body_segs (e :: r) = y :: z :: l.
Proof.
  intros e r. revert e. induction r as [|b r IH]; intros e.
  - exists e, [RB], []. reflexivity.
  - rewrite body_segs_cons2. destruct (IH b) as [y [z [l E]]]. rewrite E. eauto.
Qed.

Lemma nlfree_app : forall a b, nlfree a -> nlfree b -> nlfree (a ++ b).
Proof. intros a b Ha Hb X. apply in_app_or in X as [X|X]; [now apply Ha | now apply Hb]. Qed.

Lemma nlfree_comma : nlfree [COMMA].
Proof. intros [X|[]]. discriminate. Qed.

Lemma nlfree_rb : nlfree [RB].
Proof. intros [X|[]]. discriminate. Qed.

Lemma split_body : forall es, es <> [] -> Forall nlfree es ->
  split_on_nl (join [COMMA; NL] es ++ [NL; RB]) = body_segs es.
Proof.
  induction es as [|e r IH]; intros NE H; [contradiction|].
  inversion H as [|? ? He Hr]; subst. destruct r as [|b r].
  - cbn [join body_segs]. change (e ++ [NL; RB]) with (e ++ NL :: [RB]).
    rewrite split_on_nl_app by exact He. rewrite split_on_nl_nlfree by exact nlfree_rb. reflexivity.
  - rewrite join_cons2, body_segs_cons2.
    replace ((e ++ [COMMA; NL] ++ join [COMMA; NL] (b :: r)) ++ [NL; RB])
      with ((e ++ [COMMA]) ++ NL :: (join [COMMA; NL] (b :: r) ++ [NL; RB]))
      by (cbn; rewrite <- !app_assoc; reflexivity).
    rewrite split_on_nl_app by (apply nlfree_app; [exact He | exact nlfree_comma]).
    rewrite IH; [reflexivity | discriminate | exact Hr].
Qed.

Lemma strip_comma_snoc : forall e, strip_comma (e ++ [COMMA]) = Some e.
Proof. intros e. unfold strip_comma. rewrite rev_app_distr. cbn. now rewrite rev_involutive. Qed.

Lemma elems_body_segs : forall es, es <> [] -> elems (body_segs es) = Some es.
Proof.
  induction es as [|e r IH]; intros NE; [contradiction|]. destruct r as [|b r].
  - reflexivity.
  - rewrite body_segs_cons2. destruct (body_segs_shape b r) as [y [z [l E]]].
    assert (IH' : elems (body_segs (b :: r)) = Some (b :: r)) by (apply IH; discriminate).
    rewrite E in *. cbn [elems]. rewrite strip_comma_snoc.
    change (match elems (y :: z :: l) with Some es0 => Some (e :: es0) | None => None end = Some (e :: b :: r)).
    now rewrite IH'.
Qed.

Theorem split_array_render : forall es, es <> [] -> Forall nlfree es ->
  split_array (render_array es) = Some es.
Proof.
  intros es NE H. unfold render_array, split_array. cbn [app]. rewrite !N.eqb_refl. cbn [andb].
  rewrite split_body by assumption. now apply elems_body_segs.
Qed.

(* soundness of the splitter: it accepts nothing but rendered arrays *)
Lemma strip_comma_sound : forall seg e, strip_comma seg = Some e -> seg = e ++ [COMMA].
Proof.
  intros seg e H. unfold strip_comma in H. destruct (rev seg) as [|c r] eqn:E; [discriminate|].
  destruct (N.eqb c COMMA) eqn:Ec; [|discriminate]. apply N.eqb_eq in Ec. inversion H; subst.
  rewrite <- (rev_involutive seg). rewrite E. reflexivity.
Qed.

Lemma elems_sound : forall segs es, elems segs = Some es -> es <> [] /\ segs = body_segs es.
Proof.
  induction segs as [|s1 rest IH]; intros es H; [discriminate|].
  destruct rest as [|s2 rest]; [discriminate|].
  destruct rest as [|s3 rest].
  - cbn in H. destruct (str_beq s2 [RB]) eqn:E; [|discriminate]. apply str_beq_eq in E. subst.
    inversion H; subst. split; [discriminate | reflexivity].
  - change (match strip_comma s1, elems (s2 :: s3 :: rest) with
            | Some e, Some es0 => Some (e :: es0) | _, _ => None end = Some es) in H.
    destruct (strip_comma s1) as [e|] eqn:E1; [|discriminate].
    destruct (elems (s2 :: s3 :: rest)) as [es0|] eqn:E2; [|discriminate].
    inversion H; subst. destruct (IH _ eq_refl) as [NE E]. split; [discriminate|].
    apply strip_comma_sound in E1. subst s1. destruct es0 as [|b r]; [contradiction|].
    rewrite body_segs_cons2. now rewrite E.
Qed.

Lemma join_body_segs : forall es, es <> [] -> join [NL] (body_segs es) = join [COMMA; NL] es ++ [NL; RB].
Proof.
  induction es as [|e r IH]; intros NE; [contradiction|]. destruct r as [|b r].
  - reflexivity.
  - rewrite body_segs_cons2. destruct (body_segs_shape b r) as [y [z [l E]]].
    assert (IH' := IH ltac:(discriminate)). rewrite E in *. rewrite join_cons2. rewrite IH'.
    rewrite join_cons2. rewrite <- !app_assoc. reflexivity.
Qed.

Theorem split_array_sound : forall s es, split_array s = Some es ->
  es <> [] /\ Forall nlfree es /\ s = render_array es.
Proof.
  intros s es H. unfold split_array in H. destruct s as [|a [|b body]]; try discriminate.
  destruct (N.eqb a LB) eqn:Ea; [|discriminate]. destruct (N.eqb b NL) eqn:Eb; [|discriminate].
  cbn [andb] in H. apply N.eqb_eq in Ea, Eb. subst. destruct (elems_sound _ _ H) as [NE E].
  split; [exact NE|]. split.
  - pose proof (split_on_nl_segments_nlfree body) as F. rewrite E in F. clear -F NE.
    induction es as [|e r IH]; [constructor|]. destruct r as [|b r].
    + inversion F; subst. constructor; [assumption | constructor].
    + rewrite body_segs_cons2 in F. inversion F as [|? ? Fe Fr]; subst. constructor.
      * intros X. apply Fe. apply in_or_app. now left.
      * apply IH; [discriminate | exact Fr].
  - unfold render_array. cbn [app]. f_equal. f_equal.
    rewrite <- (split_on_nl_join body). rewrite E. now apply join_body_segs.
Qed.

(* ---- lines ---------------------------------------------------------------------- *)
Lemma split_lines : forall es, Forall nlfree es -> split_on_nl (render_lines es) = es ++ [[]].
Proof.
  induction es as [|e r IH]; intros H; [reflexivity|]. inversion H; subst.
  unfold render_lines. cbn [map concat]. rewrite <- app_assoc. cbn [app].
  rewrite split_on_nl_app by assumption. fold (render_lines r). now rewrite IH.
Qed.

Lemma last_snoc : forall (A : Type) (l : list A) x d, last (l ++ [x]) d = x.
Proof. intros. apply last_last. Qed.

Theorem lines_of_render : forall es, Forall nlfree es -> lines_of (render_lines es) = Some es.
Proof.
  intros es H. unfold lines_of. rewrite split_lines by exact H. rewrite last_snoc. now rewrite removelast_last.
Qed.

Lemma join_nl_snoc_empty : forall ls, join [NL] (ls ++ [[]]) = render_lines ls.
Proof.
  induction ls as [|a r IH]; [reflexivity|]. cbn [app]. destruct (r ++ [[]]) as [|x y] eqn:E; [now destruct r|].
  rewrite join_cons2. unfold render_lines. cbn [map concat]. rewrite <- app_assoc. f_equal. f_equal. exact IH.
Qed.

Theorem lines_of_sound : forall s ls, lines_of s = Some ls -> Forall nlfree ls /\ s = render_lines ls.
Proof.
  intros s ls H. unfold lines_of in H. pose proof (split_on_nl_nonempty s) as NE.
  pose proof (split_on_nl_segments_nlfree s) as F. pose proof (split_on_nl_join s) as J.
  destruct (exists_last NE) as [l0 [x E]]. rewrite E in *. rewrite last_snoc in H.
  destruct x; [|discriminate]. rewrite removelast_last in H. inversion H; subst.
  split.
  - apply Forall_app in F. tauto.
  - apply join_nl_snoc_empty.
Qed.

Lemma render_lines_app : forall a b, render_lines (a ++ b) = render_lines a ++ render_lines b.
Proof. intros. unfold render_lines. now rewrite map_app, concat_app. Qed.

Theorem lines_of_append : forall c ls es, lines_of c = Some ls -> Forall nlfree es ->
  lines_of (c ++ render_lines es) = Some (ls ++ es).
Proof.
  intros c ls es H He. destruct (lines_of_sound _ _ H) as [Hl E]. subst c.
  rewrite <- render_lines_app. apply lines_of_render. apply Forall_app. tauto.
Qed.

(* ---- decoding ------------------------------------------------------------------- *)
Lemma all_some_map : forall (R : Type) (enc : R -> str) (dec : str -> option R),
  (forall r, dec (enc r) = Some r) -> forall rs, all_some (map dec (map enc rs)) = Some rs.
Proof. intros R enc dec H. induction rs as [|r rs IH]; cbn; [reflexivity|]. now rewrite H, IH. Qed.

(* ---- the writers ---------------------------------------------------------------- *)
Section Enc.
  Variable R : Type.
  Variable enc : R -> str.
  Notation call := (call R).
  Notation jw_call := (jw_call R enc).
  Notation jw_run := (jw_run R enc).
  Notation jl_call := (jl_call R enc).
  Notation jl_run := (jl_run R enc).

  Definition recs (cs : list call) : list str := map enc (map c_rec cs).

  (* the file JSONWriter will use for a run that begins with start document c0 *)
  Definition jw_target (w : option str) (c0 : call) : option str :=
    match truthy w with
    | Some n => Some n
    | None => match c_uid c0 with Some u => Some (uid_head u ++ dot_json) | None => None end
    end.

  Definition nonempty (s : str) : Prop := s <> [].

  Lemma jw_path_some : forall n, nonempty n -> jw_path (Some n) = inl n.
  Proof. intros [|c t] H; [now contradiction H | reflexivity]. Qed.

  Lemma jw_target_nonempty : forall w c0 n, jw_target w c0 = Some n -> nonempty n.
  Proof.
    intros w c0 n H. unfold jw_target in H. destruct w as [[|c t]|]; cbn in H.
    - destruct (c_uid c0); inversion H. unfold nonempty. intros X. apply app_eq_nil in X as [_ X]. discriminate.
    - inversion H. discriminate.
    - destruct (c_uid c0); inversion H. intros X. apply app_eq_nil in X as [_ X]. discriminate.
  Qed.

  (* the middle of a run: every non-start, non-stop document appends  enc r ,\n *)
  Lemma jw_run_mid : forall mid n f c0,
    nonempty n -> Forall (fun c => c_kind c = KOther) mid -> fs_get f n = Some c0 ->
    exists f', jw_run (Some n) f mid = (Some n, f', map (fun _ => None) mid)
      /\ fs_get f' n = Some (c0 ++ concat (map (fun e => e ++ [COMMA; NL]) (recs mid)))
      /\ forall o, o <> n -> fs_get f' o = fs_get f o.
  Proof.
    induction mid as [|c mid IH]; intros n f c0 Hn Hk Hg.
    - exists f. cbn. rewrite app_nil_r. auto.
    - inversion Hk as [|? ? Hc Hmid]; subst. cbn [JsonW.jw_run]. unfold JsonW.jw_call. rewrite Hc.
      rewrite jw_path_some by exact Hn.
      destruct (IH n (fs_append f n (enc (c_rec c) ++ [COMMA; NL])) (c0 ++ enc (c_rec c) ++ [COMMA; NL]) Hn Hmid)
        as [f' [E1 [E2 E3]]].
      { rewrite fs_get_append_same, Hg. reflexivity. }
      exists f'. rewrite E1. split; [reflexivity|]. split.
      + rewrite E2. unfold recs. cbn [map concat]. now rewrite <- !app_assoc.
      + intros o Ho. rewrite E3 by exact Ho. now apply fs_get_append_other.
  Qed.

  Lemma jw_run_app : forall a b w f,
    jw_run w f (a ++ b) =
      let '(w1, f1, e1) := jw_run w f a in
      let '(w2, f2, e2) := jw_run w1 f1 b in (w2, f2, e1 ++ e2).
  Proof.
    induction a as [|c a IH]; intros b w f; cbn [app JsonW.jw_run].
    - destruct (jw_run w f b) as [[w2 f2] e2]. reflexivity.
    - destruct (jw_call w f c) as [[w1 f1] e1]. rewrite IH.
      destruct (jw_run w1 f1 a) as [[w1' f1'] e1']. destruct (jw_run w1' f1' b) as [[w2 f2] e2]. reflexivity.
  Qed.

  (* JSONWriter: after start, any documents, stop -- whatever the directory held before and
     whatever file name the writer was given or derives from the uid -- the run's file is exactly
     the rendered array of the records in order, no call raised, no other file changed *)
  Theorem jw_run_file : forall w f c0 mid cs n,
    c_kind c0 = KStart -> Forall (fun c => c_kind c = KOther) mid -> c_kind cs = KStop ->
    jw_target w c0 = Some n ->
    exists f', jw_run w f (c0 :: mid ++ [cs]) = (Some n, f', map (fun _ => None) (c0 :: mid ++ [cs]))
      /\ fs_get f' n = Some (render_array (recs (c0 :: mid ++ [cs])))
      /\ forall o, o <> n -> fs_get f' o = fs_get f o.
  Proof.
    intros w f c0 mid cs n H0 Hmid Hs Ht. pose proof (jw_target_nonempty _ _ _ Ht) as Hn.
    set (head := [LB; NL] ++ enc (c_rec c0) ++ [COMMA; NL]).
    assert (Start : jw_call w f c0 = (Some n, fs_write f n head, None)).
    { unfold JsonW.jw_call, jw_target in *. rewrite H0. destruct (truthy w) as [m|] eqn:Et.
      - inversion Ht; subst. destruct w as [[|c t]|]; cbn in Et; inversion Et; subst. reflexivity.
      - destruct (c_uid c0); inversion Ht; subst. reflexivity. }
    destruct (jw_run_mid mid n (fs_write f n head) head Hn Hmid (fs_get_write_same _ _ _)) as [f1 [E1 [E2 E3]]].
    exists (fs_append f1 n (enc (c_rec cs) ++ [NL; RB])).
    split; [|split].
    - cbn [JsonW.jw_run]. rewrite Start. rewrite jw_run_app. rewrite E1. cbn [JsonW.jw_run].
      unfold JsonW.jw_call at 1. rewrite Hs. rewrite jw_path_some by exact Hn.
      f_equal. cbn [map]. f_equal. now rewrite map_app.
    - rewrite fs_get_append_same, E2. f_equal. unfold render_array, recs, head.
      cbn [map]. rewrite !map_app. cbn [map]. rewrite join_mid. cbn [app]. repeat (rewrite <- app_assoc; cbn [app]). reflexivity.
    - intros o Ho. rewrite fs_get_append_other by exact Ho. rewrite E3 by exact Ho.
      now apply fs_get_write_other.
  Qed.

  (* ---- JSONLinesWriter ---- *)
  Definition jl_target (today : str) (w : option str) (c1 : call) : option str :=
    match truthy w with
    | Some n => Some n
    | None => match c_kind c1 with
              | KStart => match c_uid c1 with Some u => Some (uid_head u ++ dot_jsonl) | None => None end
              | _ => Some (today ++ dot_jsonl)
              end
    end.

  Definition old (f : fs) (n : str) : str := match fs_get f n with Some c => c | None => [] end.

  Lemma truthy_some : forall n, nonempty n -> truthy (Some n) = Some n.
  Proof. intros [|c t] H; [now contradiction H | reflexivity]. Qed.

  Lemma jl_call_first : forall today w f c n, jl_target today w c = Some n ->
    exists f', jl_call today w f c = (Some n, f', None)
      /\ fs_get f' n = Some (old f n ++ enc (c_rec c) ++ [NL])
      /\ forall o, o <> n -> fs_get f' o = fs_get f o.
  Proof.
    intros today w f c n Ht. unfold JsonW.jl_call, jl_target in *.
    assert (Hnamed :
      match truthy w with
      | Some name => inl name
      | None => match c_kind c with
                | KStart => match c_uid c with None => inr EKeyError | Some u => inl (uid_head u ++ dot_jsonl) end
                | _ => inl (today ++ dot_jsonl)
                end
      end = (inl n : str + err)).
    { destruct (truthy w); [now inversion Ht|]. destruct (c_kind c); try (now inversion Ht).
      destruct (c_uid c); now inversion Ht. }
    rewrite Hnamed. unfold old. destruct (fs_get f n) as [c0|] eqn:Eg.
    - eexists. split; [reflexivity|]. split.
      + now rewrite fs_get_append_same, Eg.
      + intros o Ho. now apply fs_get_append_other.
    - eexists. split; [reflexivity|]. split.
      + now rewrite fs_get_write_same.
      + intros o Ho. now apply fs_get_write_other.
  Qed.

  Lemma jl_target_nonempty : forall today w c n, jl_target today w c = Some n -> nonempty n.
  Proof.
    intros today w c n H. unfold jl_target in H.
    assert (X : forall a, nonempty (a ++ dot_jsonl)).
    { intros a E. apply app_eq_nil in E as [_ E]. discriminate. }
    destruct w as [[|ch t]|]; cbn in H.
    - destruct (c_kind c); try (inversion H; apply X). destruct (c_uid c); inversion H. apply X.
    - inversion H. discriminate.
    - destruct (c_kind c); try (inversion H; apply X). destruct (c_uid c); inversion H. apply X.
  Qed.

  Lemma jl_target_named : forall today n c, nonempty n -> jl_target today (Some n) c = Some n.
  Proof. intros today n c H. unfold jl_target. now rewrite truthy_some. Qed.

  Lemma jl_run_named : forall cs today n f c0, nonempty n -> fs_get f n = Some c0 ->
    exists f', jl_run today (Some n) f cs = (Some n, f', map (fun _ => None) cs)
      /\ fs_get f' n = Some (c0 ++ render_lines (recs cs))
      /\ forall o, o <> n -> fs_get f' o = fs_get f o.
  Proof.
    induction cs as [|c cs IH]; intros today n f c0 Hn Hg.
    - exists f. cbn. rewrite app_nil_r. auto.
    - destruct (jl_call_first today (Some n) f c n (jl_target_named today n c Hn)) as [f1 [E1 [E2 E3]]].
      unfold old in E2. rewrite Hg in E2.
      destruct (IH today n f1 _ Hn E2) as [f2 [F1 [F2 F3]]].
      exists f2. cbn [JsonW.jl_run]. rewrite E1, F1. split; [reflexivity|]. split.
      + rewrite F2. unfold recs, render_lines. cbn [map concat]. now rewrite <- !app_assoc.
      + intros o Ho. rewrite F3 by exact Ho. now apply E3.
  Qed.

  (* JSONLinesWriter: k calls append k newline-terminated records to whatever the file held
     (nothing if it did not exist); no call raises; no other file changes *)
  Theorem jl_run_file : forall today w f c1 cs n, jl_target today w c1 = Some n ->
    exists f', jl_run today w f (c1 :: cs) = (Some n, f', map (fun _ => None) (c1 :: cs))
      /\ fs_get f' n = Some (old f n ++ render_lines (recs (c1 :: cs)))
      /\ forall o, o <> n -> fs_get f' o = fs_get f o.
  Proof.
    intros today w f c1 cs n Ht. pose proof (jl_target_nonempty _ _ _ _ Ht) as Hn.
    destruct (jl_call_first today w f c1 n Ht) as [f1 [E1 [E2 E3]]].
    destruct (jl_run_named cs today n f1 _ Hn E2) as [f2 [F1 [F2 F3]]].
    exists f2. cbn [JsonW.jl_run]. rewrite E1, F1. split; [reflexivity|]. split.
    + rewrite F2. unfold recs, render_lines. cbn [map concat]. now rewrite <- !app_assoc.
    + intros o Ho. rewrite F3 by exact Ho. now apply E3.
  Qed.

  (* ---- reading back ---- *)
  Variable dec : str -> option R.
  Hypothesis dec_enc : forall r, dec (enc r) = Some r.
  Hypothesis enc_nlfree : forall r, nlfree (enc r).

  Lemma recs_nlfree : forall cs, Forall nlfree (recs cs).
  Proof. intros cs. unfold recs. induction cs; cbn; constructor; [apply enc_nlfree | assumption]. Qed.

  Theorem read_array_run : forall c0 mid cs,
    read_array R dec (render_array (recs (c0 :: mid ++ [cs]))) = Some (map c_rec (c0 :: mid ++ [cs])).
  Proof.
    intros. unfold read_array. rewrite split_array_render; [| discriminate | apply recs_nlfree].
    unfold recs. now apply all_some_map.
  Qed.

  Theorem read_lines_run : forall c ls cs, lines_of c = Some ls ->
    read_lines R dec (c ++ render_lines (recs cs))
    = match all_some (map dec ls) with Some old_rs => Some (old_rs ++ map c_rec cs) | None => None end.
  Proof.
    intros c ls cs H. unfold read_lines. rewrite (lines_of_append c ls (recs cs) H (recs_nlfree cs)).
    rewrite map_app. unfold recs. generalize (all_some_map R enc dec dec_enc (map c_rec cs)).
    generalize (map dec (map enc (map c_rec cs))) (map c_rec cs). intros new rs Hnew.
    induction (map dec ls) as [|[x|] l IH]; cbn.
    - now rewrite Hnew.
    - rewrite IH. destruct (all_some l); reflexivity.
    - reflexivity.
  Qed.
End Enc.
