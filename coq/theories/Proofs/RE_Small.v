(* Small-step view of the `_run` loop of Engine/RE.v.
   [dstep] is the body of one iteration of [drive] as a non-recursive function; [drive_dstep]
   proves that [drive] is exactly its iteration, so invariants of the loop are proved per
   control point on [dstep] and lifted with [drive_inv].  Also: per-event traces [run_tr]. *)
From Coq Require Import List String ZArith Bool Arith Lia.
From BV Require Import Engine.RE.
Import ListNotations.
(* file-local implicit arguments for the model's functions (the model file itself is untouched) *)
Local Arguments upd {P D}.
Local Arguments set_state_raw {P D}.
Local Arguments set_pc {P D}.
Local Arguments set_must_cancel {P D}.
Local Arguments set_permit {P D}.
Local Arguments set_blocking {P D}.
Local Arguments set_plans {P D}.
Local Arguments set_resps {P D}.
Local Arguments set_cache {P D}.
Local Arguments set_rewindable {P D}.
Local Arguments set_exc_slot {P D}.
Local Arguments set_stashed {P D}.
Local Arguments set_interrupted {P D}.
Local Arguments set_deferred {P D}.
Local Arguments set_exit {P D}.
Local Arguments upd2 {P D}.
Local Arguments set_bundlers {P D}.
Local Arguments set_staged {P D}.
Local Arguments set_moved {P D}.
Local Arguments set_seen {P D}.
Local Arguments set_groups {P D}.
Local Arguments set_statuses {P D}.
Local Arguments set_futs {P D}.
Local Arguments set_uids {P D}.
Local Arguments set_pardon {P D}.
Local Arguments set_dst {P D}.
Local Arguments set_task_set {P D}.
Local Arguments set_ghost {P D}.
Local Arguments interrupt {P D}.
Local Arguments resumable {P D}.
Local Arguments set_state {P D}.
Local Arguments cancel_task {P D}.
Local Arguments map_bundlers {P D}.
Local Arguments record_interruptions {P D}.
Local Arguments reset_checkpoint {P D}.
Local Arguments rewind {P D}.
Local Arguments dcall {P D}.
Local Arguments stop_movables {P D}.
Local Arguments call_pausables {P D}.
Local Arguments get_bundler {P D}.
Local Arguments put_bundler {P D}.
Local Arguments any_bundling {P D}.
Local Arguments add_status {P D}.
Local Arguments request_pause {P D}.
Local Arguments finish_read {P D}.
Local Arguments mark_cached {P D}.
Local Arguments exec_cmd {P D}.
Local Arguments set_main {P D}.
Local Arguments set_mreq {P D}.
Local Arguments set_ers {P D}.
Local Arguments push_frame {P D}.
Local Arguments pop_plan {P D}.
Local Arguments replace_top {P D}.
Local Arguments all_resolved {P D}.
Local Arguments all_released {P D}.
Local Arguments close_runs {P D}.
Local Arguments FUEL {P D}.
Local Arguments req_result {P D}.
Local Arguments clear_call {P D}.
Local Arguments state {P D}.
Local Arguments pc {P D}.
Local Arguments must_cancel {P D}.
Local Arguments permit {P D}.
Local Arguments blocking {P D}.
Local Arguments task_set {P D}.
Local Arguments plans {P D}.
Local Arguments resps {P D}.
Local Arguments cache {P D}.
Local Arguments rewindable {P D}.
Local Arguments exc_slot {P D}.
Local Arguments stashed {P D}.
Local Arguments interrupted {P D}.
Local Arguments deferred {P D}.
Local Arguments exit_status {P D}.
Local Arguments reason {P D}.
Local Arguments bundlers {P D}.
Local Arguments staged {P D}.
Local Arguments moved {P D}.
Local Arguments pausables {P D}.
Local Arguments stageables {P D}.
Local Arguments seen {P D}.
Local Arguments groups {P D}.
Local Arguments statuses {P D}.
Local Arguments failed_seen {P D}.
Local Arguments futs {P D}.
Local Arguments uid_supply {P D}.
Local Arguments run_uids {P D}.
Local Arguments record_intr {P D}.
Local Arguments pardon {P D}.
Local Arguments mreq {P D}.
Local Arguments was_paused {P D}.
Local Arguments main_err {P D}.
Local Arguments exit_reason_set {P D}.
Local Arguments icause {P D}.
Local Arguments late_pause {P D}.
Local Arguments intr_err {P D}.
Local Arguments dst {P D}.
Local Arguments start_sub {P}.
Local Arguments helper_after_pre {P}.
Local Arguments helper_after_post {P}.
Local Arguments helper_set {P}.
Local Arguments helper_rewind_next {P}.
Local Arguments helper_resume {P}.
Local Arguments frame_resume {P}.
Local Arguments exec_start_suspender {P} plan_of {D} dev.
Local Arguments close_frames {P} presume {D}.
Local Arguments finalize {P} presume {D} dev.
Local Arguments drive {P} presume plan_of {D} dev.
Local Arguments task_step {P} presume plan_of {D} dev.
Local Arguments step {P} presume plan_of {D} dev.
Local Arguments run {P} presume plan_of {D} dev.

Ltac break_match_goal :=
  match goal with
  | |- context [match ?x with _ => _ end] => destruct x eqn:?
  end.

Section Small.
Variable P : Type.
Variable presume : P -> input -> outcome P.
Variable plan_of : nat -> P.
Variable D : Type.
Variable dev : D -> nat -> devmeth -> D * devres.
Notation st := (st P D).
Local Notation stop_movables := (RE.stop_movables dev).
Local Notation call_pausables := (RE.call_pausables dev).
Local Notation exec_cmd := (RE.exec_cmd dev).
Local Notation exec_start_suspender := (RE.exec_start_suspender plan_of dev).
Local Notation frame_resume := (RE.frame_resume presume).
Local Notation finalize := (RE.finalize presume dev).

(* one iteration of [drive]: either the next control point with the observations emitted on
   the way, or the state in which the task suspends / finishes *)
Definition dstep (s : st) (c : ctl) : (st * ctl * list obs) + (st * list obs) :=
    match c with
    | CTop =>
        if (rstate_eqb (state s) Pausing || rstate_eqb (state s) Suspending) && negb (resumable s) then
          let s1 := set_ghost (set_stashed (set_permit s true) (Some EFailedPause)) (Some CzFailedPause) (late_pause s) (intr_err s) in
          match set_state s1 Aborting with
          | Some (s2, o) => inl (s2, CTop, o)
          | None => inl (s1, (CExit (XExn ETransition)), [])
          end
        else
          let r1 := if rstate_eqb (state s) Suspending then set_state s Running else Some (s, []) in
          match r1 with
          | None => inl (s, (CExit (XExn ETransition)), [])
          | Some (s1, o1) =>
              if negb (permit s1) then
                if negb (rstate_eqb (state s1) Pausing) then inl (s1, (CExit (XExn EAssertion)), o1)
                else
                  let '(s2, o2) := stop_movables s1 in
                  let '(s3, e, o3) := call_pausables s2 MPause in
                  match e with
                  | Some x => inl (s3, (CExit (XExn x)), o1 ++ o2 ++ o3)
                  | None =>
                      match set_state s3 Paused with
                      | None => inl (s3, (CExit (XExn ETransition)), o1 ++ o2 ++ o3)
                      | Some (s4, o4) => inr (set_pc (set_blocking s4 true) PcPaused, o1 ++ o2 ++ o3 ++ o4 ++ [OTask WFuture])
                      end
                  end
              else inl (s1, CBody, o1)
          end
    | CBody =>
        if negb (Nat.eqb (List.length (resps s)) (List.length (plans s))) then inl (s, (CExit (XExn EAssertion)), [])
        else match stashed s with
             | None => inr (set_pc s PcSleep0, [OTask WSleep0])
             | Some _ => inl (s, CAfterSleep, [])
             end
    | CAfterSleep =>
        match resps s, plans s with
        | r :: rest, top :: _ =>
            let s1 := set_resps s rest in
            let s2 := match exc_slot s1 with
                      | Some e => set_exc_slot (set_stashed s1 (Some e)) None
                      | None => s1
                      end in
            let thrown := match stashed s2, r with
                          | Some e, _ => Some e
                          | None, RExn e => Some e
                          | None, RVal _ => None
                          end in
            match thrown with
            | Some e =>
                let '(o, po) := frame_resume top (Throw e) in
                match o with
                | Yielded m f' => inl ((set_stashed (replace_top s2 f') None), (CProcess m), po)
                | Returned v =>
                    let s3 := pop_plan s2 in
                    match plans s3 with
                    | [] => inl (s3, (CExit (XRet v)), po)
                    | _ => inl ((set_stashed s3 (Some EStopIteration)), (CContinue false (RVal VNone)), po)
                    end
                | Raised e' =>
                    if is_Exception e' then
                      let s3 := pop_plan s2 in
                      match plans s3 with
                      | [] => inl (s3, (CExit (XExn e')), po)
                      | _ => inl ((set_stashed s3 (Some e')), (CContinue false (RVal VNone)), po)
                      end
                    else
                      match e' with
                      | ECancelled => inl (s2, (CCancelled true), po)
                      | _ => inl ((set_resps (replace_top s2 (FList [])) (RVal VNone :: resps s2)), (CExit (XExn e')), po)
                      end
                end
            | None =>
                let v := match r with RVal v => v | RExn _ => VNone end in
                let '(o, po) := frame_resume top (Send v) in
                match o with
                | Yielded m f' => inl ((replace_top s2 f'), (CProcess m), po)
                | Returned v' =>
                    let s3 := pop_plan s2 in
                    match plans s3 with
                    | [] => inl (s3, (CExit (XRet v')), po)
                    | _ => inl (s3, (CContinue false (RVal VNone)), po)
                    end
                | Raised e' =>
                    if is_Exception e' then
                      let s3 := pop_plan s2 in
                      match plans s3 with
                      | [] => inl (s3, (CExit (XExn e')), po)
                      | _ => inl ((set_stashed s3 (Some e')), (CContinue false (RVal VNone)), po)
                      end
                    else
                      match e' with
                      | ECancelled => inl (s2, (CCancelled true), po)
                      | _ => inl ((set_resps (replace_top s2 (FList [])) (RVal VNone :: resps s2)), (CExit (XExn e')), po)
                      end
                end
            end
        | _, _ => inl (s, (CExit (XExn EOther)), [OBad 2])
        end
    | CProcess m =>
        let o0 := [OMsg m] in
        let s1 := match mobj m with Some d => set_seen s (insert_sorted d (seen s)) | None => s end in
        let s2 := match cache s1 with
                  | Some l => if rewindable s1 && cacheable (mcmd m) then set_cache s1 (Some (l ++ [m])) else s1
                  | None => s1
                  end in
        let '(s3, cr, o3) := match mcmd m with
                             | CStartSuspender sid pre post => exec_start_suspender s2 sid pre post
                             | _ => exec_cmd s2 m
                             end in
        match cr with
        | Done r => inl (s3, CContinue true r, o0 ++ o3 ++ match mcmd m with CUnknown => [] | _ => [OResp r] end)
        | Susp k => inr (set_pc s3 (PcCmd k), o0 ++ o3 ++ [OTask WFuture])
        end
    | CContinue popped r =>
        inl ((if popped then set_resps s (r :: resps s) else s), CTop, [])
    | CCancelled popped =>
        match state s with
        | Pausing => inl ((set_permit s false), (CContinue popped (RVal VNone)), [])
        | Halting => inl ((match stashed s with None => set_stashed s (Some EPlanHalt) | _ => s end), (CContinue popped (RVal VNone)), [])
        | Stopping => inl ((match stashed s with None => set_stashed s (Some ERequestStop) | _ => s end), (CContinue popped (RVal VNone)), [])
        | Aborting => inl ((match stashed s with None => set_stashed s (Some ERequestAbort) | _ => s end), (CContinue popped (RVal VNone)), [])
        | Suspending => inl (s, (CContinue popped (RVal VNone)), [])
        | _ =>
            match stashed s with
            | Some ECancelled => inl ((if popped then set_resps s (RVal VNone :: resps s) else s), (CExit (XExn ECancelled)), [])
            | Some _ => inl (s, (CContinue popped (RVal VNone)), [])
            | None => inl ((set_stashed s (Some ECancelled)), (CContinue popped (RVal VNone)), [])
            end
        end
    | CExit x =>
        match x with
        | XRet v => inr (set_pc (set_exit s XSuccess (reason s)) (PcFinalSleep (TReturn v)), [OTask WSleep0])
        | XExn ERequestStop => inr (set_pc (set_exit s XSuccess (reason s)) (PcFinalSleep (TReturn NO_RETURN)), [OTask WSleep0])
        | XExn (EFailedPause | ERequestAbort | ECancelled | EPlanHalt) =>
            inr (set_pc (set_exit s XAbort (reason s)) (PcFinalSleep (TReturn NO_RETURN)), [OTask WSleep0])
        | XExn EGeneratorExit => inl ((set_exit s XFail (reason s)), (CFinalize (TReturn NO_RETURN) (Some EValueError)), [])
        | XExn e => inl ((set_ers (set_exit s XFail (reason s)) true), (CFinalize (TReturn NO_RETURN) (Some e)), [])
        end
    | CFinalize r pending =>
        inr (finalize s r pending)
    end.

Lemma drive_dstep fuel (s : st) c os :
  drive presume plan_of dev (S fuel) s c os =
  match dstep s c with
  | inl (s', c', o) => drive presume plan_of dev fuel s' c' (os ++ o)
  | inr (s', o) => (s', os ++ o)
  end.
Proof.
  cbn [drive]. unfold dstep. destruct c.
  all: repeat break_match_goal; rewrite ?app_nil_r; reflexivity.
Qed.

Lemma drive_0 (s : st) c os : drive presume plan_of dev 0 s c os = (set_pc s PcNone, os ++ [OBad 1]).
Proof. reflexivity. Qed.

(* invariants of the loop: per control point on [dstep] *)
Lemma drive_inv (Q : st -> ctl -> list obs -> Prop) (F : st -> list obs -> Prop) :
  (forall s c os s' c' o, Q s c os -> dstep s c = inl (s', c', o) -> Q s' c' (os ++ o)) ->
  (forall s c os s' o, Q s c os -> dstep s c = inr (s', o) -> F s' (os ++ o)) ->
  (forall s c os, Q s c os -> F (set_pc s PcNone) (os ++ [OBad 1])) ->
  forall fuel s c os s' o, Q s c os -> drive presume plan_of dev fuel s c os = (s', o) -> F s' o.
Proof.
  intros Hstep Hfin Hoof. induction fuel as [|fuel IH]; intros s c os s' o HQ H.
  - rewrite drive_0 in H. inversion H; subst. apply Hoof with (c := c); assumption.
  - rewrite drive_dstep in H. destruct (dstep s c) as [[[s1 c1] o1]|[s1 o1]] eqn:E.
    + eapply IH; [|exact H]. eapply Hstep; eassumption.
    + inversion H; subst. eapply Hfin; eassumption.
Qed.

(* per-event trace *)
Fixpoint run_tr (s : st) (evs : list event) : st * list (event * list obs) :=
  match evs with
  | [] => (s, [])
  | e :: evs' => let '(s1, o1) := step presume plan_of dev s e in
                 let '(s2, t) := run_tr s1 evs' in (s2, (e, o1) :: t)
  end.

Lemma run_tr_run (s : st) evs :
  run presume plan_of dev s evs = (fst (run_tr s evs), flat_map snd (snd (run_tr s evs))).
Proof.
  revert s; induction evs as [|e evs IH]; intros s; cbn [run run_tr]; [reflexivity|].
  destruct (step presume plan_of dev s e) as [s1 o1]. rewrite IH.
  destruct (run_tr s1 evs) as [s2 t]. reflexivity.
Qed.

Lemma run_app (s : st) a b :
  run presume plan_of dev s (a ++ b) =
  let '(s1, o1) := run presume plan_of dev s a in
  let '(s2, o2) := run presume plan_of dev s1 b in (s2, o1 ++ o2).
Proof.
  revert s; induction a as [|e a IH]; intros s; cbn [run app].
  - destruct (run presume plan_of dev s b); reflexivity.
  - destruct (step presume plan_of dev s e) as [s1 o1]. rewrite IH.
    destruct (run presume plan_of dev s1 a) as [s2 o2]. destruct (run presume plan_of dev s2 b) as [s3 o3].
    rewrite app_assoc. reflexivity.
Qed.

(* state invariants over schedules *)
Lemma run_inv (I : st -> Prop) :
  (forall s e, I s -> I (fst (step presume plan_of dev s e))) ->
  forall evs s, I s -> I (fst (run presume plan_of dev s evs)).
Proof.
  intros Hs. induction evs as [|e evs IH]; intros s HI; cbn [run]; [exact HI|].
  specialize (Hs s e HI). destruct (step presume plan_of dev s e) as [s1 o1]. cbn in Hs.
  specialize (IH s1 Hs). destruct (run presume plan_of dev s1 evs) as [s2 o2]. exact IH.
Qed.
End Small.
