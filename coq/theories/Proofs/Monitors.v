(* Proofs about Engine/Monitors.v (C41). *)
From BV Require Import Base.Prelude Base.KeyMap Engine.Monitors.
From Coq Require Import NArith ZArith Lia.

(* ------------------------------------------------------------------ dictionaries: a few more facts *)

Lemma afind_map_vals {A B} (g : A -> B) k (l : list (key * A)) :
  afind k (map (fun kv => (fst kv, g (snd kv))) l) = option_map g (afind k l).
Proof.
  induction l as [|[k1 v1] t IH]; cbn; [reflexivity|]. destruct (N.eqb k k1); [reflexivity|exact IH].
Qed.

Lemma aremove_map_vals {A B} (g : A -> B) k (l : list (key * A)) :
  aremove k (map (fun kv => (fst kv, g (snd kv))) l) = map (fun kv => (fst kv, g (snd kv))) (aremove k l).
Proof.
  induction l as [|[k1 v1] t IH]; cbn; [reflexivity|]. destruct (N.eqb k k1); cbn; [reflexivity|now rewrite IH].
Qed.

Lemma aset_map_vals {A B} (g : A -> B) k v (l : list (key * A)) :
  aset k (g v) (map (fun kv => (fst kv, g (snd kv))) l) = map (fun kv => (fst kv, g (snd kv))) (aset k v l).
Proof.
  induction l as [|[k1 v1] t IH]; cbn; [reflexivity|]. destruct (N.eqb k k1); cbn; [reflexivity|now rewrite IH].
Qed.

Lemma In_aremove {A} k (l : list (key * A)) p : In p (aremove k l) -> In p l.
Proof.
  induction l as [|[k1 v1] t IH]; cbn; [tauto|]. destruct (N.eqb k k1); cbn; [tauto|]. intros [E|E]; [now left|right; now apply IH].
Qed.

Lemma In_aset {A} k v (l : list (key * A)) p : In p (aset k v l) -> p = (k, v) \/ In p l.
Proof.
  induction l as [|[k1 v1] t IH]; cbn; [intuition|]. destruct (N.eqb k k1); cbn; [intuition|].
  intros [E|E]; [right; now left|]. apply IH in E. intuition.
Qed.

Lemma keys_map_vals {A B} (g : A -> B) (l : list (key * A)) :
  map fst (map (fun kv => (fst kv, g (snd kv))) l) = map fst l.
Proof. rewrite map_map. reflexivity. Qed.

(* ------------------------------------------------------------------ reading the ledger *)

Lemma live_from_app n o r c l1 l2 : live_from n o r c (l1 ++ l2) = live_from (live_from n o r c l1) o r c l2.
Proof. revert n. induction l1 as [|e t IH]; intros n; cbn; [reflexivity|]. destruct e; apply IH. Qed.

Lemma live_of_app l e o r c : live_of (l ++ e) o r c = live_from (live_of l o r c) o r c e.
Proof. apply live_from_app. Qed.

Lemma live_clr {A} n o r c id (l : list (N * A)) :
  live_from n o r c (map (fun oc => EClr (fst oc) id) l)
  = match afind o l with Some _ => if Nat.eqb r id then 0 else n | None => n end.
Proof.
  revert n. induction l as [|[o1 c1] t IH]; intros n; cbn; [reflexivity|].
  rewrite IH. destruct (N.eqb o o1); cbn.
  - destruct (Nat.eqb r id); destruct (afind o t); reflexivity.
  - reflexivity.
Qed.

Lemma live_sub n o r c id (l : list (N * (N * nat))) : NoDup (map fst l) ->
  live_from n o r c (map (fun oc => ESub (fst oc) id (fst (snd oc))) l)
  = match afind o l with Some (ch, _) => if Nat.eqb r id && N.eqb c ch then S n else n | None => n end.
Proof.
  revert n. induction l as [|[o1 [ch1 c1]] t IH]; intros n ND; cbn; [reflexivity|].
  inversion ND as [|? ? Hn ND']; subst. rewrite IH by assumption.
  destruct (N.eqb_spec o o1) as [->|N0]; cbn; [|reflexivity].
  apply afind_None_notin in Hn. rewrite Hn. reflexivity.
Qed.

Lemma live_events n o r c (l : list ev) : forallb is_event l = true -> live_from n o r c l = n.
Proof.
  revert n. induction l as [|e t IH]; intros n H; cbn; [reflexivity|].
  cbn in H. apply andb_true_iff in H as [H1 H2]. destruct e; try discriminate. now apply IH.
Qed.

(* ------------------------------------------------------------------ live registrations read off the state *)

Definition cnt_e (c : N) (e : option (N * nat)) : nat :=
  match e with Some (ch, n) => if N.eqb c ch then n else 0 | None => 0 end.

Definition cnt_b (b : bund) (o : N) (r : nat) (c : N) : nat :=
  if Nat.eqb r (b_id b) then cnt_e c (afind o (b_mons b)) else 0.

Fixpoint cnt (l : list (key * bund)) (o : N) (r : nat) (c : N) : nat :=
  match l with
  | [] => 0
  | (_, b) :: t => cnt_b b o r c + cnt t o r c
  end.

Definition ids (l : list (key * bund)) : list nat := map (fun kb => b_id (snd kb)) l.

Lemma cnt_app l1 l2 o r c : cnt (l1 ++ l2) o r c = cnt l1 o r c + cnt l2 o r c.
Proof. induction l1 as [|[k b] t IH]; cbn; [reflexivity|]. rewrite IH. lia. Qed.

Lemma cnt_no_id l o r c : ~ In r (ids l) -> cnt l o r c = 0.
Proof.
  induction l as [|[k b] t IH]; cbn; [reflexivity|]. intros H. rewrite IH by tauto.
  unfold cnt_b. destruct (Nat.eqb_spec r (b_id b)); [exfalso; apply H; now left|reflexivity].
Qed.

Lemma cnt_aremove k b l o r c : afind k l = Some b -> cnt (aremove k l) o r c + cnt_b b o r c = cnt l o r c.
Proof.
  induction l as [|[k1 b1] t IH]; cbn; [discriminate|].
  destruct (N.eqb k k1); intros E.
  - inversion E; subst. lia.
  - cbn. specialize (IH E). lia.
Qed.

Lemma cnt_aset k b b' l o r c : afind k l = Some b -> cnt (aset k b' l) o r c + cnt_b b o r c = cnt l o r c + cnt_b b' o r c.
Proof.
  induction l as [|[k1 b1] t IH]; cbn; [discriminate|].
  destruct (N.eqb k k1); intros E.
  - inversion E; subst. cbn. lia.
  - cbn. specialize (IH E). lia.
Qed.

Lemma ids_aremove_subset k l x : In x (ids (aremove k l)) -> In x (ids l).
Proof.
  unfold ids. intros H. apply in_map_iff in H as [p [E H]]. apply In_aremove in H. apply in_map_iff. eauto.
Qed.

Lemma NoDup_ids_aremove k l : NoDup (ids l) -> NoDup (ids (aremove k l)).
Proof.
  induction l as [|[k1 b1] t IH]; cbn; [trivial|]. intros ND. inversion ND as [|? ? Hn ND']; subst.
  destruct (N.eqb k k1); cbn; [assumption|]. constructor; [|now apply IH].
  intros H. apply Hn. eapply ids_aremove_subset; eauto.
Qed.

Lemma ids_aset_same k b b' l : afind k l = Some b -> b_id b' = b_id b -> ids (aset k b' l) = ids l.
Proof.
  unfold ids. induction l as [|[k1 b1] t IH]; cbn; [discriminate|].
  destruct (N.eqb k k1); intros E Hid; cbn.
  - inversion E; subst. now rewrite Hid.
  - f_equal. now apply IH.
Qed.

Lemma In_ids k b (l : list (key * bund)) : In (k, b) l -> In (b_id b) (ids l).
Proof. intros H. unfold ids. apply in_map_iff. exists (k, b). now split. Qed.

(* with distinct run numbers only the bundler of run r counts *)
Lemma cnt_single k b l o c : NoDup (ids l) -> In (k, b) l -> cnt l o (b_id b) c = cnt_b b o (b_id b) c.
Proof.
  induction l as [|[k1 b1] t IH]; cbn; [tauto|]. intros ND [E|E]; inversion ND as [|? ? Hn ND']; subst.
  - inversion E; subst. rewrite cnt_no_id by assumption. lia.
  - rewrite IH by assumption. unfold cnt_b at 1.
    destruct (Nat.eqb_spec (b_id b) (b_id b1)) as [Eq|]; [|lia]. exfalso. apply Hn. rewrite <- Eq. eapply In_ids; eauto.
Qed.

(* ------------------------------------------------------------------ one bundler *)

Definition binv (b : bund) : Prop :=
  NoDup (map fst (b_mons b)) /\
  forall o ch n, In (o, (ch, n)) (b_mons b) -> n = match b_susp b with O => 1 | S _ => 0 end.

Lemma afind_map_cnt (g : N * (N * nat) -> nat) o (l : list (N * (N * nat))) :
  afind o (map (fun oc => (fst oc, (fst (snd oc), g oc))) l)
  = match afind o l with Some (ch, n) => Some (ch, g (o, (ch, n))) | None => None end.
Proof.
  induction l as [|[o1 [ch1 c1]] t IH]; cbn; [reflexivity|].
  destruct (N.eqb_spec o o1) as [->|]; [reflexivity|exact IH].
Qed.

Lemma suspend_b_id b : b_id (fst (suspend_b b)) = b_id b.
Proof. unfold suspend_b. now destruct (b_susp b). Qed.
Lemma restore_b_id b : b_id (fst (restore_b b)) = b_id b.
Proof. unfold restore_b. destruct (b_susp b) as [|[|n]]; reflexivity. Qed.

Lemma suspend_b_cnt b o r c :
  live_from (cnt_b b o r c) o r c (snd (suspend_b b)) = cnt_b (fst (suspend_b b)) o r c.
Proof.
  unfold suspend_b. destruct (b_susp b) eqn:Es; cbn [fst snd]; [|reflexivity].
  unfold clr_all. rewrite live_clr. unfold cnt_b. cbn [b_id b_mons].
  rewrite (afind_map_cnt (fun _ => 0)). destruct (Nat.eqb r (b_id b)); destruct (afind o (b_mons b)) as [[ch n]|]; cbn;
    try reflexivity. now destruct (N.eqb c ch).
Qed.

Lemma suspend_b_other b o r c n : r <> b_id b ->
  live_from n o r c (snd (suspend_b b)) = n /\ cnt_b (fst (suspend_b b)) o r c = 0 /\ cnt_b b o r c = 0.
Proof.
  intros N0. unfold cnt_b. rewrite suspend_b_id. destruct (Nat.eqb_spec r (b_id b)); [congruence|].
  split; [|split; reflexivity]. unfold suspend_b. destruct (b_susp b); cbn [snd]; [|reflexivity].
  unfold clr_all. rewrite live_clr. destruct (afind o (b_mons b)); [|reflexivity].
  destruct (Nat.eqb_spec r (b_id b)); [congruence|reflexivity].
Qed.

Lemma restore_b_cnt b o r c : binv b ->
  live_from (cnt_b b o r c) o r c (snd (restore_b b)) = cnt_b (fst (restore_b b)) o r c.
Proof.
  intros [ND _]. unfold restore_b. destruct (b_susp b) as [|[|n]] eqn:Es; cbn [fst snd]; try reflexivity.
  unfold sub_all. rewrite live_sub by assumption. unfold cnt_b. cbn [b_id b_mons].
  rewrite (afind_map_cnt (fun oc => S (snd (snd oc)))).
  destruct (Nat.eqb r (b_id b)); destruct (afind o (b_mons b)) as [[ch m]|]; cbn; try reflexivity.
  now destruct (N.eqb c ch).
Qed.

Lemma restore_b_other b o r c n : binv b -> r <> b_id b ->
  live_from n o r c (snd (restore_b b)) = n /\ cnt_b (fst (restore_b b)) o r c = 0 /\ cnt_b b o r c = 0.
Proof.
  intros [ND _] N0. unfold cnt_b. rewrite restore_b_id. destruct (Nat.eqb_spec r (b_id b)); [congruence|].
  split; [|split; reflexivity]. unfold restore_b. destruct (b_susp b) as [|[|m]]; cbn [snd]; try reflexivity.
  unfold sub_all. rewrite live_sub by assumption. destruct (afind o (b_mons b)) as [[ch m]|]; [|reflexivity].
  destruct (Nat.eqb_spec r (b_id b)); [congruence|reflexivity].
Qed.

Lemma In_map_cnt (g : N * (N * nat) -> nat) o ch n (l : list (N * (N * nat))) :
  In (o, (ch, n)) (map (fun oc => (fst oc, (fst (snd oc), g oc))) l) -> exists n0, In (o, (ch, n0)) l /\ n = g (o, (ch, n0)).
Proof.
  intros H. apply in_map_iff in H as [[o0 [ch0 n0]] [E H]]. cbn in E. inversion E; subst. eauto.
Qed.

Lemma keys_map_cnt (g : N * (N * nat) -> nat) (l : list (N * (N * nat))) :
  map fst (map (fun oc => (fst oc, (fst (snd oc), g oc))) l) = map fst l.
Proof. now rewrite map_map. Qed.

Lemma suspend_b_binv b : binv b -> binv (fst (suspend_b b)).
Proof.
  intros [ND Hc]. unfold suspend_b. destruct (b_susp b) as [|k] eqn:Es; cbn [fst]; split; cbn [b_mons b_susp].
  - now rewrite (keys_map_cnt (fun _ => 0)).
  - intros o ch m H. apply (In_map_cnt (fun _ => 0)) in H as (n0 & _ & ->). reflexivity.
  - assumption.
  - intros o ch m H. now apply Hc in H.
Qed.

Lemma restore_b_binv b : binv b -> binv (fst (restore_b b)).
Proof.
  intros [ND Hc]. unfold restore_b. destruct (b_susp b) as [|[|n]] eqn:Es; cbn [fst].
  - split; [assumption|]. now rewrite Es.
  - split; cbn [b_mons b_susp].
    + now rewrite (keys_map_cnt (fun oc => S (snd (snd oc)))).
    + intros o ch m H. apply (In_map_cnt (fun oc => S (snd (snd oc)))) in H as (n0 & H & ->). apply Hc in H. now subst.
  - split; cbn [b_mons b_susp]; [assumption|]. intros o ch m H. now apply Hc in H.
Qed.

(* ------------------------------------------------------------------ all bundlers *)

Section ForAll.
Variable f : bund -> bund * list ev.
Hypothesis f_id : forall b, b_id (fst (f b)) = b_id b.
Hypothesis f_binv : forall b, binv b -> binv (fst (f b)).
Hypothesis f_cnt : forall b o r c, binv b -> live_from (cnt_b b o r c) o r c (snd (f b)) = cnt_b (fst (f b)) o r c.
Hypothesis f_other : forall b o r c n, binv b -> r <> b_id b ->
  live_from n o r c (snd (f b)) = n /\ cnt_b (fst (f b)) o r c = 0 /\ cnt_b b o r c = 0.

Lemma for_all_keys l : map fst (fst (for_all f l)) = map fst l.
Proof.
  induction l as [|[k b] t IH]; cbn; [reflexivity|].
  destruct (f b) as [b' e]. destruct (for_all f t) as [t' e']. cbn in *. now rewrite IH.
Qed.

Lemma for_all_ids l : ids (fst (for_all f l)) = ids l.
Proof.
  induction l as [|[k b] t IH]; cbn; [reflexivity|].
  pose proof (f_id b) as Hid. destruct (f b) as [b' e]. destruct (for_all f t) as [t' e']. cbn in *. now rewrite IH, Hid.
Qed.

Lemma for_all_In l k b' : In (k, b') (fst (for_all f l)) -> exists b, In (k, b) l /\ b' = fst (f b).
Proof.
  induction l as [|[k1 b1] t IH]; cbn; [tauto|].
  destruct (f b1) as [b1' e] eqn:Ef. destruct (for_all f t) as [t' e']. cbn in *.
  intros [E|E].
  - inversion E; subst. exists b1. split; [now left|]. now rewrite Ef.
  - destruct (IH E) as (b & H & ->). exists b. split; [now right|reflexivity].
Qed.

Lemma for_all_other l o r c n : (forall k b, In (k, b) l -> binv b) -> ~ In r (ids l) ->
  live_from n o r c (snd (for_all f l)) = n.
Proof.
  revert n. induction l as [|[k b] t IH]; intros n Hb Hn; cbn; [reflexivity|].
  destruct (f_other b o r c n (Hb k b (or_introl eq_refl))) as (H1 & _ & _); [intros ->; apply Hn; now left|].
  destruct (f b) as [b' e]. destruct (for_all f t) as [t' e'] eqn:Et. cbn [fst snd] in *.
  rewrite live_from_app, H1. apply IH; [intros; eapply Hb; right; eauto|]. intros H; apply Hn. now right.
Qed.

Lemma for_all_cnt l o r c : (forall k b, In (k, b) l -> binv b) -> NoDup (ids l) ->
  live_from (cnt l o r c) o r c (snd (for_all f l)) = cnt (fst (for_all f l)) o r c.
Proof.
  induction l as [|[k b] t IH]; intros Hb ND; cbn; [reflexivity|].
  inversion ND as [|? ? Hn ND']; subst.
  assert (Hbb : binv b) by (eapply Hb; now left).
  assert (Hbt : forall k0 b0, In (k0, b0) t -> binv b0) by (intros; eapply Hb; right; eauto).
  pose proof (for_all_other t o r c) as Hot. pose proof (for_all_ids t) as Hids.
  pose proof (f_cnt b o r c Hbb) as Hc. pose proof (f_other b o r c) as Ho. specialize (IH Hbt ND').
  destruct (f b) as [b' e]. destruct (for_all f t) as [t' e'] eqn:Et. cbn [fst snd] in *.
  rewrite live_from_app. cbn [cnt].
  destruct (Nat.eq_dec r (b_id b)) as [->|N0].
  - rewrite (cnt_no_id t) by assumption. rewrite (cnt_no_id t') by (now rewrite Hids).
    rewrite !Nat.add_0_r, Hc. now apply Hot.
  - destruct (Ho (cnt_b b o r c + cnt t o r c) Hbb N0) as (H1 & H2 & H3). rewrite H1, H2, H3. exact IH.
Qed.

End ForAll.

(* ------------------------------------------------------------------ the invariant (all histories) *)

Record Inv (x : state) (L : list ev) : Prop := {
  iK : NoDup (map fst (runs x));
  iIds : NoDup (ids (runs x));
  iLt : forall k b, In (k, b) (runs x) -> b_id b < nrun x;
  iB : forall k b, In (k, b) (runs x) -> binv b;
  iL : forall o r c, live_of L o r c = cnt (runs x) o r c
}.

Lemma inv_init : Inv init [].
Proof. constructor; cbn; try constructor; try tauto; reflexivity. Qed.

Lemma binv_append b o c : binv b -> afind o (b_mons b) = None ->
  binv {| b_id := b_id b; b_mons := b_mons b ++ [(o, (c, match b_susp b with O => 1 | S _ => 0 end))]; b_susp := b_susp b |}.
Proof.
  intros [ND Hc] Ho. split; cbn [b_mons b_susp].
  - rewrite map_app. cbn. apply NoDup_app_last; [assumption|]. now apply afind_None_notin.
  - intros o' ch n H. apply in_app_iff in H as [H|[H|[]]]; [now apply Hc in H|]. now inversion H.
Qed.

Lemma binv_remove b o : binv b ->
  binv {| b_id := b_id b; b_mons := aremove o (b_mons b); b_susp := b_susp b |}.
Proof.
  intros [ND Hc]. split; cbn [b_mons b_susp].
  - now apply NoDup_keys_aremove.
  - intros o' ch n H. apply In_aremove in H. now apply Hc in H.
Qed.

Lemma inv_step x L a : Inv x L -> Inv (fst (step x a)) (L ++ snd (step x a)).
Proof.
  intros I. pose proof (iK _ _ I) as hK. pose proof (iIds _ _ I) as hI. pose proof (iLt _ _ I) as hLt.
  pose proof (iB _ _ I) as hB. pose proof (iL _ _ I) as hL.
  destruct a as [k|k|k o c0|k o| | | | | |o c0 v]; cbn [step].
  - (* OpenRun *)
    destruct (afind k (runs x)) as [b|] eqn:Ek; cbn [fst snd].
    + constructor; auto. intros o r c. now rewrite live_of_app, hL.
    + constructor; cbn [runs nrun].
      * rewrite map_app. cbn. apply NoDup_app_last; [assumption|]. now apply afind_None_notin.
      * unfold ids. rewrite map_app. cbn. apply NoDup_app_last; [assumption|].
        intros H. apply in_map_iff in H as [[k' b'] [E H]]. cbn in E. apply hLt in H. lia.
      * intros k' b' H. apply in_app_iff in H as [H|[H|[]]]; [apply hLt in H; lia|]. inversion H; subst. cbn. lia.
      * intros k' b' H. apply in_app_iff in H as [H|[H|[]]]; [eapply hB; eauto|]. inversion H; subst.
        split; cbn; [constructor|tauto].
      * intros o r c. rewrite live_of_app, hL, cnt_app. cbn. unfold cnt_b. cbn.
        destruct (Nat.eqb r (nrun x)); lia.
  - (* CloseRun *)
    destruct (afind k (runs x)) as [b|] eqn:Ek; cbn [fst snd].
    + pose proof (afind_Some_In _ _ _ Ek) as Hin.
      constructor; cbn [runs nrun].
      * now apply NoDup_keys_aremove.
      * now apply NoDup_ids_aremove.
      * intros k' b' H. apply In_aremove in H. now apply hLt in H.
      * intros k' b' H. apply In_aremove in H. eapply hB; eauto.
      * intros o r c. rewrite live_of_app, live_from_app, hL. unfold clr_all. rewrite live_clr. cbn.
        pose proof (cnt_aremove k b (runs x) o r c Ek) as Hc.
        destruct (Nat.eqb_spec r (b_id b)) as [->|N0].
        -- pose proof (cnt_single k b (runs x) o c hI Hin) as Hs. rewrite Hs in *.
           unfold cnt_b in *. rewrite Nat.eqb_refl in *.
           destruct (afind o (b_mons b)); cbn in *; lia.
        -- unfold cnt_b in Hc. destruct (Nat.eqb_spec r (b_id b)); [congruence|]. destruct (afind o (b_mons b)); lia.
    + constructor; auto. intros o r c. now rewrite live_of_app, hL.
  - (* Monitor *)
    destruct (afind k (runs x)) as [b|] eqn:Ek; cbn [fst snd]; [|constructor; auto; intros; now rewrite live_of_app, hL].
    destruct (afind o (b_mons b)) as [c|] eqn:Eo; cbn [fst snd]; [constructor; auto; intros; now rewrite live_of_app, hL|].
    pose proof (afind_Some_In _ _ _ Ek) as Hin. pose proof (hB _ _ Hin) as Hbb.
    set (b' := {| b_id := b_id b; b_mons := b_mons b ++ [(o, (c0, match b_susp b with O => 1 | S _ => 0 end))]; b_susp := b_susp b |}).
    constructor; cbn [runs nrun].
    + now apply NoDup_keys_aset.
    + rewrite (ids_aset_same k b b'); auto.
    + intros k' b0 H. apply In_aset in H as [H|H]; [inversion H; subst; cbn; eapply hLt; eauto|now apply hLt in H].
    + intros k' b0 H. apply In_aset in H as [H|H]; [inversion H; subst; now apply binv_append|eapply hB; eauto].
    + intros o' r c. rewrite live_of_app, live_from_app, hL.
      pose proof (cnt_aset k b b' (runs x) o' r c Ek) as Hc.
      assert (Hb' : cnt_b b' o' r c = cnt_b b o' r c +
                    (if N.eqb o' o && Nat.eqb r (b_id b) && N.eqb c c0 then match b_susp b with O => 1 | S _ => 0 end else 0)).
      { unfold cnt_b. cbn [b_id b_mons b']. destruct (Nat.eqb r (b_id b)); cbn; [|now rewrite andb_false_r].
        rewrite afind_app_last. destruct (N.eqb_spec o' o) as [->|N0].
        - rewrite Eo. cbn. destruct (N.eqb c c0); lia.
        - destruct (afind o' (b_mons b)); cbn; lia. }
      destruct (b_susp b); cbn; destruct (N.eqb o' o && Nat.eqb r (b_id b) && N.eqb c c0); lia.
  - (* Unmonitor *)
    destruct (afind k (runs x)) as [b|] eqn:Ek; cbn [fst snd]; [|constructor; auto; intros; now rewrite live_of_app, hL].
    destruct (afind o (b_mons b)) as [e0|] eqn:Eo; cbn [fst snd]; [|constructor; auto; intros; now rewrite live_of_app, hL].
    pose proof (afind_Some_In _ _ _ Ek) as Hin. pose proof (hB _ _ Hin) as Hbb.
    set (b' := {| b_id := b_id b; b_mons := aremove o (b_mons b); b_susp := b_susp b |}).
    constructor; cbn [runs nrun].
    + now apply NoDup_keys_aset.
    + rewrite (ids_aset_same k b b'); auto.
    + intros k' b0 H. apply In_aset in H as [H|H]; [inversion H; subst; cbn; eapply hLt; eauto|now apply hLt in H].
    + intros k' b0 H. apply In_aset in H as [H|H]; [inversion H; subst; now apply binv_remove|eapply hB; eauto].
    + intros o' r c. rewrite live_of_app, hL. cbn.
      pose proof (cnt_aset k b b' (runs x) o' r c Ek) as Hc.
      destruct (N.eqb_spec o' o) as [->|N0]; cbn.
      * destruct (Nat.eqb_spec r (b_id b)) as [->|N1].
        -- pose proof (cnt_single k b (runs x) o c hI Hin) as Hs. rewrite Hs in Hc. unfold cnt_b in Hc. cbn [b_id b_mons b'] in Hc.
           rewrite Nat.eqb_refl in Hc. rewrite afind_aremove_eq in Hc by apply Hbb. cbn in Hc. lia.
        -- unfold cnt_b in Hc. cbn [b_id b'] in Hc. destruct (Nat.eqb_spec r (b_id b)); [congruence|]. lia.
      * unfold cnt_b in Hc. cbn [b_id b_mons b'] in Hc. rewrite afind_aremove_neq in Hc by assumption. lia.
  - (* PauseBlock *)
    pose proof (for_all_keys suspend_b (runs x)) as Hk. pose proof (for_all_ids suspend_b suspend_b_id (runs x)) as Hi.
    pose proof (for_all_In suspend_b (runs x)) as HIn.
    pose proof (fun o r c => for_all_cnt suspend_b suspend_b_id (fun b o r c _ => suspend_b_cnt b o r c)
                                       (fun b o r c n _ => suspend_b_other b o r c n) (runs x) o r c hB hI) as Hc.
    destruct (for_all suspend_b (runs x)) as [rs e]. cbn [fst snd] in *.
    constructor; cbn [runs nrun].
    + now rewrite Hk.
    + now rewrite Hi.
    + intros k b H. destruct (HIn _ _ H) as (b0 & H0 & ->). rewrite suspend_b_id. eapply hLt; eauto.
    + intros k b H. destruct (HIn _ _ H) as (b0 & H0 & ->). apply suspend_b_binv. eapply hB; eauto.
    + intros o r c. rewrite live_of_app, hL. apply Hc.
  - (* ResumeWake *)
    pose proof (for_all_keys restore_b (runs x)) as Hk. pose proof (for_all_ids restore_b restore_b_id (runs x)) as Hi.
    pose proof (for_all_In restore_b (runs x)) as HIn.
    pose proof (fun o r c => for_all_cnt restore_b restore_b_id (fun b o r c Hb => restore_b_cnt b o r c Hb)
                                       (fun b o r c n Hb => restore_b_other b o r c n Hb) (runs x) o r c hB hI) as Hc.
    destruct (for_all restore_b (runs x)) as [rs e]. cbn [fst snd] in *.
    constructor; cbn [runs nrun].
    + now rewrite Hk.
    + now rewrite Hi.
    + intros k b H. destruct (HIn _ _ H) as (b0 & H0 & ->). rewrite restore_b_id. eapply hLt; eauto.
    + intros k b H. destruct (HIn _ _ H) as (b0 & H0 & ->). apply restore_b_binv. eapply hB; eauto.
    + intros o r c. rewrite live_of_app, hL. apply Hc.
  - (* SuspendStart *)
    pose proof (for_all_keys suspend_b (runs x)) as Hk. pose proof (for_all_ids suspend_b suspend_b_id (runs x)) as Hi.
    pose proof (for_all_In suspend_b (runs x)) as HIn.
    pose proof (fun o r c => for_all_cnt suspend_b suspend_b_id (fun b o r c _ => suspend_b_cnt b o r c)
                                       (fun b o r c n _ => suspend_b_other b o r c n) (runs x) o r c hB hI) as Hc.
    destruct (for_all suspend_b (runs x)) as [rs e]. cbn [fst snd] in *.
    constructor; cbn [runs nrun].
    + now rewrite Hk.
    + now rewrite Hi.
    + intros k b H. destruct (HIn _ _ H) as (b0 & H0 & ->). rewrite suspend_b_id. eapply hLt; eauto.
    + intros k b H. destruct (HIn _ _ H) as (b0 & H0 & ->). apply suspend_b_binv. eapply hB; eauto.
    + intros o r c. rewrite live_of_app, hL. apply Hc.
  - (* SuspendResume *)
    pose proof (for_all_keys restore_b (runs x)) as Hk. pose proof (for_all_ids restore_b restore_b_id (runs x)) as Hi.
    pose proof (for_all_In restore_b (runs x)) as HIn.
    pose proof (fun o r c => for_all_cnt restore_b restore_b_id (fun b o r c Hb => restore_b_cnt b o r c Hb)
                                       (fun b o r c n Hb => restore_b_other b o r c n Hb) (runs x) o r c hB hI) as Hc.
    destruct (for_all restore_b (runs x)) as [rs e]. cbn [fst snd] in *.
    constructor; cbn [runs nrun].
    + now rewrite Hk.
    + now rewrite Hi.
    + intros k b H. destruct (HIn _ _ H) as (b0 & H0 & ->). rewrite restore_b_id. eapply hLt; eauto.
    + intros k b H. destruct (HIn _ _ H) as (b0 & H0 & ->). apply restore_b_binv. eapply hB; eauto.
    + intros o r c. rewrite live_of_app, hL. apply Hc.
  - (* Finalize *)
    cbn [fst snd]. constructor; cbn [runs nrun]; [constructor|constructor|cbn; tauto|cbn; tauto|].
    intros o r c. rewrite live_of_app, hL. cbn.
    clear hK hLt hL I. induction (runs x) as [|[k b] t IH]; cbn; [reflexivity|].
    inversion hI as [|? ? Hn ND']; subst. rewrite live_from_app. unfold clr_all at 1. rewrite live_clr.
    assert (Hbt : forall k0 b0, In (k0, b0) t -> binv b0) by (intros; eapply hB; right; eauto).
    specialize (IH ND' Hbt).
    destruct (Nat.eqb_spec r (b_id b)) as [->|N0].
    + rewrite (cnt_no_id t) in * by assumption. unfold cnt_b. rewrite Nat.eqb_refl.
      destruct (afind o (b_mons b)); [exact IH|]. cbn. exact IH.
    + unfold cnt_b. destruct (Nat.eqb_spec r (b_id b)); [congruence|]. cbn. destruct (afind o (b_mons b)); exact IH.
  - (* Update *)
    cbn [fst snd]. constructor; auto. intros o' r c. rewrite live_of_app, hL. apply live_events.
    clear. induction (runs x) as [|[k b] t IH]; cbn; [reflexivity|]. rewrite forallb_app, IH, andb_true_r.
    destruct (afind o (b_mons b)) as [[ch n]|]; [|reflexivity]. destruct (N.eqb c0 ch); [|reflexivity]. induction n; cbn; auto.
Qed.

Lemma inv_run h : forall x L, Inv x L -> Inv (fst (run_from x h)) (L ++ snd (run_from x h)).
Proof.
  induction h as [|a h IH]; intros x L I; cbn.
  - now rewrite app_nil_r.
  - pose proof (inv_step _ _ a I) as I1. destruct (step x a) as [x1 e1]. cbn [fst snd] in I1.
    specialize (IH _ _ I1). destruct (run_from x1 h) as [x2 e2]. cbn [fst snd] in *. now rewrite app_assoc.
Qed.

Lemma inv_history h : Inv (mstate h) (mlog h).
Proof. exact (inv_run h _ _ inv_init). Qed.

(* ------------------------------------------------------------------ model state vs specification state *)

Definition gm (l : list (N * (N * nat))) : list (N * N) := map (fun oc => (fst oc, fst (snd oc))) l.
Definition gb (b : bund) : nat * list (N * N) := (b_id b, gm (b_mons b)).
Definition gmap (l : list (key * bund)) : list (key * (nat * list (N * N))) := map (fun kb => (fst kb, gb (snd kb))) l.

Definition srel (x : state) (s : sstate) : Prop := sruns s = gmap (runs x) /\ snrun s = nrun x.
Definition drel (x : state) (s : sstate) : Prop := forall k b, In (k, b) (runs x) -> b_susp b = depth s.

Lemma aremove_absent {A} k (l : list (key * A)) : afind k l = None -> aremove k l = l.
Proof.
  induction l as [|[k1 v1] t IH]; cbn; [reflexivity|]. destruct (N.eqb k k1); [discriminate|]. intros E. now rewrite IH.
Qed.

Lemma aset_same {A} k v (l : list (key * A)) : afind k l = Some v -> aset k v l = l.
Proof.
  induction l as [|[k1 v1] t IH]; cbn; [discriminate|]. destruct (N.eqb_spec k k1) as [->|N0].
  - intros E; inversion E; now subst.
  - intros E. now rewrite IH.
Qed.

Lemma afind_gm o l : afind o (gm l) = option_map fst (afind o l).
Proof. unfold gm. apply (afind_map_vals fst). Qed.

Lemma aremove_gm o l : aremove o (gm l) = gm (aremove o l).
Proof. unfold gm. apply (aremove_map_vals fst). Qed.

Lemma mon_on_gm o c l : mon_on o c (gm l) = match afind o l with Some (ch, _) => N.eqb c ch | None => false end.
Proof. unfold mon_on. rewrite afind_gm. now destruct (afind o l) as [[ch n]|]. Qed.

Lemma gm_map_cnt (g : N * (N * nat) -> nat) l : gm (map (fun oc => (fst oc, (fst (snd oc), g oc))) l) = gm l.
Proof. unfold gm. now rewrite map_map. Qed.

Lemma gmap_for_all f l : (forall b, gb (fst (f b)) = gb b) -> gmap (fst (for_all f l)) = gmap l.
Proof.
  intros Hg. induction l as [|[k b] t IH]; cbn; [reflexivity|].
  pose proof (Hg b) as Hb. destruct (f b) as [b' e]. destruct (for_all f t) as [t' e']. cbn in *. now rewrite IH, Hb.
Qed.

Lemma gb_suspend b : gb (fst (suspend_b b)) = gb b.
Proof. unfold suspend_b, gb. destruct (b_susp b); cbn [fst b_id b_mons]; [|reflexivity]. now rewrite (gm_map_cnt (fun _ => 0)). Qed.
Lemma gb_restore b : gb (fst (restore_b b)) = gb b.
Proof.
  unfold restore_b, gb. destruct (b_susp b) as [|[|n]]; cbn [fst b_id b_mons]; try reflexivity.
  now rewrite (gm_map_cnt (fun oc => S (snd (snd oc)))).
Qed.

Lemma srel_step x s a : srel x s -> srel (fst (step x a)) (sstep s a).
Proof.
  intros [Hr Hn]. unfold srel.
  assert (Hf : forall k, afind k (sruns s) = option_map gb (afind k (runs x))).
  { intros k. rewrite Hr. unfold gmap. apply afind_map_vals. }
  destruct a as [k|k|k o c0|k o| | | | | |o c0 v]; cbn [step sstep]; rewrite ?Hf.
  - destruct (afind k (runs x)) as [b|]; cbn [option_map fst runs nrun sruns snrun]; [now split|].
    split; [|congruence]. rewrite Hr. unfold gmap. rewrite map_app. cbn. now rewrite Hn.
  - destruct (afind k (runs x)) as [b|] eqn:Ek; cbn [fst runs nrun sruns snrun]; (split; [|assumption]); rewrite Hr; unfold gmap.
    + now rewrite aremove_map_vals.
    + rewrite aremove_map_vals. now rewrite aremove_absent.
  - destruct (afind k (runs x)) as [b|] eqn:Ek; cbn [option_map fst runs nrun sruns snrun]; [|now split].
    unfold gb. cbn iota. rewrite afind_gm.
    destruct (afind o (b_mons b)) as [c|]; cbn [option_map fst runs nrun sruns snrun]; [now split|].
    split; [|assumption]. rewrite Hr. unfold gmap. rewrite <- aset_map_vals. unfold gb, gm. cbn. now rewrite map_app.
  - destruct (afind k (runs x)) as [b|] eqn:Ek; cbn [option_map fst runs nrun sruns snrun]; [|now split].
    unfold gb. cbn iota. rewrite aremove_gm.
    destruct (afind o (b_mons b)) as [c|] eqn:Eo; cbn [fst runs nrun sruns snrun]; (split; [|assumption]).
    + rewrite Hr. unfold gmap. rewrite <- aset_map_vals. reflexivity.
    + rewrite aremove_absent by assumption. rewrite aset_same; [assumption|]. rewrite Hf, Ek. reflexivity.
  - pose proof (gmap_for_all suspend_b (runs x) gb_suspend) as H. destruct (for_all suspend_b (runs x)); cbn in *. split; congruence.
  - pose proof (gmap_for_all restore_b (runs x) gb_restore) as H. destruct (for_all restore_b (runs x)); cbn in *. split; congruence.
  - pose proof (gmap_for_all suspend_b (runs x) gb_suspend) as H. destruct (for_all suspend_b (runs x)); cbn in *. split; congruence.
  - pose proof (gmap_for_all restore_b (runs x) gb_restore) as H. destruct (for_all restore_b (runs x)); cbn in *. split; congruence.
  - cbn. now split.
  - cbn. now split.
Qed.

Lemma srel_run h : forall x s, srel x s -> srel (fst (run_from x h)) (fold_left sstep h s).
Proof.
  induction h as [|a h IH]; intros x s R; cbn; [assumption|].
  pose proof (srel_step _ _ a R) as R1. destruct (step x a) as [x1 e1]. cbn [fst] in R1.
  specialize (IH _ _ R1). destruct (run_from x1 h) as [x2 e2]. exact IH.
Qed.

Lemma srel_history h : srel (mstate h) (srun h).
Proof. apply srel_run. split; reflexivity. Qed.

(* ------------------------------------------------------------------ live registrations, all histories *)

Lemma cnt_le_1 l o r c : NoDup (ids l) -> (forall k b, In (k, b) l -> binv b) -> cnt l o r c <= 1.
Proof.
  induction l as [|[k b] t IH]; cbn; intros ND Hb; [lia|]. inversion ND as [|? ? Hn ND']; subst.
  assert (Hbt : forall k0 b0, In (k0, b0) t -> binv b0) by (intros; eapply Hb; right; eauto).
  specialize (IH ND' Hbt). unfold cnt_b. destruct (Nat.eqb_spec r (b_id b)) as [->|N0]; [|lia].
  rewrite cnt_no_id by assumption. destruct (afind o (b_mons b)) as [[ch n]|] eqn:Eo; cbn; [|lia].
  apply afind_Some_In in Eo. destruct (Hb k b (or_introl eq_refl)) as [_ Hc]. apply Hc in Eo.
  destruct (N.eqb c ch); destruct (b_susp b); lia.
Qed.

Lemma cnt_unmonitored l o r c :
  existsb (fun kro => Nat.eqb (fst (snd kro)) r && mon_on o c (snd (snd kro))) (gmap l) = false -> cnt l o r c = 0.
Proof.
  induction l as [|[k b] t IH]; [reflexivity|]. cbn [gmap map existsb fst snd gb cnt]. fold (gmap t).
  intros H. apply orb_false_iff in H as [H1 H2].
  rewrite IH by assumption. unfold cnt_b. rewrite mon_on_gm in H1. rewrite Nat.eqb_sym in H1.
  destruct (Nat.eqb r (b_id b)); [|reflexivity]. cbn in H1. destruct (afind o (b_mons b)) as [[ch n]|]; cbn; [|reflexivity].
  now rewrite H1.
Qed.

Theorem never_two_registrations h o r c : live_of (mlog h) o r c <= 1.
Proof.
  pose proof (inv_history h) as I. rewrite (iL _ _ I). apply cnt_le_1; [apply (iIds _ _ I)|apply (iB _ _ I)].
Qed.

Theorem no_residual_subscription h o r c : monitored (srun h) r o c = false -> live_of (mlog h) o r c = 0.
Proof.
  intros H. pose proof (inv_history h) as I. rewrite (iL _ _ I). apply cnt_unmonitored.
  destruct (srel_history h) as [Hr _]. unfold monitored in H. now rewrite Hr in H.
Qed.

(* an update calls every live registration: per open run, as many Event documents as the ledger shows
   live registrations of that run's callback *)
Lemma flat_map_ext_in {A B} (f g : A -> list B) l : (forall a, In a l -> f a = g a) -> flat_map f l = flat_map g l.
Proof.
  induction l as [|a t IH]; cbn; intros H; [reflexivity|]. rewrite (H a) by now left. rewrite IH; [reflexivity|].
  intros; apply H; now right.
Qed.

Theorem update_calls_live_registrations h o c v :
  step (mstate h) (Update o c v)
  = (mstate h, flat_map (fun kb => repeat (EEvent (b_id (snd kb)) o v) (live_of (mlog h) o (b_id (snd kb)) c))
                        (runs (mstate h))).
Proof.
  pose proof (inv_history h) as I. cbn [step]. f_equal. apply flat_map_ext_in. intros [k b] Hin. cbn [snd].
  rewrite (iL _ _ I), (cnt_single k b) by (try apply (iIds _ _ I); assumption).
  unfold cnt_b, cnt_e. rewrite Nat.eqb_refl. destruct (afind o (b_mons b)) as [[ch n]|]; [|reflexivity].
  now destruct (N.eqb c ch).
Qed.

(* ------------------------------------------------------------------ outside class g: suspended counters are the depth *)

Lemma for_all_In_susp f l k b' : In (k, b') (fst (for_all f l)) -> exists b, In (k, b) l /\ b' = fst (f b).
Proof. apply for_all_In. Qed.

Lemma drel_step x s a L : Inv x L -> srel x s -> drel x s ->
  (match a with
   | OpenRun k => match afind k (sruns s) with None => negb (Nat.eqb (depth s) 0) | Some _ => false end
   | _ => false
   end) = false ->
  drel (fst (step x a)) (sstep s a).
Proof.
  intros I [Hr Hn] D Hwf. unfold drel in *.
  destruct a as [k|k|k o c0|k o| | | | | |o c0 v]; cbn [step sstep].
  - rewrite Hr in *. unfold gmap in *. rewrite afind_map_vals in *.
    destruct (afind k (runs x)) as [b|]; cbn [option_map fst runs depth] in *; [assumption|].
    intros k' b' H. apply in_app_iff in H as [H|[H|[]]]; [now apply D in H|]. inversion H; subst. cbn.
    apply negb_false_iff in Hwf. apply Nat.eqb_eq in Hwf. congruence.
  - destruct (afind k (runs x)) as [b|]; cbn [fst runs depth]; [|assumption].
    intros k' b' H. apply In_aremove in H. now apply D in H.
  - destruct (afind k (runs x)) as [b|] eqn:Ek; cbn [fst]; [|rewrite Hr; unfold gmap; rewrite afind_map_vals, Ek; exact D].
    rewrite Hr. unfold gmap. rewrite afind_map_vals, Ek. cbn [option_map]. unfold gb. rewrite afind_gm.
    destruct (afind o (b_mons b)) as [c|]; cbn [option_map fst runs depth]; [assumption|].
    intros k' b' H. apply In_aset in H as [H|H]; [|now apply D in H]. inversion H; subst. cbn.
    apply afind_Some_In in Ek. now apply D in Ek.
  - destruct (afind k (runs x)) as [b|] eqn:Ek; cbn [fst]; [|rewrite Hr; unfold gmap; rewrite afind_map_vals, Ek; exact D].
    rewrite Hr. unfold gmap. rewrite afind_map_vals, Ek. cbn [option_map]. unfold gb.
    destruct (afind o (b_mons b)) as [c|]; cbn [fst runs depth]; [|assumption].
    intros k' b' H. apply In_aset in H as [H|H]; [|now apply D in H]. inversion H; subst. cbn.
    apply afind_Some_In in Ek. now apply D in Ek.
  - pose proof (for_all_In suspend_b (runs x)) as HIn. destruct (for_all suspend_b (runs x)); cbn in *.
    intros k b H. destruct (HIn _ _ H) as (b0 & H0 & ->). apply D in H0. unfold suspend_b. rewrite H0. now destruct (depth s).
  - pose proof (for_all_In restore_b (runs x)) as HIn. destruct (for_all restore_b (runs x)); cbn in *.
    intros k b H. destruct (HIn _ _ H) as (b0 & H0 & ->). apply D in H0. unfold restore_b. rewrite H0. now destruct (depth s) as [|[|n]].
  - pose proof (for_all_In suspend_b (runs x)) as HIn. destruct (for_all suspend_b (runs x)); cbn in *.
    intros k b H. destruct (HIn _ _ H) as (b0 & H0 & ->). apply D in H0. unfold suspend_b. rewrite H0. now destruct (depth s).
  - pose proof (for_all_In restore_b (runs x)) as HIn. destruct (for_all restore_b (runs x)); cbn in *.
    intros k b H. destruct (HIn _ _ H) as (b0 & H0 & ->). apply D in H0. unfold restore_b. rewrite H0. now destruct (depth s) as [|[|n]].
  - cbn. tauto.
  - cbn. assumption.
Qed.

(* what an update emits, given binv and susp = depth *)
Lemma update_events l s o c v :
  (forall k b, In (k, b) l -> binv b /\ b_susp b = depth s) ->
  flat_map (fun kb => match afind o (b_mons (snd kb)) with
                      | Some (ch, n) => if N.eqb c ch then repeat (EEvent (b_id (snd kb)) o v) n else []
                      | None => []
                      end) l
  = match depth s with
    | O => flat_map (fun kro => if mon_on o c (snd (snd kro)) then [EEvent (fst (snd kro)) o v] else []) (gmap l)
    | S _ => []
    end.
Proof.
  induction l as [|[k b] t IH]; intros H; cbn [flat_map gmap map fst snd gb].
  - now destruct (depth s).
  - fold (gmap t). rewrite IH by (intros k' b' Hin; apply (H k' b'); now right). destruct (H k b (or_introl eq_refl)) as [[_ Hc] Hs].
    rewrite mon_on_gm. destruct (afind o (b_mons b)) as [[ch n]|] eqn:Eo.
    + apply afind_Some_In in Eo. apply Hc in Eo. rewrite Hs in Eo. subst n. destruct (N.eqb c ch); now destruct (depth s).
    + now destruct (depth s).
Qed.

Definition no_events (e : list ev) : Prop := filter is_event e = [].

Lemma no_events_app e1 e2 : no_events e1 -> no_events e2 -> no_events (e1 ++ e2).
Proof. unfold no_events. intros H1 H2. now rewrite filter_app, H1, H2. Qed.

Lemma no_events_clr b : no_events (clr_all b).
Proof. unfold no_events, clr_all. induction (b_mons b); cbn; auto. Qed.
Lemma no_events_sub b : no_events (sub_all b).
Proof. unfold no_events, sub_all. induction (b_mons b); cbn; auto. Qed.

Lemma no_events_for_all f l : (forall b, no_events (snd (f b))) -> no_events (snd (for_all f l)).
Proof.
  intros Hf. induction l as [|[k b] t IH]; cbn; [reflexivity|].
  pose proof (Hf b) as Hb. destruct (f b) as [b' e]. destruct (for_all f t) as [t' e']. cbn in *. now apply no_events_app.
Qed.

Lemma no_events_suspend b : no_events (snd (suspend_b b)).
Proof. unfold suspend_b. destruct (b_susp b); cbn; [apply no_events_clr|reflexivity]. Qed.
Lemma no_events_restore b : no_events (snd (restore_b b)).
Proof. unfold restore_b. destruct (b_susp b) as [|[|n]]; cbn; try reflexivity. apply no_events_sub. Qed.

Lemma no_events_finalize (l : list (key * bund)) : no_events (flat_map (fun kb => clr_all (snd kb)) l).
Proof. induction l as [|[k b] t IH]; cbn; [reflexivity|]. apply no_events_app; [apply no_events_clr|exact IH]. Qed.

Lemma filter_events_repeat l o c v :
  filter is_event (flat_map (fun kb : key * bund => match afind o (b_mons (snd kb)) with
                      | Some (ch, n) => if N.eqb c ch then repeat (EEvent (b_id (snd kb)) o v) n else []
                      | None => []
                      end) l)
  = flat_map (fun kb : key * bund => match afind o (b_mons (snd kb)) with
                      | Some (ch, n) => if N.eqb c ch then repeat (EEvent (b_id (snd kb)) o v) n else []
                      | None => []
                      end) l.
Proof.
  induction l as [|[k b] t IH]; cbn; [reflexivity|]. rewrite filter_app, IH. f_equal.
  destruct (afind o (b_mons b)) as [[ch n]|]; [|reflexivity]. destruct (N.eqb c ch); [|reflexivity].
  induction n; cbn; [reflexivity|now f_equal].
Qed.

Lemma step_events x s a L : Inv x L -> srel x s -> drel x s ->
  filter is_event (snd (step x a)) = match a with Update o c v => spec_events s o c v | _ => [] end.
Proof.
  intros I [Hr Hn] D.
  destruct a as [k|k|k o c0|k o| | | | | |o c0 v]; cbn [step].
  - now destruct (afind k (runs x)).
  - destruct (afind k (runs x)); cbn [snd]; [|reflexivity]. apply no_events_app; [apply no_events_clr|reflexivity].
  - destruct (afind k (runs x)) as [b|]; [|reflexivity]. destruct (afind o (b_mons b)); [reflexivity|]. cbn [snd].
    now destruct (b_susp b).
  - destruct (afind k (runs x)) as [b|]; [|reflexivity]. now destruct (afind o (b_mons b)).
  - pose proof (no_events_for_all suspend_b (runs x) no_events_suspend). now destruct (for_all suspend_b (runs x)).
  - pose proof (no_events_for_all restore_b (runs x) no_events_restore). now destruct (for_all restore_b (runs x)).
  - pose proof (no_events_for_all suspend_b (runs x) no_events_suspend). now destruct (for_all suspend_b (runs x)).
  - pose proof (no_events_for_all restore_b (runs x) no_events_restore). now destruct (for_all restore_b (runs x)).
  - cbn [snd]. apply no_events_finalize.
  - cbn [snd]. rewrite filter_events_repeat. unfold spec_events. rewrite Hr. apply update_events.
    intros k b H. split; [eapply (iB _ _ I); eauto|now apply D in H].
Qed.

Lemma events_run h : forall x s L, Inv x L -> srel x s -> drel x s -> open_while_quiet_from s h = false ->
  filter is_event (snd (run_from x h)) = spec_log_from s h.
Proof.
  induction h as [|a h IH]; intros x s L I R D Hwf; cbn; [reflexivity|].
  cbn in Hwf. apply orb_false_iff in Hwf as [Hw1 Hw2].
  pose proof (step_events _ _ a _ I R D) as He. pose proof (inv_step _ _ a I) as I1.
  pose proof (srel_step _ _ a R) as R1. pose proof (drel_step _ _ a _ I R D Hw1) as D1.
  destruct (step x a) as [x1 e1]. cbn [fst snd] in *.
  specialize (IH _ _ _ I1 R1 D1 Hw2). destruct (run_from x1 h) as [x2 e2]. cbn [snd] in *.
  rewrite filter_app, He, IH. reflexivity.
Qed.

(* the property: outside class g the Event documents of a history are exactly those the specification asks for *)
Theorem events_iff_running h : finding_C41_g h = false -> filter is_event (mlog h) = spec_log h.
Proof.
  intros H. apply (events_run h init sinit [] inv_init); [split; reflexivity|intros k b []|exact H].
Qed.

Lemma drel_run h : forall x s L, Inv x L -> srel x s -> drel x s -> open_while_quiet_from s h = false ->
  drel (fst (run_from x h)) (fold_left sstep h s).
Proof.
  induction h as [|a h IH]; intros x s L I R D Hwf; cbn; [assumption|].
  cbn in Hwf. apply orb_false_iff in Hwf as [Hw1 Hw2].
  pose proof (inv_step _ _ a I) as I1. pose proof (srel_step _ _ a R) as R1. pose proof (drel_step _ _ a _ I R D Hw1) as D1.
  destruct (step x a) as [x1 e1]. cbn [fst snd] in *.
  specialize (IH _ _ _ I1 R1 D1 Hw2). destruct (run_from x1 h) as [x2 e2]. exact IH.
Qed.

Lemma cnt_running l s o r c : NoDup (ids l) -> (forall k b, In (k, b) l -> binv b /\ b_susp b = depth s) ->
  cnt l o r c = if Nat.eqb (depth s) 0 && existsb (fun kro => Nat.eqb (fst (snd kro)) r && mon_on o c (snd (snd kro))) (gmap l)
              then 1 else 0.
Proof.
  induction l as [|[k b] t IH]; cbn [gmap map existsb fst snd gb cnt]; intros ND H; [now rewrite andb_false_r|].
  fold (gmap t). inversion ND as [|? ? Hn ND']; subst. rewrite IH by (try assumption; intros k' b' Hin; apply (H k' b'); now right).
  destruct (H k b (or_introl eq_refl)) as [[_ Hc] Hs]. unfold cnt_b. rewrite mon_on_gm, (Nat.eqb_sym (b_id b) r).
  destruct (Nat.eqb_spec r (b_id b)) as [->|N0]; cbn [andb orb]; [|reflexivity].
  assert (Ht : existsb (fun kro => Nat.eqb (fst (snd kro)) (b_id b) && mon_on o c (snd (snd kro))) (gmap t) = false).
  { apply not_true_is_false. intros Ht. apply existsb_exists in Ht as [[k' [r' os]] [Hin E]]. cbn in E.
    apply andb_true_iff in E as [E _]. apply Nat.eqb_eq in E. subst r'. apply Hn.
    unfold gmap in Hin. apply in_map_iff in Hin as [[k0 b0] [E0 Hin]]. inversion E0; subst. eapply In_ids; eauto. }
  rewrite Ht, andb_false_r, orb_false_r. destruct (afind o (b_mons b)) as [[ch n]|] eqn:Eo; cbn.
  - apply afind_Some_In in Eo. apply Hc in Eo. rewrite Hs in Eo. subst n. destruct (N.eqb c ch); destruct (depth s); reflexivity.
  - now rewrite andb_false_r.
Qed.

Theorem live_iff_running h o r c : finding_C41_g h = false ->
  live_of (mlog h) o r c = if Nat.eqb (depth (srun h)) 0 && monitored (srun h) r o c then 1 else 0.
Proof.
  intros Hg. pose proof (inv_history h) as I. rewrite (iL _ _ I).
  pose proof (drel_run h init sinit [] inv_init (conj eq_refl eq_refl) (fun k b (H : In (k, b) []) => match H with end) Hg) as D.
  destruct (srel_history h) as [Hr _]. unfold monitored. rewrite Hr. apply cnt_running; [apply (iIds _ _ I)|].
  intros k b H. split; [eapply (iB _ _ I); eauto|now apply D in H].
Qed.
