(* C37 - file-name templates expand exactly like printf.

   Three executable models, no proofs in this file:

   (i)   [c_printf_d]    C99 7.19.6.1 semantics of the conversion  %[flags][width][.prec]d  for a
                         non-negative argument (a SPEC; validated against libc snprintf by the harness).
                         The '#' flag has no effect on d (C99 leaves it undefined; glibc ignores it).
   (ii)  [py_format_d], [py_str_format]
                         CPython 3.12 format mini-language for an int with presentation type d / none
                         (Python/formatter_unicode.c: parse_internal_render_format_spec, format_long_internal)
                         and str.format with ONE positional int argument (auto-numbered fields only).
   (iii) [expand_template], [get_datum_name]
                         MultipartRelatedConsolidator.__init__ / int_replacer / get_datum_uri of
                         src/bluesky/consolidators.py as coded (with fixes/C37-a.diff applied):
                           template.replace("%s","{:s}",1).replace("%s","").replace("{:s}",filename,1)
                           re.sub(<percent, flags [-+#0 ]*, optional digits, optional dot digits, d>, int_replacer, template)
                           template.format(indx)
   Strings are [list ascii]; numbers are [N]. *)
From BV Require Import Base.Prelude.
From Coq Require Import Ascii String NArith.
Local Open Scope char_scope.
Local Open Scope list_scope.
Notation length := List.length (only parsing).

Definition str := list ascii.
Definition L (x : string) : str := list_ascii_of_string x.     (* literal helper *)
Definition aeqb (a b : ascii) : bool := Ascii.eqb a b.
Definition str_beq : str -> str -> bool := list_beq Ascii.eqb.
Definition mem (c : ascii) (s : str) : bool := existsb (Ascii.eqb c) s.   (* Python: c in s *)

(* ---------------------------------------------------------------- decimal numerals *)

Definition is_digit (c : ascii) : bool := mem c (L "0123456789").
Definition digit_val (c : ascii) : N := (N_of_ascii c - 48)%N.
Definition digit_char (d : N) : ascii := ascii_of_N (48 + d)%N.

(* str(n) for n >= 0.  Explicit fuel; [Proofs.Printf.val_dec] shows the fuel always suffices. *)
Fixpoint dec_fuel (f : nat) (n : N) : str :=
  match f with
  | O => []
  | S f' => if (n <? 10)%N then [digit_char n]
            else dec_fuel f' (n / 10)%N ++ [digit_char (n mod 10)%N]
  end.
Definition dec (n : N) : str := dec_fuel (S (N.to_nat (N.log2 n))) n.

(* int(s) for a string of digits *)
Definition val (ds : str) : N := fold_left (fun a c => (a * 10 + digit_val c)%N) ds 0%N.

(* longest prefix satisfying p, and the rest  (\d+ , [-+#0 ]* , get_integer) *)
Fixpoint span (p : ascii -> bool) (s : str) : str * str :=
  match s with
  | c :: r => if p c then let (a, b) := span p r in (c :: a, b) else ([], s)
  | [] => ([], [])
  end.

Definition zeros (k : nat) : str := repeat "0" k.
Definition spaces (k : nat) : str := repeat " " k.

(* ---------------------------------------------------------------- (i) C printf %d *)

Inductive flagc := Fminus | Fplus | Fhash | Fzero | Fspace.
Definition flag_char (f : flagc) : ascii :=
  match f with Fminus => "-" | Fplus => "+" | Fhash => "#" | Fzero => "0" | Fspace => " " end.
Definition flagc_eqb (a b : flagc) : bool :=
  match a, b with
  | Fminus, Fminus | Fplus, Fplus | Fhash, Fhash | Fzero, Fzero | Fspace, Fspace => true
  | _, _ => false
  end.
Definition has (f : flagc) (fl : list flagc) : bool := existsb (flagc_eqb f) fl.

Definition c_sign (fl : list flagc) : str :=
  if has Fplus fl then ["+"] else if has Fspace fl then [" "] else [].

(* the digits after applying the precision: at least p digits; precision 0 and value 0 give no digits *)
Definition c_body (p : option N) (n : N) : str :=
  match p with
  | Some pp => if ((pp =? 0) && (n =? 0))%N then []
               else zeros (N.to_nat pp - length (dec n)) ++ dec n
  | None => dec n
  end.

Definition c_printf_d (fl : list flagc) (w p : option N) (n : N) : str :=
  let body := c_body p n in
  let sign := c_sign fl in
  let width := match w with Some ww => N.to_nat ww | None => O end in
  let pad := width - (length sign + length body) in
  if has Fminus fl then sign ++ body ++ spaces pad                       (* '-' overrides '0' *)
  else if has Fzero fl && (match p with None => true | Some _ => false end)
       then sign ++ zeros pad ++ body                                     (* '0' ignored if a precision is given *)
  else spaces pad ++ sign ++ body.

(* ---------------------------------------------------------------- (ii) Python format(int, spec) *)

Inductive pyres :=
| POk (s : str)
| PValueError
| PIndexError
| PAssertionError
| PUnmodelled.      (* outside the modelled fragment: never claimed, never compared *)

Definition papp (s : str) (r : pyres) : pyres :=
  match r with POk x => POk (s ++ x) | e => e end.

Record pyspec := {
  ps_fill : option ascii; ps_align : option ascii; ps_sign : option ascii;
  ps_zero : bool; ps_width : option N; ps_prec : option N; ps_type : option ascii }.

Inductive pyparse := PSpec (sp : pyspec) | PBad | PNotModelled.

Definition is_align (c : ascii) : bool := mem c (L "<>=^").
Definition is_sign (c : ascii) : bool := mem c (L "+- ").

Definition take1 (p : ascii -> bool) (s : str) : option ascii * str :=
  match s with
  | c :: r => if p c then (Some c, r) else (None, s)
  | [] => (None, s)
  end.

Definition parse_align (s : str) : option ascii * option ascii * str :=
  match s with
  | f :: a :: r => if is_align a then (Some f, Some a, r)
                   else if is_align f then (None, Some f, a :: r) else (None, None, s)
  | [f] => if is_align f then (None, Some f, []) else (None, None, s)
  | [] => (None, None, s)
  end.

Definition isSome {A} (o : option A) : bool := match o with Some _ => true | None => false end.

(* presentation types of int that exist but are not modelled here *)
Definition other_int_types : str := L "bcoxXneEfFgG%".

Definition parse_spec (s : str) : pyparse :=
  let '(fill, align, s1) := parse_align s in
  let (sign, s2) := take1 is_sign s1 in
  let (z, s3) := take1 (aeqb "z") s2 in
  let (alt, s4) := take1 (aeqb "#") s3 in
  let (zero, s5) := if isSome fill then (None, s4) else take1 (aeqb "0") s4 in
  let (wd, s6) := span is_digit s5 in
  let (grp, s7) := take1 (fun c => aeqb c "," || aeqb c "_") s6 in
  let pr := match s7 with
            | c :: r => if aeqb c "." then let (pd, r') := span is_digit r in
                                           match pd with [] => None | _ => Some (Some (val pd), r') end
                        else Some (None, s7)
            | [] => Some (None, s7)
            end in
  match pr with
  | None => PBad                                     (* "Format specifier missing precision" *)
  | Some (prec, s8) =>
    match s8 with
    | _ :: _ :: _ => PBad                            (* "Invalid format specifier" *)
    | _ =>
      if isSome z || isSome grp then PNotModelled
      else PSpec {| ps_fill := fill; ps_align := align; ps_sign := sign; ps_zero := isSome zero;
                    ps_width := match wd with [] => None | _ => Some (val wd) end;
                    ps_prec := prec; ps_type := hd_error s8 |}
    end
  end.

Definition format_int (sp : pyspec) (n : N) : pyres :=
  let ty := match ps_type sp with Some t => t | None => "d" end in
  if mem ty other_int_types then PUnmodelled
  else if negb (aeqb ty "d") then PValueError          (* unknown format code for int *)
  else if isSome (ps_prec sp) then PValueError         (* precision not allowed in integer format specifier *)
  else
    let ds := dec n in
    let sign := match ps_sign sp with
                | Some c => if aeqb c "+" then ["+"] else if aeqb c " " then [" "] else []
                | None => [] end in
    let fill := match ps_fill sp with Some f => f | None => if ps_zero sp then "0" else " " end in
    let align := match ps_align sp with Some a => a | None => if ps_zero sp then "=" else ">" end in
    let width := match ps_width sp with Some w => N.to_nat w | None => O end in
    let pad := width - (length sign + length ds) in
    POk (if aeqb align "<" then sign ++ ds ++ repeat fill pad
         else if aeqb align "^" then repeat fill (pad / 2) ++ sign ++ ds ++ repeat fill (pad - pad / 2)
         else if aeqb align "=" then sign ++ repeat fill pad ++ ds
         else repeat fill pad ++ sign ++ ds).

Definition py_format_d (spec : str) (n : N) : pyres :=
  match parse_spec spec with
  | PSpec sp => format_int sp n
  | PBad => PValueError
  | PNotModelled => PUnmodelled
  end.

(* text of a replacement field: everything up to the first closing brace *)
Fixpoint until_close (s : str) : option str :=
  match s with
  | [] => None
  | c :: r => if aeqb c "}" then Some []
              else match until_close r with Some f => Some (c :: f) | None => None end
  end.

(* "{}" and "{:spec}" only; explicit field names, conversions and nested fields are not modelled *)
Definition field_spec (f : str) : option str :=
  match f with
  | [] => Some []
  | c :: r => if aeqb c ":" then Some r else None
  end.

(* template.format(n) ; [skip] characters are consumed without being looked at, [nfield] counts the
   auto-numbered fields seen so far (only argument 0 exists) *)
Fixpoint fmt_loop (skip nfield : nat) (n : N) (t : str) : pyres :=
  match t with
  | [] => POk []
  | c :: t' =>
    match skip with
    | S k => fmt_loop k nfield n t'
    | O =>
      if aeqb c "{" then
        match t' with
        | [] => PValueError                               (* single '{' *)
        | c2 :: _ =>
          if aeqb c2 "{" then papp ["{"] (fmt_loop 1 nfield n t')
          else match until_close t' with
               | None => PValueError                      (* expected '}' before end of string *)
               | Some f =>
                 if mem "{" f then PUnmodelled
                 else match field_spec f with
                      | None => PUnmodelled
                      | Some spec =>
                        match nfield with
                        | O => match py_format_d spec n with
                               | POk s => papp s (fmt_loop (S (length f)) 1 n t')
                               | e => e
                               end
                        | S _ => PIndexError               (* replacement index 1 out of range *)
                        end
                      end
               end
        end
      else if aeqb c "}" then
        match t' with
        | c2 :: _ => if aeqb c2 "}" then papp ["}"] (fmt_loop 1 nfield n t') else PValueError
        | [] => PValueError                               (* single '}' *)
        end
      else papp [c] (fmt_loop 0 nfield n t')
    end
  end.
Definition py_str_format (t : str) (n : N) : pyres := fmt_loop 0 0 n t.

(* ---------------------------------------------------------------- (iii) the consolidator's code *)

Fixpoint strip_prefix (pat s : str) : option str :=
  match pat, s with
  | [], _ => Some s
  | a :: pat', b :: s' => if aeqb a b then strip_prefix pat' s' else None
  | _ :: _, [] => None
  end.

(* s.replace(pat, r, 1)   (pat non-empty) *)
Fixpoint replace_first (pat r s : str) : str :=
  match strip_prefix pat s with
  | Some rest => r ++ rest
  | None => match s with [] => [] | c :: s' => c :: replace_first pat r s' end
  end.

(* s.replace(pat, r)   (pat non-empty; leftmost non-overlapping occurrences) *)
Fixpoint replace_all_loop (skip : nat) (pat r s : str) : str :=
  match s with
  | [] => []
  | c :: s' =>
    match skip with
    | S k => replace_all_loop k pat r s'
    | O => match strip_prefix pat s with
           | Some _ => r ++ replace_all_loop (length pat - 1) pat r s'
           | None => c :: replace_all_loop 0 pat r s'
           end
    end
  end.
Definition replace_all (pat r s : str) : str := replace_all_loop 0 pat r s.

Definition is_flag (c : ascii) : bool := mem c (L "-+#0 ").

(* one attempt of the regex (flags [-+#0 ]* ; optional \d+ ; optional dot \d+ ; d) right after a '%':
   groups (flags, width, precision) and the number of characters matched.  Greedy choices are
   final here: giving characters back never turns a failed attempt into a match for this pattern. *)
Definition try_match (s : str) : option (str * option str * option str * nat) :=
  let (fl, s1) := span is_flag s in
  let (w, s2) := span is_digit s1 in
  let '(p, s3) := match s2 with
                  | c :: r => if aeqb c "." then let (pd, r') := span is_digit r in
                                                 match pd with [] => (None, s2) | _ => (Some pd, r') end
                              else (None, s2)
                  | [] => (None, s2)
                  end in
  match s3 with
  | c :: _ => if aeqb c "d"
              then Some (fl, match w with [] => None | _ => Some w end, p,
                         length fl + length w + match p with Some pd => S (length pd) | None => O end + 1)
              else None
  | [] => None
  end.

(* int_replacer (fixes/C37-a.diff): groups -> new-style replacement field *)
Definition int_replacer (fl : str) (w p : option str) : str :=
  let sign := if mem "+" fl then ["+"] else if mem " " fl then [" "] else [] in
  match p with
  | Some pd =>
      let min_width := N.max (val pd + N.of_nat (length sign)) (match w with Some wd => val wd | None => 0%N end) in
      L "{:" ++ sign ++ ["0"] ++ dec min_width ++ L "d}"
  | None =>
      let align := if mem "-" fl then ["<"] else [] in
      let zero := if mem "0" fl && negb (mem "-" fl) then ["0"] else [] in
      L "{:" ++ align ++ sign ++ zero ++ (match w with Some wd => wd | None => [] end) ++ L "d}"
  end.

Fixpoint sub_loop (skip : nat) (s : str) : str :=
  match s with
  | [] => []
  | c :: s' =>
    match skip with
    | S k => sub_loop k s'
    | O => if aeqb c "%" then
             match try_match s' with
             | Some (fl, w, p, consumed) => int_replacer fl w p ++ sub_loop consumed s'
             | None => c :: sub_loop 0 s'
             end
           else c :: sub_loop 0 s'
    end
  end.
Definition re_sub_int (s : str) : str := sub_loop 0 s.

Definition subst_filename (template filename : str) : str :=
  replace_first (L "{:s}") filename (replace_all (L "%s") [] (replace_first (L "%s") (L "{:s}") template)).

Definition expand_template (template filename : str) : str := re_sub_int (subst_filename template filename).

(* os.path.splitext(p)[1] (posixpath): the text from the last dot of the last path component, unless
   that component has nothing but dots before it.  The scan runs over the reversed string; [acc]
   collects the characters after the dot. *)
Fixpoint nondot_before_sep (rev_s : str) : bool :=
  match rev_s with
  | [] => false
  | c :: r => if aeqb c "/" then false else if aeqb c "." then nondot_before_sep r else true
  end.
Fixpoint ext_scan (rev_s acc : str) : str :=
  match rev_s with
  | [] => []
  | c :: r => if aeqb c "/" then []
              else if aeqb c "." then (if nondot_before_sep r then "." :: acc else [])
              else ext_scan r (c :: acc)
  end.
Definition splitext_ext (p : str) : str := ext_scan (rev p) [].

Definition ext_ok (exts : list str) (tmpl : str) : bool := existsb (str_beq (splitext_ext tmpl)) exts.
Definition tiff_exts : list str := [L ".tif"; L ".tiff"].
Definition jpeg_exts : list str := [L ".jpeg"; L ".jpg"].

(* get_datum_uri(n) without the uri prefix: the assert on the extension, then template.format(n) *)
Definition get_datum_name (exts : list str) (template filename : str) (n : N) : pyres :=
  let t := expand_template template filename in
  if ext_ok exts t then py_str_format t n else PAssertionError.

(* ---------------------------------------------------------------- the template grammar of the property *)

Record conv := { cv_flags : list flagc; cv_width : option positive; cv_lz : nat; cv_prec : option N }.
(* cv_lz = number of redundant leading zeros the precision is written with ("%.05d") *)

Definition cv_w (c : conv) : option N := option_map Npos (cv_width c).

Definition conv_body (c : conv) : str :=
  map flag_char (cv_flags c)
  ++ (match cv_width c with Some w => dec (Npos w) | None => [] end)
  ++ (match cv_prec c with Some p => ["."] ++ zeros (cv_lz c) ++ dec p | None => [] end)
  ++ ["d"].
Definition render_conv (c : conv) : str := "%" :: conv_body c.

(* "a precision no smaller than the width" (when both are given) *)
Definition in_domain (c : conv) : Prop :=
  match cv_width c, cv_prec c with Some w, Some p => (Npos w <= p)%N | _, _ => True end.
Definition in_domainb (c : conv) : bool :=
  match cv_width c, cv_prec c with Some w, Some p => (Npos w <=? p)%N | _, _ => true end.

(* finding C37-e: precision 0 prints NO digits for the value 0 in C; no Python format spec does that *)
Definition finding_C37_e (c : conv) (n : N) : bool :=
  match cv_prec c with Some p => ((p =? 0) && (n =? 0))%N | None => false end.

Inductive seg := Lit (s : str) | PctS | Conv (c : conv).
Definition render_seg (x : seg) : str :=
  match x with Lit s => s | PctS => L "%s" | Conv c => render_conv c end.
Definition render (t : list seg) : str := flat_map render_seg t.

Definition plain_char (c : ascii) : bool := negb (aeqb c "%" || aeqb c "{" || aeqb c "}").
Definition plain (s : str) : bool := forallb plain_char s.
Definition plain_seg (x : seg) : bool :=
  match x with Lit s => plain s | PctS => true | Conv _ => false end.

(* what printf gives for the template: the first %s receives the file name, further %s the empty
   string (the directory part lives in the uri), the integer conversion receives the index *)
Fixpoint c_expand (first : bool) (t : list seg) (fname : str) (n : N) : str :=
  match t with
  | [] => []
  | Lit s :: r => s ++ c_expand first r fname n
  | PctS :: r => (if first then fname else []) ++ c_expand false r fname n
  | Conv c :: r => c_printf_d (cv_flags c) (cv_w c) (cv_prec c) n ++ c_expand first r fname n
  end.

(* ---------------------------------------------------------------- equality helpers for the cases files *)

Definition pyres_beq (a b : pyres) : bool :=
  match a, b with
  | POk x, POk y => str_beq x y
  | PValueError, PValueError | PIndexError, PIndexError | PUnmodelled, PUnmodelled
  | PAssertionError, PAssertionError => true
  | _, _ => false
  end.
Definition is_unmodelled (r : pyres) : bool := match r with PUnmodelled => true | _ => false end.

(* boolean restatement of the theorem, used when searching the model for a counterexample *)
Definition C37_holds_b (c : conv) (n : N) : bool :=
  negb (in_domainb c) || finding_C37_e c n ||
  pyres_beq (py_str_format (expand_template (render_conv c) []) n) (POk (c_printf_d (cv_flags c) (cv_w c) (cv_prec c) n)).
