(* C10, repaired defect C10-a (fixes/C10-a.diff): a 'pause' message processed INSIDE the plan's task while no
   checkpoint is in effect does not cancel its own task.  Before the repair `_request_pause_coro` always did
   `self._task.cancel()`; the main loop noticed the 'pausing' state by itself on its next turn, threw FailedPause into
   the plan and went aborting -- but the self-cancellation stayed pending and was delivered at the plan's next
   `await asyncio.sleep(0)`, in the middle of its clean-up, as a RequestAbort nobody had asked for.
   Step level: [pause_message_without_checkpoint_keeps_task]; on a recorded real run of the repaired code (plan:
   open_run; clear_checkpoint; pause; finally: null; null): [c10a_cleanup_runs]. *)
From Coq Require Import List String ZArith Bool Arith.
From BV Require Import Engine.RE Engine.REInst Proofs.RE_Inv Proofs.RE_Hold Proofs.RE_C10Ex.
Import ListNotations.

Section C10a.
Variable P : Type.
Variable D : Type.
Variable dev : D -> nat -> devmeth -> D * devres.
Local Notation st := (RE.st P D).

(* executing Msg('pause') (not deferred) where the engine may pause (lifecycle `running`) and no checkpoint is in
   effect: the engine goes `pausing`, is marked interrupted, the message is answered (it does not suspend), and the
   pending-cancellation flag of the task, the stacks, the stash, the checkpoint and the pc are what they were -- so the
   next turn of the loop ([failed_pause_at_top_of_loop]: pausing, cache = None) throws FailedPause and no cancellation
   is left behind for the plan's clean-up *)
Theorem pause_message_without_checkpoint_keeps_task (s : st) (m : msg) s' c o :
  mcmd m = CPause false -> RE.cache P D s = None -> allowed (RE.state P D s) Pausing = true ->
  RE.exec_cmd P D dev s m = (s', c, o) ->
  RE.must_cancel P D s' = RE.must_cancel P D s /\
  RE.state P D s' = Pausing /\ RE.interrupted P D s' = true /\ RE.cache P D s' = None /\
  RE.pc P D s' = RE.pc P D s /\ RE.permit P D s' = RE.permit P D s /\ RE.stashed P D s' = RE.stashed P D s /\
  RE.plans P D s' = RE.plans P D s /\ RE.resps P D s' = RE.resps P D s /\
  (exists r, c = Done r) /\
  (exists o2, o = OState (RE.state P D s) Pausing :: o2).
Proof.
  intros Hc Hca Hal H. unfold RE.exec_cmd in H. rewrite Hc in H.
  unfold RE.request_pause_in_task, RE.resumable in H. rewrite Hca in H.
  unfold RE.request_pause in H. rewrite Hal in H. cbn [negb] in H.
  match type of H with context [RE.set_state P D ?x Pausing] => set (s1 := x) in H end.
  assert (Hs1 : RE.state P D s1 = RE.state P D s /\ RE.cache P D s1 = RE.cache P D s /\ RE.pc P D s1 = RE.pc P D s /\
                RE.permit P D s1 = RE.permit P D s /\ RE.stashed P D s1 = RE.stashed P D s /\
                RE.plans P D s1 = RE.plans P D s /\ RE.resps P D s1 = RE.resps P D s /\ RE.interrupted P D s1 = true).
  { subst s1. destruct (RE.pc P D (RE.interrupt P D (RE.set_deferred P D s false) CzPause)) eqn:E; cbn in *;
      repeat split; try reflexivity; try exact E. }
  destruct Hs1 as (A1 & A2 & A3 & A4 & A5 & A6 & A7 & A8).
  unfold RE.set_state in H. rewrite A1, Hal in H.
  destruct (RE.record_interruptions P D (RE.set_state_raw P D s1 Pausing)) as [[s3 o2] ok] eqn:Er.
  apply (RE_Inv.record_interruptions_same P D) in Er.
  destruct Er as [(B1 & B2 & B3 & B4 & B5 & B6 & B7 & B8 & B9 & _) B10]. cbn in B1, B2, B3, B4, B5, B6, B7, B8, B9, B10.
  destruct ok; inversion H; subst s' c o; clear H.
  - pose proof (RE_Inv.cancel_task_spec P D s3) as (C1 & C2 & _ & C4 & _ & C6 & C7 & C8 & C9 & _ & _ & _ & C13 & _).
    cbn. rewrite C1, C2, C4, C6, C7, C8, C9, C13.
    repeat split; try congruence; eauto.
  - cbn. repeat split; try congruence; eauto.
Qed.

End C10a.

(* ------------------------------------------------------------------ the witness of C10-a on the repaired code
   real run (harness, repaired code) of the plan
       try: open_run; clear_checkpoint; pause    finally: null (mid 3); null (mid 4)
   The model reproduces every observation; after FailedPause the plan's two clean-up messages are both executed and
   nothing but FailedPause is ever thrown into the plan (the unrepaired code threw RequestAbort after message 3 and
   message 4 was never executed). *)
Definition ex_c10a_tapes : list (nat * list tout) := [(0, [TY {| mid := (Some 0); mcmd := COpenRun; mobj := None; mrun := 0 |}; TY {| mid := (Some 1); mcmd := CClearCheckpoint; mobj := None; mrun := 0 |}; TY {| mid := (Some 2); mcmd := (CPause false); mobj := None; mrun := 0 |}; TY {| mid := (Some 3); mcmd := CNull; mobj := None; mrun := 0 |}; TY {| mid := (Some 4); mcmd := CNull; mobj := None; mrun := 0 |}; TE EFailedPause])].
Definition ex_c10a_ledger : list devres := [].
Definition ex_c10a_evs : list event := [EvMain (ACall 0); EvPermit; EvTask; EvTask; EvTask; EvPermit; EvTask; EvTask; EvTask; EvTask; EvMainDone (ACall 0)].
Definition ex_c10a_paus := [2]. Definition ex_c10a_stag := [0; 3]. Definition ex_c10a_rec := false.
Definition ex_c10a_obs : list obs := [(OState Idle Running); (OTask WSleep0); (OPlanIn 0 (Send VNone)); (OMsg {| mid := (Some 0); mcmd := COpenRun; mobj := None; mrun := 0 |}); (ODoc (DStart 0)); (OResp (RVal (VUid 0))); (OTask WSleep0); (OPlanIn 0 (Send (VUid 0))); (OMsg {| mid := (Some 1); mcmd := CClearCheckpoint; mobj := None; mrun := 0 |}); (OResp (RVal VNone)); (OTask WSleep0); (OPlanIn 0 (Send VNone)); (OMsg {| mid := (Some 2); mcmd := (CPause false); mobj := None; mrun := 0 |}); (OState Running Pausing); (OResp (RVal VNone)); (OState Pausing Aborting); (OPlanIn 0 (Throw EFailedPause)); (OMsg {| mid := (Some 3); mcmd := CNull; mobj := None; mrun := 0 |}); (OResp (RVal VNone)); (OTask WSleep0); (OPlanIn 0 (Send VNone)); (OMsg {| mid := (Some 4); mcmd := CNull; mobj := None; mrun := 0 |}); (OResp (RVal VNone)); (OTask WSleep0); (OPlanIn 0 (Send VNone)); (OTask WSleep0); (ODoc (DStop 0 XAbort RsEmpty [])); (OState Aborting Idle); (OTask WReturn); (OOut OutInterrupted Idle false false)].

(* everything thrown into a plan *)
Definition thrown_of (l : list obs) : list exn :=
  flat_map (fun x => match x with OPlanIn _ (Throw e) => [e] | _ => [] end) l.

Example c10a_cleanup_runs :
  check ex_c10a_tapes ex_c10a_ledger ex_c10a_paus ex_c10a_stag ex_c10a_rec ex_c10a_evs ex_c10a_obs = true /\
  let o := model_obs ex_c10a_tapes ex_c10a_ledger ex_c10a_paus ex_c10a_stag ex_c10a_rec ex_c10a_evs in
  no_bad o = true /\ never_paused_b o = true /\
  thrown_of o = [EFailedPause] /\
  has_o (OMsg {| mid := Some 3; mcmd := CNull; mobj := None; mrun := 0 |}) o = true /\
  has_o (OMsg {| mid := Some 4; mcmd := CNull; mobj := None; mrun := 0 |}) o = true /\
  has_o (ODoc (DStop 0 XAbort RsEmpty [])) o = true /\
  has_o (OOut OutInterrupted Idle false false) o = true.
Proof. vm_compute. repeat split. Qed.

(* the hypotheses of [pause_message_without_checkpoint_keeps_task] hold where that run executes its pause message
   (after the first five events clear_checkpoint has been processed) *)
Example c10a_step_nonvacuous :
  let s := fst (wrun ex_c10a_tapes ex_c10a_ledger (winit ex_c10a_paus ex_c10a_stag ex_c10a_rec) (firstn 5 ex_c10a_evs)) in
  RE.cache TP nat s = None /\ allowed (RE.state TP nat s) Pausing = true /\ RE.must_cancel TP nat s = false /\
  let s' := fst (wrun ex_c10a_tapes ex_c10a_ledger s [EvTask]) in
  RE.state TP nat s' = Aborting /\ RE.must_cancel TP nat s' = false /\ RE.stashed TP nat s' = None /\
  RE.pc TP nat s' = PcSleep0.
Proof. vm_compute. repeat split. Qed.
