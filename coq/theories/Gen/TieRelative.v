(* Gen/TieRelative.v -- boolean comparison functions for the generated C24 correspondence cases (and the
   lazily_stage cases of C23).  MODEL SIDE ONLY.
   Message ids are indices into a per-case table of contents; [mk] = first index with that content (cf. Gen/TiePaired.v).
   Positions: the instance Z (Python ints) here; the instance binary64 (Python floats; contents compared bit for bit)
   is in Gen/TieRelativeF.v, which no Props file depends on (the binary64 primitives stay out of the theorems' cone). *)
From BV Require Import Base.Prelude Gen.Coalg Gen.PyGen Gen.Mutators Gen.Tie Gen.Paired Gen.Insert Gen.Relative Gen.During Gen.TiePaired.

Section TieRel.
  Context {T : Type}.
  Variable add : T -> T -> T.
  Variable zero : T.
  Variable teqb : T -> T -> bool.
  Variable comps : T -> list T.

  Definition rview_eqb (a b : rview T) : bool :=
    match a, b with
    | RSet d x g, RSet d' x' g' => Nat.eqb d d' && teqb x x' && Nat.eqb g g'
    | RLocate d, RLocate d' => Nat.eqb d d'
    | RRead d, RRead d' => Nat.eqb d d'
    | RWait g, RWait g' => Nat.eqb g g'
    | ROther c, ROther c' => Nat.eqb c c'
    | _, _ => false
    end.

  Fixpoint rindex_of (v : rview T) (tbl : list (rview T)) : nat :=
    match tbl with
    | [] => 0
    | x :: r => if rview_eqb v x then 0 else S (rindex_of v r)
    end.

  (* ids: content index + 64 * k; k = 0 for the plan's own objects and the wrappers' query / cleanup messages,
     k = n + 1 for the n-th object created by rewrite_pos (tables have fewer than 64 entries) *)
  Definition rmk_t (tbl : list (rview T)) : rview T -> msg := fun v => rindex_of v tbl.
  Definition rmkn_t (tbl : list (rview T)) : nat -> rview T -> msg := fun n v => rindex_of v tbl + 64 * S n.
  Definition rview_t (tbl : list (rview T)) : msg -> rview T := fun m => nth (Nat.modulo m 64) tbl (ROther 999).

  Definition pos_of_t (pos : list T) (v : val) : T :=
    match v with VInt z => nth (Z.to_nat z) pos zero | VNone => zero end.

  Definition kind_t (ks : list nat) (d : dev) : dkind :=
    match nth d ks 0 with 0 => KLocatable | 1 => KPosition | _ => KRead end.

  Definition elig_t (devs : option (list nat)) (d : dev) : bool :=
    match devs with None => true | Some l => mem_nat d l end.

  Fixpoint pseudos_t (t : list (dev * list dev)) (d : dev) : list dev :=
    match t with
    | [] => []
    | (k, l) :: r => if Nat.eqb d k then l else pseudos_t r d
    end.

  (* w = 0: relative_set_wrapper(plan, devs1)      w = 1: reset_positions_wrapper(plan, devs1)
     w = 2: reset_positions_wrapper(relative_set_wrapper(plan, devs1), devs2)   (rel_* scans, composed decorators)
     [init d] = obj.position;  [elig1/elig2] = the normalised `devices` sets (None: every device);  the device tree:
     [parents] (child, parent), [coupled] = coupled_parents, [pseudos] (pseudo-positioner, its pseudo axes) -- the same
     for both layers (the plans pass the same device list to both decorators).
     [fa] = the implementation-side mirror of finding class C24-a on these runs; the model's own verdict must agree *)
  Definition c24_case (w : nat) (pos init : list T) (kinds : list nat) (devs1 devs2 : option (list nat))
             (parents : list (dev * dev)) (coupled : list dev) (pseudos : list (dev * list dev))
             (tbl : list (rview T)) (plan : stmt) (fa : bool) (runs : list (list input * list obs)) : bool :=
    let position := fun d => nth d init zero in
    let view := rview_t tbl in
    let mk := rmk_t tbl in
    let mkn := rmkn_t tbl in
    let res0 := cl_resume tie_fuel in
    let par := parent_t parents in
    let cpl := fun d => mem_nat d coupled in
    let psd := pseudos_t pseudos in
    let rel := rel_resume add zero (pos_of_t pos) (kind_t kinds) position res0 view mk mkn (elig_t devs1) par cpl psd comps in
    let relf := rel_finding res0 view (elig_t devs1) in
    match w with
    | 0 => runs_ok rel (rel_init (cl_init plan)) runs
           && Bool.eqb fa (existsb (fun so => run_exists rel relf (rel_init (cl_init plan)) (fst so)) runs)
    | 1 => let rs := reset_resume zero (pos_of_t pos) (kind_t kinds) position res0 view mk (elig_t devs1) par cpl psd comps in
           runs_ok rs (reset_init (cl_init plan)) runs
           && Bool.eqb fa (existsb (fun so => run_exists rs (reset_finding res0 view (elig_t devs1))
                                                           (reset_init (cl_init plan)) (fst so)) runs)
    | _ => let rs := reset_resume zero (pos_of_t pos) (kind_t kinds) position rel view mk (elig_t devs2) par cpl psd comps in
           let f := fun s i => reset_finding rel view (elig_t devs2) s i
                               || match reset_host_input s i with Some (p, i') => relf p i' | None => false end in
           runs_ok rs (reset_init (rel_init (cl_init plan))) runs
           && Bool.eqb fa (existsb (fun so => run_exists rs f (reset_init (rel_init (cl_init plan))) (fst so)) runs)
    end.
End TieRel.

Definition c24_z := @c24_case Z Z.add 0%Z Z.eqb (fun _ => []).

(* integer positions that may be tuples (the position of a pseudo-positioner): scalars add, tuples have components *)
Inductive tv := TS (z : Z) | TT (l : list Z).
Definition tv_add (a b : tv) : tv := match a, b with TS x, TS y => TS (x + y) | _, _ => TT [] end.
Definition tv_eqb (a b : tv) : bool :=
  match a, b with TS x, TS y => Z.eqb x y | TT x, TT y => lZ_beq x y | _, _ => false end.
Definition tv_comps (a : tv) : list tv := match a with TT l => map TS l | TS _ => [] end.
Definition c24_t := @c24_case tv tv_add (TS 0) tv_eqb tv_comps.

(* ------------------------------------------------------------------ lazily_stage_wrapper (C23) *)
(* answers: VInt k (k < 50) stands for the k-th device list of the case; 50 and above for a Status (not iterable) *)
Definition resp_devs_t (lists : list (list dev)) (v : val) : option (list dev) :=
  match v with
  | VInt z => if Z.leb 50 z then None else Some (nth (Z.to_nat z) lists [])
  | VNone => None
  end.

Definition root_t (parents : list (dev * dev)) (d : dev) : dev :=
  match root_ancestor (parent_t parents) forest_fuel d with Some r => r | None => 999 end.

(* [fb] = the implementation-side mirror of finding class C23-b on these runs *)
Definition c23_lazy (fixed : bool) (parents : list (dev * dev)) (lists : list (list dev)) (tbl : list mview) (plan : stmt)
           (fb : bool) (runs : list (list input * list obs)) : bool :=
  let res := lazy_resume (cl_resume tie_fuel) (mk_t tbl) (view_t tbl) is_status_t (root_t parents) (resp_devs_t lists) fixed in
  let init := lazy_init (cl_init plan) in
  runs_ok res init runs
  && Bool.eqb fb (existsb (fun so => run_exists res c23b_step init (fst so)) runs).

(* ------------------------------------------------------------------ monitor_during_wrapper / fly_during_wrapper (C23) *)
(* [fc] = the implementation-side mirror of finding class C23-c on these runs *)
Definition c23_during (fly : bool) (devs : list dev) (tbl : list mview) (plan : stmt) (fc : bool)
           (runs : list (list input * list obs)) : bool :=
  let mk := mk_t tbl in
  let after := if fly then fly_after mk devs else monitor_after mk devs in
  let before := if fly then fly_before mk devs else monitor_before mk devs in
  let res := during_resume (cl_resume tie_fuel) (view_t tbl) is_status_t pm_fuel after before in
  let init := during_init (cl_init plan) in
  runs_ok res init runs
  && Bool.eqb fc (existsb (fun so => run_exists res (c23c_step (cl_resume tie_fuel) (view_t tbl) is_status_t pm_fuel after before)
                                                 init (fst so)) runs).
