(* C05, the numbering clauses in plain terms, from acceptance by the refined monitor Engine/DocMon2.v
   (every run of the engine model is accepted: Proofs/RE_DocsMon2.v).

   The stepped trace of a run is read as one sequence of items: the schedule's events and, after each
   event, the observations it produced.  For the events of one stream of one run:
   - [consecutive_between_rewinds]: two successive events of the stream with no rewind mark between
     them (no resume() call, no `_start_suspender` message) carry consecutive seq_nums;
   - [reissue_bounds]: whatever lies between them, the later one carries at most the successor of
     the earlier one (nothing is skipped);
   - [checkpoint_protects]: an event followed - with nothing of its stream and no rewind mark in
     between - by a `checkpoint` message that took effect is never re-issued: every later event of
     the stream carries a larger seq_num, as long as no `clear_checkpoint` is processed.  Re-issued
     seq_nums therefore belong to data points begun after the last checkpoint. *)
From Coq Require Import List String ZArith Bool Arith Lia.
From BV Require Import Engine.RE Engine.REInst Proofs.RE_Docs Proofs.RE_DocsMon Engine.DocMon2 Proofs.RE_Docs2 Proofs.RE_DocsMon2.
From BV Require Engine.DocMon Proofs.RE_DocsCor Proofs.RE_DocsExact.
Import ListNotations.
Local Open Scope nat_scope.

Notation ev_seq := RE_DocsExact.ev_seq.

(* ------------------------------------------------------------------ the trace as one sequence *)
Inductive item := IEv (e : event) | IOb (o : obs).

Definition items (l : list (event * list obs)) : list item :=
  flat_map (fun eo => IEv (fst eo) :: map IOb (snd eo)) l.

Definition mon_item (rec : bool) (m : mon) (it : item) : option mon :=
  match it with
  | IEv (EvMain AResume) => Some (if rstate_eqb (m_st m) Paused then m_set_expect (weaken m) (intr_expect m) else m)
  | IEv _ => Some m
  | IOb o => mon_obs rec m o
  end.

Fixpoint mon_items (rec : bool) (m : mon) (l : list item) : option mon :=
  match l with
  | [] => Some m
  | it :: l' => match mon_item rec m it with Some m' => mon_items rec m' l' | None => None end
  end.

Lemma mon_items_app rec m a b :
  mon_items rec m (a ++ b) = match mon_items rec m a with Some m1 => mon_items rec m1 b | None => None end.
Proof. revert m; induction a as [|x a IH]; intros m; cbn; [reflexivity|]. destruct (mon_item rec m x); [apply IH | reflexivity]. Qed.

Lemma mon_items_obs rec m o : mon_items rec m (map IOb o) = mon_run rec m o.
Proof. revert m; induction o as [|x o IH]; intros m; cbn; [reflexivity|]. destruct (mon_obs rec m x); [apply IH | reflexivity]. Qed.

Lemma mon_steps_items rec : forall l m m', mon_steps rec m l = Some m' -> mon_items rec m (items l) = Some m'.
Proof.
  induction l as [|[e o] l IH]; intros m m' H; cbn in H; [inversion H; reflexivity|].
  destruct (mon_step rec m (e, o)) as [m1|] eqn:E; [|discriminate].
  change (items ((e, o) :: l)) with (([IEv e] ++ map IOb o) ++ items l).
  rewrite !mon_items_app. unfold mon_step in E. cbn [fst snd] in E.
  match type of E with context [mon_run rec ?m0 o] => destruct (mon_run rec m0 o) as [m2|] eqn:E2; [|discriminate];
    assert (Hm0 : mon_items rec m [IEv e] = Some m0) end.
  { cbn [mon_items mon_item]. destruct e as [a|a| | | | | | | | | | |]; try reflexivity. destruct a; reflexivity. }
  rewrite Hm0, mon_items_obs, E2.
  destruct (m_expect m2); [|discriminate]. destruct (m_ck m2); [discriminate|]. inversion E; subst. apply IH, H.
Qed.

(* ------------------------------------------------------------------ the monitor's view of one stream *)
Fixpoint find_run (u : nat) (l : list rrec) : option rrec :=
  match l with
  | [] => None
  | r :: l' => if Nat.eqb u (r_uid r) then Some r else find_run u l'
  end.
Definition sview (u name : nat) (m : mon) : option sst :=
  option_map (fun r => sget r name) (find_run u (m_open m)).

Lemma find_run_app u l1 l2 :
  find_run u (l1 ++ l2) = match find_run u l1 with Some r => Some r | None => find_run u l2 end.
Proof. induction l1 as [|r l1 IH]; cbn; [reflexivity|]. destruct (Nat.eqb u (r_uid r)); [reflexivity | exact IH]. Qed.

Lemma find_run_map u g l : (forall r, r_uid (g r) = r_uid r) -> find_run u (map g l) = option_map g (find_run u l).
Proof.
  intros Hg. induction l as [|r l IH]; cbn; [reflexivity|]. rewrite Hg. destruct (Nat.eqb u (r_uid r)); [reflexivity | exact IH].
Qed.

Lemma find_run_on_run u v f l l' :
  (forall r r', f r = Some r' -> r_uid r' = r_uid r) -> on_run v f l = Some l' ->
  find_run u l' = if Nat.eqb u v then match find_run u l with Some r => f r | None => None end else find_run u l.
Proof.
  intros Hf. revert l'. induction l as [|r l IH]; intros l' H; cbn in H; [discriminate|].
  destruct (Nat.eqb v (r_uid r)) eqn:Ev.
  - destruct (f r) as [r'|] eqn:Er; [|discriminate]. inversion H; subst. apply Nat.eqb_eq in Ev. subst v.
    cbn [find_run]. rewrite (Hf _ _ Er). destruct (Nat.eqb u (r_uid r)) eqn:Eu; [exact (eq_sym Er) | reflexivity].
  - destruct (on_run v f l) as [l0|] eqn:El; [|discriminate]. inversion H; subst. cbn [find_run].
    destruct (Nat.eqb u (r_uid r)) eqn:Eu.
    + destruct (Nat.eqb u v) eqn:Euv; [|reflexivity].
      apply Nat.eqb_eq in Eu, Euv. subst. rewrite Nat.eqb_refl in Ev. discriminate Ev.
    + apply IH. reflexivity.
Qed.

Lemma on_run_found v f l l' : on_run v f l = Some l' -> exists r r', find_run v l = Some r /\ f r = Some r'.
Proof.
  revert l'. induction l as [|r l IH]; intros l' H; cbn in H; [discriminate|]. cbn [find_run].
  destruct (Nat.eqb v (r_uid r)).
  - destruct (f r) as [r'|] eqn:Er; [|discriminate]. exists r, r'. split; [reflexivity | exact Er].
  - destruct (on_run v f l) as [l0|] eqn:El; [|discriminate]. exact (IH _ eq_refl).
Qed.

Lemma find_run_take u v l r rest : take_run v l = Some (r, rest) -> u <> v -> find_run u rest = find_run u l.
Proof.
  revert r rest. induction l as [|y l IH]; intros r rest H Hne; cbn in H; [discriminate|].
  destruct (Nat.eqb v (r_uid y)) eqn:Ev.
  - inversion H; subst. cbn [find_run]. apply Nat.eqb_eq in Ev.
    destruct (Nat.eqb u _) eqn:Eu; [apply Nat.eqb_eq in Eu; congruence | reflexivity].
  - destruct (take_run v l) as [[x rest0]|] eqn:El; [|discriminate]. inversion H; subst. cbn [find_run].
    destruct (Nat.eqb u (r_uid y)); [reflexivity | eapply IH; [reflexivity | exact Hne]].
Qed.

(* ------------------------------------------------------------------ what one item does to the view *)
Definition x_rw (name : nat) (x : sst) : sst :=
  if Nat.eqb name INTR then x else {| s_top := s_top x; s_c := s_c x; s_ex := false; s_lo := s_lo x |}.
Definition x_ck (x : sst) : sst :=
  if s_ex x then {| s_top := s_top x; s_c := s_c x; s_ex := true; s_lo := s_c x |} else x.
Definition x_cl (x : sst) : sst := {| s_top := s_top x; s_c := s_c x; s_ex := s_ex x; s_lo := 1 |}.

Definition on_stream (u name : nat) (d : doc) : option nat :=
  match ev_seq u name d with [n] => Some n | _ => None end.

Definition effect (m : mon) (it : item) (u name : nat) (x : sst) : option sst :=
  match it with
  | IEv (EvMain AResume) => Some (if rstate_eqb (m_st m) Paused then x_rw name x else x)
  | IEv _ => Some x
  | IOb o =>
      match m_expect m with
      | _ :: _ => match o with
                  | ODoc d => match on_stream u name d with Some n => s_event x n | None => Some x end
                  | _ => Some x
                  end
      | [] =>
          if m_ck m then match o with OResp (RVal _) | OTask WFuture => Some (x_ck x) | _ => Some x end
          else match o with
               | ODoc d => match on_stream u name d with Some n => s_event x n | None => Some x end
               | OMsg mm => if is_susp_msg mm then Some (x_rw name x)
                            else if is_ckpt_msg mm then Some x
                            else if is_clear_msg mm then Some (x_cl x) else Some x
               | _ => Some x
               end
      end
  end.

Definition is_stop_of (u : nat) (it : item) : bool :=
  match it with IOb (ODoc (DStop u' _ _ _)) => Nat.eqb u' u | _ => false end.

Lemma sget_rw2 r n : sget (rw r) n = match alookup n (r_streams r) with Some x => x_rw n x | None => sst0 end.
Proof. rewrite sget_rw. unfold x_rw. destruct (alookup n (r_streams r)); reflexivity. Qed.

Lemma x_ck_sst0 : x_ck sst0 = sst0. Proof. reflexivity. Qed.
Lemma x_cl_sst0 : x_cl sst0 = sst0. Proof. reflexivity. Qed.

Lemma sget_ck2 r n : sget (ck r) n = match alookup n (r_streams r) with Some x => x_ck x | None => sst0 end.
Proof. rewrite sget_ck. unfold x_ck. destruct (alookup n (r_streams r)); reflexivity. Qed.
Lemma sget_cl2 r n : sget (cl r) n = match alookup n (r_streams r) with Some x => x_cl x | None => sst0 end.
Proof. rewrite sget_cl. unfold x_cl. destruct (alookup n (r_streams r)); reflexivity. Qed.

(* map over the open runs with a function that acts stream-wise *)
Lemma sview_map u name m g (h : sst -> sst) x :
  (forall r, r_uid (g r) = r_uid r) ->
  (forall r, sget (g r) name = match alookup name (r_streams r) with Some y => h y | None => sst0 end) ->
  sview u name m = Some x ->
  exists x', option_map (fun r => sget r name) (find_run u (map g (m_open m))) = Some x' /\
             (x' = h x \/ (x = sst0 /\ x' = sst0)).
Proof.
  intros Hg Hs. unfold sview. rewrite (find_run_map u g) by exact Hg.
  destruct (find_run u (m_open m)) as [r|]; [|discriminate]. cbn [option_map]. intros H; inversion H; subst.
  rewrite Hs. unfold sget. destruct (alookup name (r_streams r)); eexists; split; try reflexivity; auto.
Qed.

Lemma sview_weaken u name m x :
  sview u name m = Some x -> exists x', sview u name (weaken m) = Some x' /\ (x' = x_rw name x \/ x' = x).
Proof.
  intros Hv. unfold sview. cbn [m_open weaken m_set_open].
  destruct (sview_map u name m rw (x_rw name) x (fun _ => eq_refl) (fun r => sget_rw2 r name) Hv) as (x' & E & [Hx|[Hx1 Hx2]]);
    exists x'; (split; [exact E|]); [left; exact Hx | right; congruence].
Qed.

Lemma r_event_sget nm k r r' name :
  r_event nm k r = Some r' ->
  r_uid r' = r_uid r /\
  exists y, s_event (sget r nm) k = Some y /\ sget r' name = if Nat.eqb name nm then y else sget r name.
Proof.
  unfold r_event. destruct (s_event (sget r nm) k) as [y|] eqn:E; [|discriminate]. intros H; inversion H; subst.
  split; [reflexivity|]. exists y. split; [reflexivity|]. apply sget_set.
Qed.

Lemma on_stream_event u name u' n' k data :
  on_stream u name (DEvent u' n' k data) = if Nat.eqb u' u && Nat.eqb n' name then Some k else None.
Proof. unfold on_stream. cbn [RE_DocsExact.ev_seq]. destruct (Nat.eqb u' u && Nat.eqb n' name); reflexivity. Qed.
Lemma on_stream_intr u name u' k :
  on_stream u name (DIntr u' k) = if Nat.eqb u' u && Nat.eqb INTR name then Some k else None.
Proof. unfold on_stream. cbn [RE_DocsExact.ev_seq]. destruct (Nat.eqb u' u && Nat.eqb INTR name); reflexivity. Qed.

(* one run record changed by an event-like operation *)
Lemma sview_on_run_event u name m v nm k (g : rrec -> bool) l' x :
  on_run v (fun r => if g r then r_event nm k r else None) (m_open m) = Some l' ->
  sview u name m = Some x ->
  exists x', option_map (fun r => sget r name) (find_run u l') = Some x' /\
             ((if Nat.eqb v u && Nat.eqb nm name then s_event x k else Some x) = Some x').
Proof.
  intros Ho Hv. unfold sview in Hv.
  assert (Hf : forall r r', (fun r => if g r then r_event nm k r else None) r = Some r' -> r_uid r' = r_uid r).
  { intros r r' H. destruct (g r); [|discriminate]. apply (r_event_sget _ _ _ _ 0) in H. apply H. }
  rewrite (find_run_on_run u v _ _ _ Hf Ho).
  destruct (find_run u (m_open m)) as [r|] eqn:Er; [|discriminate]. cbn [option_map] in Hv. inversion Hv; subst x.
  destruct (Nat.eqb u v) eqn:Euv.
  - apply Nat.eqb_eq in Euv. subst v. rewrite Nat.eqb_refl. cbn [andb].
    destruct (on_run_found _ _ _ _ Ho) as (r0 & r0' & F1 & F2). rewrite Er in F1. inversion F1; subst r0.
    rewrite F2. destruct (g r); [|discriminate]. destruct (r_event_sget _ _ _ _ name F2) as (_ & y & Hy & Hs).
    cbn [option_map]. rewrite Hs. rewrite (Nat.eqb_sym nm name). destruct (Nat.eqb name nm) eqn:En.
    + apply Nat.eqb_eq in En. subst nm. eexists; split; [reflexivity | exact Hy].
    + eexists; split; reflexivity.
  - rewrite (Nat.eqb_sym v u), Euv. cbn [andb option_map]. eexists; split; reflexivity.
Qed.

Lemma item_effect rec m it m' u name x :
  mon_item rec m it = Some m' -> is_stop_of u it = false -> sview u name m = Some x ->
  exists x', sview u name m' = Some x' /\ (effect m it u name x = Some x' \/ x' = x).
Proof.
  intros H Hns Hv. destruct it as [e|o].
  - (* an event of the schedule *)
    assert (Hsame : m' = m -> exists x', sview u name m' = Some x' /\ (Some x = Some x' \/ x' = x))
      by (intros ->; exists x; auto).
    destruct e as [a|a| | | | | | | | | | |]; cbn [mon_item effect] in *; try (injection H as Hm; apply Hsame; symmetry; exact Hm).
    destruct a; try (injection H as Hm; apply Hsame; symmetry; exact Hm).
    injection H as Hm. subst m'. destruct (rstate_eqb (m_st m) Paused); [|exists x; auto].
    destruct (sview_weaken u name m x Hv) as (x' & E & [Hx|Hx]); exists x'; (split; [exact E|]); [left; congruence | right; exact Hx].
  - cbn [mon_item] in H. unfold mon_obs in H. cbn [effect]. destruct (m_expect m) as [|d q] eqn:Ee.
    + destruct (m_ck m) eqn:Ek.
      * (* the answer to a checkpoint message *)
        destruct o as [mm|r|a b|d|dv mt|pid i|ot s df rs|w|ok|n]; try discriminate H.
        -- destruct r as [v|e]; inversion H; subst; [|exists x; auto].
           unfold sview. cbn [m_open m_set_ck ckpt m_set_open]. fold ck.
           destruct (sview_map u name m ck x_ck x (fun _ => eq_refl) (fun r => sget_ck2 r name) Hv) as (x' & E & Hx).
           exists x'. split; [exact E|]. destruct Hx as [Hx|[Hx1 Hx2]]; [left; congruence | right; congruence].
        -- destruct w; try discriminate H. inversion H; subst.
           unfold sview. cbn [m_open m_set_ck ckpt m_set_open]. fold ck.
           destruct (sview_map u name m ck x_ck x (fun _ => eq_refl) (fun r => sget_ck2 r name) Hv) as (x' & E & Hx).
           exists x'. split; [exact E|]. destruct Hx as [Hx|[Hx1 Hx2]]; [left; congruence | right; congruence].
      * destruct o as [mm|r|a b|d|dv mt|pid i|ot s df rs|w|ok|n]; try (inversion H; subst; exists x; auto; fail).
        -- (* a message *)
           destruct (is_susp_msg mm).
           { inversion H; subst. destruct (sview_weaken u name m x Hv) as (x' & E & [Hx|Hx]); exists x';
               (split; [exact E|]); [left; congruence | right; exact Hx]. }
           destruct (is_ckpt_msg mm); [inversion H; subst; exists x; auto|].
           destruct (is_clear_msg mm); [|inversion H; subst; exists x; auto].
           inversion H; subst. unfold sview. cbn [m_open unckpt m_set_open]. fold cl.
           destruct (sview_map u name m cl x_cl x (fun _ => eq_refl) (fun r => sget_cl2 r name) Hv) as (x' & E & Hx).
           exists x'. split; [exact E|]. destruct Hx as [Hx|[Hx1 Hx2]]; [left; congruence | right; congruence].
        -- (* a lifecycle change *)
           destruct (rstate_eqb a (m_st m) && _); inversion H; subst. exists x; auto.
        -- (* a document *)
           assert (Hgen : doc_effect rec m d = Some m' ->
                          exists x', sview u name m' = Some x' /\
                            (match on_stream u name d with Some n => s_event x n | None => Some x end = Some x' \/ x' = x)).
           { clear H. intros Hd. destruct d as [v|v nm objs|v nm k data|v k|v xs rs num]; cbn [doc_effect] in Hd.
             - destruct (Nat.eqb v (m_next m)); inversion Hd; subst. exists x. split; [|left; reflexivity].
               unfold sview in *. cbn [m_open]. rewrite find_run_app. destruct (find_run u (m_open m)); [exact Hv | discriminate Hv].
             - destruct (on_run v _ (m_open m)) as [l'|] eqn:Eo; inversion Hd; subst. exists x. split; [|left; reflexivity].
               unfold sview in *. cbn [m_open m_set_open].
               destruct (find_run u (m_open m)) as [r|] eqn:Er; [|discriminate Hv].
               assert (Hf : forall r r', (if mem_nat nm (r_descs r) then None else Some (r_add_desc r nm)) = Some r' -> r_uid r' = r_uid r)
                 by (intros r0 r0' Hr0; destruct (mem_nat nm (r_descs r0)); inversion Hr0; reflexivity).
               rewrite (find_run_on_run u v _ _ _ Hf Eo), Er. destruct (Nat.eqb u v) eqn:Euv; [|exact Hv].
               apply Nat.eqb_eq in Euv; subst v. destruct (on_run_found _ _ _ _ Eo) as (r0 & r0' & F1 & F2).
               rewrite Er in F1. inversion F1; subst r0. rewrite F2. destruct (mem_nat nm (r_descs r)); inversion F2; subst. exact Hv.
             - destruct (on_run v _ (m_open m)) as [l'|] eqn:Eo; inversion Hd; subst.
               destruct (sview_on_run_event u name m v nm k (fun r => mem_nat nm (r_descs r)) l' x Eo Hv) as (x' & E1 & E2).
               exists x'. split; [exact E1|]. left. rewrite on_stream_event. destruct (Nat.eqb v u && Nat.eqb nm name); exact E2.
             - destruct (on_run v _ (m_open m)) as [l'|] eqn:Eo; inversion Hd; subst.
               destruct (sview_on_run_event u name m v INTR k (fun r => r_intr r) l' x Eo Hv) as (x' & E1 & E2).
               exists x'. split; [exact E1|]. left. rewrite on_stream_intr. destruct (Nat.eqb v u && Nat.eqb INTR name); exact E2.
             - destruct (take_run v (m_open m)) as [[r rest]|] eqn:Et; [|discriminate Hd].
               destruct (r_stop_ok r num); inversion Hd; subst. exists x. split; [|left; reflexivity].
               cbn [is_stop_of] in Hns. apply Nat.eqb_neq in Hns.
               unfold sview in *. cbn [m_open]. rewrite (find_run_take u v _ _ _ Et) by congruence. exact Hv. }
           destruct d as [v|v nm objs|v nm k data|v k|v xs rs num]; try (apply Hgen; exact H); try discriminate H.
           destruct nm as [|[|nm]]; try (apply Hgen; exact H). destruct objs; [discriminate H | apply Hgen; exact H].
    + (* an expected document *)
      destruct o as [mm|r|a b|d'|dv mt|pid i|ot s df rs|w|ok|n]; try discriminate H.
      destruct (doc_eq_dec d' d) as [->|]; [|discriminate H].
      destruct d as [v|v nm objs|v nm k data|v k|v xs rs num]; try discriminate H.
      * destruct (on_run v _ (m_open m)) as [l'|] eqn:Eo; inversion H; subst. exists x. split; [|left; reflexivity].
        unfold sview in *. cbn [m_open m_set_open m_set_expect].
        assert (Hf : forall r r', Some (r_set_intr r) = Some r' -> r_uid r' = r_uid r) by (intros r0 r0' Hr0; inversion Hr0; reflexivity).
        rewrite (find_run_on_run u v _ _ _ Hf Eo). destruct (find_run u (m_open m)) as [r|] eqn:Er; [|discriminate Hv].
        destruct (Nat.eqb u v); exact Hv.
      * cbn [doc_effect] in H. cbn [m_open m_set_expect] in H.
        destruct (on_run v _ (m_open m)) as [l'|] eqn:Eo; inversion H; subst.
        destruct (sview_on_run_event u name m v INTR k (fun r => r_intr r) l' x Eo Hv) as (x' & E1 & E2).
        exists x'. split; [exact E1|]. left. rewrite on_stream_intr. destruct (Nat.eqb v u && Nat.eqb INTR name); exact E2.
Qed.

(* ------------------------------------------------------------------ an event of the stream is accepted *)
Lemma on_run_event_view u name m k (g : rrec -> bool) l' :
  on_run u (fun r => if g r then r_event name k r else None) (m_open m) = Some l' ->
  exists x x', sview u name m = Some x /\ s_event x k = Some x' /\
               option_map (fun r => sget r name) (find_run u l') = Some x'.
Proof.
  intros Ho. destruct (on_run_found _ _ _ _ Ho) as (r & r' & F1 & F2).
  assert (Hv : sview u name m = Some (sget r name)) by (unfold sview; rewrite F1; reflexivity).
  destruct (sview_on_run_event u name m u name k g l' _ Ho Hv) as (x' & E1 & E2).
  rewrite !Nat.eqb_refl in E2. cbn [andb] in E2. exists (sget r name), x'. auto.
Qed.

Lemma on_stream_inv u name d n :
  on_stream u name d = Some n ->
  (exists data, d = DEvent u name n data) \/ (d = DIntr u n /\ name = INTR).
Proof.
  unfold on_stream. destruct d as [v|v nm objs|v nm k data|v k|v xs rs num]; cbn [RE_DocsExact.ev_seq]; try discriminate.
  - destruct (Nat.eqb v u) eqn:E1; [|discriminate]. destruct (Nat.eqb nm name) eqn:E2; [|discriminate]. cbn.
    intros H; inversion H; subst. apply Nat.eqb_eq in E1, E2. subst. left. eexists; reflexivity.
  - destruct (Nat.eqb v u) eqn:E1; [|discriminate]. destruct (Nat.eqb INTR name) eqn:E2; [|discriminate]. cbn.
    intros H; inversion H; subst. apply Nat.eqb_eq in E1, E2. subst. right. split; reflexivity.
Qed.

Lemma event_accepted rec m d m' u name n :
  mon_item rec m (IOb (ODoc d)) = Some m' -> on_stream u name d = Some n ->
  exists x x', sview u name m = Some x /\ s_event x n = Some x' /\ sview u name m' = Some x'.
Proof.
  intros H Hn. cbn [mon_item] in H. unfold mon_obs in H.
  destruct (on_stream_inv _ _ _ _ Hn) as [[data ->]|[-> ->]].
  - destruct (m_expect m) as [|d0 q].
    + destruct (m_ck m); [discriminate H|]. cbn [doc_effect] in H.
      destruct (on_run u _ (m_open m)) as [l'|] eqn:Eo; inversion H; subst.
      exact (on_run_event_view u name m n (fun r => mem_nat name (r_descs r)) l' Eo).
    + destruct (doc_eq_dec (DEvent u name n data) d0) as [<-|]; discriminate H.
  - destruct (m_expect m) as [|d0 q].
    + destruct (m_ck m); discriminate H.
    + destruct (doc_eq_dec (DIntr u n) d0) as [<-|]; [|discriminate H]. cbn [doc_effect m_open m_set_expect] in H.
      destruct (on_run u _ (m_open m)) as [l'|] eqn:Eo; inversion H; subst.
      exact (on_run_event_view u INTR m n (fun r => r_intr r) l' Eo).
Qed.

Lemma s_event_spec x n x' :
  s_event x n = Some x' ->
  s_c x' = S n /\ s_ex x' = true /\ s_lo x' = s_lo x /\
  (if s_ex x then n = s_c x else 1 <= n /\ s_lo x <= n /\ n <= s_c x).
Proof.
  unfold s_event. destruct (s_ex x) eqn:Ex.
  - destruct (Nat.eqb n (s_c x)) eqn:E; [|discriminate]. intros H; inversion H; subst; cbn. apply Nat.eqb_eq in E. repeat split; auto.
  - destruct (Nat.leb 1 n && Nat.leb (s_lo x) n && Nat.leb n (s_c x)) eqn:E; [|discriminate].
    intros H; inversion H; subst; cbn. apply andb_true_iff in E as [E E3]. apply andb_true_iff in E as [E1 E2].
    apply Nat.leb_le in E1, E2, E3. repeat split; auto.
Qed.

(* ------------------------------------------------------------------ what lies between two events *)
Definition rewind_mark (it : item) : bool :=
  match it with IEv (EvMain AResume) => true | IOb (OMsg mm) => is_susp_msg mm | _ => false end.
Definition touches (u name : nat) (it : item) : bool :=
  match it with IOb (ODoc d) => match on_stream u name d with Some _ => true | None => false end | _ => false end.
Definition clear_mark (it : item) : bool :=
  match it with IOb (OMsg mm) => is_clear_msg mm | _ => false end.

Lemma effect_between m it u name x x' :
  touches u name it = false -> effect m it u name x = Some x' ->
  s_c x' = s_c x /\ (rewind_mark it = false -> s_ex x' = s_ex x).
Proof.
  intros Ht. assert (Hsame : Some x = Some x' -> s_c x' = s_c x /\ (rewind_mark it = false -> s_ex x' = s_ex x))
    by (intros E; inversion E; subst; split; auto).
  assert (Hrw : Some (x_rw name x) = Some x' -> rewind_mark it = true ->
                s_c x' = s_c x /\ (rewind_mark it = false -> s_ex x' = s_ex x)).
  { intros E Hr. inversion E; subst. unfold x_rw. destruct (Nat.eqb name INTR); cbn; (split; [reflexivity|]); rewrite Hr; discriminate. }
  destruct it as [e|o]; cbn [effect touches] in *.
  - destruct e as [a|a| | | | | | | | | | |]; try exact Hsame. destruct a; try exact Hsame.
    destruct (rstate_eqb (m_st m) Paused); [intros E; apply Hrw; [exact E | reflexivity] | exact Hsame].
  - destruct (m_expect m) as [|d0 q0].
    + destruct (m_ck m).
      * destruct o as [mm|r|a b|d|dv mt|pid i|ot s df rs|w|ok|n]; try exact Hsame.
        -- destruct r; [|exact Hsame]. intros E; inversion E; subst. unfold x_ck. destruct (s_ex x) eqn:Ex; cbn; split; auto.
        -- destruct w; try exact Hsame. intros E; inversion E; subst. unfold x_ck. destruct (s_ex x) eqn:Ex; cbn; split; auto.
      * destruct o as [mm|r|a b|d|dv mt|pid i|ot s df rs|w|ok|n]; try exact Hsame.
        -- destruct (is_susp_msg mm) eqn:Es; [intros E; apply Hrw; [exact E | cbn [rewind_mark]; exact Es]|].
           destruct (is_ckpt_msg mm); [exact Hsame|]. destruct (is_clear_msg mm); [|exact Hsame].
           intros E; inversion E; subst. cbn. split; auto.
        -- destruct (on_stream u name d); [discriminate Ht | exact Hsame].
    + destruct o as [mm|r|a b|d|dv mt|pid i|ot s df rs|w|ok|n]; try exact Hsame.
      destruct (on_stream u name d); [discriminate Ht | exact Hsame].
Qed.

Lemma between_frame rec u name : forall B m m' x,
  mon_items rec m B = Some m' ->
  forallb (fun it => negb (touches u name it) && negb (is_stop_of u it)) B = true ->
  sview u name m = Some x ->
  exists x', sview u name m' = Some x' /\ s_c x' = s_c x /\
             (forallb (fun it => negb (rewind_mark it)) B = true -> s_ex x' = s_ex x).
Proof.
  induction B as [|it B IH]; intros m m' x H Hq Hv; cbn in H.
  - inversion H; subst. exists x. auto.
  - destruct (mon_item rec m it) as [m1|] eqn:E1; [|discriminate]. cbn [forallb] in Hq.
    apply andb_true_iff in Hq as [Hq1 Hq2]. apply andb_true_iff in Hq1 as [Ht Hs].
    apply negb_true_iff in Ht, Hs.
    destruct (item_effect rec m it m1 u name x E1 Hs Hv) as (x1 & V1 & Hx1).
    assert (F1 : s_c x1 = s_c x /\ (rewind_mark it = false -> s_ex x1 = s_ex x)).
    { destruct Hx1 as [Hx1|Hx1]; [|subst x1; auto]. destruct (effect_between _ _ _ _ _ _ Ht Hx1) as (A & C). auto. }
    destruct (IH m1 m' x1 H Hq2 V1) as (x' & V' & A' & C'). exists x'. split; [exact V'|]. split; [lia|].
    cbn [forallb]. intros Hr. apply andb_true_iff in Hr as [Hr1 Hr2]. apply negb_true_iff in Hr1.
    rewrite (C' Hr2). apply F1, Hr1.
Qed.

(* Two successive events of one stream: the later one never skips a number, and it carries exactly
   the next number when no rewind mark lies between them. *)
Theorem successive_events rec m0 A d1 B d2 C mf u name n1 n2 :
  mon_items rec m0 (A ++ IOb (ODoc d1) :: B ++ IOb (ODoc d2) :: C) = Some mf ->
  on_stream u name d1 = Some n1 -> on_stream u name d2 = Some n2 ->
  forallb (fun it => negb (touches u name it) && negb (is_stop_of u it)) B = true ->
  n2 <= S n1 /\ (forallb (fun it => negb (rewind_mark it)) B = true -> n2 = S n1).
Proof.
  intros H H1 H2 HB. rewrite mon_items_app in H. destruct (mon_items rec m0 A) as [mA|]; [|discriminate].
  cbn [mon_items] in H. destruct (mon_item rec mA (IOb (ODoc d1))) as [m1|] eqn:E1; [|discriminate].
  rewrite mon_items_app in H. destruct (mon_items rec m1 B) as [mB|] eqn:EB; [|discriminate].
  cbn [mon_items] in H. destruct (mon_item rec mB (IOb (ODoc d2))) as [m2|] eqn:E2; [|discriminate].
  destruct (event_accepted _ _ _ _ _ _ _ E1 H1) as (x0 & x1 & _ & S1 & V1).
  destruct (s_event_spec _ _ _ S1) as (C1 & X1 & _).
  destruct (between_frame rec u name B m1 mB x1 EB HB V1) as (xB & VB & CB & XB).
  destruct (event_accepted _ _ _ _ _ _ _ E2 H2) as (y0 & y1 & W0 & S2 & _).
  rewrite VB in W0. inversion W0; subst y0. destruct (s_event_spec _ _ _ S2) as (_ & _ & _ & Hcase).
  split.
  - destruct (s_ex xB); lia.
  - intros Hr. rewrite (XB Hr), X1 in Hcase. lia.
Qed.

(* ------------------------------------------------------------------ a checkpoint protects what was saved before it *)
Lemma effect_lo m it u name x x' :
  clear_mark it = false -> effect m it u name x = Some x' -> s_lo x <= s_c x ->
  s_lo x <= s_lo x' /\ s_lo x' <= s_c x'.
Proof.
  intros Hc. assert (Hsame : Some x = Some x' -> s_lo x <= s_c x -> s_lo x <= s_lo x' /\ s_lo x' <= s_c x')
    by (intros E; inversion E; subst; lia).
  assert (Hrw : Some (x_rw name x) = Some x' -> s_lo x <= s_c x -> s_lo x <= s_lo x' /\ s_lo x' <= s_c x').
  { intros E. inversion E; subst. unfold x_rw. destruct (Nat.eqb name INTR); cbn; lia. }
  assert (Hck : Some (x_ck x) = Some x' -> s_lo x <= s_c x -> s_lo x <= s_lo x' /\ s_lo x' <= s_c x').
  { intros E. inversion E; subst. unfold x_ck. destruct (s_ex x); cbn; lia. }
  assert (Hev : forall n, s_event x n = Some x' -> s_lo x <= s_c x -> s_lo x <= s_lo x' /\ s_lo x' <= s_c x').
  { intros n E Hl. destruct (s_event_spec _ _ _ E) as (A & _ & B & Hcase). destruct (s_ex x); lia. }
  destruct it as [e|o]; cbn [effect clear_mark] in *.
  - destruct e as [a|a| | | | | | | | | | |]; try exact Hsame. destruct a; try exact Hsame.
    destruct (rstate_eqb (m_st m) Paused); [exact Hrw | exact Hsame].
  - destruct (m_expect m) as [|d0 q0].
    + destruct (m_ck m).
      * destruct o as [mm|r|a b|d|dv mt|pid i|ot s df rs|w|ok|n]; try exact Hsame.
        -- destruct r; [exact Hck | exact Hsame].
        -- destruct w; try exact Hsame. exact Hck.
      * destruct o as [mm|r|a b|d|dv mt|pid i|ot s df rs|w|ok|n]; try exact Hsame.
        -- destruct (is_susp_msg mm); [exact Hrw|]. destruct (is_ckpt_msg mm); [exact Hsame|].
           rewrite Hc. exact Hsame.
        -- destruct (on_stream u name d); [apply Hev | exact Hsame].
    + destruct o as [mm|r|a b|d|dv mt|pid i|ot s df rs|w|ok|n]; try exact Hsame.
      destruct (on_stream u name d); [apply Hev | exact Hsame].
Qed.

Lemma lo_frame rec u name L : forall C m m' x,
  mon_items rec m C = Some m' ->
  forallb (fun it => negb (clear_mark it) && negb (is_stop_of u it)) C = true ->
  sview u name m = Some x -> L <= s_lo x -> s_lo x <= s_c x ->
  exists x', sview u name m' = Some x' /\ L <= s_lo x' /\ s_lo x' <= s_c x'.
Proof.
  induction C as [|it C IH]; intros m m' x H Hq Hv HL Hc; cbn in H.
  - inversion H; subst. exists x. auto.
  - destruct (mon_item rec m it) as [m1|] eqn:E1; [|discriminate]. cbn [forallb] in Hq.
    apply andb_true_iff in Hq as [Hq1 Hq2]. apply andb_true_iff in Hq1 as [Hcl Hs].
    apply negb_true_iff in Hcl, Hs.
    destruct (item_effect rec m it m1 u name x E1 Hs Hv) as (x1 & V1 & Hx1).
    assert (F1 : s_lo x <= s_lo x1 /\ s_lo x1 <= s_c x1).
    { destruct Hx1 as [Hx1|Hx1]; [|subst x1; lia]. exact (effect_lo _ _ _ _ _ _ Hcl Hx1 Hc). }
    apply (IH m1 m' x1 H Hq2 V1); lia.
Qed.

Lemma ckpt_commit rec m mm ok m2 u name x :
  mon_items rec m [IOb (OMsg mm); IOb ok] = Some m2 -> is_ckpt_msg mm = true -> ck_ok ok = true ->
  sview u name m = Some x ->
  exists x', sview u name m2 = Some x' /\ x' = x_ck x.
Proof.
  intros H Hm Hok Hv. cbn [mon_items mon_item] in H.
  destruct (mon_obs rec m (OMsg mm)) as [m1|] eqn:E1; [|discriminate].
  destruct (mon_obs rec m1 ok) as [m2'|] eqn:E2; [|discriminate]. inversion H; subst m2'. clear H.
  unfold mon_obs in E1. destruct (m_expect m) eqn:Ee; [|discriminate E1]. destruct (m_ck m) eqn:Ek; [discriminate E1|].
  rewrite (ckpt_not_susp _ Hm), Hm in E1. inversion E1; subst m1. clear E1.
  unfold mon_obs in E2. cbn [m_expect m_ck m_set_ck] in E2. rewrite Ee in E2.
  assert (E2' : m2 = m_set_ck (ckpt (m_set_ck m true)) false).
  { destruct ok as [| r | | | | | | w | |]; try discriminate Hok; [destruct r | destruct w]; try discriminate Hok; inversion E2; reflexivity. }
  subst m2. unfold sview. cbn [m_open m_set_ck ckpt m_set_open]. fold ck.
  destruct (sview_map u name m ck x_ck x (fun _ => eq_refl) (fun r => sget_ck2 r name) Hv) as (x' & E & [Hx|[Hx1 Hx2]]).
  - exists x'. split; [exact E | exact Hx].
  - exists x'. split; [exact E|]. subst. reflexivity.
Qed.

Theorem checkpoint_protects_items rec m0 A d1 B mm ok C d2 E mf u name n1 n2 :
  mon_items rec m0 (A ++ IOb (ODoc d1) :: B ++ IOb (OMsg mm) :: IOb ok :: C ++ IOb (ODoc d2) :: E) = Some mf ->
  on_stream u name d1 = Some n1 ->
  forallb (fun it => negb (touches u name it) && negb (is_stop_of u it)) B = true ->
  forallb (fun it => negb (rewind_mark it)) B = true ->
  is_ckpt_msg mm = true -> ck_ok ok = true ->
  forallb (fun it => negb (clear_mark it) && negb (is_stop_of u it)) C = true ->
  on_stream u name d2 = Some n2 -> n1 < n2.
Proof.
  intros H H1 HB HBr Hm Hok HC H2.
  rewrite mon_items_app in H. destruct (mon_items rec m0 A) as [mA|]; [|discriminate].
  cbn [mon_items] in H. destruct (mon_item rec mA (IOb (ODoc d1))) as [m1|] eqn:E1; [|discriminate].
  rewrite mon_items_app in H. destruct (mon_items rec m1 B) as [mB|] eqn:EB; [|discriminate].
  change (IOb (OMsg mm) :: IOb ok :: C ++ IOb (ODoc d2) :: E) with ([IOb (OMsg mm); IOb ok] ++ (C ++ IOb (ODoc d2) :: E)) in H.
  rewrite mon_items_app in H. destruct (mon_items rec mB [IOb (OMsg mm); IOb ok]) as [mK|] eqn:EK; [|discriminate].
  rewrite mon_items_app in H. destruct (mon_items rec mK C) as [mC|] eqn:EC; [|discriminate].
  cbn [mon_items] in H. destruct (mon_item rec mC (IOb (ODoc d2))) as [m2|] eqn:E2; [|discriminate].
  destruct (event_accepted _ _ _ _ _ _ _ E1 H1) as (x0 & x1 & _ & S1 & V1).
  destruct (s_event_spec _ _ _ S1) as (C1 & X1 & _).
  destruct (between_frame rec u name B m1 mB x1 EB HB V1) as (xB & VB & CB & XB). specialize (XB HBr).
  destruct (ckpt_commit rec mB mm ok mK u name xB EK Hm Hok VB) as (xK & VK & ->).
  assert (HK : S n1 <= s_lo (x_ck xB) /\ s_lo (x_ck xB) <= s_c (x_ck xB)).
  { unfold x_ck. rewrite XB, X1. cbn. lia. }
  destruct (lo_frame rec u name (S n1) C mK mC _ EC HC VK (proj1 HK) (proj2 HK)) as (xC & VC & LC & LC').
  destruct (event_accepted _ _ _ _ _ _ _ E2 H2) as (y0 & y1 & W0 & S2 & _).
  rewrite VC in W0. inversion W0; subst y0. destruct (s_event_spec _ _ _ S2) as (_ & _ & _ & Hcase).
  destruct (s_ex xC); lia.
Qed.

(* ================================================================== the engine model, for all schedules *)
Definition idocs (l : list item) : list doc :=
  flat_map (fun it => match it with IOb (ODoc d) => [d] | _ => [] end) l.

Lemma idocs_app a b : idocs (a ++ b) = idocs a ++ idocs b.
Proof. unfold idocs. apply flat_map_app. Qed.

Lemma idocs_obs o : idocs (map IOb o) = RE_DocsCor.docs_of o.
Proof.
  induction o as [|x o IH]; [reflexivity|]. cbn [map]. change (IOb x :: map IOb o) with ([IOb x] ++ map IOb o).
  rewrite idocs_app, IH. change (x :: o) with ([x] ++ o). rewrite RE_DocsCor.docs_of_app.
  destruct x; reflexivity.
Qed.

Lemma idocs_items l : idocs (items l) = RE_DocsCor.docs_of (flat_map snd l).
Proof.
  induction l as [|[e o] l IH]; [reflexivity|].
  change (items ((e, o) :: l)) with (([IEv e] ++ map IOb o) ++ items l).
  rewrite !idocs_app, IH, idocs_obs. cbn [flat_map snd]. rewrite RE_DocsCor.docs_of_app. reflexivity.
Qed.

Lemma on_stream_run u name d n : on_stream u name d = Some n -> RE_DocsCor.run_of d = u.
Proof. intros H. destruct (on_stream_inv _ _ _ _ H) as [[data ->]|[-> _]]; reflexivity. Qed.

Lemma forallb_with {X} (f g : X -> bool) l :
  forallb f l = true -> (forall x, In x l -> g x = true) -> forallb (fun x => f x && g x) l = true.
Proof.
  intros Hf Hg. apply forallb_forall. intros x Hx. rewrite forallb_forall in Hf. rewrite (Hf x Hx), (Hg x Hx). reflexivity.
Qed.

Section Engine.
Variable P : Type.
Variable presume : P -> input -> outcome P.
Variable plan_of : nat -> P.
Variable D : Type.
Variable dev : D -> nat -> devmeth -> D * devres.
Variables (d0 : D) (paus stag : list nat) (rec : bool) (evs : list event).

Let tr := snd (DocMon.run_steps P presume plan_of D dev (init P D d0 paus stag rec) evs).

Lemma run_items_accepted : exists m', mon_items rec mon0 (items tr) = Some m'.
Proof.
  destruct (run_docs_accepted P presume plan_of D dev d0 paus stag rec evs) as (m' & E & _).
  exists m'. apply mon_steps_items. exact E.
Qed.

(* nothing of a run after its RunStop: a stop of run u never precedes a document of run u *)
Lemma no_stop_before X it Y d2 Z u :
  items tr = X ++ it :: Y ++ IOb (ODoc d2) :: Z -> RE_DocsCor.run_of d2 = u -> is_stop_of u it = false.
Proof.
  intros E Hu. destruct (is_stop_of u it) eqn:Es; [|reflexivity]. exfalso.
  destruct it as [e|o]; [discriminate Es|]. destruct o as [| | |d| | | | | |]; try discriminate Es.
  destruct d as [v|v ? ?|v ? ? ?|v ?|v xs rs num]; try discriminate Es. cbn [is_stop_of] in Es. apply Nat.eqb_eq in Es. subst v.
  apply (f_equal idocs) in E. rewrite idocs_items in E.
  rewrite idocs_app in E. cbn [idocs flat_map] in E. fold (idocs (Y ++ IOb (ODoc d2) :: Z)) in E.
  rewrite idocs_app in E. cbn [idocs flat_map app] in E. fold (idocs Z) in E. fold (idocs Y) in E. fold (idocs X) in E.
  pose proof (RE_DocsCor.docs_stop_last P presume plan_of D dev d0 paus stag rec evs (idocs X) u xs rs num (idocs Y ++ d2 :: idocs Z)) as Hs.
  rewrite (RE_DocsMon.run_steps_run P presume plan_of D dev) in Hs. cbn [snd] in Hs. fold tr in Hs.
  apply (Hs E d2); [apply in_or_app; right; left; reflexivity | exact Hu].
Qed.

(* C05, numbering: two successive events of a stream of a run never skip a seq_num, and carry
   consecutive seq_nums unless a rewind mark (a resume() call, a `_start_suspender` message) lies
   between them *)
Theorem run_successive_events A d1 B d2 C u name n1 n2 :
  items tr = A ++ IOb (ODoc d1) :: B ++ IOb (ODoc d2) :: C ->
  on_stream u name d1 = Some n1 -> on_stream u name d2 = Some n2 ->
  forallb (fun it => negb (touches u name it)) B = true ->
  n2 <= S n1 /\ (forallb (fun it => negb (rewind_mark it)) B = true -> n2 = S n1).
Proof.
  intros E H1 H2 HB. destruct run_items_accepted as [m' Hm]. rewrite E in Hm.
  eapply successive_events; [exact Hm | exact H1 | exact H2|].
  apply forallb_with; [exact HB|]. intros it Hit. apply negb_true_iff.
  apply in_split in Hit as (B1 & B2 & ->).
  apply (no_stop_before (A ++ IOb (ODoc d1) :: B1) it B2 d2 C u); [|eapply on_stream_run; exact H2].
  rewrite E. repeat (rewrite <- app_assoc; cbn [app]). reflexivity.
Qed.

(* C05, re-issue: an event followed - with nothing of its stream and no rewind mark in between - by a
   `checkpoint` message that took effect is never re-issued, as long as no `clear_checkpoint` is
   processed: every later event of the stream carries a larger seq_num *)
Theorem run_checkpoint_protects A d1 B mm ok C d2 E u name n1 n2 :
  items tr = A ++ IOb (ODoc d1) :: B ++ IOb (OMsg mm) :: IOb ok :: C ++ IOb (ODoc d2) :: E ->
  on_stream u name d1 = Some n1 ->
  forallb (fun it => negb (touches u name it)) B = true ->
  forallb (fun it => negb (rewind_mark it)) B = true ->
  is_ckpt_msg mm = true -> ck_ok ok = true ->
  forallb (fun it => negb (clear_mark it)) C = true ->
  on_stream u name d2 = Some n2 -> n1 < n2.
Proof.
  intros Eq H1 HB HBr Hm Hok HC H2. destruct run_items_accepted as [m' Hacc]. rewrite Eq in Hacc.
  pose proof (on_stream_run _ _ _ _ H2) as Hu.
  eapply checkpoint_protects_items; [exact Hacc | exact H1 | | exact HBr | exact Hm | exact Hok | | exact H2].
  - apply forallb_with; [exact HB|]. intros it Hit. apply negb_true_iff.
    apply in_split in Hit as (B1 & B2 & ->).
    apply (no_stop_before (A ++ IOb (ODoc d1) :: B1) it (B2 ++ IOb (OMsg mm) :: IOb ok :: C) d2 E u); [|exact Hu].
    rewrite Eq. repeat (rewrite <- app_assoc; cbn [app]). reflexivity.
  - apply forallb_with; [exact HC|]. intros it Hit. apply negb_true_iff.
    apply in_split in Hit as (C1 & C2 & ->).
    apply (no_stop_before (A ++ IOb (ODoc d1) :: B ++ IOb (OMsg mm) :: IOb ok :: C1) it C2 d2 E u); [|exact Hu].
    rewrite Eq. repeat (rewrite <- app_assoc; cbn [app]). reflexivity.
Qed.
End Engine.
