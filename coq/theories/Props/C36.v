(* C36 - stream datums concatenate and consolidators keep consistent shapes.
   Model: Pure/Chunks.v (concatenate, construct, shape, chunks, list_summands, consume).
   Proofs: Proofs/Chunks.v.  This file only states. *)
From Coq Require Import ZArith List Permutation Sorted.
From BV Require Import Base.Prelude Pure.Chunks Proofs.Chunks.
Import ListNotations.
Local Open Scope Z_scope.

(* ---------------------------------------------------------------- T1: acceptance *)

(* For >= 2 datums with non-empty index intervals: accepted exactly when all share the descriptor,
   all share the resource, and the datums are (in any order) a chain of adjacent intervals. *)
Theorem C36_concat_accepts_iff : forall ds, (2 <= length ds)%nat -> wf_strict ds ->
  ((exists r, concatenate ds = Ok r) <->
     same_on descr ds /\ same_on sres ds /\ exists c, Permutation ds c /\ chain c).
Proof. exact concat_accepts_iff. Qed.
Print Assumptions C36_concat_accepts_iff.

(* No hypothesis on the intervals: the stably sorted list must be a chain; every rejection of
   >= 2 datums is a ValueError; one datum is returned unchanged; no datum is an IndexError. *)
Theorem C36_concat_accepts_unconditional :
  concatenate [] = Err IndexError /\
  (forall d, concatenate [d] = Ok d) /\
  (forall ds, (2 <= length ds)%nat ->
     ((exists r, concatenate ds = Ok r) <->
        same_on descr ds /\ same_on sres ds /\ chain (isort ds)) /\
     (forall e, concatenate ds = Err e -> e = ValueError)).
Proof. exact concat_accepts_unconditional_all. Qed.
Print Assumptions C36_concat_accepts_unconditional.

(* isort is THE stable sort by indices.start *)
Theorem C36_isort_is_stable_sort : forall ds,
  Permutation (isort ds) ds /\
  StronglySorted (fun a b => istart a <= istart b) (isort ds) /\
  forall k, filter (fun x => istart x =? k) (isort ds) = filter (fun x => istart x =? k) ds.
Proof. exact isort_is_stable_sort. Qed.
Print Assumptions C36_isort_is_stable_sort.

Example C36_concat_nonvacuous :
  (2 <= length ex_shuffled)%nat /\ wf_strict ex_shuffled /\ isort ex_shuffled <> ex_shuffled /\
  concatenate ex_shuffled = Ok (mkDatum 0 7 9 0 6 1 7) /\ seq_consistent ex_shuffled.
Proof. exact ex_concat_nonvacuous. Qed.

(* the non-emptiness hypothesis is necessary: a permutation of a chain that is rejected, and two
   permutations of one list with different results *)
Example C36_wf_strict_needed :
  let ds := [D 0 0 2 1 3; D 1 2 4 3 5; D 2 2 2 9 9] in
  let ds' := [D 0 0 2 1 3; D 2 2 2 9 9; D 1 2 4 3 5] in
  Permutation ds ds' /\ chain ds' /\ wf_weak ds /\
  concatenate ds = Err ValueError /\ concatenate ds' = Ok (mkDatum 1 7 9 0 4 1 5).
Proof. exact ex_wf_needed. Qed.

(* ---------------------------------------------------------------- T2: the result *)

(* On success: uid/descriptor/resource/indices.stop/seq_nums.stop come from a datum with the largest
   start, indices.start/seq_nums.start from one with the smallest start; descriptor and resource are
   the common ones; indices.start is the minimum start and (intervals not inverted) indices.stop is
   the maximum stop. *)
Theorem C36_concat_result : forall ds r, concatenate ds = Ok r ->
  exists first lst,
    In first ds /\ In lst ds /\
    (forall d, In d ds -> istart first <= istart d <= istart lst) /\
    r = mkDatum (uid lst) (descr lst) (sres lst) (istart first) (istop lst) (sstart first) (sstop lst) /\
    (forall d, In d ds -> descr d = descr r /\ sres d = sres r) /\
    is_min (istart r) (map istart ds) /\
    (wf_weak ds -> is_max (istop r) (map istop ds)).
Proof. exact concat_result. Qed.
Print Assumptions C36_concat_result.

(* seq_nums are the combined range when seq_nums are ordered consistently with the indices *)
Theorem C36_concat_seq_minmax : forall ds r, concatenate ds = Ok r -> seq_consistent ds ->
  is_min (sstart r) (map sstart ds) /\ is_max (sstop r) (map sstop ds).
Proof. exact concat_seq_minmax. Qed.
Print Assumptions C36_concat_seq_minmax.

(* ... and not otherwise: the code never inspects seq_nums *)
Example C36_seq_consistent_needed :
  let ds := [D 0 0 2 5 7; D 1 2 4 1 3] in
  wf_strict ds /\ concatenate ds = Ok (mkDatum 1 7 9 0 4 5 3) /\
  ~ is_min 5 (map sstart ds) /\ ~ is_max 3 (map sstop ds).
Proof. exact ex_seq_needed. Qed.

(* ---------------------------------------------------------------- T3: any order *)

Theorem C36_concat_permutation_invariant : forall ds ds',
  wf_strict ds -> Permutation ds ds' -> concatenate ds = concatenate ds'.
Proof. exact concat_perm_invariant. Qed.
Print Assumptions C36_concat_permutation_invariant.

Example C36_permutation_nonvacuous :
  wf_strict ex_shuffled /\ Permutation ex_shuffled (isort ex_shuffled) /\
  isort ex_shuffled <> ex_shuffled /\ exists r, concatenate ex_shuffled = Ok r.
Proof. exact ex_perm_nonvacuous. Qed.

(* ---------------------------------------------------------------- T4: list_summands *)

Theorem C36_list_summands : forall A b r, 0 < b -> 0 <= A -> 0 <= r ->
  zsum (list_summands A b r) = r * A /\
  (r * A = 0 -> list_summands A b r = [0]) /\
  (r * A <> 0 -> Forall (fun s => 0 < s <= b) (list_summands A b r) /\
                 list_summands A b r = concat (repeat (summand_base A b) (Z.to_nat r))).
Proof. exact list_summands_spec. Qed.
Print Assumptions C36_list_summands.

Example C36_list_summands_nonvacuous :
  list_summands 13 3 1 = [3; 3; 3; 3; 1] /\ list_summands 7 3 3 = [3; 3; 1; 3; 3; 1; 3; 3; 1] /\
  list_summands 0 3 2 = [0] /\ list_summands 5 3 0 = [0].
Proof. exact ex_summands_nonvacuous. Qed.

(* ---------------------------------------------------------------- T5: chunks are a chunking of shape *)

(* Once the constructor accepted, consume_stream_datum never raises, changes none of
   kind/datum_shape/join_method/join_chunks/chunk_shape, and _num_rows is the sum of the index ranges *)
Theorem C36_consume_never_fails : forall p c ds, construct p = Ok c ->
  exists c', consume_all c ds = Ok c' /\ same_static c c' /\
             c_rows c' = zsum (map (fun d => istop d - istart d) ds).
Proof. exact consume_never_fails. Qed.
Print Assumptions C36_consume_never_fails.

(* Exact behaviour of chunks after any history (finding classes included): Ok ch is a chunking of
   shape (one entry per dimension, sizes add up, each dimension either the single empty chunk (0,) or positive sizes); ValueError exactly when chunk_shape
   is longer than shape; IndexError exactly in class C36-a. *)
Theorem C36_chunks_exact : forall p c ds c',
  params_nonneg p -> construct p = Ok c -> wf_weak ds -> consume_all c ds = Ok c' ->
  match chunks c' with
  | Ok ch => length ch = length (shape c') /\ map zsum ch = shape c' /\
             Forall proper_dim ch /\
             (length (c_chunk c') <= length (shape c'))%nat /\ finding_C36_a c' = false
  | Err e => (e = ValueError /\ (length (shape c') < length (c_chunk c'))%nat) \/
             (e = IndexError /\ finding_C36_a c' = true /\
              (length (c_chunk c') <= length (shape c'))%nat)
  end.
Proof. exact chunks_exact. Qed.
Print Assumptions C36_chunks_exact.

(* The property, outside the two finding classes: a valid chunking, or the documented rejection of
   a USER-SUPPLIED chunk_shape that has more dimensions than the shape. *)
Theorem C36_chunks_valid : forall p c ds c',
  params_nonneg p -> construct p = Ok c -> wf_weak ds -> consume_all c ds = Ok c' ->
  finding_C36_a c' = false -> finding_C36_b c' = false ->
  (exists ch, chunks c' = Ok ch /\ length ch = length (shape c') /\ map zsum ch = shape c' /\
              Forall proper_dim ch) \/
  (chunks c' = Err ValueError /\ p_chunk p = Some (c_chunk c') /\
   (length (shape c') < length (c_chunk c'))%nat).
Proof. exact chunks_valid. Qed.
Print Assumptions C36_chunks_valid.

Example C36_chunks_nonvacuous : exists c c',
  params_nonneg ex_params /\ construct ex_params = Ok c /\ wf_weak ex_docs /\
  consume_all c ex_docs = Ok c' /\ finding_C36_a c' = false /\ finding_C36_b c' = false /\
  shape c' = [15; 4] /\
  chunks c' = Ok [[2; 1; 2; 1; 2; 1; 2; 1; 2; 1]; [3; 1]].
Proof. exact ex_chunks_nonvacuous. Qed.

Example C36_rejection_nonvacuous :
  let p := mkParams KHdf5 [Some 3] None (Some [2; 3; 4]) None None true in
  exists c, params_nonneg p /\ construct p = Ok c /\ finding_C36_a c = false /\
            finding_C36_b c = false /\ chunks c = Err ValueError.
Proof. exact ex_rejection_nonvacuous. Qed.

(* C36-a (recorded finding): scalar datums, join_method concat, join_chunks False (the CSV defaults)
   and a 1-d chunk_shape: accepted by the constructor, shape is (rows,), chunk_shape is NOT longer
   than the shape, and chunks raises IndexError instead of returning a chunking. *)
Theorem C36_a_refuted :
  let p := mkParams KCsv [] None (Some [5]) None None true in
  let ds := [D 0 0 3 1 4] in
  exists c c',
    params_nonneg p /\ construct p = Ok c /\ wf_weak ds /\ consume_all c ds = Ok c' /\
    finding_C36_a c' = true /\ finding_C36_b c' = false /\
    shape c' = [3] /\ c_chunk c' = [5] /\
    chunks c' = Err IndexError /\
    ~ (exists ch, chunks c' = Ok ch /\ map zsum ch = shape c') /\
    ~ (length (shape c') < length (c_chunk c'))%nat.
Proof. exact a_refuted. Qed.
Print Assumptions C36_a_refuted.

(* C36-b (recorded finding): NPYConsolidator for a descriptor shape [1] and NO user chunk_shape:
   the class squeezes datum_shape to () but injects chunk_shape (1, 1), longer than its own shape
   (rows,), so chunks (and structure()) can never be produced. *)
Theorem C36_b_refuted :
  let p := mkParams KNpy [Some 1] None None None None true in
  let ds := [D 0 0 3 1 4] in
  exists c c',
    params_nonneg p /\ p_chunk p = None /\ construct p = Ok c /\ wf_weak ds /\
    consume_all c ds = Ok c' /\
    finding_C36_b c' = true /\ finding_C36_a c' = false /\
    shape c' = [3] /\ c_chunk c' = [1; 1] /\
    chunks c' = Err ValueError /\
    ~ (exists ch, chunks c' = Ok ch /\ map zsum ch = shape c').
Proof. exact b_refuted. Qed.
Print Assumptions C36_b_refuted.

(* ---------------------------------------------------------------- T6: seq_num -> row *)

(* After consuming ds (in order) the map sends s to the row given by the LAST datum whose zipped
   (seq_num, index) pairs contain s, and has no entry for any other s. *)
Theorem C36_seqnums_to_indices : forall p c ds c', construct p = Ok c -> consume_all c ds = Ok c' ->
  forall s, map_get s (c_map c') = last_cover ds s.
Proof. exact seqnums_to_indices. Qed.
Print Assumptions C36_seqnums_to_indices.

Theorem C36_last_cover_spec : forall ds s,
  (forall d s, covers d s = true <->
     sstart d <= s < sstop d /\ s - sstart d < istop d - istart d) /\
  (forall v, last_cover ds s = Some v <->
     exists l1 d l2, ds = l1 ++ d :: l2 /\ covers d s = true /\ v = row_of d s /\
                     forall d', In d' l2 -> covers d' s = false) /\
  (last_cover ds s = None <-> forall d, In d ds -> covers d s = false).
Proof. exact last_cover_spec_all. Qed.
Print Assumptions C36_last_cover_spec.

(* _num_rows counts all consumed rows; with pairwise disjoint seq_num ranges every consumed
   seq_num maps to its own row index *)
Theorem C36_seqnums_rows : forall p c ds c', construct p = Ok c -> consume_all c ds = Ok c' ->
  c_rows c' = zsum (map (fun d => istop d - istart d) ds) /\
  (ForallOrdPairs seq_disjoint ds ->
   forall d s, In d ds -> covers d s = true -> map_get s (c_map c') = Some (row_of d s)).
Proof. exact seqnums_rows. Qed.
Print Assumptions C36_seqnums_rows.

Example C36_seqmap_nonvacuous : exists c c',
  construct ex_params = Ok c /\ consume_all c ex_docs = Ok c' /\
  ForallOrdPairs seq_disjoint ex_docs /\
  c_map c' = [(1, 0); (2, 1); (3, 2); (4, 3); (5, 4)] /\ c_rows c' = 5.
Proof. exact ex_seqmap_nonvacuous. Qed.

Example C36_overwrite_nonvacuous :
  let ds := [D 0 0 3 1 4; D 1 3 5 2 4] in
  last_cover ds 2 = Some 3 /\ last_cover ds 1 = Some 0 /\ last_cover ds 4 = None.
Proof. exact ex_overwrite. Qed.
