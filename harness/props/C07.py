"""C07 - RunEngine lifecycle never takes an illegal transition or gets stuck."""
from harness.props.engine_common import *  # noqa: F401,F403  (cases/impl_batch/coq_term/... shared by the engine family)
from harness.props import engine_common as ec
from harness import tables

ID = "C07"
PROP_FILE = "Props/C07.v"
THEOREMS = ["C07_transitions_legal", "C07_quiescent_state", "C07_cleanup_never_refused", "C07_done_is_idle"]
cases = ec.gen_cases

_TABLE = None


def _table():
    global _TABLE
    if _TABLE is None:
        _TABLE = tables.extract()["transitions"]
    return _TABLE


def oracle(case, obs):
    if obs.get("errors"):
        return "driver: " + str(obs["errors"][0])[:200]
    t = _table()
    for o in obs["obs"]:
        if o[0] == "state" and o[2] not in t.get(o[1], []):
            return "illegal lifecycle change %s -> %s" % (o[1], o[2])
    for out in ec.outs_of(obs):
        if out["state"] not in ("idle", "paused"):
            return "after %s() returned/raised the engine is in the transient state %r" % (out["action"], out["state"])
    return None


def finding(case, obs):
    if obs.get("errors"):
        return None
    states = [o for o in obs["obs"] if o[0] == "state"]
    for out in ec.outs_of(obs):
        if out["state"] == "suspending" or (out["kind"] == "raise" and out["exn"] == "TransitionError"):
            # a suspension request accepted while `_run` sat in its final sleep(0): the finally block's
            # `state = idle` is rejected (suspending -> idle is not in the table)
            if any(e[0] == "task" and str(e[2]).startswith("raise:TransitionError") for e in obs["sched"]):
                return "a"
        if out["state"] in ("aborting", "stopping", "halting"):
            # abort/stop/halt coroutine that ran while the engine was paused, not issued by the blocked caller
            if any(s[1] == "paused" and s[2] == out["state"] for s in states):
                return "c"
            if any(e[0] == "task" and str(e[2]).startswith("raise:TransitionError") for e in obs["sched"]):
                return "a"
    return None
