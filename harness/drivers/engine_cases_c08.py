"""Extra engine cases for C08 (RunEngineInterrupted means paused unless the plan was terminated).

On top of the shared corpus (engine_cases.py):
  * one plain pause at EVERY `_run` step index of several templates, going well past the last
    message (the final `sleep(0)` of `_run`, and beyond), with and without interruption recording;
  * pauses / deferred pauses / suspensions inside non-resumable sections (clear_checkpoint,
    rewindable off);
  * requests that the state machine refuses: stop/abort/halt landing while the engine is
    'pausing' or 'suspending' (same step and next step);
  * a pause or a stop racing with the end of the plan after an accepted suspension.
Deterministic (no randomness); quick tier <= ~200 cases.
"""
from harness.drivers.engine_cases import (DEVS, base, count_msgs, m, seq, t_bundle, t_finally, t_leftopen, t_noresume,
                                          t_norun, t_rewindable, t_simple, t_two_runs)


def t_late_nonresumable():
    # the plan ends inside a non-resumable section
    return seq(m("open_run"), m("checkpoint"), m("null"), m("clear_checkpoint"), m("null"), m("close_run"))


def gen(rng, tier):
    out = []
    thorough = tier == "thorough"
    # 1. a single pause at every step index, far past the last message
    temps = [("simple", t_simple), ("bundle", t_bundle), ("finally", t_finally), ("norun", t_norun),
             ("leftopen", t_leftopen), ("latenr", t_late_nonresumable)]
    if thorough:
        temps += [("tworuns", t_two_runs), ("noresume", t_noresume), ("rewindable", t_rewindable)]
    for name, t in temps:
        plan = t()
        n = count_msgs(plan)
        lo = 1 if thorough else max(1, n - 1)
        for at in range(lo, n + 7):
            out.append(base(plan, inject=[{"at": at, "req": "pause"}], script=["resume"], tag="c08 %s pause@%d" % (name, at)))
        for at in range(n + 1, n + 5):
            out.append(base(plan, inject=[{"at": at, "req": "pause"}], script=["resume"], record_interruptions=True,
                            tag="c08 %s pause-rec@%d" % (name, at)))
            if thorough or name in ("simple", "latenr"):
                out.append(base(plan, inject=[{"at": at, "req": "defer"}], script=["resume"], tag="c08 %s defer@%d" % (name, at)))
    # 2. pause / deferred pause / suspension inside non-resumable sections
    for name, t in (("noresume", t_noresume), ("rewindable", t_rewindable), ("latenr", t_late_nonresumable)):
        plan = t()
        n = count_msgs(plan)
        for at in range(3, n + 3, 1 if thorough else 2):
            out.append(base(plan, inject=[{"at": at, "req": "pause"}], script=["resume"], tag="c08 %s nr-pause@%d" % (name, at)))
            out.append(base(plan, inject=[{"at": at, "req": "suspend"}, {"at": at + 4, "req": "release", "sid": 0}],
                            tag="c08 %s nr-suspend@%d" % (name, at)))
            out.append(base(plan, inject=[{"at": at, "req": "defer"}], script=["resume"], tag="c08 %s nr-defer@%d" % (name, at)))
    # 3. requests refused by the state machine: stop/abort/halt while pausing / suspending
    for name, t in (("simple", t_simple), ("bundle", t_bundle)):
        plan = t()
        n = count_msgs(plan)
        for at in range(2, n + 4, 1 if thorough else 2):
            for x in ("stop", "abort", "halt"):
                out.append(base(plan, inject=[{"at": at, "req": "suspend"}, {"at": at + 1, "req": x}, {"at": at + 8, "req": "release", "sid": 0}],
                                tag="c08 %s suspend+%s@%d" % (name, x, at)))
                out.append(base(plan, inject=[{"at": at, "req": "suspend"}, {"at": at, "req": x}, {"at": at + 8, "req": "release", "sid": 0}],
                                tag="c08 %s suspend=%s@%d" % (name, x, at)))
                out.append(base(plan, inject=[{"at": at, "req": "pause"}, {"at": at, "req": x}], script=["resume"],
                                tag="c08 %s pause=%s@%d" % (name, x, at)))
    # 4. after a refused stop: a second request while the plan runs on
    plan = t_simple()
    for at2 in range(5, 12):
        out.append(base(plan, inject=[{"at": 3, "req": "suspend"}, {"at": 4, "req": "stop"}, {"at": 6, "req": "release", "sid": 0},
                                      {"at": at2 + 2, "req": "pause"}], script=["resume"], tag="c08 refused-stop then pause@%d" % at2))
    return out
