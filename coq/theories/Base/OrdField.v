(* Arithmetic shared by the numeric models (DESIGN 3.5).

   Numeric code is written ONCE over a record [Ops F] of operations.  Theorems are proved
   for the exact instance [QO] (rationals); the same Gallina text instantiated with [FO]
   (binary64, Coq's primitive floats) is what the correspondence evaluates bit-exactly
   against Python/numpy floats.  This file is model text only (no proofs). *)
From Coq Require Import ZArith QArith Qabs List Bool.
From Coq Require Import PrimFloat Uint63 FloatOps SpecFloat FloatClass.
Import ListNotations.

Record Ops (F : Type) : Type := mkOps {
  zero : F;
  one : F;
  add : F -> F -> F;
  sub : F -> F -> F;
  mul : F -> F -> F;
  div : F -> F -> F;
  opp : F -> F;
  abs : F -> F;
  ltb : F -> F -> bool;          (* a < b *)
  leb : F -> F -> bool;          (* a <= b *)
  eqb : F -> F -> bool;          (* a == b  (IEEE equality for floats: 0 == -0, nan != nan) *)
  of_Z : Z -> F;                 (* Python float(int), exact for |z| < 2^53 *)
  trunc : F -> Z                 (* Python int(float): toward zero; finite arguments only *)
}.
Arguments zero {F}. Arguments one {F}. Arguments add {F}. Arguments sub {F}.
Arguments mul {F}. Arguments div {F}. Arguments opp {F}. Arguments abs {F}.
Arguments ltb {F}. Arguments leb {F}. Arguments eqb {F}. Arguments of_Z {F}. Arguments trunc {F}.

(* ------------------------------------------------------------------ exact instance *)
Definition Qltb (a b : Q) : bool := negb (Qle_bool b a).
Definition Qtrunc (q : Q) : Z := Z.quot (Qnum q) (Zpos (Qden q)).

Definition QO : Ops Q := {|
  zero := 0%Q; one := 1%Q;
  add := Qplus; sub := Qminus; mul := Qmult; div := Qdiv; opp := Qopp; abs := Qabs;
  ltb := Qltb; leb := Qle_bool; eqb := Qeq_bool;
  of_Z := inject_Z; trunc := Qtrunc |}.

(* ------------------------------------------------------------------ binary64 instance *)
Definition float_of_Z (z : Z) : float :=
  match z with
  | Z0 => PrimFloat.zero
  | Zpos _ => PrimFloat.of_uint63 (Uint63.of_Z z)
  | Zneg p => PrimFloat.opp (PrimFloat.of_uint63 (Uint63.of_Z (Zpos p)))
  end.

(* int(f) for finite f; 0 for inf/nan (the models test for those cases before calling it) *)
Definition float_trunc (f : float) : Z :=
  match Prim2SF f with
  | S754_finite s m e =>
      let v := if (0 <=? e)%Z then (Zpos m * 2 ^ e)%Z else (Zpos m / 2 ^ (- e))%Z in
      if s then (- v)%Z else v
  | _ => 0%Z
  end.

Definition FO : Ops float := {|
  zero := PrimFloat.zero; one := PrimFloat.one;
  add := PrimFloat.add; sub := PrimFloat.sub; mul := PrimFloat.mul; div := PrimFloat.div;
  opp := PrimFloat.opp; abs := PrimFloat.abs;
  ltb := PrimFloat.ltb; leb := PrimFloat.leb; eqb := PrimFloat.eqb;
  of_Z := float_of_Z; trunc := float_trunc |}.

(* bit-exact comparison of two binary64 values (all NaNs identified; +0 and -0 distinguished) *)
Definition class_code (c : float_class) : nat :=
  match c with
  | PNormal => 0 | NNormal => 1 | PSubn => 2 | NSubn => 3 | PZero => 4 | NZero => 5
  | PInf => 6 | NInf => 7 | NaN => 8
  end.
Definition fbeq (a b : float) : bool :=
  if PrimFloat.is_nan a then PrimFloat.is_nan b
  else PrimFloat.eqb a b && Nat.eqb (class_code (PrimFloat.classify a)) (class_code (PrimFloat.classify b)).

Definition fpair_beq (p q : float * float) : bool := fbeq (fst p) (fst q) && fbeq (snd p) (snd q).

Fixpoint flist_beq (l1 l2 : list float) : bool :=
  match l1, l2 with
  | [], [] => true
  | a :: l1', b :: l2' => fbeq a b && flist_beq l1' l2'
  | _, _ => false
  end.

Fixpoint fplist_beq (l1 l2 : list (float * float)) : bool :=
  match l1, l2 with
  | [], [] => true
  | a :: l1', b :: l2' => fpair_beq a b && fplist_beq l1' l2'
  | _, _ => false
  end.

(* libm / numpy functions that are not modelled (cos, sin, tan, pow(.,2) ...) enter the float
   instance as finite tables recorded from the implementation run: [lookup tab x] is the
   recorded value at the bit-identical argument, NaN when the argument was never recorded
   (the correspondence separately compares the argument sequences, so a miss is visible). *)
Fixpoint flookup (tab : list (float * float)) (x : float) : float :=
  match tab with
  | [] => PrimFloat.nan
  | (k, v) :: tab' => if fbeq k x then v else flookup tab' x
  end.

(* Python range(a, b) and range(a, b, -1) over Z *)
Definition zrange (a b : Z) : list Z := map (fun j => (a + Z.of_nat j)%Z) (seq 0 (Z.to_nat (b - a))).
Definition zrange_dn (a b : Z) : list Z := map (fun j => (a - Z.of_nat j)%Z) (seq 0 (Z.to_nat (a - b))).
