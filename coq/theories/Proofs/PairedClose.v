(* C23: what the paired-action wrappers do when they are closed or halted (close(), a thrown GeneratorExit / PlanHalt).
   Built on C22's theorems about the finalize_wrapper / contingency_wrapper machine (Proofs/WrappersThm.v). *)
From Coq Require Import String.
From BV Require Import Base.Prelude Gen.Coalg Gen.PyGen Gen.Wrappers Gen.Paired.
From BV Require Import Proofs.Coalg Proofs.WrappersThm Proofs.Paired Proofs.PairedThm.

Definition ge_input (i : input) : bool :=
  match i with Close => true | Throw e => is_GeneratorExit e | Send _ => false end.

(* what close() / throw(e) report when the generator ends with GeneratorExit / e *)
Definition closed_obs (i : input) : obs :=
  match i with Throw e => ORaise e | _ => OClosed end.

(* ------------------------------------------------------------------ states reached by plain scripts *)
Lemma trace_after :
  forall X (res : X -> input -> outcome X) s x x' t,
    plain s = true -> after res x s = Some x' -> trace res x (s ++ t) = trace res x s ++ trace res x' t.
Proof.
  induction s as [|i s IH]; intros x x' t Hp HA; cbn in HA.
  - now inversion HA.
  - apply plain_cons in Hp as [Hi Hs]. cbn [app]. rewrite !trace_cons by now apply plain_not_close.
    destruct (res x i) as [m x1|v|e|]; try discriminate. cbn [trace_from app]. f_equal. now apply IH.
Qed.

Lemma after_map :
  forall X Y (rx : X -> input -> outcome X) (ry : Y -> input -> outcome Y) (f : X -> Y),
    (forall x i, ry (f x) i = map_outcome f (rx x i)) ->
    forall s x, after ry (f x) s = option_map f (after rx x s).
Proof.
  intros X Y rx ry f H. induction s as [|i s IH]; intros x; [reflexivity|].
  cbn [after]. rewrite H. destruct (rx x i); cbn; try reflexivity. apply IH.
Qed.

Section AfterDeleg.
  Context {X : Type}.
  Variable xres : X -> input -> outcome X.

  Lemma after_d_run : forall s x, plain s = true -> after (d_resume xres) (DRun x) s = option_map DRun (after xres x s).
  Proof.
    induction s as [|i s IH]; intros x Hp; [reflexivity|].
    apply plain_cons in Hp as [Hi Hs]. cbn [after].
    assert (E : d_resume xres (DRun x) i = map_outcome DRun (xres x i)).
    { destruct i as [v|e|]; cbn in *; [reflexivity| |discriminate]. apply negb_true_iff in Hi. now rewrite Hi. }
    rewrite E. destruct (xres x i); cbn; try reflexivity. now apply IH.
  Qed.

  Lemma after_d_start :
    forall s x, plain s = true ->
      after (d_resume xres) (DStart x) (Send VNone :: s) = option_map DRun (after xres x (Send VNone :: s)).
  Proof.
    intros s x Hp. cbn [after d_resume]. destruct (xres x (Send VNone)); cbn; try reflexivity. now apply after_d_run.
  Qed.

  (* closing / halting the wrapper's own generator: the delegate is closed; the wrapper never yields again *)
  Lemma d_close_terminal :
    forall x i, ge_input i = true -> match d_resume xres (DRun x) i with Yielded _ _ => False | _ => True end.
  Proof.
    intros x i H. destruct i as [v|e|]; cbn in *; try discriminate.
    - rewrite H. unfold d_close. destruct (close_result (xres x Close)); exact I.
    - unfold d_close. destruct (close_result (xres x Close)); exact I.
  Qed.

  (* ... and when the delegate ends with a GeneratorExit kind under close(), the wrapper ends with the exception thrown *)
  Lemma d_close_ok :
    forall x i e0, ge_input i = true -> xres x Close = Raised e0 -> is_GeneratorExit e0 = true ->
      d_resume xres (DRun x) i = Raised (match i with Throw e => e | _ => EGeneratorExit end).
  Proof.
    intros x i e0 H HX HG. destruct i as [v|e|]; cbn in *; try discriminate.
    - rewrite H. unfold d_close. rewrite HX. cbn. now rewrite HG.
    - unfold d_close. rewrite HX. cbn. now rewrite HG.
  Qed.
End AfterDeleg.

Section AfterBisim.
  Context {A B : Type}.
  Variable ra : A -> input -> outcome A.
  Variable rb : B -> input -> outcome B.
  Variable R : A -> B -> Prop.
  Hypothesis step : forall a b, R a b -> forall i, out_rel R (ra a i) (rb b i).

  Lemma bisim_after :
    forall s a b b', R a b -> after rb b s = Some b' -> exists a', after ra a s = Some a' /\ R a' b'.
  Proof.
    induction s as [|i s IH]; intros a b b' HR HA; cbn in HA.
    - inversion HA; subst. exists a. now split.
    - pose proof (step a b HR i) as Ho. cbn [after].
      destruct (rb b i) as [m b1|v|e|]; try discriminate.
      destruct (ra a i) as [m' a1|v|e|]; cbn in Ho; try contradiction. destruct Ho as [_ Ho]. now apply (IH a1 b1).
  Qed.
End AfterBisim.

Section AfterSeq2.
  Context {B F S : Type}.
  Variable bres : B -> input -> outcome B.
  Variable bstore : B -> input -> S.
  Variable fres : F -> input -> outcome F.
  Variable next : S -> term -> option (F * completion).
  Notation s2r := (s2_resume bres bstore fres next).

  (* while the body has not terminated the machine is in S2Body, at the body's own state *)
  Lemma after_s2_body :
    forall s b b', plain s = true -> after bres b s = Some b' -> after s2r (S2Body b) s = Some (S2Body b').
  Proof.
    induction s as [|i s IH]; intros b b' Hp HA; cbn in HA.
    - now inversion HA.
    - apply plain_cons in Hp as [Hi Hs]. cbn [after].
      assert (E : s2r (S2Body b) i = s2_body_result fres next (bstore b i) (bres b i)).
      { destruct i as [v|e|]; cbn in *; [reflexivity| |discriminate]. apply negb_true_iff in Hi. now rewrite Hi. }
      rewrite E. destruct (bres b i) as [m b1|v|e|]; try discriminate. cbn. now apply IH.
  Qed.

  Lemma after_s2_start :
    forall s b b', plain s = true -> after bres b (Send VNone :: s) = Some b' ->
      after s2r (S2Start b) (Send VNone :: s) = Some (S2Body b').
  Proof. intros s b b' Hp HA. rewrite <- (after_s2_body (Send VNone :: s) b b' Hp HA). reflexivity. Qed.
End AfterSeq2.

(* ------------------------------------------------------------------ prefix; plan *)
Section AfterPP.
  Context {P : Type}.
  Variable resume : P -> input -> outcome P.
  Variable is_status : val -> bool.
  Notation pp := (pp_resume resume is_status).
  Notation lp := (lp_resume is_status).

  Lemma after_pp_plan :
    forall s acc p p', plain s = true -> after resume p s = Some p' -> after pp (PPPlan acc p) s = Some (PPPlan acc p').
  Proof.
    induction s as [|i s IH]; intros acc p p' Hp HA; cbn in HA.
    - now inversion HA.
    - apply plain_cons in Hp as [Hi Hs]. cbn [after].
      assert (E : pp (PPPlan acc p) i = map_outcome (PPPlan acc) (resume p i)).
      { destruct i as [v|e|]; cbn in *; [reflexivity| |discriminate]. apply negb_true_iff in Hi. now rewrite Hi. }
      rewrite E. destruct (resume p i) as [m p1|v|e|]; try discriminate. cbn. now apply IH.
  Qed.

  (* the prefix has been answered completely (it returned, leaving [acc]) and the wrapped plan, started in the same
     step, is at p' *)
  Lemma after_pp_pre :
    forall s l p ms acc rest p' v,
      plain s = true ->
      split lp lp_store l s = (ms, Some (TRet v, acc, rest)) ->
      after resume p (Send VNone :: rest) = Some p' ->
      after pp (PPPre l p) s = Some (PPPlan acc p').
  Proof.
    induction s as [|i s IH]; intros l p ms acc rest p' v Hp HS HA; [discriminate|].
    apply plain_cons in Hp as [Hi Hs]. rewrite split_cons in HS. cbn [after].
    assert (E : pp (PPPre l p) i = pp_pre_result resume (lp l i) (lp_store l i) p).
    { destruct i as [w|e|]; cbn in *; [reflexivity| |discriminate]. destruct l; reflexivity. }
    rewrite E. destruct (lp l i) as [m l'|w|e|]; cbn [pp_pre_result].
    - destruct (split lp lp_store l' s) as [ms' e'] eqn:E2. inversion HS; subst. now apply (IH l' p ms' acc rest p' v).
    - inversion HS; subst.
      change (pp_plan_result (lp_store l i) (resume p (Send VNone))) with (map_outcome (PPPlan (lp_store l i)) (resume p (Send VNone))).
      cbn [after] in HA. destruct (resume p (Send VNone)) as [m p1|w1|e|]; try discriminate. cbn. now apply after_pp_plan.
    - discriminate.
    - discriminate.
  Qed.

  Lemma after_pp_start :
    forall s l p ms acc rest p' v,
      plain s = true ->
      split lp lp_store l (Send VNone :: s) = (ms, Some (TRet v, acc, rest)) ->
      after resume p (Send VNone :: rest) = Some p' ->
      after pp (PPStart l p) (Send VNone :: s) = Some (PPPlan acc p').
  Proof.
    intros s l p ms acc rest p' v Hp HS HA.
    rewrite <- (after_pp_pre (Send VNone :: s) l p ms acc rest p' v Hp HS HA). reflexivity.
  Qed.

  (* closing the body while the wrapped plan runs closes that plan *)
  Lemma pp_close_in_plan :
    forall acc p, close_result (resume p Close) = CloseOk ->
      exists e0, pp (PPPlan acc p) Close = Raised e0 /\ is_GeneratorExit e0 = true.
  Proof.
    intros acc p H. cbn. unfold pp_close_plan. rewrite H. now exists EGeneratorExit.
  Qed.
End AfterPP.

(* ------------------------------------------------------------------ the wrappers *)
Section WrapperClose.
  Context {P : Type}.
  Variable resume : P -> input -> outcome P.
  Variable mk : mview -> msg.
  Variable is_status : val -> bool.

  Notation pp := (pp_resume resume is_status).
  Notation lp := (lp_resume is_status).
  Notation wres := (w_resume resume is_status).

  (* ---- stage_wrapper / suspend_wrapper: C22's machine *)
  (* C22_no_cleanup_when_closed_in_plan, read on the unlogged machine: only the body is touched (its log is [Call 0 Close]:
     the final plan is not entered) and the finalize_wrapper generator ends with GeneratorExit *)
  Lemma fin_close_in_body :
    forall undo b, close_result (wres b Close) = CloseOk ->
      cw_lresume wres true (finalize_opts false) true 1 2 1 (fun _ => WList undo) (WList undo) (WList undo) (PhBody b) Close
      = (Raised EGeneratorExit, [Call 0 Close]).
  Proof.
    intros undo b H.
    exact (proj1 (closed_in_plan_no_cleanup wres (finalize_opts false) true 1 2 1 (fun _ => WList undo) (WList undo) (WList undo) b H)).
  Qed.

  Lemma wres_close_in_plan :
    forall acc p, close_result (resume p Close) = CloseOk -> close_result (wres (WBody (PPPlan acc p)) Close) = CloseOk.
  Proof. intros acc p H. cbn. unfold pp_close_plan. now rewrite H. Qed.

  (* the state of the stage / suspend wrapper while the wrapped plan runs *)
  Lemma sw_after_in_plan :
    forall pre undo p s ms acc rest p' v,
      plain s = true ->
      lp_split is_status pre (Send VNone :: s) = (ms, Some (TRet v, acc, rest)) ->
      after resume p (Send VNone :: rest) = Some p' ->
      after (sw_resume resume is_status undo) (DStart (PhStart (WBody (PPStart pre p)))) (Send VNone :: s)
      = Some (DRun (PhBody (WBody (PPPlan acc p')))).
  Proof.
    intros pre undo p s ms acc rest p' v Hp HS HA. unfold sw_resume.
    rewrite (after_d_start (fin_resume resume is_status undo) s _ Hp).
    assert (HB : after (s2_resume wres (@no_store (@wplan P)) wres (fw_next (fun _ : unit => WList undo)))
                       (S2Start (WBody (PPStart pre p))) (Send VNone :: s) = Some (S2Body (WBody (PPPlan acc p')))).
    { apply after_s2_start; [exact Hp|].
      rewrite (after_map _ _ pp wres WBody) by reflexivity.
      now rewrite (after_pp_start resume is_status s pre p ms acc rest p' v Hp HS HA). }
    destruct (bisim_after _ _ _ (cw_finalize_step wres (@no_store (@wplan P)) true 1 2 (fun _ => WList undo) (WList undo) (WList undo))
                          (Send VNone :: s) (PhStart (WBody (PPStart pre p))) _ _ (Rf_start _) HB) as (a' & HA' & HR).
    unfold fin_resume.
    match goal with |- option_map DRun ?t = _ => assert (Ht : t = Some a') by exact HA'; rewrite Ht end.
    inversion HR; subst. reflexivity.
  Qed.

  (* closed or halted while the wrapped plan runs, and the plan accepts the close: the plan is closed, NO undo message is
     emitted, nothing else is touched; close() returns / the thrown GeneratorExit kind comes back *)
  Theorem sw_closed_in_plan :
    forall pre undo p s ms acc rest p' v i s2,
      plain s = true ->
      lp_split is_status pre (Send VNone :: s) = (ms, Some (TRet v, acc, rest)) ->
      after resume p (Send VNone :: rest) = Some p' ->
      close_result (resume p' Close) = CloseOk -> ge_input i = true ->
      trace (sw_resume resume is_status undo) (DStart (PhStart (WBody (PPStart pre p)))) (Send VNone :: s ++ i :: s2)
      = paired_ref resume is_status pre (fun _ => undo) p s ++ [closed_obs i].
  Proof.
    intros pre undo p s ms acc rest p' v i s2 Hp HS HA HC Hi.
    change (Send VNone :: s ++ i :: s2) with ((Send VNone :: s) ++ i :: s2).
    rewrite (trace_after _ _ (Send VNone :: s) _ _ (i :: s2) Hp (sw_after_in_plan pre undo p s ms acc rest p' v Hp HS HA)).
    rewrite (sw_trace resume is_status pre undo p s Hp). f_equal.
    pose proof (fin_close_in_body undo (WBody (PPPlan acc p')) (wres_close_in_plan acc p' HC)) as HF.
    assert (HX : fin_resume resume is_status undo (PhBody (WBody (PPPlan acc p'))) Close = Raised EGeneratorExit).
    { unfold fin_resume, cw_resume. now rewrite HF. }
    assert (HD : sw_resume resume is_status undo (DRun (PhBody (WBody (PPPlan acc p')))) i
                 = Raised (match i with Throw e => e | _ => EGeneratorExit end))
      by exact (d_close_ok (fin_resume resume is_status undo) _ i EGeneratorExit Hi HX eq_refl).
    destruct i as [w|e|]; cbn in Hi; try discriminate.
    - rewrite trace_cons by discriminate. rewrite HD. reflexivity.
    - cbn [trace]. rewrite HD. reflexivity.
  Qed.

  (* in every phase: a closed / halted wrapper never yields again -- no cleanup message leaves it *)
  Theorem sw_close_never_yields :
    forall undo x i, ge_input i = true ->
      match sw_resume resume is_status undo (DRun x) i with Yielded _ _ => False | _ => True end.
  Proof. intros undo x i H. now apply d_close_terminal. Qed.
End WrapperClose.

(* ------------------------------------------------------------------ subs_wrapper (the try/finally machine with a closure) *)
Section Seq2Close.
  Context {B F S : Type}.
  Variable bres : B -> input -> outcome B.
  Variable bstore : B -> input -> S.
  Variable fres : F -> input -> outcome F.
  Variable fin : S -> F.

  (* finalize_wrapper closed while its body runs, and the body accepts the close: GeneratorExit, no final plan *)
  Lemma fw_close_in_body :
    forall b, close_result (bres b Close) = CloseOk ->
      fw_resume bres bstore fres fin (S2Body b) Close = Raised EGeneratorExit.
  Proof. intros b H. unfold fw_resume. cbn. unfold s2_close_body. rewrite H. reflexivity. Qed.
End Seq2Close.

Section SubsClose.
  Context {P : Type}.
  Variable resume : P -> input -> outcome P.
  Variable mk : mview -> msg.
  Variable is_status : val -> bool.
  Variable set_iter : list val -> list val.
  Notation pp := (pp_resume resume is_status).

  Lemma subs_after_in_plan :
    forall subs p s ms acc rest p' v,
      plain s = true ->
      lp_split is_status (LPStart (subscribe_msgs mk subs) None) (Send VNone :: s) = (ms, Some (TRet v, acc, rest)) ->
      after resume p (Send VNone :: rest) = Some p' ->
      after (subs_resume resume mk is_status set_iter) (subs_wrapper_init mk subs p) (Send VNone :: s)
      = Some (DRun (S2Body (PPPlan acc p'))).
  Proof.
    intros subs p s ms acc rest p' v Hp HS HA. unfold subs_resume, subs_wrapper_init.
    rewrite (after_d_start (subs_fin_resume resume mk is_status set_iter) s _ Hp).
    unfold subs_fin_resume, fw_resume.
    match goal with |- option_map DRun ?t = _ =>
      assert (Ht : t = Some (S2Body (PPPlan acc p'))); [|now rewrite Ht] end.
    apply after_s2_start; [exact Hp|].
    exact (after_pp_start resume is_status s _ p ms acc rest p' v Hp HS HA).
  Qed.

  (* closed / halted while the wrapped plan runs: the plan is closed, NOTHING is unsubscribed by the wrapper *)
  Theorem subs_closed_in_plan :
    forall subs p s ms acc rest p' v i s2,
      plain s = true ->
      lp_split is_status (LPStart (subscribe_msgs mk subs) None) (Send VNone :: s) = (ms, Some (TRet v, acc, rest)) ->
      after resume p (Send VNone :: rest) = Some p' ->
      close_result (resume p' Close) = CloseOk -> ge_input i = true ->
      trace (subs_resume resume mk is_status set_iter) (subs_wrapper_init mk subs p) (Send VNone :: s ++ i :: s2)
      = subs_ref resume mk is_status set_iter subs p s ++ [closed_obs i].
  Proof.
    intros subs p s ms acc rest p' v i s2 Hp HS HA HC Hi.
    change (Send VNone :: s ++ i :: s2) with ((Send VNone :: s) ++ i :: s2).
    rewrite (trace_after _ _ (Send VNone :: s) _ _ (i :: s2) Hp (subs_after_in_plan subs p s ms acc rest p' v Hp HS HA)).
    rewrite (subs_wrapper_trace resume mk is_status set_iter subs p s Hp). f_equal.
    assert (HX : subs_fin_resume resume mk is_status set_iter (S2Body (PPPlan acc p')) Close = Raised EGeneratorExit).
    { unfold subs_fin_resume. apply fw_close_in_body. cbn. unfold pp_close_plan. now rewrite HC. }
    assert (HD : subs_resume resume mk is_status set_iter (DRun (S2Body (PPPlan acc p'))) i
                 = Raised (match i with Throw e => e | _ => EGeneratorExit end))
      by exact (d_close_ok (subs_fin_resume resume mk is_status set_iter) _ i EGeneratorExit Hi HX eq_refl).
    destruct i as [w|e|]; cbn in Hi; try discriminate.
    - rewrite trace_cons by discriminate. rewrite HD. reflexivity.
    - cbn [trace]. rewrite HD. reflexivity.
  Qed.

  Theorem subs_close_never_yields :
    forall x i, ge_input i = true ->
      match subs_resume resume mk is_status set_iter (DRun x) i with Yielded _ _ => False | _ => True end.
  Proof. intros x i H. now apply d_close_terminal. Qed.
End SubsClose.

(* ------------------------------------------------------------------ run_wrapper *)
Section RunClose.
  Context {P : Type}.
  Variable resume : P -> input -> outcome P.
  Variable mk : mview -> msg.
  Variable is_status : val -> bool.
  Notation rw := (rw_resume resume mk is_status).
  Notation rc := (rc_resume resume mk is_status).
  Notation rres := (r_resume resume is_status).

  Lemma after_rw_cont :
    forall s uid ph, plain s = true -> after rw (RwCont uid ph) s = option_map (RwCont uid) (after rc ph s).
  Proof.
    induction s as [|i s IH]; intros uid ph Hp; [reflexivity|].
    apply plain_cons in Hp as [Hi Hs]. cbn [after].
    assert (E : rw (RwCont uid ph) i = rw_cont_result uid (rc ph i)).
    { destruct i as [v|e|]; cbn in *; [reflexivity| |discriminate]. apply negb_true_iff in Hi. now rewrite Hi. }
    rewrite E. destruct (rc ph i); cbn; try reflexivity. now apply IH.
  Qed.

  Lemma rc_after_in_plan :
    forall p rest p', plain rest = true -> after resume p (Send VNone :: rest) = Some p' ->
      after rc (PhStart (RPlan p)) (Send VNone :: rest) = Some (PhBody (RPlan p')).
  Proof.
    intros p rest p' Hp HA.
    assert (HB : after (s2_resume rres (@no_store (@rplan P)) rres
                          (cw_run_next (fun e => close_plan mk (close_view e)) (close_plan mk (VClose None None))))
                       (S2Start (RPlan p)) (Send VNone :: rest) = Some (S2Body (RPlan p'))).
    { apply after_s2_start; [exact Hp|]. rewrite (after_map _ _ resume rres RPlan) by reflexivity. now rewrite HA. }
    destruct (bisim_after _ _ _ (cw_run_step rres (fun e => close_plan mk (close_view e)) (close_plan mk (VClose None None))
                                             (close_plan mk (VClose None None)))
                          (Send VNone :: rest) (PhStart (RPlan p)) _ _ (Rr_start _) HB) as (a' & HA' & HR).
    unfold rc_resume, run_opts.
    match goal with |- ?t = _ => assert (Ht : t = Some a') by exact HA'; rewrite Ht end.
    inversion HR; subst. reflexivity.
  Qed.

  (* closed / halted while the wrapped plan runs (open_run answered with uid), the plan accepts the close: the plan is
     closed and NO close_run is emitted -- closing the run is left to whoever closed the plan (the RunEngine) *)
  Theorem run_closed_in_plan :
    forall p uid rest p' i s2,
      plain rest = true -> after resume p (Send VNone :: rest) = Some p' ->
      close_result (resume p' Close) = CloseOk -> ge_input i = true ->
      trace rw (run_wrapper_init p) (Send VNone :: Send uid :: rest ++ i :: s2)
      = OYield (mk VOpen) :: run_ref resume mk is_status p (Send uid :: rest) ++ [closed_obs i].
  Proof.
    intros p uid rest p' i s2 Hp HA HC Hi.
    assert (HS : after rw (run_wrapper_init p) (Send VNone :: Send uid :: rest) = Some (RwCont uid (PhBody (RPlan p')))).
    { unfold run_wrapper_init. cbn [after rw_resume].
      pose proof (rc_after_in_plan p rest p' Hp HA) as HR. cbn [after] in HR.
      destruct (rc (PhStart (RPlan p)) (Send VNone)) as [m ph1|w|e|]; try discriminate. cbn [rw_cont_result].
      rewrite after_rw_cont by exact Hp. now rewrite HR. }
    change (Send VNone :: Send uid :: rest ++ i :: s2) with ((Send VNone :: Send uid :: rest) ++ i :: s2).
    assert (Hp2 : plain (Send VNone :: Send uid :: rest) = true) by exact Hp.
    rewrite (trace_after _ _ _ _ _ (i :: s2) Hp2 HS).
    rewrite (run_wrapper_trace resume mk is_status p (Send uid :: rest) Hp). cbn [app]. f_equal. f_equal.
    (* C22: closing the contingency_wrapper generator while the plan runs touches only the plan *)
    assert (HCr : close_result (rres (RPlan p') Close) = CloseOk).
    { cbn [r_resume]. destruct (resume p' Close) as [m x|w|e|]; cbn in *; congruence. }
    pose proof (proj1 (closed_in_plan_no_cleanup rres run_opts false 1 2 3 (fun e => close_plan mk (close_view e))
                         (close_plan mk (VClose None None)) (close_plan mk (VClose None None)) (RPlan p') HCr)) as HF.
    assert (HX : rc (PhBody (RPlan p')) Close = Raised EGeneratorExit).
    { unfold rc_resume, cw_resume. now rewrite HF. }
    assert (HD : rw (RwCont uid (PhBody (RPlan p'))) i = Raised (match i with Throw e => e | _ => EGeneratorExit end)).
    { destruct i as [w|e|]; cbn in Hi; try discriminate; cbn [rw_resume]; [rewrite Hi|]; unfold rw_close_cont; now rewrite HX. }
    destruct i as [w|e|]; cbn in Hi; try discriminate.
    - rewrite trace_cons by discriminate. rewrite HD. reflexivity.
    - cbn [trace]. rewrite HD. reflexivity.
  Qed.

  Theorem run_close_never_yields :
    forall uid ph i, ge_input i = true -> match rw (RwCont uid ph) i with Yielded _ _ => False | _ => True end.
  Proof.
    intros uid ph i H. destruct i as [v|e|]; cbn in *; try discriminate.
    - rewrite H. unfold rw_close_cont. destruct (close_result (rc ph Close)); exact I.
    - unfold rw_close_cont. destruct (close_result (rc ph Close)); exact I.
  Qed.
End RunClose.

(* ------------------------------------------------------------------ the statements of Props/C23.v *)
Lemma stage_closed_in_plan :
  forall (P : Type) (resume : P -> input -> outcome P) (mk : mview -> msg) (is_status : val -> bool)
         (roots : list dev) (p : P) (s : list input) ms acc rest p' v i s2,
    plain s = true ->
    lp_split is_status (stage_do mk roots) (Send VNone :: s) = (ms, Some (TRet v, acc, rest)) ->
    after resume p (Send VNone :: rest) = Some p' ->
    close_result (resume p' Close) = CloseOk -> ge_input i = true ->
    trace (stage_wrapper_resume resume mk is_status roots) (stage_wrapper_init mk roots p) (Send VNone :: s ++ i :: s2)
    = stage_ref resume mk is_status roots p s ++ [closed_obs i].
Proof. intros. now apply (sw_closed_in_plan resume is_status (stage_do mk roots) (stage_undo mk roots) p s ms acc rest p' v). Qed.

Lemma suspend_closed_in_plan :
  forall (P : Type) (resume : P -> input -> outcome P) (mk : mview -> msg) (is_status : val -> bool)
         (susps : list nat) (p : P) (s : list input) ms acc rest p' v i s2,
    plain s = true ->
    lp_split is_status (LPStart (install_msgs mk susps) None) (Send VNone :: s) = (ms, Some (TRet v, acc, rest)) ->
    after resume p (Send VNone :: rest) = Some p' ->
    close_result (resume p' Close) = CloseOk -> ge_input i = true ->
    trace (suspend_wrapper_resume resume mk is_status susps) (suspend_wrapper_init mk susps p) (Send VNone :: s ++ i :: s2)
    = suspend_ref resume mk is_status susps p s ++ [closed_obs i].
Proof.
  intros. now apply (sw_closed_in_plan resume is_status (LPStart (install_msgs mk susps) None) (LPStart (remove_msgs mk susps) None)
                       p s ms acc rest p' v).
Qed.

Lemma wrappers_close_never_yield :
  forall (P : Type) (resume : P -> input -> outcome P) (mk : mview -> msg) (is_status : val -> bool)
         (set_iter : list val -> list val) (i : input),
    ge_input i = true ->
    (forall undo x, match sw_resume resume is_status undo (DRun x) i with Yielded _ _ => False | _ => True end) /\
    (forall x, match subs_resume resume mk is_status set_iter (DRun x) i with Yielded _ _ => False | _ => True end) /\
    (forall uid ph, match rw_resume resume mk is_status (RwCont uid ph) i with Yielded _ _ => False | _ => True end).
Proof.
  intros P resume mk is_status set_iter i H. repeat split.
  - intros undo x. now apply sw_close_never_yields.
  - intros x. now apply subs_close_never_yields.
  - intros uid ph. now apply run_close_never_yields.
Qed.
