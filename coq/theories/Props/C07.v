(* C07 - RunEngine lifecycle never takes an illegal transition or gets stuck.
   Model: Engine/RE.v (the real RunEngine at await-point granularity; validated against the real engine
   by replaying the logged interleaving of every corpus run).  All statements quantify over every plan
   behaviour (coalgebra P/presume/plan_of), every device behaviour (oracle D/dev) and every schedule
   [evs] of task steps, request coroutines, status/release events and main-thread calls, of any length.
   [OBad 1] is the model's out-of-fuel marker (an explicit error value, excluded by hypothesis). *)
From Coq Require Import List.
From BV Require Import Engine.RE Proofs.RE_Trans Proofs.RE_Inv.

(* (i) every lifecycle change is a legal move of the transition table read from the source. *)
Theorem C07_transitions_legal :
  forall (P : Type) (presume : P -> input -> outcome P) (plan_of : nat -> P)
         (D : Type) (dev : D -> nat -> devmeth -> D * devres)
         (s : st P D) (evs : list event),
    Forall (fun o => match o with OState a b => allowed a b = true | _ => True end)
           (snd (run P presume plan_of D dev s evs)).
Proof. exact run_transitions_legal. Qed.
Print Assumptions C07_transitions_legal.

(* (ii) whenever the blocking event is set - the only moment at which RE(...), resume(), abort(), stop()
   or halt() can return or raise - the engine is idle or paused, or (finding class C07-c) a request
   coroutine ran while the engine sat paused and nobody resumed the task. *)
Theorem C07_quiescent_state :
  forall (P : Type) (presume : P -> input -> outcome P) (plan_of : nat -> P)
         (D : Type) (dev : D -> nat -> devmeth -> D * devres)
         (d : D) (paus stag : list nat) (rec : bool) (evs : list event),
    let r := run P presume plan_of D dev (init P D d paus stag rec) evs in
    ~ In (OBad 1) (snd r) ->
    blocking P D (fst r) = true ->
    state P D (fst r) = Idle \/ state P D (fst r) = Paused \/
    (pc P D (fst r) = PcPaused /\
     (state P D (fst r) = Aborting \/ state P D (fst r) = Stopping \/ state P D (fst r) = Halting)).
Proof. exact quiescent_state. Qed.
Print Assumptions C07_quiescent_state.

(* (iii) the engine's own cleanup can never be refused by the state machine: at every execution of the
   `finally` block of `_run` reached from a reachable state, `state = "idle"` is a legal move and the
   block ends idle - "a request arriving while the plan is finishing never leaves the engine unusable". *)
Theorem C07_cleanup_never_refused :
  forall (P : Type) (presume : P -> input -> outcome P) (plan_of : nat -> P)
         (D : Type) (dev : D -> nat -> devmeth -> D * devres)
         (d : D) (paus stag : list nat) (rec : bool) (evs : list event)
         (s1 : st P D) (r : tres) (pend : option exn) (os1 : list obs),
    ~ In (OBad 1) (snd (run P presume plan_of D dev (init P D d paus stag rec) evs)) ->
    visited P presume plan_of D dev (fst (run P presume plan_of D dev (init P D d paus stag rec) evs))
            (s1, CFinalize r pend, os1) ->
    allowed (state P D s1) Idle = true /\ state P D (fst (finalize P presume D dev s1 r pend)) = Idle.
Proof. exact cleanup_never_refused. Qed.
Print Assumptions C07_cleanup_never_refused.

(* (iv) once the task is done the engine is idle and holds no open run. *)
Theorem C07_done_is_idle :
  forall (P : Type) (presume : P -> input -> outcome P) (plan_of : nat -> P)
         (D : Type) (dev : D -> nat -> devmeth -> D * devres)
         (d : D) (paus stag : list nat) (rec : bool) (evs : list event) (r : tres),
    ~ In (OBad 1) (snd (run P presume plan_of D dev (init P D d paus stag rec) evs)) ->
    pc P D (fst (run P presume plan_of D dev (init P D d paus stag rec) evs)) = PcDone r ->
    state P D (fst (run P presume plan_of D dev (init P D d paus stag rec) evs)) = Idle /\
    bundlers P D (fst (run P presume plan_of D dev (init P D d paus stag rec) evs)) = nil.
Proof. exact done_is_idle. Qed.
Print Assumptions C07_done_is_idle.
