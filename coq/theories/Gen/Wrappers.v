(* Gen/Wrappers.v -- the cleanup wrappers of bluesky.preprocessors (lines 508-714), transcribed
   statement for statement as PyGen programs with holes, and their specification as a phase machine.
   MODEL ONLY (no proofs).

   PROGRAMS (locals: v0 = ret, v1 = cleanup)
     finalize_wrapper_prog pfd          holes: 0 = plan (instance), 1 = final_plan (instance; a callable
                                        final_plan is called before the try, which for a generator function
                                        runs nothing -- same thing)
     finalize_decorator_prog callable   holes: 0 = gen_func(...), 1 = final_plan()  (one call of the decorated
                                        function; decorated_calls k = k calls in a row, fresh holes per call)
     contingency_prog o                 holes: 0 = plan, 1 = except_plan (function of the exception),
                                        2 = else_plan (function), 3 = final_plan (function)
     pause_call                         `yield from pause()` : the Plan object's __iter__ generator delegating
                                        to the generator that yields Msg('pause') (message id 99)
     ensure_generator(...) of a generator is the generator itself (lists/Msg arguments are covered by the
     tie as plans that ignore what they are sent).

   SPECIFICATION  [cw_lresume skip o ...] : a coalgebra on [phase] that spells out what
   try / except Exception / else / finally does around a delegated plan:
       PhBody    the wrapped plan runs; inputs are forwarded (a GeneratorExit-kind throw closes it first)
       PhPause   pause_for_debug: the handler has yielded Msg('pause') and waits to be resumed
       PhExcept  except_plan(e) runs       PhElse  else_plan() runs
       PhFinal   final_plan() runs with a pending completion (return v | raise e)
   [skip = false] is Python's own statement.  [skip = true] differs in exactly one place
   ([after_raise]): a GeneratorExit-kind exception leaving the wrapped plan (the wrapper was closed /
   halted while the wrapped plan ran, or the plan raised it) skips the handlers AND the final plan.
   Proofs/Wrappers.v shows  wrapper program = spec with skip = true  and  the plain Python statement
   (no cleanup flag, [python_try_prog]) = spec with skip = false, for all plans and all scripts. *)
From BV Require Import Base.Prelude Gen.Coalg Gen.PyGen.

Definition PAUSE_MSG : msg := 99.

Definition cb (b : bool) : cond := if b then CTrue else CFalse.

Definition pause_call : stmt :=
  SYieldFrom None                                              (* Plan.__iter__ *)
    (SSeq (SYieldFrom (Some 0)                                 (*   return (yield from self._iter) *)
             (SSeq (SYield (Some 0) PAUSE_MSG) (SReturn (RVar 0))))   (* pause(): return (yield Msg('pause')) *)
          (SReturn (RVar 0))).

Definition set_cleanup (b : bool) : stmt := SAssign 1 (RConst (VInt (if b then 1 else 0)%Z)).

Definition finalize_wrapper_prog (pause_for_debug : bool) : stmt :=
  SSeq (set_cleanup true)
  (SSeq (STry (SYieldFromHole (Some 0) 0)                                   (* ret = yield from plan *)
              [(PGeneratorExit, SSeq (set_cleanup false) SReraise);         (* except GeneratorExit *)
               (PBase, SSeq (SIf (cb pause_for_debug) pause_call SPass) SReraise)]   (* except BaseException *)
              SPass
              (SIf (CTruthy 1) (SYieldFromHole None 1) SPass))              (* finally: if cleanup: ... *)
        (SReturn (RVar 0))).

(* one call of the decorated function: hp = hole of gen_func(...) for this call, hf = hole of final_plan()
   for this call (dec_inner calls final_plan() itself, so every call has its own cleanup instance) *)
Definition finalize_decorator_prog_at (final_plan_callable : bool) (hp hf : nat) : stmt :=
  SSeq (SIf (cb (negb final_plan_callable)) (SRaise ETypeError) SPass)
  (SSeq (set_cleanup true)
  (SSeq (STry (SYieldFromHole (Some 0) hp)
              [(PGeneratorExit, SSeq (set_cleanup false) SReraise)]
              SPass
              (SIf (CTruthy 1) (SYieldFromHole None hf) SPass))
        (SReturn (RVar 0)))).

Definition finalize_decorator_prog (final_plan_callable : bool) : stmt :=
  finalize_decorator_prog_at final_plan_callable 0 1.

(* the decorated function invoked k times in a row by one caller:
     r = None;  for j in range(k): r = yield from decorated();  return r
   call j wraps a fresh gen_func(...) (hole 2j) and a fresh final_plan() (hole 2j+1) *)
Fixpoint decorated_calls_from (j k : nat) : stmt :=
  match k with
  | O => SReturn (RVar 0)
  | S k' => SSeq (SYieldFrom (Some 0) (finalize_decorator_prog_at true (2 * j) (2 * j + 1)))
                 (decorated_calls_from (S j) k')
  end.
Definition decorated_calls (k : nat) : stmt := decorated_calls_from 0 k.

Record cw_opts := mkOpts {
  o_exc : bool;      (* except_plan given *)
  o_else : bool;     (* else_plan given *)
  o_fin : bool;      (* final_plan given *)
  o_auto : bool;     (* auto_raise *)
  o_pfd : bool       (* pause_for_debug *)
}.

Definition cw_handler (o : cw_opts) : stmt :=                              (* except Exception as e: *)
  SSeq (SIf (cb (o_pfd o)) pause_call SPass)
       (SIf (cb (o_exc o))
            (SSeq (SYieldFromHole (Some 0) 1)                               (* ret = yield from except_plan(e) *)
                  (SIf (cb (o_auto o)) SReraise (SReturn (RVar 0))))
            SReraise).

Definition cw_else (o : cw_opts) : stmt := SIf (cb (o_else o)) (SYieldFromHole None 2) SPass.
Definition cw_finally (o : cw_opts) : stmt :=                              (* if cleanup and final_plan: *)
  SIf (CTruthy 1) (SIf (cb (o_fin o)) (SYieldFromHole None 3) SPass) SPass.

Definition contingency_prog (o : cw_opts) : stmt :=
  SSeq (set_cleanup true)
  (SSeq (STry (SYieldFromHole (Some 0) 0)
              [(PGeneratorExit, SSeq (set_cleanup false) SReraise);
               (PException, cw_handler o)]
              (cw_else o)
              (cw_finally o))
        (SReturn (RVar 0))).

(* the reference: the same statement written with Python's own try/except/else/finally, no flag *)
Definition python_try_prog (o : cw_opts) : stmt :=
  SSeq (STry (SYieldFromHole (Some 0) 0)
             [(PException, cw_handler o)]
             (cw_else o)
             (SIf (cb (o_fin o)) (SYieldFromHole None 3) SPass))
       (SReturn (RVar 0)).

(* ------------------------------------------------------------------ the specification machine *)
Section Spec.
  Context {P : Type}.
  Variable hres : P -> input -> outcome P.
  Variable skip : bool.                (* true: GeneratorExit-kind out of the wrapped plan skips everything *)
  Variable o : cw_opts.
  Variable base_handler : bool.        (* true: the debugging pause is taken for every exception that is not a
                                          GeneratorExit kind (finalize_wrapper's `except BaseException:`);
                                          false: for Exception kinds only (contingency_wrapper) *)
  Variable exc_id else_id fin_id : nat.   (* hole numbers used in the call log (plan = 0) *)
  Variable exc_plan : exn -> P.
  Variable else_plan : P.
  Variable fin_plan : P.

  Inductive phase :=
    | PhStart (p : P)
    | PhBody (p : P)
    | PhPause (e : exn)                 (* pause_for_debug: Msg('pause') is out, e is being handled *)
    | PhExcept (q : P) (e : exn)
    | PhElse (q : P) (v : val)
    | PhFinal (q : P) (c : completion).

  Definition lres := (outcome phase * list call)%type.

  Definition finish (c : completion) (log : list call) : lres :=
    match c with
    | CRet v => (Returned v, log)
    | CExc e => (Raised e, log)
    | CNormal => (Returned VNone, log)
    end.

  (* what came back from the running final plan *)
  Definition final_result (c : completion) (r : outcome P) (log : list call) : lres :=
    match r with
    | Yielded m q => (Yielded m (PhFinal q c), log)
    | Returned _ => finish c log
    | Raised e => (Raised e, log)            (* an exception in the cleanup replaces the pending one *)
    | OutOfFuel => (OutOfFuel, log)
    end.

  (* finally: *)
  Definition enter_final (c : completion) (log : list call) : lres :=
    if o_fin o then
      final_result c (hres fin_plan (Send VNone)) (log ++ [Enter fin_id; Call fin_id (Send VNone)])
    else finish c log.

  Definition except_result (e : exn) (r : outcome P) (log : list call) : lres :=
    match r with
    | Yielded m q => (Yielded m (PhExcept q e), log)
    | Returned v => enter_final (if o_auto o then CExc e else CRet v) log
    | Raised e' => enter_final (CExc e') log
    | OutOfFuel => (OutOfFuel, log)
    end.

  Definition else_result (v : val) (r : outcome P) (log : list call) : lres :=
    match r with
    | Yielded m q => (Yielded m (PhElse q v), log)
    | Returned _ => enter_final (CRet v) log
    | Raised e => enter_final (CExc e) log
    | OutOfFuel => (OutOfFuel, log)
    end.

  (* the except clause proper (after the optional debugging pause) *)
  Definition handle (e : exn) (log : list call) : lres :=
    if is_Exception e then
      if o_exc o then
        except_result e (hres (exc_plan e) (Send VNone)) (log ++ [Enter exc_id; Call exc_id (Send VNone)])
      else enter_final (CExc e) log
    else enter_final (CExc e) log.

  (* the wrapped plan raised e *)
  Definition after_raise (e : exn) (log : list call) : lres :=
    if skip && is_GeneratorExit e then (Raised e, log)
    else if (is_Exception e || (base_handler && negb (is_GeneratorExit e))) && o_pfd o then
      (Yielded PAUSE_MSG (PhPause e), log)
    else handle e log.

  (* the wrapped plan returned v *)
  Definition after_return (v : val) (log : list call) : lres :=
    if o_else o then
      else_result v (hres else_plan (Send VNone)) (log ++ [Enter else_id; Call else_id (Send VNone)])
    else enter_final (CRet v) log.

  Definition body_result (r : outcome P) (log : list call) : lres :=
    match r with
    | Yielded m p' => (Yielded m (PhBody p'), log)
    | Returned v => after_return v log
    | Raised e => after_raise e log
    | OutOfFuel => (OutOfFuel, log)
    end.

  (* the delegate q of `yield from` is closed because a GeneratorExit-kind e arrived; [k] continues
     with the exception that is then raised at the yield from *)
  Definition close_delegate (id : nat) (q : P) (e : exn) (k : exn -> list call -> lres) : lres :=
    match close_result (hres q Close) with
    | CloseOk => k e [Call id Close]
    | CloseRaised e' => k e' [Call id Close]
    | CloseFuel => (OutOfFuel, [Call id Close])
    end.

  Definition cw_lresume (ph : phase) (i : input) : lres :=
    match ph with
    | PhStart p =>
        match i with
        | Send VNone => body_result (hres p (Send VNone)) [Enter 0; Call 0 (Send VNone)]
        | Send _ => (Raised ETypeError, [])
        | Throw e => (Raised e, [])
        | Close => (Raised EGeneratorExit, [])
        end
    | PhBody p =>
        match i with
        | Send v => body_result (hres p (Send v)) [Call 0 (Send v)]
        | Throw e =>
            if is_GeneratorExit e then close_delegate 0 p e after_raise
            else body_result (hres p (Throw e)) [Call 0 (Throw e)]
        | Close => close_delegate 0 p EGeneratorExit after_raise
        end
    | PhPause e0 =>
        (* the pause generators hold no plan: a response resumes the handler, anything thrown (or close)
           becomes the exception raised inside the handler, so only the final plan is left to run *)
        match i with
        | Send _ => handle e0 []
        | Throw e => enter_final (CExc e) []
        | Close => enter_final (CExc EGeneratorExit) []
        end
    | PhExcept q e0 =>
        match i with
        | Send v => except_result e0 (hres q (Send v)) [Call exc_id (Send v)]
        | Throw e =>
            if is_GeneratorExit e then close_delegate exc_id q e (fun e' => enter_final (CExc e'))
            else except_result e0 (hres q (Throw e)) [Call exc_id (Throw e)]
        | Close => close_delegate exc_id q EGeneratorExit (fun e' => enter_final (CExc e'))
        end
    | PhElse q v0 =>
        match i with
        | Send v => else_result v0 (hres q (Send v)) [Call else_id (Send v)]
        | Throw e =>
            if is_GeneratorExit e then close_delegate else_id q e (fun e' => enter_final (CExc e'))
            else else_result v0 (hres q (Throw e)) [Call else_id (Throw e)]
        | Close => close_delegate else_id q EGeneratorExit (fun e' => enter_final (CExc e'))
        end
    | PhFinal q c =>
        match i with
        | Send v => final_result c (hres q (Send v)) [Call fin_id (Send v)]
        | Throw e =>
            if is_GeneratorExit e then close_delegate fin_id q e (fun e' log => (Raised e', log))
            else final_result c (hres q (Throw e)) [Call fin_id (Throw e)]
        | Close => close_delegate fin_id q EGeneratorExit (fun e' log => (Raised e', log))
        end
    end.

  Definition cw_resume (ph : phase) (i : input) : outcome phase := fst (cw_lresume ph i).
End Spec.

Arguments PhStart {P} p.
Arguments PhBody {P} p.
Arguments PhPause {P} e.
Arguments PhExcept {P} q e.
Arguments PhElse {P} q v.
Arguments PhFinal {P} q c.

(* options under which the three wrappers are instances of the spec *)
Definition finalize_opts (pause_for_debug : bool) : cw_opts := mkOpts false false true true pause_for_debug.

(* number of `Enter id` events in a logged trace *)
Definition is_enter (id : nat) (c : call) : bool :=
  match c with Enter j => Nat.eqb id j | _ => false end.
Definition count_enter (id : nat) (l : list (obs * list call)) : nat :=
  length (filter (is_enter id) (flat_map snd l)).

Definition terminal_obs (ob : obs) : bool :=
  match ob with OYield _ => false | _ => true end.
Definition ge_obs (ob : obs) : bool :=
  match ob with OClosed | OFuel => true | ORaise e => is_GeneratorExit e | _ => false end.

(* ------------------------------------------------------------------ the decorated function called twice
   Specification of  decorated_calls 2 : the single-call specification run for the first call (wrapped plan p1,
   a fresh instance of the final plan), and when that call returns, run again from the start for the second
   call (p2, ANOTHER fresh instance of the final plan; its plans are numbered 2 and 3 in the call log).
   An exception out of a call ends the caller; close / a GeneratorExit kind closes the running call
   (delivering a plain GeneratorExit to it) and then ends the caller with that exception. *)
Definition shift_call (d : nat) (c : call) : call :=
  match c with Call i x => Call (i + d) x | Enter i => Enter (i + d) end.

Section TwoCalls.
  Context {P : Type}.
  Variable hres : P -> input -> outcome P.
  Variable fin_plan : P.

  Definition call_spec : @phase P -> input -> outcome (@phase P) * list call :=
    cw_lresume hres true (finalize_opts false) true 1 2 1 (fun _ => fin_plan) fin_plan fin_plan.

  Inductive two_state :=
    | QStart (p1 p2 : P)
    | Q1 (ph : @phase P) (p2 : P)        (* first call running *)
    | Q2 (ph : @phase P).                (* second call running *)

  Definition q2_result (r : outcome (@phase P) * list call) (log : list call) : outcome two_state * list call :=
    let log' := log ++ map (shift_call 2) (snd r) in
    match fst r with
    | Yielded m ph' => (Yielded m (Q2 ph'), log')
    | Returned v => (Returned v, log')
    | Raised e => (Raised e, log')
    | OutOfFuel => (OutOfFuel, log')
    end.

  Definition q1_result (r : outcome (@phase P) * list call) (p2 : P) : outcome two_state * list call :=
    match fst r with
    | Yielded m ph' => (Yielded m (Q1 ph' p2), snd r)
    | Returned _ => q2_result (call_spec (PhStart p2) (Send VNone)) (snd r)     (* the next call starts at once *)
    | Raised e => (Raised e, snd r)
    | OutOfFuel => (OutOfFuel, snd r)
    end.

  (* close() of the running call by the caller's `yield from`, then e in the caller *)
  Definition closed_call (r : outcome (@phase P) * list call) (e : exn) (log : list call) : outcome two_state * list call :=
    match close_result (fst r) with
    | CloseOk => (Raised e, log)
    | CloseRaised e' => (Raised e', log)
    | CloseFuel => (OutOfFuel, log)
    end.

  Definition two_lresume (q : two_state) (i : input) : outcome two_state * list call :=
    match q with
    | QStart p1 p2 =>
        match i with
        | Send VNone => q1_result (call_spec (PhStart p1) (Send VNone)) p2
        | Send _ => (Raised ETypeError, [])
        | Throw e => (Raised e, [])
        | Close => (Raised EGeneratorExit, [])
        end
    | Q1 ph p2 =>
        match i with
        | Send v => q1_result (call_spec ph (Send v)) p2
        | Throw e =>
            if is_GeneratorExit e then closed_call (call_spec ph Close) e (snd (call_spec ph Close))
            else q1_result (call_spec ph (Throw e)) p2
        | Close => closed_call (call_spec ph Close) EGeneratorExit (snd (call_spec ph Close))
        end
    | Q2 ph =>
        match i with
        | Send v => q2_result (call_spec ph (Send v)) []
        | Throw e =>
            if is_GeneratorExit e then
              closed_call (call_spec ph Close) e (map (shift_call 2) (snd (call_spec ph Close)))
            else q2_result (call_spec ph (Throw e)) []
        | Close => closed_call (call_spec ph Close) EGeneratorExit (map (shift_call 2) (snd (call_spec ph Close)))
        end
    end.
End TwoCalls.
