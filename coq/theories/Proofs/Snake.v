(* Proofs about the snake_cyclers model (C26). *)
From BV Require Import Base.Prelude Pure.Snake.
From Coq Require Import Permutation.

Local Notation pos := (fun L : nat => 1 <= L).

(* ------------------------------------------------------------------ arithmetic *)

Lemma div_mod_mul a b c : b <> 0 -> c <> 0 -> (a mod (b * c)) / b = (a / b) mod c.
Proof.
  intros Hb Hc. rewrite Nat.mod_mul_r by assumption.
  rewrite (Nat.mul_comm b), Nat.div_add by assumption.
  rewrite Nat.div_small by (apply Nat.mod_upper_bound; assumption). reflexivity.
Qed.

Lemma mod_mul_mod a b c : b <> 0 -> c <> 0 -> (a mod (b * c)) mod b = a mod b.
Proof.
  intros Hb Hc. rewrite Nat.mod_mul_r by assumption.
  rewrite (Nat.mul_comm b), Nat.mod_add by assumption. apply Nat.mod_mod; assumption.
Qed.

Lemma mod2_odd s : s mod 2 = if Nat.odd s then 1 else 0.
Proof. rewrite <- Nat.bit0_mod, Nat.bit0_odd. destruct (Nat.odd s); reflexivity. Qed.

Lemma sub_block_div t R : R <> 0 -> R <= t -> t / R = S ((t - R) / R).
Proof.
  intros HR Hle. replace t with ((t - R) + 1 * R) at 1 by lia.
  rewrite Nat.div_add by assumption. lia.
Qed.

Lemma sub_block_mod t R : R <> 0 -> R <= t -> t mod R = (t - R) mod R.
Proof.
  intros HR Hle. replace t with ((t - R) + 1 * R) at 1 by lia.
  apply Nat.mod_add; assumption.
Qed.

(* T and T+1 in the same block of size R *)
Lemma same_block T R : R <> 0 -> (T + 1) mod R <> 0 -> (T + 1) / R = T / R.
Proof.
  intros HR Hne. symmetry.
  pose proof (Nat.div_mod T R HR) as E. pose proof (Nat.mod_upper_bound T R HR) as Hlt.
  destruct (Nat.eq_dec (T mod R + 1) R) as [Heq|Hneq].
  - exfalso. apply Hne. symmetry. apply (Nat.mod_unique (T + 1) R (T / R + 1) 0); [lia|nia].
  - apply (Nat.div_unique (T + 1) R (T / R) (T mod R + 1)); [lia|lia].
Qed.

(* T+1 starts a new block of size R*L: every quantity of the axis (R, L) rolls over *)
Lemma rollover T R L : R <> 0 -> L <> 0 -> (T + 1) mod (R * L) = 0 ->
  (T + 1) / (R * L) = S (T / (R * L)) /\ (T / R) mod L = L - 1 /\ ((T + 1) / R) mod L = 0.
Proof.
  intros HR HL H0.
  assert (HM : R * L <> 0) by nia.
  apply Nat.mod_divides in H0; [|assumption]. destruct H0 as [q Hq].
  assert (Hq1 : 1 <= q) by (destruct q; [lia|lia]).
  assert (E1 : (T + 1) / (R * L) = q).
  { symmetry. apply (Nat.div_unique _ _ q 0); [lia|lia]. }
  assert (E2 : T / (R * L) = q - 1).
  { symmetry. apply (Nat.div_unique _ _ (q - 1) (R * L - 1)); [lia|nia]. }
  assert (E3 : T / R = L * (q - 1) + (L - 1)).
  { symmetry. apply (Nat.div_unique _ _ _ (R - 1)); [lia|nia]. }
  assert (E4 : (T + 1) / R = L * q).
  { symmetry. apply (Nat.div_unique _ _ _ 0); [lia|nia]. }
  split; [lia|]. split.
  - rewrite E3. symmetry. apply (Nat.mod_unique _ _ (q - 1) (L - 1)); [lia|lia].
  - rewrite E4. symmetry. apply (Nat.mod_unique _ _ q 0); [lia|lia].
Qed.

(* T+1 starts a new block of size R but not of size R*L: the digit of the axis advances by one *)
Lemma advance T R L : R <> 0 -> L <> 0 -> (T + 1) mod R = 0 -> (T + 1) mod (R * L) <> 0 ->
  (T + 1) / (R * L) = T / (R * L) /\ ((T + 1) / R) mod L = (T / R) mod L + 1.
Proof.
  intros HR HL H0 Hne.
  apply Nat.mod_divides in H0; [|assumption]. destruct H0 as [q Hq].
  assert (Hq1 : 1 <= q) by (destruct q; [lia|lia]).
  assert (E1 : (T + 1) / R = q).
  { symmetry. apply (Nat.div_unique _ _ q 0); [lia|lia]. }
  assert (E2 : T / R = q - 1).
  { symmetry. apply (Nat.div_unique _ _ (q - 1) (R - 1)); [lia|nia]. }
  assert (Hqm : q mod L <> 0).
  { intros Hz. apply Hne. rewrite Hq. rewrite Nat.mul_mod_distr_l by assumption. rewrite Hz. lia. }
  pose proof (Nat.div_mod q L HL) as Eq. pose proof (Nat.mod_upper_bound q L HL) as Hlt.
  assert (E3 : (q - 1) / L = q / L).
  { symmetry. apply (Nat.div_unique _ _ _ (q mod L - 1)); [lia|lia]. }
  assert (E4 : (q - 1) mod L = q mod L - 1).
  { symmetry. apply (Nat.mod_unique _ _ (q / L)); [lia|lia]. }
  rewrite <- !Nat.div_div by assumption. rewrite E1, E2, E3, E4. split; lia.
Qed.

Lemma mod_factor a h m : h * m <> 0 -> a mod (h * m) = 0 -> a mod m = 0.
Proof.
  intros Hhm H0. assert (m <> 0) by nia.
  apply Nat.mod_divides in H0; [|assumption]. destruct H0 as [c Hc].
  apply Nat.mod_divides; [assumption|]. exists (h * c). nia.
Qed.

(* ------------------------------------------------------------------ lists *)

Lemma length_repeat_each {A} r (l : list A) : length (repeat_each r l) = length l * r.
Proof.
  unfold repeat_each. induction l as [|x l IH]; cbn [flat_map length]; [reflexivity|].
  rewrite app_length, repeat_length, IH. lia.
Qed.

Lemma length_tile {A} n (l : list A) : length (tile n l) = n * length l.
Proof.
  unfold tile. induction n as [|n IH]; cbn [repeat concat length]; [reflexivity|].
  rewrite app_length, IH. lia.
Qed.

Lemma nth_firstn_lt {A} (l : list A) n t d : t < n -> nth t (firstn n l) d = nth t l d.
Proof.
  revert n t. induction l as [|x l IH]; intros n t Hlt.
  - rewrite firstn_nil. reflexivity.
  - destruct n as [|n]; [lia|]. destruct t as [|t]; cbn; [reflexivity|]. apply IH. lia.
Qed.

Lemma nth_map_seq {A} (f : nat -> A) n t d : t < n -> nth t (map f (seq 0 n)) d = f t.
Proof.
  intros Hlt. rewrite (nth_indep _ d (f 0)) by (rewrite map_length, seq_length; assumption).
  rewrite map_nth, seq_nth by assumption. reflexivity.
Qed.

Lemma nth_flat_map_uniform {A B} (f : A -> list B) R (l : list A) dx d t :
  (forall x, length (f x) = R) -> t < length l * R ->
  nth t (flat_map f l) d = nth (t mod R) (f (nth (t / R) l dx)) d.
Proof.
  intros Hlen. revert t. induction l as [|x l IH]; intros t Hlt; [cbn in Hlt; lia|].
  assert (HR : R <> 0) by (intros ->; lia).
  cbn [flat_map]. destruct (lt_dec t R) as [Hs|Hb].
  - rewrite app_nth1 by (rewrite Hlen; assumption).
    rewrite Nat.div_small, Nat.mod_small by assumption. reflexivity.
  - rewrite app_nth2 by (rewrite Hlen; lia). rewrite Hlen.
    rewrite IH by (cbn [length] in Hlt; lia).
    rewrite (sub_block_div t R), (sub_block_mod t R) by lia. reflexivity.
Qed.

Lemma tile_flat_map {A} n (l : list A) : tile n l = flat_map (fun _ : unit => l) (repeat tt n).
Proof. unfold tile. induction n as [|n IH]; cbn; [reflexivity|]. now rewrite IH. Qed.

Lemma nth_tile {A} n (l : list A) d t : t < n * length l -> nth t (tile n l) d = nth (t mod length l) l d.
Proof.
  intros Hlt. rewrite tile_flat_map.
  apply (nth_flat_map_uniform (fun _ : unit => l) (length l) (repeat tt n) tt d t); [reflexivity|].
  rewrite repeat_length. assumption.
Qed.

Lemma nth_repeat_each {A} r (l : list A) d t : t < length l * r -> nth t (repeat_each r l) d = nth (t / r) l d.
Proof.
  intros Hlt. unfold repeat_each.
  assert (Hr : r <> 0) by (intros ->; lia).
  rewrite (nth_flat_map_uniform (fun x => repeat x r) r l d d t) by (auto using repeat_length).
  rewrite (nth_indep _ d (nth (t / r) l d)).
  - apply nth_repeat.
  - rewrite repeat_length. apply Nat.mod_upper_bound. assumption.
Qed.

Lemma combine_seq_nth {A} (l : list A) d s :
  combine (seq s (length l)) l = map (fun k => (k, nth (k - s) l d)) (seq s (length l)).
Proof.
  revert s. induction l as [|a l IH]; intros s; [reflexivity|].
  cbn [length seq combine map]. rewrite Nat.sub_diag. cbn [nth]. f_equal.
  rewrite IH. apply map_ext_in. intros k Hk. apply in_seq in Hk.
  replace (k - s) with (S (k - S s)) by lia. reflexivity.
Qed.

Lemma NoDup_map_inj_in {A B} (f : A -> B) (l : list A) :
  (forall x y, In x l -> In y l -> f x = f y -> x = y) -> NoDup l -> NoDup (map f l).
Proof.
  intros Hinj Hnd. induction Hnd as [|x l Hnin Hnd IH]; cbn; constructor.
  - intros Hin. apply in_map_iff in Hin. destruct Hin as [y [Hy Hiny]].
    assert (y = x) by (apply Hinj; [right; assumption|left; reflexivity|assumption]). subst. contradiction.
  - apply IH. intros a b Ha Hb. apply Hinj; right; assumption.
Qed.

Lemma existsb_false_nth (l : list bool) k : existsb (fun b => b) l = false -> nth k l false = false.
Proof.
  revert k. induction l as [|b l IH]; intros k H; destruct k; cbn in *; try reflexivity.
  - destruct b; [discriminate|reflexivity].
  - apply IH. destruct b; [discriminate|assumption].
Qed.

(* ------------------------------------------------------------------ products of lengths *)

Lemma prodl_cons a l : prodl (a :: l) = a * prodl l.
Proof. reflexivity. Qed.

Lemma prodl_pos l : Forall pos l -> 1 <= prodl l.
Proof. induction 1 as [|a l Ha _ IH]; [cbn; lia|]. rewrite prodl_cons. nia. Qed.

Lemma pos_skipn n (l : list nat) : Forall pos l -> Forall pos (skipn n l).
Proof.
  revert l. induction n as [|n IH]; intros l H; [assumption|].
  destruct l as [|a l]; [constructor|]. cbn. apply IH. apply (Forall_inv_tail H).
Qed.

Lemma pos_firstn n (l : list nat) : Forall pos l -> Forall pos (firstn n l).
Proof.
  revert l. induction n as [|n IH]; intros l H; [constructor|].
  destruct l as [|a l]; [constructor|]. cbn. constructor; [apply (Forall_inv H)|]. apply IH. apply (Forall_inv_tail H).
Qed.

Lemma pos_nth k (l : list nat) : Forall pos l -> k < length l -> 1 <= nth k l 0.
Proof. intros H Hk. apply (proj1 (Forall_nth pos l) H k 0 Hk). Qed.

Lemma prodl_split lens k : k < length lens ->
  prodl lens = prodl (firstn k lens) * (nth k lens 0 * prodl (skipn (S k) lens)).
Proof.
  revert k. induction lens as [|a l IH]; intros k Hk; [cbn in Hk; lia|].
  destruct k as [|k].
  - cbn [firstn nth skipn]. rewrite prodl_cons. cbn [prodl fold_right]. lia.
  - cbn [firstn nth skipn length] in *. rewrite !prodl_cons. rewrite (IH k) at 1 by lia. lia.
Qed.

Lemma prodl_skipn_factor lens j k : j < k < length lens ->
  exists c, prodl (skipn (S j) lens) = c * (prodl (skipn (S k) lens) * nth k lens 0).
Proof.
  revert j k. induction lens as [|a l IH]; intros j k Hjk; [cbn in Hjk; lia|].
  destruct k as [|k]; [lia|]. cbn [length] in Hjk. destruct j as [|j].
  - change (skipn 1 (a :: l)) with l. change (skipn (S (S k)) (a :: l)) with (skipn (S k) l).
    change (nth (S k) (a :: l) 0) with (nth k l 0). exists (prodl (firstn k l)). rewrite (prodl_split l k) at 1 by lia. lia.
  - cbn [nth]. change (skipn (S (S j)) (a :: l)) with (skipn (S j) l).
    change (skipn (S (S k)) (a :: l)) with (skipn (S k) l). apply IH. lia.
Qed.

Section Axis.
  Variable lens : list nat.
  Hypothesis Hpos : Forall pos lens.
  Variable k : nat.
  Hypothesis Hk : k < length lens.

  Let L := nth k lens 0.
  Let R := prodl (skipn (S k) lens).
  Let H := prodl (firstn k lens).

  Lemma axis_L : 1 <= L. Proof. apply pos_nth; assumption. Qed.
  Lemma axis_R : 1 <= R. Proof. apply prodl_pos, pos_skipn; assumption. Qed.
  Lemma axis_H : 1 <= H. Proof. apply prodl_pos, pos_firstn; assumption. Qed.
  Lemma axis_total : prodl lens = H * (L * R). Proof. apply prodl_split; assumption. Qed.

  Lemma digit_lt t : digit lens k t < nth k lens 0.
  Proof. unfold digit. apply Nat.mod_upper_bound. pose proof axis_L. fold L. lia. Qed.

  Lemma digit_mod t : digit lens k (t mod prodl lens) = digit lens k t.
  Proof.
    unfold digit. fold R L. rewrite axis_total.
    pose proof axis_L. pose proof axis_R. pose proof axis_H.
    replace (H * (L * R)) with (R * (L * H)) by lia.
    rewrite div_mod_mul by nia. apply mod_mul_mod; lia.
  Qed.

  Lemma length_axis_col b : length (axis_col lens k b) = prodl lens.
  Proof.
    unfold axis_col. fold L R H. rewrite firstn_length, length_tile, length_repeat_each.
    rewrite axis_total. pose proof axis_H.
    destruct b.
    - rewrite app_length, rev_length, seq_length.
      replace (H * ((L + L) * R)) with (H * (L * R) + H * (L * R)) by lia. lia.
    - rewrite seq_length. lia.
  Qed.

  Lemma nth_axis_col b t : t < prodl lens ->
    nth t (axis_col lens k b) 0 =
    if b && Nat.odd (slower lens k t) then nth k lens 0 - 1 - digit lens k t else digit lens k t.
  Proof.
    intros Ht. unfold axis_col, slower, digit. fold L R H.
    pose proof axis_L as HL. pose proof axis_R as HR. pose proof axis_H as HH.
    rewrite nth_firstn_lt by assumption.
    rewrite axis_total in Ht.
    destruct b; cbn [andb].
    - set (v := seq 0 L ++ rev (seq 0 L)).
      assert (Hv : length v = L * 2) by (unfold v; rewrite app_length, rev_length, seq_length; lia).
      rewrite nth_tile by (rewrite length_repeat_each, Hv; nia).
      rewrite length_repeat_each, Hv.
      rewrite nth_repeat_each by (rewrite Hv; apply Nat.mod_upper_bound; nia).
      rewrite (Nat.mul_comm (L * 2) R), div_mod_mul by lia.
      rewrite Nat.mod_mul_r by lia. rewrite Nat.div_div by lia. rewrite mod2_odd.
      pose proof (Nat.mod_upper_bound (t / R) L ltac:(lia)) as Hd.
      destruct (Nat.odd (t / (R * L))); unfold v.
      + rewrite app_nth2 by (rewrite seq_length; lia). rewrite seq_length.
        rewrite rev_nth by (rewrite seq_length; lia). rewrite seq_length.
        rewrite seq_nth by lia. lia.
      + rewrite app_nth1 by (rewrite seq_length; lia). rewrite seq_nth by lia. lia.
    - rewrite nth_tile by (rewrite length_repeat_each, seq_length; nia).
      rewrite length_repeat_each, seq_length.
      rewrite nth_repeat_each by (rewrite seq_length; apply Nat.mod_upper_bound; nia).
      rewrite (Nat.mul_comm L R), div_mod_mul by lia.
      rewrite seq_nth by (apply Nat.mod_upper_bound; lia). reflexivity.
  Qed.

  (* when T+1 starts a new period of the axis: its slower part advances, its digit wraps *)
  Lemma axis_turn T : (T + 1) mod (prodl (skipn (S k) lens) * nth k lens 0) = 0 ->
    slower lens k (T + 1) = S (slower lens k T) /\ digit lens k T = nth k lens 0 - 1 /\ digit lens k (T + 1) = 0.
  Proof.
    intros H0. unfold slower, digit. fold R L in H0 |- *.
    pose proof axis_L. pose proof axis_R. apply rollover; [lia|lia|assumption].
  Qed.

  Lemma slower_changes T : slower lens k (T + 1) <> slower lens k T ->
    (T + 1) mod (prodl (skipn (S k) lens) * nth k lens 0) = 0.
  Proof.
    intros Hne. destruct (Nat.eq_dec ((T + 1) mod (prodl (skipn (S k) lens) * nth k lens 0)) 0) as [E|E]; [assumption|].
    exfalso. apply Hne. unfold slower. apply same_block; [|assumption].
    pose proof axis_L. pose proof axis_R. fold R L. nia.
  Qed.

  Lemma idx_turn flags T : (T + 1) mod (prodl (skipn (S k) lens) * nth k lens 0) = 0 ->
    Nat.odd (slower lens k (T + 1)) = negb (Nat.odd (slower lens k T)) /\
    if nth k flags false then idx lens flags k (T + 1) = idx lens flags k T
    else idx lens flags k T = nth k lens 0 - 1 /\ idx lens flags k (T + 1) = 0.
  Proof.
    intros H0. destruct (axis_turn T H0) as [Es [Ed Ed']].
    split; [rewrite Es, Nat.odd_succ, Nat.negb_odd; reflexivity|].
    unfold idx. rewrite Es, Ed, Ed', Nat.odd_succ, <- Nat.negb_odd.
    destruct (nth k flags false); cbn [andb]; [|split; reflexivity].
    destruct (Nat.odd (slower lens k T)); cbn [negb]; lia.
  Qed.

  Lemma idx_lt flags t : idx lens flags k t < nth k lens 0.
  Proof.
    unfold idx. pose proof (digit_lt t).
    destruct (nth k flags false && Nat.odd (slower lens k t)); lia.
  Qed.
End Axis.

(* a digit of a slower axis changes => the slower part of axis k changes *)
Lemma slower_same_digit_same lens j k T T' : Forall pos lens -> j < k < length lens ->
  slower lens k T = slower lens k T' -> digit lens j T = digit lens j T'.
Proof.
  intros Hpos Hjk Hs. unfold slower in Hs. unfold digit.
  destruct (prodl_skipn_factor lens j k Hjk) as [c Hc].
  pose proof (axis_L lens Hpos k ltac:(lia)) as HL. pose proof (axis_R lens Hpos k) as HR.
  pose proof (axis_R lens Hpos j) as HRj.
  set (M := prodl (skipn (S k) lens) * nth k lens 0) in *.
  assert (HM : M <> 0) by (unfold M; nia).
  assert (Hc0 : c <> 0) by (intros ->; lia).
  rewrite Hc, (Nat.mul_comm c M). rewrite <- !(Nat.div_div _ M c) by assumption.
  rewrite Hs. reflexivity.
Qed.

(* ------------------------------------------------------------------ plain product *)

Lemma length_flat_map_uniform {A B} (f : A -> list B) R (l : list A) :
  (forall x, length (f x) = R) -> length (flat_map f l) = length l * R.
Proof.
  intros Hlen. induction l as [|x l IH]; cbn [flat_map length]; [reflexivity|].
  rewrite app_length, Hlen, IH. lia.
Qed.

Lemma length_product lens : length (product lens) = prodl lens.
Proof.
  induction lens as [|L rest IH]; [reflexivity|].
  cbn [product]. rewrite prodl_cons.
  rewrite (length_flat_map_uniform _ (prodl rest)), seq_length; [reflexivity|].
  intros i. rewrite map_length. exact IH.
Qed.

Lemma idx_S L rest f frest k T : idx (L :: rest) (f :: frest) (S k) T = idx rest frest k T.
Proof. reflexivity. Qed.

Lemma digit_S L rest k T : digit (L :: rest) (S k) T = digit rest k T.
Proof. reflexivity. Qed.

Lemma slower_S L rest k T : slower (L :: rest) (S k) T = slower rest k T.
Proof. reflexivity. Qed.

Lemma point_cons L rest f frest T :
  point (L :: rest) (f :: frest) T = idx (L :: rest) (f :: frest) 0 T :: point rest frest T.
Proof.
  unfold point. cbn [length seq map]. f_equal. rewrite <- seq_shift, map_map.
  apply map_ext. intros k. apply idx_S.
Qed.

Lemma nth_product lens t : Forall pos lens -> t < prodl lens ->
  nth t (product lens) [] = map (fun k => digit lens k t) (seq 0 (length lens)).
Proof.
  intros Hpos. revert t. induction Hpos as [|L rest HL Hrest IH]; intros t Ht.
  - cbn in Ht. assert (t = 0) by lia. subst. reflexivity.
  - rewrite prodl_cons in Ht. pose proof (prodl_pos rest Hrest) as HR.
    set (R := prodl rest) in *.
    cbn [product].
    rewrite (nth_flat_map_uniform (fun i => map (cons i) (product rest)) R (seq 0 L) 0 [] t)
      by first [ intros; rewrite map_length; apply length_product | rewrite seq_length; lia ].
    assert (Hq : t / R < L) by (apply Nat.div_lt_upper_bound; lia).
    rewrite seq_nth by assumption. cbn [plus].
    assert (Hm : t mod R < R) by (apply Nat.mod_upper_bound; lia).
    rewrite (nth_indep _ [] (cons (t / R) [])) by (rewrite map_length, length_product; assumption).
    rewrite map_nth, IH by assumption.
    cbn [length seq map]. f_equal.
    + unfold digit. cbn [skipn nth]. fold R. rewrite Nat.mod_small by assumption. reflexivity.
    + rewrite <- seq_shift, map_map. apply map_ext_in. intros k Hk. apply in_seq in Hk.
      rewrite digit_S. apply digit_mod; [assumption|lia].
Qed.

Lemma product_closed lens : Forall pos lens ->
  product lens = map (fun t => map (fun k => digit lens k t) (seq 0 (length lens))) (seq 0 (prodl lens)).
Proof.
  intros Hpos. apply (nth_ext _ _ [] []).
  - rewrite length_product, map_length, seq_length. reflexivity.
  - intros t Ht. rewrite length_product in Ht. rewrite nth_map_seq by assumption.
    apply nth_product; assumption.
Qed.

(* ------------------------------------------------------------------ (i) closed form *)

Lemma idx_first lens flags t : Forall pos lens -> lens <> [] -> t < prodl lens ->
  idx lens flags 0 t = digit lens 0 t.
Proof.
  intros Hpos Hne Ht. destruct lens as [|L rest]; [contradiction|].
  unfold idx, slower. cbn [skipn nth]. rewrite prodl_cons in Ht.
  rewrite Nat.div_small by lia. cbn [Nat.odd]. rewrite andb_false_r. reflexivity.
Qed.

Lemma idx_unsnaked lens flags k t : nth k flags false = false -> idx lens flags k t = digit lens k t.
Proof. intros H. unfold idx. rewrite H. reflexivity. Qed.

Theorem snake_closed lens flags : valid_lens lens -> length flags = length lens ->
  snake_cyclers lens flags = Some (map (point lens flags) (seq 0 (prodl lens))).
Proof.
  intros [Hne Hpos] Hlen. unfold snake_cyclers.
  rewrite <- Hlen, Nat.eqb_refl. cbn [negb].
  assert (Hn0 : (length flags =? 0) = false).
  { apply Nat.eqb_neq. rewrite Hlen. destruct lens; [contradiction|cbn; lia]. }
  rewrite Hn0.
  destruct (existsb (fun b => b) (tl flags)) eqn:Hex; cbn [negb].
  - (* snaking: zipped columns *)
    rewrite Hlen. rewrite <- Hlen at 1. rewrite (combine_seq_nth flags false 0), map_map. rewrite Hlen.
    unfold zip_cols.
    assert (Hall : forallb (fun c => length c =? prodl lens)
             (map (fun x => axis_col lens (fst (x, nth (x - 0) flags false)) (snd (x, nth (x - 0) flags false)))
                  (seq 0 (length lens))) = true).
    { apply forallb_forall. intros c Hc. apply in_map_iff in Hc. destruct Hc as [k [<- Hk]].
      apply in_seq in Hk. cbn [fst snd]. apply Nat.eqb_eq. apply length_axis_col; [assumption|lia]. }
    rewrite Hall. f_equal. apply map_ext_in. intros t Ht. apply in_seq in Ht.
    rewrite map_map. unfold point. apply map_ext_in. intros k Hk. apply in_seq in Hk.
    cbn [fst snd]. rewrite Nat.sub_0_r. rewrite nth_axis_col by (assumption || lia). reflexivity.
  - (* no snaking after the first axis: plain product *)
    f_equal. rewrite product_closed by assumption. apply map_ext_in. intros t Ht. apply in_seq in Ht.
    unfold point. apply map_ext_in. intros k Hk. apply in_seq in Hk. symmetry.
    destruct k as [|k].
    + apply idx_first; (assumption || lia).
    + apply idx_unsnaked. destruct flags as [|f frest]; [reflexivity|]. cbn [nth tl] in *.
      apply existsb_false_nth. assumption.
Qed.

Lemma length_point lens flags t : length (point lens flags t) = length lens.
Proof. unfold point. rewrite map_length, seq_length. reflexivity. Qed.

Lemma nth_point lens flags t k d : k < length lens -> nth k (point lens flags t) d = idx lens flags k t.
Proof. intros Hk. unfold point. apply (nth_map_seq (fun k => idx lens flags k t)). assumption. Qed.

(* ------------------------------------------------------------------ (ii) bijection *)

Lemma idx0_unfold L rest f frest T :
  idx (L :: rest) (f :: frest) 0 T =
  if f && Nat.odd (T / (prodl rest * L)) then L - 1 - (T / prodl rest) mod L else (T / prodl rest) mod L.
Proof. reflexivity. Qed.

Lemma point_inj_block lens : Forall pos lens -> forall flags, length flags = length lens ->
  forall T1 T2, T1 / prodl lens = T2 / prodl lens -> point lens flags T1 = point lens flags T2 -> T1 = T2.
Proof.
  induction 1 as [|L rest HL Hrest IH]; intros flags Hlen T1 T2 Hblk Hpt.
  - change (prodl []) with 1 in Hblk. rewrite !Nat.div_1_r in Hblk. assumption.
  - destruct flags as [|f frest]; [discriminate|]. cbn [length] in Hlen.
    rewrite !point_cons in Hpt. injection Hpt as H0 Hr.
    rewrite !idx0_unfold in H0. rewrite prodl_cons in Hblk.
    pose proof (prodl_pos rest Hrest) as HR. set (R := prodl rest) in *.
    rewrite (Nat.mul_comm L R) in Hblk. rewrite Hblk in H0.
    pose proof (Nat.mod_upper_bound (T1 / R) L ltac:(lia)) as Hd1.
    pose proof (Nat.mod_upper_bound (T2 / R) L ltac:(lia)) as Hd2.
    assert (Hd : (T1 / R) mod L = (T2 / R) mod L) by (destruct (f && Nat.odd (T2 / (R * L))); lia).
    rewrite <- !Nat.div_div in Hblk by lia.
    assert (Hq : T1 / R = T2 / R).
    { rewrite (Nat.div_mod (T1 / R) L), (Nat.div_mod (T2 / R) L) by lia. rewrite Hblk, Hd. reflexivity. }
    apply (IH frest); [lia|assumption|assumption].
Qed.

Lemma point_in_product lens : Forall pos lens -> forall flags, length flags = length lens ->
  forall T, In (point lens flags T) (product lens).
Proof.
  induction 1 as [|L rest HL Hrest IH]; intros flags Hlen T.
  - left. reflexivity.
  - destruct flags as [|f frest]; [discriminate|]. cbn [length] in Hlen.
    rewrite point_cons. cbn [product]. apply in_flat_map.
    exists (idx (L :: rest) (f :: frest) 0 T). split.
    + apply in_seq. split; [lia|]. cbn [plus].
      apply (idx_lt (L :: rest) ltac:(constructor; assumption) 0 ltac:(cbn; lia)).
    + apply in_map. apply IH. lia.
Qed.

Theorem snake_points_nodup lens flags : valid_lens lens -> length flags = length lens ->
  NoDup (map (point lens flags) (seq 0 (prodl lens))).
Proof.
  intros [Hne Hpos] Hlen. apply NoDup_map_inj_in; [|apply seq_NoDup].
  intros x y Hx Hy E. apply in_seq in Hx. apply in_seq in Hy.
  apply (point_inj_block lens Hpos flags Hlen); [|assumption].
  rewrite !Nat.div_small by lia. reflexivity.
Qed.

Theorem snake_permutation lens flags : valid_lens lens -> length flags = length lens ->
  Permutation (map (point lens flags) (seq 0 (prodl lens))) (product lens).
Proof.
  intros Hv Hlen. apply NoDup_Permutation_bis.
  - apply snake_points_nodup; assumption.
  - rewrite length_product, map_length, seq_length. lia.
  - intros p Hp. apply in_map_iff in Hp. destruct Hp as [t [<- _]].
    apply point_in_product; [apply Hv|assumption].
Qed.

(* ------------------------------------------------------------------ (iv) continuity *)

Lemma step_shape lens : Forall pos lens -> lens <> [] -> forall flags, length flags = length lens ->
  forall T, (T + 1) mod prodl lens <> 0 ->
  exists j, j < length lens /\
    (forall i, i < j -> idx lens flags i (T + 1) = idx lens flags i T) /\
    adj (idx lens flags j T) (idx lens flags j (T + 1)) /\
    (forall i, j < i < length lens ->
       if nth i flags false then idx lens flags i (T + 1) = idx lens flags i T
       else idx lens flags i T = nth i lens 0 - 1 /\ idx lens flags i (T + 1) = 0).
Proof.
  induction 1 as [|L rest HL Hrest IH]; intros Hne flags Hlen T Hmod; [contradiction|].
  destruct flags as [|f frest]; [discriminate|]. cbn [length] in Hlen.
  pose proof (prodl_pos rest Hrest) as HR. rewrite prodl_cons in Hmod. set (R := prodl rest) in *.
  rewrite (Nat.mul_comm L R) in Hmod.
  destruct (Nat.eq_dec ((T + 1) mod R) 0) as [E0|E0].
  - (* axis 0 advances; everything faster turns around / wraps *)
    exists 0. split; [cbn; lia|]. split; [intros i Hi; lia|]. split.
    + rewrite !idx0_unfold. fold R.
      destruct (advance T R L ltac:(lia) ltac:(lia) E0 Hmod) as [Es Ed].
      rewrite Es, Ed.
      pose proof (Nat.mod_upper_bound ((T + 1) / R) L ltac:(lia)) as Hlt.
      unfold adj. destruct (f && Nat.odd (T / (R * L))); lia.
    + intros i Hi. destruct i as [|i]; [lia|]. cbn [length] in Hi.
      rewrite !idx_S. cbn [nth].
      assert (Hi' : i < length rest) by lia.
      apply (idx_turn rest Hrest i Hi' frest T).
      pose proof (prodl_split rest i Hi') as Hsp. fold R in Hsp.
      pose proof (axis_L rest Hrest i Hi'). pose proof (axis_R rest Hrest i).
      pose proof (axis_H rest Hrest i).
      apply (mod_factor _ (prodl (firstn i rest))); [nia|].
      replace (prodl (firstn i rest) * (prodl (skipn (S i) rest) * nth i rest 0)) with R by lia.
      assumption.
  - (* axis 0 stays; the step happens inside rest *)
    assert (Hrne : rest <> []).
    { intros Hr. apply E0. unfold R. rewrite Hr. change (prodl []) with 1. apply Nat.mod_1_r. }
    destruct (IH Hrne frest ltac:(lia) T E0) as [j [Hj [Hslow [Hadj Hfast]]]].
    exists (S j). split; [cbn; lia|]. split; [|split].
    + intros i Hi. destruct i as [|i].
      * rewrite !idx0_unfold. fold R.
        rewrite <- !(Nat.div_div _ R L) by lia.
        rewrite (same_block T R) by (lia || assumption). reflexivity.
      * rewrite !idx_S. apply Hslow. lia.
    + rewrite !idx_S. assumption.
    + intros i Hi. destruct i as [|i]; [lia|]. cbn [length] in Hi. rewrite !idx_S. cbn [nth].
      apply Hfast. lia.
Qed.

Lemma slower_same_slower_same lens j k T T' : Forall pos lens -> j < k < length lens ->
  slower lens k T = slower lens k T' -> slower lens j T = slower lens j T'.
Proof.
  intros Hpos Hjk Hs. unfold slower in *.
  destruct (prodl_skipn_factor lens j k Hjk) as [c Hc].
  pose proof (axis_L lens Hpos k ltac:(lia)) as HL. pose proof (axis_R lens Hpos k) as HR.
  pose proof (axis_R lens Hpos j) as HRj. pose proof (axis_L lens Hpos j ltac:(lia)) as HLj.
  set (M := prodl (skipn (S k) lens) * nth k lens 0) in *.
  assert (HM : M <> 0) by (unfold M; nia).
  assert (Hc0 : c <> 0) by (intros ->; lia).
  rewrite Hc. replace (c * M * nth j lens 0) with (M * (c * nth j lens 0)) by lia.
  rewrite <- !(Nat.div_div _ M (c * nth j lens 0)) by nia.
  rewrite Hs. reflexivity.
Qed.

(* ================================================================== statements about the output *)

Section Output.
  Variables (lens : list nat) (flags : list bool) (pts : list (list nat)).
  Hypothesis Hv : valid_lens lens.
  Hypothesis Hlen : length flags = length lens.
  Hypothesis Hrun : snake_cyclers lens flags = Some pts.

  Lemma out_eq : pts = map (point lens flags) (seq 0 (prodl lens)).
  Proof. rewrite (snake_closed lens flags Hv Hlen) in Hrun. injection Hrun as <-. reflexivity. Qed.

  Lemma out_length : length pts = prodl lens.
  Proof. rewrite out_eq, map_length, seq_length. reflexivity. Qed.

  Lemma out_nth t : t < prodl lens -> nth t pts [] = point lens flags t.
  Proof. intros Ht. rewrite out_eq. apply nth_map_seq. assumption. Qed.

  Lemma out_coord t k : t < prodl lens -> k < length lens -> coord (nth t pts []) k = idx lens flags k t.
  Proof. intros Ht Hk. unfold coord. rewrite out_nth by assumption. apply nth_point. assumption. Qed.

  (* (i) *)
  Lemma out_closed_form :
    length pts = prodl lens /\
    forall t, t < prodl lens ->
      nth t pts [] = point lens flags t /\ length (nth t pts []) = length lens /\
      forall k, k < length lens -> coord (nth t pts []) k = idx lens flags k t.
  Proof.
    split; [apply out_length|]. intros t Ht. split; [apply out_nth; assumption|]. split.
    - rewrite out_nth by assumption. apply length_point.
    - intros k Hk. apply out_coord; assumption.
  Qed.

  (* (ii) *)
  Lemma out_permutation : NoDup pts /\ Permutation pts (product lens) /\
    (forall p, In p pts <-> In p (product lens)).
  Proof.
    rewrite out_eq. split; [apply snake_points_nodup; assumption|].
    pose proof (snake_permutation lens flags Hv Hlen) as HP. split; [assumption|].
    intros p. split; intros Hp.
    - apply (Permutation_in _ HP). assumption.
    - apply (Permutation_in _ (Permutation_sym HP)). assumption.
  Qed.

  (* (iii) *)
  Lemma out_unsnaked k : k < length lens -> (k = 0 \/ nth k flags false = false) ->
    forall t, t < prodl lens ->
      coord (nth t pts []) k = coord (nth t (product lens) []) k /\ coord (nth t pts []) k = digit lens k t.
  Proof.
    intros Hk Hf t Ht. destruct Hv as [Hne Hpos].
    assert (E : coord (nth t pts []) k = digit lens k t).
    { rewrite out_coord by assumption. destruct Hf as [->|Hf]; [apply idx_first; assumption|apply idx_unsnaked; assumption]. }
    split; [|assumption]. rewrite E. unfold coord. rewrite nth_product by assumption.
    symmetry. apply (nth_map_seq (fun k => digit lens k t)). assumption.
  Qed.

  (* (iv) turn-around: a slower coordinate changes => snaked axis k keeps its index, direction flips *)
  Lemma out_turnaround j k t : j < k < length lens -> t + 1 < prodl lens ->
    coord (nth (t + 1) pts []) j <> coord (nth t pts []) j ->
    nth k flags false = true ->
    coord (nth (t + 1) pts []) k = coord (nth t pts []) k /\
    Nat.odd (slower lens k (t + 1)) = negb (Nat.odd (slower lens k t)).
  Proof.
    intros Hjk Ht Hch Hf. destruct Hv as [Hne Hpos].
    rewrite !out_coord in Hch by lia. rewrite !out_coord by lia.
    assert (Hs : slower lens k (t + 1) <> slower lens k t).
    { intros Hs. apply Hch. unfold idx.
      rewrite (slower_same_slower_same lens j k _ _ Hpos Hjk Hs).
      rewrite (slower_same_digit_same lens j k _ _ Hpos Hjk Hs). reflexivity. }
    pose proof (slower_changes lens Hpos k ltac:(lia) t Hs) as H0.
    destruct (idx_turn lens Hpos k ltac:(lia) flags t H0) as [Hodd Hidx].
    rewrite Hf in Hidx. split; assumption.
  Qed.

  (* (iv) shape of every step *)
  Lemma out_step t : t + 1 < prodl lens ->
    exists j, j < length lens /\
      (forall i, i < j -> coord (nth (t + 1) pts []) i = coord (nth t pts []) i) /\
      adj (coord (nth t pts []) j) (coord (nth (t + 1) pts []) j) /\
      (forall i, j < i < length lens ->
         if nth i flags false then coord (nth (t + 1) pts []) i = coord (nth t pts []) i
         else coord (nth t pts []) i = nth i lens 0 - 1 /\ coord (nth (t + 1) pts []) i = 0) /\
      ((forall i, j < i < length lens -> nth i flags false = true) ->
         forall i, i < length lens -> i <> j -> coord (nth (t + 1) pts []) i = coord (nth t pts []) i).
  Proof.
    intros Ht. destruct Hv as [Hne Hpos].
    assert (Hmod : (t + 1) mod prodl lens <> 0) by (rewrite Nat.mod_small by assumption; lia).
    destruct (step_shape lens Hpos Hne flags Hlen t Hmod) as [j [Hj [Hslow [Hadj Hfast]]]].
    exists j. split; [assumption|].
    assert (Hslow' : forall i, i < j -> coord (nth (t + 1) pts []) i = coord (nth t pts []) i).
    { intros i Hi. rewrite !out_coord by lia. apply Hslow. assumption. }
    assert (Hfast' : forall i, j < i < length lens ->
         if nth i flags false then coord (nth (t + 1) pts []) i = coord (nth t pts []) i
         else coord (nth t pts []) i = nth i lens 0 - 1 /\ coord (nth (t + 1) pts []) i = 0).
    { intros i Hi. rewrite !out_coord by lia. apply Hfast. assumption. }
    split; [assumption|]. split; [rewrite !out_coord by lia; assumption|]. split; [assumption|].
    intros Hall i Hi Hij. destruct (lt_dec i j) as [Hlt|Hge]; [apply Hslow'; assumption|].
    assert (Hji : j < i < length lens) by lia.
    specialize (Hfast' i Hji). rewrite (Hall i Hji) in Hfast'. assumption.
  Qed.
End Output.

(* (v) *)
Theorem first_flag_irrelevant lens flags b b' : valid_lens lens ->
  snake_cyclers lens (b :: flags) = snake_cyclers lens (b' :: flags).
Proof.
  intros Hv. destruct (Nat.eq_dec (length lens) (S (length flags))) as [E|E].
  - rewrite !snake_closed by (assumption || (cbn [length]; lia)). f_equal.
    apply map_ext_in. intros t Ht. apply in_seq in Ht. unfold point. apply map_ext_in. intros k Hk.
    destruct k as [|k].
    + destruct Hv as [Hne Hpos]. rewrite !idx_first by (assumption || lia). reflexivity.
    + reflexivity.
  - unfold snake_cyclers. cbn [length]. apply Nat.eqb_neq in E. rewrite E. reflexivity.
Qed.

Theorem snake_total lens flags : valid_lens lens -> length flags = length lens ->
  exists pts, snake_cyclers lens flags = Some pts.
Proof. intros Hv Hlen. eexists. apply snake_closed; assumption. Qed.
