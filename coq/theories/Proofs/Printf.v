(* Proofs for C37 (model: Pure/Printf.v). *)
From Coq Require Import Ascii String NArith List Bool Lia ZifyBool.
From BV Require Import Base.Prelude Pure.Printf.
Import ListNotations.
Local Open Scope char_scope.
Local Open Scope list_scope.
Arguments aeqb a b : simpl nomatch.
Arguments Ascii.eqb a b : simpl nomatch.

(* ------------------------------------------------------------------ characters *)

Ltac len_lia :=
  unfold str in *;
  repeat (repeat rewrite app_length; cbn [List.length]);
  repeat match goal with |- context [List.length ?x] => generalize (List.length x); intro end; lia.

Ltac all_ascii c := destruct c as [[] [] [] [] [] [] [] []].

Lemma aeqb_refl c : aeqb c c = true.
Proof. apply Ascii.eqb_refl. Qed.

Lemma digit_facts c : is_digit c = true ->
  is_flag c = aeqb "0" c /\ is_align c = false /\ is_sign c = false /\
  aeqb "z" c = false /\ aeqb "#" c = false /\ aeqb c "," = false /\ aeqb c "_" = false /\
  aeqb c "." = false /\ aeqb c "d" = false /\ aeqb c "}" = false /\ aeqb "{" c = false /\
  aeqb c "{" = false /\ aeqb c "%" = false /\ aeqb "%" c = false /\ aeqb "s" c = false /\
  (digit_val c < 10)%N /\ digit_char (digit_val c) = c.
Proof.
  all_ascii c; intros H; vm_compute in H; try discriminate H; repeat split; vm_compute; reflexivity.
Qed.

Lemma digit_char_facts d : (d < 10)%N ->
  is_digit (digit_char d) = true /\ digit_val (digit_char d) = d /\ (aeqb (digit_char d) "0" = true -> d = 0%N).
Proof.
  intros H.
  assert (E : (d = 0 \/ d = 1 \/ d = 2 \/ d = 3 \/ d = 4 \/ d = 5 \/ d = 6 \/ d = 7 \/ d = 8 \/ d = 9)%N) by lia.
  repeat (destruct E as [E | E]; [subst d; vm_compute; repeat split; intros; try reflexivity; discriminate |]).
  subst d; vm_compute; repeat split; intros; try reflexivity; discriminate.
Qed.

Definition digits (s : str) : Prop := Forall (fun c => is_digit c = true) s.

(* ------------------------------------------------------------------ decimal numerals *)

Lemma val_app a b : val (a ++ b) = fold_left (fun a c => (a * 10 + digit_val c)%N) b (val a).
Proof. unfold val. apply fold_left_app. Qed.

Lemma val_snoc a c : val (a ++ [c]) = (val a * 10 + digit_val c)%N.
Proof. rewrite val_app. reflexivity. Qed.

Lemma dec_fuel_ok f : forall n, (n < 10 ^ N.of_nat (S f))%N ->
  digits (dec_fuel (S f) n) /\ val (dec_fuel (S f) n) = n /\
  exists c t, dec_fuel (S f) n = c :: t /\ ((0 < n)%N -> aeqb "0" c = false).
Proof.
  induction f as [|f IH]; intros n Hn.
  - change (10 ^ N.of_nat 1)%N with 10%N in Hn.
    cbn [dec_fuel]. apply N.ltb_lt in Hn as Hb. rewrite Hb.
    destruct (digit_char_facts n Hn) as (D1 & D2 & D3).
    split; [repeat constructor; exact D1|]. split.
    + unfold val; cbn. rewrite D2. reflexivity.
    + exists (digit_char n), []. split; [reflexivity|]. intros Hp.
      destruct (aeqb "0" (digit_char n)) eqn:E; [|reflexivity].
      unfold aeqb in E. rewrite Ascii.eqb_sym in E. apply D3 in E. lia.
  - change (dec_fuel (S (S f)) n) with
      (if (n <? 10)%N then [digit_char n] else dec_fuel (S f) (n / 10)%N ++ [digit_char (n mod 10)%N]).
    destruct (n <? 10)%N eqn:Hb.
    + apply N.ltb_lt in Hb. destruct (digit_char_facts n Hb) as (D1 & D2 & D3).
      split; [repeat constructor; exact D1|]. split.
      * unfold val; cbn. rewrite D2. reflexivity.
      * exists (digit_char n), []. split; [reflexivity|]. intros Hp.
        destruct (aeqb "0" (digit_char n)) eqn:E; [|reflexivity].
        unfold aeqb in E. rewrite Ascii.eqb_sym in E. apply D3 in E. lia.
    + apply N.ltb_ge in Hb.
      assert (Hq : (n / 10 < 10 ^ N.of_nat (S f))%N).
      { apply N.div_lt_upper_bound; [lia|].
        replace (N.of_nat (S (S f))) with (N.succ (N.of_nat (S f))) in Hn by lia.
        rewrite N.pow_succ_r in Hn by lia. exact Hn. }
      destruct (IH _ Hq) as (I1 & I2 & c & t & I3 & I4).
      assert (Hm : (n mod 10 < 10)%N) by (apply N.mod_lt; lia).
      destruct (digit_char_facts _ Hm) as (D1 & D2 & _).
      split; [apply Forall_app; split; [exact I1 | repeat constructor; exact D1]|]. split.
      * rewrite val_snoc, I2, D2. rewrite (N.div_mod n 10) at 3 by lia. lia.
      * exists c, (t ++ [digit_char (n mod 10)%N]). split; [rewrite I3; reflexivity|].
        intros _. apply I4. apply N.div_str_pos. lia.
Qed.

Lemma dec_bound n : (n < 10 ^ N.of_nat (S (N.to_nat (N.log2 n))))%N.
Proof.
  replace (N.of_nat (S (N.to_nat (N.log2 n)))) with (N.succ (N.log2 n)) by lia.
  destruct (N.eq_dec n 0) as [->|Hz]; [vm_compute; reflexivity|].
  assert (Hp : (0 < n)%N) by lia.
  pose proof (N.log2_spec n Hp) as [_ H2].
  eapply N.lt_le_trans; [exact H2|].
  apply N.pow_le_mono_l. lia.
Qed.

Lemma dec_digits n : digits (dec n).
Proof. apply (dec_fuel_ok _ _ (dec_bound n)). Qed.

Lemma val_dec n : val (dec n) = n.
Proof. apply (dec_fuel_ok _ _ (dec_bound n)). Qed.

Lemma dec_cons n : exists c t, dec n = c :: t /\ ((0 < n)%N -> aeqb "0" c = false).
Proof. apply (dec_fuel_ok _ _ (dec_bound n)). Qed.

Lemma dec_nonnil n : dec n <> [].
Proof. destruct (dec_cons n) as (c & t & E & _). rewrite E. discriminate. Qed.

Lemma val_zeros_app k ds : val (zeros k ++ ds) = val ds.
Proof.
  induction k as [|k IH]; [reflexivity|].
  unfold val in *. cbn. exact IH.
Qed.

Lemma zeros_digits k : digits (zeros k).
Proof. induction k; constructor; auto. Qed.

Opaque dec.

(* ------------------------------------------------------------------ span *)

Definition stops (p : ascii -> bool) (b : str) : Prop :=
  match b with [] => True | c :: _ => p c = false end.

Lemma span_app p a b : Forall (fun c => p c = true) a -> stops p b -> span p (a ++ b) = (a, b).
Proof.
  intros Ha Hb. induction Ha as [|c a Hc Ha IH]; cbn.
  - destruct b as [|c b]; [reflexivity|]. cbn in *. rewrite Hb. reflexivity.
  - rewrite Hc, IH. reflexivity.
Qed.

Lemma span_digits_app ds b : digits ds -> stops is_digit b -> span is_digit (ds ++ b) = (ds, b).
Proof. apply span_app. Qed.

(* ------------------------------------------------------------------ skipping loops *)

Lemma sub_loop_skip xs rest : sub_loop (length xs) (xs ++ rest) = sub_loop 0 rest.
Proof. induction xs as [|x xs IH]; [reflexivity|]. cbn. exact IH. Qed.

Lemma fmt_loop_skip xs k n rest : fmt_loop (length xs) k n (xs ++ rest) = fmt_loop 0 k n rest.
Proof. induction xs as [|x xs IH]; [reflexivity|]. cbn. exact IH. Qed.

Lemma papp_papp u v r : papp u (papp v r) = papp (u ++ v) r.
Proof. destruct r; cbn; try reflexivity. rewrite app_assoc. reflexivity. Qed.

Lemma papp_nil r : papp [] r = r.
Proof. destruct r; reflexivity. Qed.

(* ------------------------------------------------------------------ text that a scan passes over *)

(* no "%s" inside and no '%' at the very end *)
Fixpoint pcts_inert (u : str) : bool :=
  match u with
  | [] => true
  | c :: u' => (if aeqb "%" c then match u' with d :: _ => negb (aeqb "s" d) | [] => false end else true)
               && pcts_inert u'
  end.

Definition no_pct (u : str) : bool := forallb (fun c => negb (aeqb c "%")) u.
Definition no_open (u : str) : bool := forallb (fun c => negb (aeqb "{" c)) u.
Definition nobrace (c : ascii) : bool := negb (aeqb c "}") && negb (aeqb c "{") && negb (aeqb "{" c).
Definition no_brace (u : str) : bool := forallb nobrace u.

Lemma plain_char_facts c : plain_char c = true ->
  aeqb "%" c = false /\ aeqb c "%" = false /\ nobrace c = true /\ aeqb "{" c = false.
Proof. all_ascii c; intros H; vm_compute in H; try discriminate H; repeat split; reflexivity. Qed.

Lemma plain_inert u : plain u = true -> pcts_inert u = true /\ no_pct u = true /\ no_open u = true /\ no_brace u = true.
Proof.
  unfold no_pct, no_open, no_brace, plain.
  induction u as [|c u IH]; cbn; [auto|]. intros H. apply andb_true_iff in H as [Hc Hu].
  destruct (IH Hu) as (I1 & I2 & I3 & I4). destruct (plain_char_facts c Hc) as (F1 & F2 & F3 & F4).
  rewrite F1, F2, F3, F4, I1, I2, I3, I4. auto.
Qed.

Lemma no_pct_inert u : no_pct u = true -> pcts_inert u = true.
Proof.
  unfold no_pct.
  induction u as [|c u IH]; cbn; [auto|]. intros H. apply andb_true_iff in H as [Hc Hu].
  rewrite (IH Hu). replace (aeqb "%" c) with false; [reflexivity|].
  unfold aeqb in *. rewrite Ascii.eqb_sym. destruct (Ascii.eqb c "%"); [discriminate | reflexivity].
Qed.

Lemma rf_pcts_inert r u rest : pcts_inert u = true ->
  replace_first (L "%s") r (u ++ rest) = u ++ replace_first (L "%s") r rest.
Proof.
  induction u as [|c u IH]; [reflexivity|]. intros H. cbn [pcts_inert] in H.
  apply andb_true_iff in H as [Hc Hu].
  change ((c :: u) ++ rest) with (c :: (u ++ rest)).
  assert (E : strip_prefix (L "%s") (c :: u ++ rest) = None).
  { cbn. destruct (aeqb "%" c); [|reflexivity].
    destruct u as [|d u]; [discriminate|]. cbn. apply negb_true_iff in Hc. rewrite Hc. reflexivity. }
  cbn [replace_first]. rewrite E. cbn. f_equal. apply IH. exact Hu.
Qed.

Lemma ra_pcts_inert r u rest : pcts_inert u = true ->
  replace_all_loop 0 (L "%s") r (u ++ rest) = u ++ replace_all_loop 0 (L "%s") r rest.
Proof.
  induction u as [|c u IH]; [reflexivity|]. intros H. cbn [pcts_inert] in H.
  apply andb_true_iff in H as [Hc Hu].
  change ((c :: u) ++ rest) with (c :: (u ++ rest)).
  assert (E : strip_prefix (L "%s") (c :: u ++ rest) = None).
  { cbn. destruct (aeqb "%" c); [|reflexivity].
    destruct u as [|d u]; [discriminate|]. cbn. apply negb_true_iff in Hc. rewrite Hc. reflexivity. }
  cbn [replace_all_loop]. rewrite E. cbn. f_equal. apply IH. exact Hu.
Qed.

Lemma rf_hole_inert r u rest : no_open u = true ->
  replace_first (L "{:s}") r (u ++ rest) = u ++ replace_first (L "{:s}") r rest.
Proof.
  induction u as [|c u IH]; [reflexivity|]. intros H. cbn in H. apply andb_true_iff in H as [Hc Hu].
  change ((c :: u) ++ rest) with (c :: (u ++ rest)).
  assert (E : strip_prefix (L "{:s}") (c :: u ++ rest) = None).
  { cbn. apply negb_true_iff in Hc. rewrite Hc. reflexivity. }
  cbn [replace_first]. rewrite E. cbn. f_equal. apply IH. exact Hu.
Qed.

Lemma sub_inert u rest : no_pct u = true -> sub_loop 0 (u ++ rest) = u ++ sub_loop 0 rest.
Proof.
  induction u as [|c u IH]; [reflexivity|]. intros H. cbn in H. apply andb_true_iff in H as [Hc Hu].
  cbn. apply negb_true_iff in Hc. rewrite Hc. f_equal. apply IH. exact Hu.
Qed.

Lemma fmt_inert k n u rest : no_brace u = true -> fmt_loop 0 k n (u ++ rest) = papp u (fmt_loop 0 k n rest).
Proof.
  induction u as [|c u IH]; intros H; [cbn; rewrite papp_nil; reflexivity|].
  cbn in H. apply andb_true_iff in H as [Hc Hu]. unfold nobrace in Hc.
  apply andb_true_iff in Hc as [Hc H3]. apply andb_true_iff in Hc as [H1 H2].
  apply negb_true_iff in H1, H2. cbn. rewrite H1, H2, (IH Hu), papp_papp. reflexivity.
Qed.

(* ------------------------------------------------------------------ the text of a conversion *)

Definition conv_char (c : ascii) : bool := is_flag c || is_digit c || aeqb c "." || aeqb c "d".

Lemma conv_char_facts c : conv_char c = true ->
  aeqb c "%" = false /\ aeqb "s" c = false /\ aeqb "{" c = false.
Proof. all_ascii c; intros H; vm_compute in H; try discriminate H; repeat split; reflexivity. Qed.

Lemma flag_char_is_flag f : is_flag (flag_char f) = true.
Proof. destruct f; reflexivity. Qed.

Lemma flags_chars fl : Forall (fun c => is_flag c = true) (map flag_char fl).
Proof. induction fl; constructor; auto using flag_char_is_flag. Qed.

Lemma Forall_conv_char_of (P : ascii -> bool) s :
  (forall c, P c = true -> conv_char c = true) -> Forall (fun c => P c = true) s -> forallb conv_char s = true.
Proof.
  intros HP Hs. induction Hs as [|c s Hc Hs IH]; [reflexivity|]. cbn. rewrite (HP c Hc), IH. reflexivity.
Qed.

Lemma conv_body_chars c : forallb conv_char (conv_body c) = true.
Proof.
  unfold conv_body. repeat rewrite forallb_app.
  assert (F : forallb conv_char (map flag_char (cv_flags c)) = true).
  { apply (Forall_conv_char_of is_flag); [|apply flags_chars].
    intros x Hx. unfold conv_char. rewrite Hx. reflexivity. }
  assert (D : forall ds, digits ds -> forallb conv_char ds = true).
  { intros ds. apply (Forall_conv_char_of is_digit).
    intros x Hx. unfold conv_char. rewrite Hx. apply orb_true_iff. left. apply orb_true_iff. left. apply orb_true_r. }
  rewrite F. cbn [andb].
  apply andb_true_iff. split.
  - destruct (cv_width c); [apply D, dec_digits | reflexivity].
  - apply andb_true_iff. split; [|reflexivity].
    destruct (cv_prec c); [|reflexivity].
    cbn [app forallb]. rewrite forallb_app. rewrite (D _ (zeros_digits _)), (D _ (dec_digits _)). reflexivity.
Qed.

Lemma conv_chars_no_pct b : forallb conv_char b = true -> no_pct b = true /\ no_open b = true.
Proof.
  unfold no_pct, no_open. induction b as [|c b IH]; cbn; [auto|]. intros H. apply andb_true_iff in H as [Hc Hb].
  destruct (conv_char_facts c Hc) as (F1 & F2 & F3). destruct (IH Hb) as [I1 I2].
  rewrite F1, F3, I1, I2. auto.
Qed.

Lemma conv_body_nonnil c : conv_body c <> [].
Proof. unfold conv_body. intros E. repeat (apply app_eq_nil in E as [_ E]). discriminate. Qed.

Lemma render_conv_pcts_inert c : pcts_inert (render_conv c) = true.
Proof.
  unfold render_conv. pose proof (conv_body_chars c) as Hc. pose proof (conv_body_nonnil c) as Hn.
  destruct (conv_body c) as [|d b]; [congruence|].
  cbn [forallb] in Hc. apply andb_true_iff in Hc as [Hd Hb].
  destruct (conv_char_facts d Hd) as (F1 & F2 & F3).
  assert (I : pcts_inert (d :: b) = true).
  { apply no_pct_inert. apply (conv_chars_no_pct (d :: b)). cbn [forallb]. rewrite Hd, Hb. reflexivity. }
  change (pcts_inert ("%" :: d :: b)) with ((if aeqb "%" "%" then negb (aeqb "s" d) else true) && pcts_inert (d :: b)).
  rewrite I, F2. reflexivity.
Qed.

Lemma render_conv_no_open c : no_open (render_conv c) = true.
Proof.
  unfold render_conv, no_open. cbn [forallb]. change (aeqb "{" "%") with false. cbn [negb andb].
  apply (conv_chars_no_pct (conv_body c)). apply conv_body_chars.
Qed.

(* ------------------------------------------------------------------ templates as item lists *)

Inductive item := ILit (s : str) | IPctS | IHole | IConv (c : conv).
Definition irender1 (x : item) : str :=
  match x with ILit s => s | IPctS => L "%s" | IHole => L "{:s}" | IConv c => render_conv c end.
Definition irender (t : list item) : str := flat_map irender1 t.
Definition iwf1 (x : item) : bool := match x with ILit s => plain s | _ => true end.
Definition iwf (t : list item) : bool := forallb iwf1 t.

Definition embed (x : seg) : item := match x with Lit s => ILit s | PctS => IPctS | Conv c => IConv c end.

Lemma render_embed t : render t = irender (map embed t).
Proof.
  unfold render, irender. induction t as [|x t IH]; [reflexivity|]. cbn. rewrite IH. destruct x; reflexivity.
Qed.

Fixpoint to_hole (t : list item) : list item :=
  match t with [] => [] | IPctS :: r => IHole :: r | x :: r => x :: to_hole r end.
Definition is_pcts (x : item) : bool := match x with IPctS => true | _ => false end.
Definition drop_pcts (t : list item) : list item := filter (fun x => negb (is_pcts x)) t.
Fixpoint fill (f : str) (t : list item) : list item :=
  match t with [] => [] | IHole :: r => ILit f :: r | x :: r => x :: fill f r end.

Lemma item_pcts_inert x : iwf1 x = true -> is_pcts x = false -> pcts_inert (irender1 x) = true.
Proof.
  destruct x; cbn; intros Hw Hp; try discriminate; try reflexivity.
  - apply plain_inert. exact Hw.
  - apply render_conv_pcts_inert.
Qed.

Lemma pass1 t : iwf t = true ->
  replace_first (L "%s") (L "{:s}") (irender t) = irender (to_hole t).
Proof.
  unfold irender. induction t as [|x t IH]; intros Hw; [reflexivity|].
  cbn [iwf forallb] in Hw. apply andb_true_iff in Hw as [Hx Ht].
  destruct (is_pcts x) eqn:Hp.
  - destruct x; try discriminate. reflexivity.
  - cbn [flat_map]. rewrite rf_pcts_inert by (apply item_pcts_inert; assumption).
    rewrite (IH Ht). destruct x; try discriminate; reflexivity.
Qed.

Lemma pass2 t : iwf t = true ->
  replace_all (L "%s") [] (irender t) = irender (drop_pcts t).
Proof.
  unfold irender, replace_all. induction t as [|x t IH]; intros Hw; [reflexivity|].
  cbn [iwf forallb] in Hw. apply andb_true_iff in Hw as [Hx Ht].
  destruct (is_pcts x) eqn:Hp.
  - destruct x; try discriminate. cbn. apply IH. exact Ht.
  - cbn [flat_map]. rewrite ra_pcts_inert by (apply item_pcts_inert; assumption).
    rewrite (IH Ht). unfold drop_pcts. cbn [filter]. rewrite Hp. reflexivity.
Qed.

Definition is_hole (x : item) : bool := match x with IHole => true | _ => false end.

Lemma item_no_open x : iwf1 x = true -> is_hole x = false -> no_open (irender1 x) = true.
Proof.
  destruct x; cbn; intros Hw Hp; try discriminate; try reflexivity.
  - apply plain_inert. exact Hw.
  - apply render_conv_no_open.
Qed.

Lemma pass3 f t : iwf t = true ->
  replace_first (L "{:s}") f (irender t) = irender (fill f t).
Proof.
  unfold irender. induction t as [|x t IH]; intros Hw; [reflexivity|].
  cbn [iwf forallb] in Hw. apply andb_true_iff in Hw as [Hx Ht].
  destruct (is_hole x) eqn:Hp.
  - destruct x; try discriminate. reflexivity.
  - cbn [flat_map]. rewrite rf_hole_inert by (apply item_no_open; assumption).
    rewrite (IH Ht). destruct x; try discriminate; reflexivity.
Qed.

(* the three replace calls together: first %s -> file name, the others vanish *)
Fixpoint norm (first : bool) (t : list seg) (f : str) : list item :=
  match t with
  | [] => []
  | Lit s :: r => ILit s :: norm first r f
  | PctS :: r => (if first then [ILit f] else []) ++ norm false r f
  | Conv c :: r => IConv c :: norm first r f
  end.

Lemma norm_false t f : norm false t f = drop_pcts (map embed t).
Proof. induction t as [|x t IH]; [reflexivity|]. destruct x; cbn; rewrite IH; reflexivity. Qed.

Lemma norm_true t f : norm true t f = fill f (drop_pcts (to_hole (map embed t))).
Proof.
  induction t as [|x t IH]; [reflexivity|]. destruct x; cbn.
  - rewrite IH. reflexivity.
  - rewrite norm_false. reflexivity.
  - rewrite IH. reflexivity.
Qed.

Definition seg_wf (x : seg) : bool := match x with Lit s => plain s | _ => true end.

Lemma iwf_embed t : forallb seg_wf t = true -> iwf (map embed t) = true.
Proof.
  unfold iwf. induction t as [|x t IH]; [reflexivity|]. cbn. intros H. apply andb_true_iff in H as [Hx Ht].
  rewrite (IH Ht). destruct x; cbn in *; try rewrite Hx; reflexivity.
Qed.

Lemma iwf_to_hole t : iwf t = true -> iwf (to_hole t) = true.
Proof.
  unfold iwf. induction t as [|x t IH]; [reflexivity|]. cbn. intros H. apply andb_true_iff in H as [Hx Ht].
  destruct x; cbn in *; rewrite ?Hx, ?Ht, ?(IH Ht); reflexivity.
Qed.

Lemma iwf_drop t : iwf t = true -> iwf (drop_pcts t) = true.
Proof.
  unfold iwf, drop_pcts. induction t as [|x t IH]; [reflexivity|]. cbn. intros H. apply andb_true_iff in H as [Hx Ht].
  destruct (negb (is_pcts x)); cbn; rewrite ?Hx, (IH Ht); reflexivity.
Qed.

Lemma subst_filename_norm t f : forallb seg_wf t = true ->
  subst_filename (render t) f = irender (norm true t f).
Proof.
  intros Hw. unfold subst_filename. rewrite render_embed.
  pose proof (iwf_embed _ Hw) as W0.
  rewrite pass1 by exact W0.
  rewrite pass2 by (apply iwf_to_hole; exact W0).
  rewrite pass3 by (apply iwf_drop, iwf_to_hole; exact W0).
  rewrite norm_true. reflexivity.
Qed.

(* ------------------------------------------------------------------ the regex on a conversion *)

Definition wtext (w : option positive) : option str := option_map (fun ww => dec (Npos ww)) w.
Definition ptext (lz : nat) (p : option N) : option str := option_map (fun pp => zeros lz ++ dec pp) p.

Lemma digits_stop_d rest : stops is_digit ("d" :: rest).
Proof. reflexivity. Qed.

Lemma try_match_conv c rest :
  try_match (conv_body c ++ rest) =
  Some (map flag_char (cv_flags c), wtext (cv_width c), ptext (cv_lz c) (cv_prec c), length (conv_body c)).
Proof.
  destruct c as [fl w lz p]. unfold conv_body, try_match. cbn [cv_flags cv_width cv_lz cv_prec].
  repeat rewrite <- app_assoc.
  (* flags *)
  rewrite (span_app is_flag (map flag_char fl)); [|apply flags_chars|].
  2:{ destruct w as [ww|].
      - destruct (dec_cons (Npos ww)) as (c0 & t0 & E0 & Hz). rewrite E0. unfold stops. cbn [app].
        pose proof (dec_digits (Npos ww)) as Hd. rewrite E0 in Hd. inversion Hd as [|? ? Hc0 _]; subst.
        destruct (digit_facts c0 Hc0) as (F & _). rewrite F. apply Hz. lia.
      - destruct p; reflexivity. }
  (* width *)
  assert (Hw : span is_digit ((match w with Some w0 => dec (N.pos w0) | None => [] end) ++
                              (match p with Some p0 => ["."] ++ zeros lz ++ dec p0 | None => [] end) ++ ["d"] ++ rest)
               = (match w with Some w0 => dec (N.pos w0) | None => [] end,
                  (match p with Some p0 => ["."] ++ zeros lz ++ dec p0 | None => [] end) ++ ["d"] ++ rest)).
  { apply span_digits_app; [destruct w; [apply dec_digits | constructor]|]. destruct p; reflexivity. }
  rewrite Hw. clear Hw.
  assert (W : match match w with Some w0 => dec (N.pos w0) | None => [] end with [] => None | _ :: _ => Some match w with Some w0 => dec (N.pos w0) | None => [] end end = wtext w).
  { destruct w as [ww|]; [|reflexivity]. cbn.
    destruct (dec (N.pos ww)) eqn:Ew; [exfalso; exact (dec_nonnil _ Ew) | reflexivity]. }
  destruct p as [pp|].
  - cbn [app]. change (aeqb "." ".") with true. cbv iota.
    replace (zeros lz ++ dec pp ++ "d" :: rest) with ((zeros lz ++ dec pp) ++ "d" :: rest) by (rewrite <- app_assoc; reflexivity).
    rewrite span_digits_app; [| apply Forall_app; split; [apply zeros_digits | apply dec_digits] | reflexivity].
    assert (Hn : zeros lz ++ dec pp <> []).
    { intros E. apply app_eq_nil in E as [_ E]. exact (dec_nonnil _ E). }
    destruct (zeros lz ++ dec pp) as [|z0 zs] eqn:Ez; [congruence|].
    change (aeqb "d" "d") with true. cbv iota.
    unfold ptext. cbn [option_map]. rewrite Ez. rewrite W. f_equal. f_equal. rewrite <- Ez. len_lia.
  - cbn [app]. change (aeqb "d" ".") with false. cbv beta iota zeta.
    change (aeqb "d" "d") with true. cbv beta iota zeta.
    rewrite W. f_equal. f_equal. len_lia.
Qed.

Lemma mem_flag f fl : mem (flag_char f) (map flag_char fl) = has f fl.
Proof.
  unfold mem, has. induction fl as [|a fl IH]; [reflexivity|]. cbn [map existsb]. rewrite IH.
  destruct f, a; reflexivity.
Qed.

(* the format spec int_replacer builds for a conversion *)
Definition spec_of (fl : list flagc) (w : option positive) (p : option N) : str :=
  match p with
  | Some pp => c_sign fl ++ ["0"]
               ++ dec (N.max (pp + N.of_nat (length (c_sign fl))) (match w with Some ww => Npos ww | None => 0%N end))
               ++ ["d"]
  | None => (if has Fminus fl then ["<"] else []) ++ c_sign fl
            ++ (if has Fzero fl && negb (has Fminus fl) then ["0"] else [])
            ++ (match w with Some ww => dec (Npos ww) | None => [] end) ++ ["d"]
  end.

Lemma int_replacer_conv fl w lz p :
  int_replacer (map flag_char fl) (wtext w) (ptext lz p) = L "{:" ++ spec_of fl w p ++ ["}"].
Proof.
  unfold int_replacer, spec_of, wtext, ptext, c_sign.
  change "+" with (flag_char Fplus). change " " with (flag_char Fspace).
  change "-" with (flag_char Fminus). change "0" with (flag_char Fzero).
  repeat rewrite mem_flag. cbn [flag_char].
  destruct p as [pp|]; destruct w as [ww|]; cbn [option_map]; rewrite ?val_zeros_app, ?val_dec;
    change (L "d}") with (["d"] ++ ["}"]); repeat rewrite <- app_assoc; reflexivity.
Qed.

Lemma sub_conv c rest :
  sub_loop 0 (render_conv c ++ rest) = (L "{:" ++ spec_of (cv_flags c) (cv_width c) (cv_prec c) ++ ["}"]) ++ sub_loop 0 rest.
Proof.
  unfold render_conv. cbn [app sub_loop]. change (aeqb "%" "%") with true. cbv iota.
  rewrite try_match_conv. rewrite int_replacer_conv. rewrite sub_loop_skip. reflexivity.
Qed.

(* ------------------------------------------------------------------ str.format on the generated field *)

Opaque val.

Lemma digits_no_brace ds : digits ds -> no_brace ds = true.
Proof.
  unfold no_brace. induction 1 as [|c ds Hc _ IH]; [reflexivity|]. cbn [forallb]. rewrite IH.
  destruct (digit_facts c Hc) as (_ & _ & _ & _ & _ & _ & _ & _ & _ & F1 & F2 & F3 & _).
  unfold nobrace. rewrite F1, F2, F3. reflexivity.
Qed.

Lemma until_close_app u rest : no_brace u = true -> until_close (u ++ "}" :: rest) = Some u.
Proof.
  unfold no_brace. induction u as [|c u IH]; intros H; [reflexivity|].
  cbn [forallb] in H. apply andb_true_iff in H as [Hc Hu].
  unfold nobrace in Hc. apply andb_true_iff in Hc as [Hc _]. apply andb_true_iff in Hc as [Hc _].
  apply negb_true_iff in Hc. cbn [app until_close]. rewrite Hc, (IH Hu). reflexivity.
Qed.

Lemma no_brace_mem_open u : no_brace u = true -> mem "{" u = false.
Proof.
  unfold no_brace, mem. induction u as [|c u IH]; intros H; [reflexivity|].
  cbn [forallb] in H. apply andb_true_iff in H as [Hc Hu].
  unfold nobrace in Hc. apply andb_true_iff in Hc as [_ Hc]. apply negb_true_iff in Hc.
  cbn [existsb]. unfold aeqb in Hc. rewrite Hc, (IH Hu). reflexivity.
Qed.

Lemma fmt_field spec n V : no_brace spec = true ->
  fmt_loop 0 0 n ((L "{:" ++ spec ++ ["}"]) ++ V) =
  match py_format_d spec n with POk s => papp s (fmt_loop 0 1 n V) | e => e end.
Proof.
  intros Hs.
  change ((L "{:" ++ spec ++ ["}"]) ++ V) with ("{" :: ":" :: (spec ++ ["}"]) ++ V).
  rewrite <- app_assoc. cbn [app].
  cbn [fmt_loop]. change (aeqb "{" "{") with true. change (aeqb ":" "{") with false. cbv beta iota.
  change (":" :: spec ++ "}" :: V) with ((":" :: spec) ++ "}" :: V).
  assert (Hs' : no_brace (":" :: spec) = true) by (unfold no_brace in *; cbn [forallb]; rewrite Hs; reflexivity).
  rewrite (until_close_app _ _ Hs'). rewrite (no_brace_mem_open _ Hs').
  cbn [field_spec]. change (aeqb ":" ":") with true. cbv beta iota.
  destruct (py_format_d spec n); try reflexivity.
  f_equal.
  replace (spec ++ "}" :: V) with ((spec ++ ["}"]) ++ V) by (rewrite <- app_assoc; reflexivity).
  replace (length (":" :: spec)) with (length (spec ++ ["}"])) by (rewrite app_length; cbn; lia).
  apply fmt_loop_skip.
Qed.

(* ------------------------------------------------------------------ the generated specs, formatted *)

Definition sgn (plus space : bool) : str := if plus then ["+"] else if space then [" "] else [].

Lemma digit_in c : is_digit c = true -> In c (L "0123456789").
Proof.
  unfold is_digit, mem. intros H. apply existsb_exists in H as (x & Hx & E).
  apply Ascii.eqb_eq in E. subst. exact Hx.
Qed.

Ltac split_digit H := cbn in H; repeat (destruct H as [<- | H]); [.. | contradiction].

Lemma fmt_A plus space m n :
  py_format_d (sgn plus space ++ ["0"] ++ dec m ++ ["d"]) n =
  POk (sgn plus space ++ zeros (N.to_nat m - (length (sgn plus space) + length (dec n))) ++ dec n).
Proof.
  pose proof (dec_digits m) as Hd. pose proof (val_dec m) as Hv.
  destruct (dec m) as [|c t] eqn:E; [exfalso; exact (dec_nonnil _ E)|].
  apply Forall_cons_iff in Hd as [Hc Ht].
  apply digit_in in Hc.
  unfold py_format_d, parse_spec, zeros.
  destruct plus, space; split_digit Hc; cbn;
    rewrite (span_digits_app t ["d"] Ht eq_refl); cbn; rewrite Hv; reflexivity.
Qed.

Lemma parse_align_digits c t : is_digit c = true -> digits t ->
  parse_align (c :: t ++ ["d"]) = (None, None, c :: t ++ ["d"]).
Proof.
  intros Hc Ht. destruct (digit_facts c Hc) as (_ & Fc & _).
  destruct t as [|c2 t]; cbn [app parse_align].
  - change (is_align "d") with false. rewrite Fc. reflexivity.
  - apply Forall_cons_iff in Ht as [Hc2 _]. destruct (digit_facts c2 Hc2) as (_ & Fc2 & _).
    rewrite Fc2, Fc. reflexivity.
Qed.

Lemma fmt_B (minus plus space zero : bool) (wo : option N) n :
  (forall W, wo = Some W -> (0 < W)%N) ->
  py_format_d ((if minus then ["<"] else []) ++ sgn plus space ++ (if zero && negb minus then ["0"] else [])
               ++ (match wo with Some W => dec W | None => [] end) ++ ["d"]) n =
  POk (let sign := sgn plus space in
       let pad := (match wo with Some W => N.to_nat W | None => O end) - (length sign + length (dec n)) in
       if minus then sign ++ dec n ++ spaces pad
       else if zero then sign ++ zeros pad ++ dec n
       else spaces pad ++ sign ++ dec n).
Proof.
  intros Hpos. unfold py_format_d, parse_spec, zeros, spaces.
  destruct wo as [W|].
  - pose proof (dec_digits W) as Hd. pose proof (val_dec W) as Hv.
    destruct (dec_cons W) as (c & t & E & Hz). specialize (Hz (Hpos W eq_refl)).
    rewrite E in Hd, Hv |- *.
    apply Forall_cons_iff in Hd as [Hc Ht].
    pose proof (parse_align_digits c t Hc Ht) as PA.
    apply digit_in in Hc.
    destruct minus, plus, space, zero; cbn [app sgn andb negb]; try rewrite PA;
      split_digit Hc; try (vm_compute in Hz; discriminate Hz); cbn;
      rewrite (span_digits_app t ["d"] Ht eq_refl); cbn; rewrite Hv; reflexivity.
  - destruct minus, plus, space, zero; reflexivity.
Qed.

(* ------------------------------------------------------------------ the conversion formats like printf *)

Lemma c_sign_sgn fl : c_sign fl = sgn (has Fplus fl) (has Fspace fl).
Proof. reflexivity. Qed.

Lemma length_zeros k : length (zeros k) = k.
Proof. apply repeat_length. Qed.

Lemma format_conv c n :
  in_domain c -> finding_C37_e c n = false ->
  py_format_d (spec_of (cv_flags c) (cv_width c) (cv_prec c)) n =
  POk (c_printf_d (cv_flags c) (cv_w c) (cv_prec c) n).
Proof.
  destruct c as [fl w lz p]. unfold in_domain, finding_C37_e, cv_w. cbn [cv_flags cv_width cv_lz cv_prec].
  intros Hdom Hfind. unfold spec_of, c_printf_d. rewrite c_sign_sgn.
  destruct p as [pp|].
  - (* precision given: sign, then the digits zero-padded to the precision; the width never matters *)
    rewrite fmt_A. set (sg := sgn (has Fplus fl) (has Fspace fl)). f_equal.
    unfold c_body. rewrite Hfind.
    set (ds := dec n).
    assert (Hm : N.to_nat (N.max (pp + N.of_nat (length sg)) (match w with Some ww => N.pos ww | None => 0%N end))
                 = N.to_nat pp + length sg).
    { destruct w as [ww|]; lia. }
    rewrite Hm.
    assert (Hpad : (match option_map N.pos w with Some ww => N.to_nat ww | None => O end)
                   - (length sg + length (zeros (N.to_nat pp - length ds) ++ ds)) = O).
    { rewrite app_length, length_zeros. destruct w as [ww|]; cbn [option_map]; lia. }
    rewrite Hpad. unfold spaces. cbn [repeat app].
    replace (N.to_nat pp + length sg - (length sg + length ds)) with (N.to_nat pp - length ds) by lia.
    destruct (has Fminus fl); [rewrite app_nil_r; reflexivity|].
    rewrite andb_false_r. reflexivity.
  - (* no precision *)
    destruct w as [ww|]; cbn [option_map].
    + rewrite (fmt_B (has Fminus fl) (has Fplus fl) (has Fspace fl) (has Fzero fl) (Some (N.pos ww))).
      2:{ intros W HW. inversion HW. lia. }
      cbn zeta. unfold c_body. rewrite andb_true_r. reflexivity.
    + rewrite (fmt_B (has Fminus fl) (has Fplus fl) (has Fspace fl) (has Fzero fl) None).
      2:{ intros W HW. discriminate HW. }
      cbn zeta. unfold c_body. rewrite andb_true_r. reflexivity.
Qed.

Lemma spec_no_brace fl w p : no_brace (spec_of fl w p) = true.
Proof.
  assert (D : forall m, no_brace (dec m) = true) by (intros; apply digits_no_brace, dec_digits).
  unfold spec_of, c_sign, no_brace in *.
  destruct p as [pp|]; [|destruct w as [ww|]];
    destruct (has Fminus fl), (has Fplus fl), (has Fspace fl), (has Fzero fl);
    cbn [app andb negb]; repeat (rewrite forallb_app || cbn [forallb]); rewrite ?D; reflexivity.
Qed.

Definition field_of (c : conv) : str := L "{:" ++ spec_of (cv_flags c) (cv_width c) (cv_prec c) ++ ["}"].

Theorem conversion_like_printf c n :
  in_domain c -> finding_C37_e c n = false ->
  py_str_format (re_sub_int (render_conv c)) n = POk (c_printf_d (cv_flags c) (cv_w c) (cv_prec c) n).
Proof.
  intros Hd Hf. unfold py_str_format, re_sub_int.
  rewrite <- (app_nil_r (render_conv c)). rewrite sub_conv. cbn [sub_loop].
  rewrite fmt_field by apply spec_no_brace.
  rewrite (format_conv c n Hd Hf). cbn. rewrite app_nil_r. reflexivity.
Qed.

(* ------------------------------------------------------------------ whole templates *)

Definition lc1 (x : item) : bool := match x with ILit s => plain s | IConv _ => true | _ => false end.
Definition lit1 (x : item) : bool := match x with ILit s => plain s | _ => false end.
Definition fieldize (x : item) : str := match x with IConv c => field_of c | y => irender1 y end.
Definition cprint (n : N) (x : item) : str :=
  match x with IConv c => c_printf_d (cv_flags c) (cv_w c) (cv_prec c) n | y => irender1 y end.

Lemma sub_items t : forallb lc1 t = true -> sub_loop 0 (irender t) = flat_map fieldize t.
Proof.
  unfold irender. induction t as [|x t IH]; intros H; [reflexivity|].
  cbn [forallb] in H. apply andb_true_iff in H as [Hx Ht]. cbn [flat_map].
  destruct x; try discriminate Hx.
  - cbn [irender1 fieldize]. rewrite sub_inert by (apply plain_inert; exact Hx). rewrite (IH Ht). reflexivity.
  - cbn [irender1 fieldize]. rewrite sub_conv, (IH Ht). reflexivity.
Qed.

Lemma lits_text g t : (forall s, g (ILit s) = s) -> forallb lit1 t = true -> flat_map g t = irender t /\ plain (irender t) = true.
Proof.
  intros Hg. unfold irender. induction t as [|x t IH]; intros H; [split; reflexivity|].
  cbn [forallb] in H. apply andb_true_iff in H as [Hx Ht]. destruct (IH Ht) as [I1 I2].
  destruct x; try discriminate Hx. cbn [flat_map irender1]. rewrite Hg, I1. split; [reflexivity|].
  unfold plain in *. rewrite forallb_app. cbn in Hx. unfold plain in Hx. rewrite Hx, I2. reflexivity.
Qed.

Definition no_s (t : list seg) : bool := forallb (fun x => match x with PctS => false | _ => true end) t.

Lemma norm_app b t1 t2 f : norm b (t1 ++ t2) f = norm b t1 f ++ norm (b && no_s t1) t2 f.
Proof.
  revert b. induction t1 as [|x t1 IH]; intros b; [cbn; rewrite andb_true_r; reflexivity|].
  destruct x; cbn [app norm no_s forallb].
  - rewrite IH. reflexivity.
  - rewrite IH. rewrite andb_false_r. cbn [andb]. rewrite app_assoc. reflexivity.
  - rewrite IH. reflexivity.
Qed.

Lemma norm_lits b t f : plain f = true -> forallb plain_seg t = true -> forallb lit1 (norm b t f) = true.
Proof.
  intros Hf. revert b. induction t as [|x t IH]; intros b H; [reflexivity|].
  cbn [forallb] in H. apply andb_true_iff in H as [Hx Ht].
  destruct x; try discriminate Hx; cbn [norm].
  - cbn [forallb lit1]. cbn in Hx. rewrite Hx, (IH _ Ht). reflexivity.
  - rewrite forallb_app, (IH _ Ht). destruct b; cbn; rewrite ?Hf; reflexivity.
Qed.

Lemma plain_seg_wf t : forallb plain_seg t = true -> forallb seg_wf t = true.
Proof.
  induction t as [|x t IH]; [reflexivity|]. cbn [forallb]. intros H. apply andb_true_iff in H as [Hx Ht].
  rewrite (IH Ht). destruct x; cbn in *; rewrite ?Hx; reflexivity.
Qed.

Lemma c_expand_norm b t f n : c_expand b t f n = flat_map (cprint n) (norm b t f).
Proof.
  revert b. induction t as [|x t IH]; intros b; [reflexivity|].
  destruct x; cbn [c_expand norm flat_map cprint irender1].
  - rewrite IH. reflexivity.
  - rewrite flat_map_app, IH. destruct b; cbn; rewrite ?app_nil_r; reflexivity.
  - rewrite IH. reflexivity.
Qed.

Lemma lit1_lc1 t : forallb lit1 t = true -> forallb lc1 t = true.
Proof.
  induction t as [|x t IH]; [reflexivity|]. cbn [forallb]. intros H. apply andb_true_iff in H as [Hx Ht].
  rewrite (IH Ht). destruct x; try discriminate Hx. cbn in *. rewrite Hx. reflexivity.
Qed.

Theorem template_like_printf exts pre post fname c n :
  forallb plain_seg pre = true -> forallb plain_seg post = true -> plain fname = true ->
  in_domain c -> finding_C37_e c n = false ->
  ext_ok exts (expand_template (render (pre ++ Conv c :: post)) fname) = true ->
  get_datum_name exts (render (pre ++ Conv c :: post)) fname n
  = POk (c_expand true (pre ++ Conv c :: post) fname n).
Proof.
  intros Hpre Hpost Hf Hd Hfind Hext.
  unfold get_datum_name. rewrite Hext. unfold expand_template, re_sub_int, py_str_format.
  assert (Hwf : forallb seg_wf (pre ++ Conv c :: post) = true).
  { rewrite forallb_app. cbn [forallb seg_wf]. rewrite (plain_seg_wf _ Hpre), (plain_seg_wf _ Hpost). reflexivity. }
  rewrite (subst_filename_norm _ fname Hwf).
  rewrite c_expand_norm. rewrite norm_app. cbn [norm].
  set (A := norm true pre fname). set (B := norm (true && no_s pre) post fname).
  assert (HA : forallb lit1 A = true) by (apply norm_lits; assumption).
  assert (HB : forallb lit1 B = true) by (apply norm_lits; assumption).
  rewrite sub_items.
  2:{ rewrite forallb_app. cbn [forallb lc1]. rewrite (lit1_lc1 _ HA), (lit1_lc1 _ HB). reflexivity. }
  repeat rewrite flat_map_app. cbn [flat_map fieldize cprint].
  destruct (lits_text fieldize A (fun s => eq_refl) HA) as [EA PA].
  destruct (lits_text fieldize B (fun s => eq_refl) HB) as [EB PB].
  destruct (lits_text (cprint n) A (fun s => eq_refl) HA) as [EA' _].
  destruct (lits_text (cprint n) B (fun s => eq_refl) HB) as [EB' _].
  rewrite EA, EB, EA', EB'.
  rewrite fmt_inert by (apply plain_inert; exact PA).
  unfold field_of. rewrite fmt_field by apply spec_no_brace.
  rewrite (format_conv c n Hd Hfind).
  rewrite <- (app_nil_r (irender B)) at 1. rewrite fmt_inert by (apply plain_inert; exact PB).
  cbn [fmt_loop papp]. rewrite app_nil_r. reflexivity.
Qed.

(* ------------------------------------------------------------------ witnesses *)

Definition conv_e : conv := {| cv_flags := []; cv_width := None; cv_lz := 0; cv_prec := Some 0%N |}.   (* %.0d *)

Lemma e_refuted :
  exists c n, finding_C37_e c n = true /\ in_domain c /\
    py_str_format (re_sub_int (render_conv c)) n <> POk (c_printf_d (cv_flags c) (cv_w c) (cv_prec c) n).
Proof.
  exists conv_e, 0%N. split; [reflexivity|]. split; [exact I|]. vm_compute. discriminate.
Qed.

Definition conv_ex : conv := {| cv_flags := [Fplus; Fzero]; cv_width := Some 6%positive; cv_lz := 1; cv_prec := Some 10%N |}.  (* %+06.010d *)

Lemma conversion_nonvacuous :
  in_domain conv_ex /\ finding_C37_e conv_ex 42%N = false /\
  render_conv conv_ex = L "%+06.010d" /\
  c_printf_d (cv_flags conv_ex) (cv_w conv_ex) (cv_prec conv_ex) 42%N = L "+0000000042".
Proof. split; [vm_compute; discriminate|]. repeat split; vm_compute; reflexivity. Qed.

Lemma template_nonvacuous :
  let pre := [PctS; PctS; Lit (L "_")] in let post := [Lit (L ".tiff")] in
  forallb plain_seg pre = true /\ forallb plain_seg post = true /\ plain (L "img") = true /\
  render (pre ++ Conv conv_ex :: post) = L "%s%s_%+06.010d.tiff" /\
  ext_ok tiff_exts (expand_template (render (pre ++ Conv conv_ex :: post)) (L "img")) = true /\
  c_expand true (pre ++ Conv conv_ex :: post) (L "img") 42%N = L "img_+0000000042.tiff".
Proof. repeat split; vm_compute; reflexivity. Qed.

(* outside the stated domain (precision smaller than the width) the code is NOT printf: %6.3d *)
Lemma outside_domain_differs :
  let c := {| cv_flags := []; cv_width := Some 6%positive; cv_lz := 0; cv_prec := Some 3%N |} in
  ~ in_domain c /\
  py_str_format (re_sub_int (render_conv c)) 7%N = POk (L "000007") /\
  c_printf_d (cv_flags c) (cv_w c) (cv_prec c) 7%N = L "   007".
Proof. split; [vm_compute; intros H; apply H; reflexivity|]. split; vm_compute; reflexivity. Qed.
