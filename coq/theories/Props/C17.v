(* C17 - RunStart metadata merges sources with documented precedence.
   Model: Pure/Metadata.v (RunEngine._open_run, src/bluesky/run_engine.py:1853-1887).
   The hooks md_validator / md_normalizer / scan_id_source are arbitrary functions; the four
   dictionaries (RE(...) keywords, open_run keywords, plan identity, persistent RE.md) are arbitrary
   association lists with arbitrarily overlapping keys. *)
From BV Require Import Base.Prelude Base.ChainMap Pure.Metadata Proofs.Metadata.

(* A RunStart is emitted only with metadata doc = md_normalizer(merged), where merged passed the
   validator, has every key once, and merged[k] is the value of the FIRST of
   RE(...) kw > open_run kw > {plan_type, plan_name} > RE.md (with the new scan_id) that has k;
   RE.md afterwards is the old RE.md with scan_id := scan_id_source(old RE.md). *)
Theorem C17_start_precedence :
  forall (h : hooks) (md : md_t) (r : open_req) (md' : md_t) (doc : md_t),
    open_run h md r = (md', Started doc) ->
    exists sid merged,
      scan_src h md = Some sid /\ md' = set k_scan_id sid md /\
      validator h merged = true /\ normalizer h merged = Some doc /\
      NoDup (keys merged) /\ forall k, lookup k merged = first_hit k r md'.
Proof. exact open_run_started. Qed.
Print Assumptions C17_start_precedence.

(* a validator that rejects the merged metadata: no RunStart, no bundler (the set of open runs is unchanged);
   [opens] = keys of the runs currently open (several runs may be open under different run keys) *)
Theorem C17_rejecting_validator_prevents_start :
  forall (c : call) (md : md_t) (opens : list rkey) (key : rkey) (kw : md_t) (sid : val),
    let r := {| call_kw := c_kw c; open_kw := kw; plan_type := c_type c; plan_name := c_name c |} in
    key_mem key opens = false ->
    scan_src (c_hooks c) md = Some sid ->
    validator (c_hooks c) (chain_merge (chain r (set k_scan_id sid md))) = false ->
    do_op c (md, opens) (Open key kw) = ((set k_scan_id sid md, opens), RejectedV).
Proof. exact do_op_rejecting_validator. Qed.
Print Assumptions C17_rejecting_validator_prevents_start.

(* open_run under a run key that is already open: IllegalMessageSequence, RE.md (hence scan_id) and the open
   runs are unchanged *)
Theorem C17_open_twice_consumes_nothing :
  forall (c : call) (md : md_t) (opens : list rkey) (key : rkey) (kw : md_t),
    key_mem key opens = true -> do_op c (md, opens) (Open key kw) = ((md, opens), Illegal).
Proof. exact do_op_open_twice. Qed.
Print Assumptions C17_open_twice_consumes_nothing.

(* what must not change: over any history, every key of RE.md other than scan_id keeps its value,
   after every message and at the end *)
Theorem C17_md_frame :
  forall (cs : list call) (md : md_t) (k : N), k <> k_scan_id ->
    lookup k (fst (do_calls md cs)) = lookup k md /\
    Forall (fun x : step_obs => lookup k (snd (fst x)) = lookup k md) (concat (snd (do_calls md cs))).
Proof. exact do_calls_frame. Qed.
Print Assumptions C17_md_frame.

(* scan_id: outside finding class C17-a (no open_run rejected by validator/normalizer), with the
   default source, over any history of calls whose messages open and close runs under any run keys
   (sequential, nested or interleaved runs, illegal opens/closes included), the opened runs get
   s0+1 .. s0+n in order and RE.md keeps s0+n *)
Theorem C17_scan_id_consecutive :
  forall (md : md_t) (cs : list call),
    all_default_src cs -> finding_C17_a md cs = false -> scan_ids_consecutive md cs.
Proof. exact scan_id_consecutive. Qed.
Print Assumptions C17_scan_id_consecutive.

(* inside the class the sentence fails: a rejected open_run consumes a scan_id *)
Theorem C17_a_refuted :
  exists md cs, all_default_src cs /\ finding_C17_a md cs = true /\ ~ scan_ids_consecutive md cs.
Proof. exact a_refuted. Qed.
Print Assumptions C17_a_refuted.

(* the full statement of the scan_id sentence (what the property asks, without the class) *)
Definition C17_full : Prop :=
  forall (md : md_t) (cs : list call), all_default_src cs -> scan_ids_consecutive md cs.

(* non-vacuity: a key present in all four sources; two opened runs with no rejection *)
Definition nv_req : open_req :=
  {| call_kw := [(20%N, VStr 1)]; open_kw := [(20%N, VStr 2); (21%N, VStr 2)]; plan_type := 30%N; plan_name := 31%N |}.
Example C17_precedence_nonvacuous :
  exists md' doc, open_run default_hooks [(20%N, VStr 4); (21%N, VStr 4); (22%N, VStr 4)] nv_req = (md', Started doc) /\
                  lookup 20%N doc = Some (VStr 1) /\ lookup 21%N doc = Some (VStr 2) /\
                  lookup k_plan_name doc = Some (VStr 31%N) /\ lookup 22%N doc = Some (VStr 4) /\
                  lookup k_scan_id doc = Some (VInt 1) /\ lookup k_scan_id md' = Some (VInt 1).
Proof. vm_compute. do 2 eexists. repeat split. Qed.

Definition nv_calls : list call :=
  [{| c_hooks := default_hooks; c_kw := []; c_type := 30%N; c_name := 31%N; c_ops := [Open None []; Close None; Open None []] |};
   {| c_hooks := default_hooks; c_kw := []; c_type := 30%N; c_name := 31%N; c_ops := [Open None []] |}].
Example C17_scan_id_nonvacuous :
  all_default_src nv_calls /\ finding_C17_a [(k_scan_id, VInt 5)] nv_calls = false /\
  opened_scan_ids (snd (do_calls [(k_scan_id, VInt 5)] nv_calls)) = [Some (VInt 6); Some (VInt 7); Some (VInt 8)].
Proof.
  split; [|vm_compute; auto].
  intros c [<- | [<- | []]] md; reflexivity.
Qed.

(* several runs open at once: open A, open B, (open B again: illegal), close A, open C, open default *)
Definition nv_interleaved : list call :=
  [{| c_hooks := default_hooks; c_kw := []; c_type := 30%N; c_name := 31%N;
      c_ops := [Open (Some 40%N) []; Open (Some 41%N) []; Open (Some 41%N) []; Close (Some 40%N);
                Open (Some 42%N) []; Open None []] |}].
Example C17_scan_id_interleaved_nonvacuous :
  all_default_src nv_interleaved /\ finding_C17_a [(k_scan_id, VInt 10)] nv_interleaved = false /\
  opened_scan_ids (snd (do_calls [(k_scan_id, VInt 10)] nv_interleaved)) =
    [Some (VInt 11); Some (VInt 12); Some (VInt 13); Some (VInt 14)] /\
  map (fun x : step_obs => snd x) (concat (snd (do_calls [(k_scan_id, VInt 10)] nv_interleaved))) =
    [[Some 40%N]; [Some 40%N; Some 41%N]; [Some 40%N; Some 41%N]; [Some 41%N]; [Some 41%N; Some 42%N];
     [Some 41%N; Some 42%N; None]].
Proof.
  split; [|vm_compute; auto].
  intros c [<- | []] md; reflexivity.
Qed.
