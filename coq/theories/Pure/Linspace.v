(* numpy.linspace(start, stop, num, endpoint=True) for scalar start/stop, as implemented in
   numpy/_core/function_base.py:  y = arange(num); step = delta/div;
   y = y*step  (or (y/div)*delta when step == 0; or y*delta when div = 0);  y += start;
   y[-1] = stop when num > 1.   Generic over the operations; no proofs here. *)
From Coq Require Import List Arith.
From BV Require Import Base.OrdFieldS.
Import ListNotations.

Section Linspace.
  Context {F : Type} (ops : Ops F).

  Definition linspace_at (start stop : F) (num i : nat) : F :=      (* element i, before the endpoint fix *)
    let delta := o_sub ops stop start in
    let y := o_of_nat ops i in
    let div := num - 1 in
    let scaled :=
      match div with
      | 0 => o_mul ops y delta
      | S _ => let step := o_div ops delta (o_of_nat ops div) in
               if o_eqb ops step (o_zero ops)
               then o_mul ops (o_div ops y (o_of_nat ops div)) delta
               else o_mul ops y step
      end in
    o_add ops scaled start.

  Definition linspace (start stop : F) (num : nat) : list F :=
    match num with
    | 0 => []
    | 1 => [linspace_at start stop 1 0]
    | S div => map (linspace_at start stop num) (seq 0 div) ++ [stop]
    end.
End Linspace.
