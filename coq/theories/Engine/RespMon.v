(* C13 / C12: the trace monitor "every input the engine gives to a plan is explained by the response
   recorded for the message that plan yielded last".  Definitions only (executable, used by the
   correspondence check as well); the proofs are in RE_Resp.v. *)
From Coq Require Import List String ZArith Bool Arith.
From BV Require Import Engine.RE Engine.REInst.
Import ListNotations.

(* what the monitor knows about the tracked plan [pid] *)
Inductive pst :=
  | SNone                       (* never resumed *)
  | SIn                         (* has just been resumed; the next observation tells whether it yielded *)
  | SAwait (m : msg)            (* yielded m; the command is running, no response yet *)
  | SCanc (m : msg)             (* yielded m; the command was abandoned (cancelled) without a response *)
  | SGot (m : msg) (r : resp)   (* yielded m; response r recorded *)
  | SDead.                      (* returned / raised / closed *)

Record mon := { mstate : rstate; mp : pst; mseen : list exn; mother : bool }.

Definition set_mp (ms : mon) (x : pst) : mon := {| mstate := mstate ms; mp := x; mseen := mseen ms; mother := mother ms |}.
Definition set_mstate (ms : mon) (x : rstate) : mon := {| mstate := x; mp := mp ms; mseen := mseen ms; mother := mother ms |}.
Definition add_seen (ms : mon) (e : exn) : mon := {| mstate := mstate ms; mp := mp ms; mseen := e :: mseen ms; mother := mother ms |}.
Definition set_mother (ms : mon) : mon := {| mstate := mstate ms; mp := mp ms; mseen := mseen ms; mother := true |}.
Definition mon0 : mon := {| mstate := Idle; mp := SNone; mseen := []; mother := false |}.

(* deviations that are reported, not rejected *)
Inductive flag :=
  | FlagA.     (* a command cancelled by a pause/suspension: the plan receives None in place of its response *)

Definition exn_eqb (a b : exn) : bool := if exn_eq_dec a b then true else false.
Definition val_eqb (a b : val) : bool := if val_eq_dec a b then true else false.

(* exceptions the engine itself injects: the `_exception` slot, cancellation turned into a request exception, failed pause *)
Definition ext_exn (e : exn) : bool :=
  match e with EFailedStatus | ERequestAbort | ERequestStop | EPlanHalt | EFailedPause | ECancelled => true | _ => false end.
Definition is_unknown (c : cmd) : bool := match c with CUnknown => true | _ => false end.
(* commands whose response is None anyway *)
Definition none_is_right (c : cmd) : bool := match c with CSleep | CCheckpoint => true | _ => false end.

Definition allowed_exn (ms : mon) (e : exn) : bool := ext_exn e || existsb (exn_eqb e) (mseen ms) || mother ms.

(* is input i what the plan is owed?  None = no; Some fl = yes, with the deviations to report *)
Definition input_ok (ms : mon) (i : input) : option (list flag) :=
  match mp ms, i with
  | SNone, Send VNone => Some []
  | SNone, _ => None
  | (SIn | SDead), _ => None
  | _, Close => Some []
  | SGot _ (RVal v), Send v' => if val_eqb v v' then Some [] else None
  | SGot _ (RVal _), Throw e => if allowed_exn ms e then Some [] else None
  | SGot _ (RExn _), Send _ => None
  | SGot _ (RExn e0), Throw e => if exn_eqb e0 e || allowed_exn ms e then Some [] else None
  | (SAwait m | SCanc m), Send VNone => Some (if none_is_right (mcmd m) then [] else [FlagA])
  | (SAwait _ | SCanc _), Send _ => None
  | (SAwait _ | SCanc _), Throw e => if allowed_exn ms e then Some [] else None
  end.

(* [SIn] resolves to [SDead] unless the very next observation is the message the plan yielded *)
Definition settle (ms : mon) (o : obs) : mon :=
  match mp ms, o with
  | SIn, OMsg _ => ms
  | SIn, _ => set_mp ms SDead
  | _, _ => ms
  end.

Definition note_unknown (m : msg) (ms : mon) : mon := if is_unknown (mcmd m) then add_seen ms EInvalidCommand else ms.

Definition mon_obs (pid : nat) (ms0 : mon) (o : obs) : option (mon * list flag) :=
  let ms := settle ms0 o in
  match o with
  | OState _ b => Some (set_mstate ms b, [])
  | OPlanIn q i =>
      if Nat.eqb q pid then
        match input_ok ms i with
        | Some fl => Some ({| mstate := mstate ms; mp := SIn; mseen := []; mother := false |}, fl)
        | None => None
        end
      else Some (set_mother ms, [])
  | OMsg m =>
      match mp ms with
      | SIn => Some (set_mp ms (if is_unknown (mcmd m) then SGot m (RExn EInvalidCommand) else SAwait m), [])
      | SAwait m0 => Some (note_unknown m (set_mp ms (SCanc m0)), [])
      | _ => Some (note_unknown m ms, [])
      end
  | OResp r =>
      match mp ms with
      | SAwait m => Some (set_mp ms (SGot m r), [])
      | _ => Some (match r with RExn e => add_seen ms e | RVal _ => ms end, [])
      end
  | _ => Some (ms, [])
  end.

Fixpoint mon_list (pid : nat) (ms : mon) (os : list obs) : option (mon * list flag) :=
  match os with
  | [] => Some (ms, [])
  | o :: os' =>
      match mon_obs pid ms o with
      | None => None
      | Some (ms1, f1) =>
          match mon_list pid ms1 os' with
          | None => None
          | Some (ms2, f2) => Some (ms2, f1 ++ f2)
          end
      end
  end.

(* events the monitor looks at: a new call (re)starts the tracked plan or ends its life *)
Definition mon_ev (pid : nat) (ms : mon) (e : event) : mon :=
  match e with
  | EvMain (ACall q) =>
      if rstate_eqb (mstate ms) Idle then
        if Nat.eqb q pid then {| mstate := mstate ms; mp := SNone; mseen := []; mother := false |}
        else match mp ms with SNone => ms | _ => set_mp ms SDead end
      else ms
  | _ => ms
  end.

Fixpoint chk (pid : nat) (ms : mon) (tr : list (event * list obs)) : option (list flag) :=
  match tr with
  | [] => Some []
  | (e, os) :: tr' =>
      match mon_list pid (mon_ev pid ms e) os with
      | None => None
      | Some (ms2, f2) =>
          match chk pid ms2 tr' with
          | None => None
          | Some f3 => Some (f2 ++ f3)
          end
      end
  end.

(* per-event trace of the tape instance (same arguments as REInst.model_obs) *)
Fixpoint t_run_tr (tapes : list (nat * list tout)) (ledger : list devres)
         (s : st TP nat) (evs : list event) : list (event * list obs) :=
  match evs with
  | [] => []
  | e :: evs' => let '(s1, o1) := step TP (t_resume tapes) t_plan_of nat (t_dev ledger) s e in
                 (e, o1) :: t_run_tr tapes ledger s1 evs'
  end.
Definition model_tr tapes ledger paus stag rec evs := t_run_tr tapes ledger (init TP nat 0 paus stag rec) evs.

Definition has_flag (r : option (list flag)) : bool :=
  match r with Some (_ :: _) => true | _ => false end.
Definition accepted (r : option (list flag)) : bool := match r with Some _ => true | None => false end.

(* comparison with the implementation-side mirror (harness/props/resp_trace.py) *)
Definition resp_agree (r : option (list flag)) (acc a : bool) : bool :=
  Bool.eqb (accepted r) acc && Bool.eqb (has_flag r) a.

(* ------------------------------------------------------------------ C12 (ii): a failed status reaches a plan promptly *)
(* armed = a status object has failed and nothing has been thrown into a plan since *)
Definition s_obs (a : bool) (o : obs) : option bool :=
  match o with
  | OMsg _ => if a then None else Some false          (* a message processed while a failure is pending: violation *)
  | OPlanIn _ (Throw _) => Some false
  | _ => Some a
  end.
Fixpoint s_list (a : bool) (os : list obs) : option bool :=
  match os with
  | [] => Some a
  | o :: os' => match s_obs a o with None => None | Some a' => s_list a' os' end
  end.
Definition s_ev (a : bool) (e : event) : bool :=
  match e with
  | EvStatus _ false => true
  | EvMain (ACall _) => false          (* a new call forgets the failures of the previous one *)
  | _ => a
  end.
Fixpoint chk_status (a : bool) (tr : list (event * list obs)) : bool :=
  match tr with
  | [] => true
  | (e, os) :: tr' => match s_list (s_ev a e) os with None => false | Some a' => chk_status a' tr' end
  end.
