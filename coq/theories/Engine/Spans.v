(* C42 - run trace spans of the RunEngine (src/bluesky/run_engine.py).

   Modelled code (with the repair fixes/C42-a.diff: spans are filed under their run key):
     RunEngine._run_tracing_spans            dict run_key -> Span (insertion ordered)
     RunEngine._open_run                     duplicate-key check, validation, bundler registration, RunStart,
                                             THEN the span is started and filed under the run key
     RunEngine._close_run/_close_run_trace   unknown key -> IllegalMessageSequence; RunBundler.close_run (RunStop
                                             with  exit_status or "success", reason or ""); the bundler is
                                             unregistered; the span filed under the key is popped, gets the same
                                             exit_status/reason and is ended.  A subscriber raising while the
                                             RunStop is emitted leaves the bundler registered (a later close of it
                                             raises EventModelError) and the span untouched.
     RunEngine._abort_coro/_halt_coro        _destroy_open_run_tracing_spans: every filed span is popped (newest
                                             first), gets exit_status "aborted" and is ended (only when not idle).
     the `finally` block of RunEngine._run   every registered bundler whose run is open is closed with the engine's
                                             exit status / reason and its span is ended the same way; then
                                             _run_bundlers is cleared.
   Strings (exit_status, reason) are codes in N; 0 is the empty (falsy) string.
   First half: the model.  Second half: the specification side (which runs exist and how they ended,
   independent of any span bookkeeping) and the functions that read a log.  No proofs in this file. *)
From BV Require Import Base.Prelude Base.KeyMap.
From Coq Require Import NArith.

Definition s_success : N := 1%N.
Definition s_abort : N := 2%N.
Definition s_fail : N := 3%N.
Definition s_aborted : N := 4%N.

(* Python's  [kwargs.get(name) or default] : None and the empty string give the default *)
Definition or_default (o : option N) (d : N) : N :=
  match o with
  | Some v => if N.eqb v 0 then d else v
  | None => d
  end.
Definition norm_status (o : option N) : N := or_default o s_success.
Definition norm_reason (o : option N) : N := or_default o 0%N.

(* ------------------------------------------------------------------ the model *)

Inductive op :=
| NewCall                                              (* RE(plan): the engine leaves idle *)
| OpenRun (k : key) (valid : bool)                     (* open_run message; valid = false: scan_id_source /
                                                          md_validator / md_normalizer raises *)
| CloseRun (k : key) (st rs : option N) (raises : bool) (* close_run message with its exit_status / reason keyword
                                                          (None: absent or None); raises: a subscriber raises on
                                                          the RunStop document *)
| Interrupt                                            (* abort() / halt() reaching _abort_coro / _halt_coro *)
| Finalize (st rs : N).                                (* the finally block of _run with _exit_status / exit_reason *)

Inductive outcome := OStarted | ORejectedDup | ORejectedInvalid | OClosed | OIllegal | OCloseRaised
                   | OAlreadyStopped | OTransitionError.

Inductive ev :=
| ECall
| ERunStart (r : nat)                       (* RunStart document of run r (runs numbered in order of opening) *)
| ERunStop (r : nat) (st rs : N)            (* RunStop document of run r with exit_status, reason *)
| ESpanStart (s r : nat)                    (* span s started (spans numbered in order of creation), carrying the
                                               open_run message of run r *)
| ESpanEnd (s : nat) (st rs : option N)     (* span s ended; its exit_status / reason attributes at that time *)
| EInterrupt
| EOut (o : outcome).                       (* what the plan got back for its message / what abort() raised *)

Record bentry := { b_run : nat; b_poisoned : bool }.

Record state := {
  bund : list (key * bentry);     (* _run_bundlers: run key -> bundler (of run b_run; b_poisoned: its RunStop was
                                     already composed, the run is still marked open) *)
  spans : list (key * nat);       (* _run_tracing_spans *)
  nspan : nat;
  nrun : nat;
  active : bool                   (* not idle *)
}.

Definition init : state := {| bund := []; spans := []; nspan := 0; nrun := 0; active := false |}.

(* _close_run_trace(run_key, msg) *)
Definition end_span (k : key) (st rs : N) (sp : list (key * nat)) : list (key * nat) * list ev :=
  match afind k sp with
  | Some s => (aremove k sp, [ESpanEnd s (Some st) (Some rs)])
  | None => (sp, [])                (* logger.warning *)
  end.

(* closing the run registered under k: shared by the close_run message and by the finally block
   (which does not unregister one by one but clears the dict afterwards: same final state) *)
Definition close_one (k : key) (st rs : option N) (raises : bool) (x : state) : state * list ev * outcome :=
  match afind k (bund x) with
  | None => (x, [], OIllegal)
  | Some b =>
      if b_poisoned b then (x, [], OAlreadyStopped)
      else
        let st' := norm_status st in
        let rs' := norm_reason rs in
        if raises then
          ({| bund := aset k {| b_run := b_run b; b_poisoned := true |} (bund x); spans := spans x;
              nspan := nspan x; nrun := nrun x; active := active x |},
           [ERunStop (b_run b) st' rs'], OCloseRaised)
        else
          let '(sp, e) := end_span k st' rs' (spans x) in
          ({| bund := aremove k (bund x); spans := sp; nspan := nspan x; nrun := nrun x; active := active x |},
           ERunStop (b_run b) st' rs' :: e, OClosed)
  end.

Fixpoint close_all (ks : list key) (st rs : N) (x : state) : state * list ev :=
  match ks with
  | [] => (x, [])
  | k :: ks' =>
      let '(x1, e1, _) := close_one k (Some st) (Some rs) false x in
      let '(x2, e2) := close_all ks' st rs x1 in
      (x2, e1 ++ e2)
  end.

Definition step (x : state) (o : op) : state * list ev :=
  match o with
  | NewCall =>
      ({| bund := bund x; spans := spans x; nspan := nspan x; nrun := nrun x; active := true |}, [ECall])
  | OpenRun k valid =>
      match afind k (bund x) with
      | Some _ => (x, [EOut ORejectedDup])
      | None =>
          if negb valid then (x, [EOut ORejectedInvalid])
          else
            ({| bund := bund x ++ [(k, {| b_run := nrun x; b_poisoned := false |})];
                spans := aset k (nspan x) (spans x);
                nspan := S (nspan x); nrun := S (nrun x); active := active x |},
             [ERunStart (nrun x); ESpanStart (nspan x) (nrun x); EOut OStarted])
      end
  | CloseRun k st rs raises =>
      let '(x', e, o) := close_one k st rs raises x in (x', e ++ [EOut o])
  | Interrupt =>
      if active x then
        ({| bund := bund x; spans := []; nspan := nspan x; nrun := nrun x; active := active x |},
         EInterrupt :: map (fun ks => ESpanEnd (snd ks) (Some s_aborted) None) (rev (spans x)))
      else (x, [EOut OTransitionError])
  | Finalize st rs =>
      let '(x', e) := close_all (map fst (bund x)) st rs x in
      ({| bund := []; spans := spans x'; nspan := nspan x'; nrun := nrun x'; active := false |}, e)
  end.

Fixpoint run_from (x : state) (h : list op) : state * list ev :=
  match h with
  | [] => (x, [])
  | o :: h' =>
      let '(x1, e1) := step x o in
      let '(x2, e2) := run_from x1 h' in
      (x2, e1 ++ e2)
  end.

Definition run_log (h : list op) : list ev := snd (run_from init h).

(* ------------------------------------------------------------------ reading a log *)

(* the spans started for run r, in order *)
Fixpoint starts_for (r : nat) (l : list ev) : list nat :=
  match l with
  | [] => []
  | ESpanStart s r' :: t => if Nat.eqb r r' then s :: starts_for r t else starts_for r t
  | _ :: t => starts_for r t
  end.

(* every ending of span s with the attributes it carried *)
Fixpoint ends_of (s : nat) (l : list ev) : list (option N * option N) :=
  match l with
  | [] => []
  | ESpanEnd s' st rs :: t => if Nat.eqb s s' then (st, rs) :: ends_of s t else ends_of s t
  | _ :: t => ends_of s t
  end.

(* the RunStop documents of run r *)
Fixpoint stops_of (r : nat) (l : list ev) : list (N * N) :=
  match l with
  | [] => []
  | ERunStop r' st rs :: t => if Nat.eqb r r' then (st, rs) :: stops_of r t else stops_of r t
  | _ :: t => stops_of r t
  end.

Fixpoint span_starts (l : list ev) : list (nat * nat) :=
  match l with
  | [] => []
  | ESpanStart s r :: t => (s, r) :: span_starts t
  | _ :: t => span_starts t
  end.

Fixpoint run_starts (l : list ev) : list nat :=
  match l with
  | [] => []
  | ERunStart r :: t => r :: run_starts t
  | _ :: t => run_starts t
  end.

(* ------------------------------------------------------------------ specification side: the runs of a history *)

(* what happened to a run, told without any span: its key, whether abort()/halt() arrived while it was open,
   its RunStop (exit_status, reason) if it was closed, whether a subscriber raised on that RunStop *)
Record rrec := { rr_key : key; rr_intr : bool; rr_stop : option (N * N); rr_raised : bool }.

Record rstate := {
  recs : nat -> rrec;
  nruns : nat;
  ropen : list (key * nat);      (* registered runs: key -> run number *)
  ract : bool
}.

Definition rinit : rstate :=
  {| recs := fun _ => {| rr_key := 0%N; rr_intr := false; rr_stop := None; rr_raised := false |};
     nruns := 0; ropen := []; ract := false |}.

Definition upd (f : nat -> rrec) (r : nat) (v : rrec) : nat -> rrec :=
  fun r' => if Nat.eqb r' r then v else f r'.

Definition rclose_one (k : key) (st rs : option N) (raises : bool) (y : rstate) : rstate :=
  match afind k (ropen y) with
  | None => y
  | Some r =>
      let c := recs y r in
      if rr_raised c then y
      else
        let c' := {| rr_key := rr_key c; rr_intr := rr_intr c;
                     rr_stop := Some (norm_status st, norm_reason rs); rr_raised := raises |} in
        {| recs := upd (recs y) r c'; nruns := nruns y;
           ropen := if raises then ropen y else aremove k (ropen y); ract := ract y |}
  end.

Fixpoint rclose_all (ks : list key) (st rs : N) (y : rstate) : rstate :=
  match ks with
  | [] => y
  | k :: ks' => rclose_all ks' st rs (rclose_one k (Some st) (Some rs) false y)
  end.

Definition is_open (y : rstate) (r : nat) : bool := existsb (fun kr => Nat.eqb (snd kr) r) (ropen y).

Definition rstep (y : rstate) (o : op) : rstate :=
  match o with
  | NewCall => {| recs := recs y; nruns := nruns y; ropen := ropen y; ract := true |}
  | OpenRun k valid =>
      match afind k (ropen y) with
      | Some _ => y
      | None =>
          if negb valid then y
          else {| recs := upd (recs y) (nruns y)
                            {| rr_key := k; rr_intr := false; rr_stop := None; rr_raised := false |};
                  nruns := S (nruns y); ropen := ropen y ++ [(k, nruns y)]; ract := ract y |}
      end
  | CloseRun k st rs raises => rclose_one k st rs raises y
  | Interrupt =>
      if ract y then
        {| recs := fun r => let c := recs y r in
                            if is_open y r
                            then {| rr_key := rr_key c; rr_intr := true; rr_stop := rr_stop c; rr_raised := rr_raised c |}
                            else c;
           nruns := nruns y; ropen := ropen y; ract := ract y |}
      else y
  | Finalize st rs =>
      let y' := rclose_all (map fst (ropen y)) st rs y in
      {| recs := recs y'; nruns := nruns y'; ropen := []; ract := false |}
  end.

Definition runs_of (h : list op) : rstate := fold_left rstep h rinit.

(* how the span of a run has to end, read off the run alone (for runs outside the finding classes) *)
Definition expected_ends (c : rrec) : list (option N * option N) :=
  if rr_intr c then [(Some s_aborted, None)]
  else match rr_stop c with
       | Some (st, rs) => [(Some st, Some rs)]
       | None => []
       end.

(* the span's status names the run's status: equal, or "aborted" for a run that ended with "abort" *)
Definition status_agrees (span_st : option N) (run_st : N) : Prop :=
  span_st = Some run_st \/ (span_st = Some s_aborted /\ run_st = s_abort).

(* finding class C42-e: abort()/halt() arrived while the run was open (its span was ended there with
   "aborted") and the run was afterwards closed with an exit status other than "abort" *)
Definition class_e (c : rrec) : bool :=
  rr_intr c && match rr_stop c with Some (st, _) => negb (N.eqb st s_abort) | None => false end.

(* finding class C42-f: a subscriber raised while the run's RunStop was emitted *)
Definition class_f (c : rrec) : bool := rr_raised c.

Fixpoint exists_below (n : nat) (p : nat -> bool) : bool :=
  match n with
  | O => false
  | S n' => p n' || exists_below n' p
  end.

Definition finding_C42_e (h : list op) : bool :=
  let y := runs_of h in exists_below (nruns y) (fun r => class_e (recs y r) && negb (class_f (recs y r))).
Definition finding_C42_f (h : list op) : bool :=
  let y := runs_of h in exists_below (nruns y) (fun r => class_f (recs y r)).

(* ------------------------------------------------------------------ deciding equality of logs (for the tie) *)

Definition oN_beq := option_beq N.eqb.

Definition outcome_idx (o : outcome) : nat :=
  match o with
  | OStarted => 0 | ORejectedDup => 1 | ORejectedInvalid => 2 | OClosed => 3 | OIllegal => 4
  | OCloseRaised => 5 | OAlreadyStopped => 6 | OTransitionError => 7
  end.

Definition ev_beq (a b : ev) : bool :=
  match a, b with
  | ECall, ECall => true
  | ERunStart r, ERunStart r' => Nat.eqb r r'
  | ERunStop r st rs, ERunStop r' st' rs' => Nat.eqb r r' && N.eqb st st' && N.eqb rs rs'
  | ESpanStart s r, ESpanStart s' r' => Nat.eqb s s' && Nat.eqb r r'
  | ESpanEnd s st rs, ESpanEnd s' st' rs' => Nat.eqb s s' && oN_beq st st' && oN_beq rs rs'
  | EInterrupt, EInterrupt => true
  | EOut o, EOut o' => Nat.eqb (outcome_idx o) (outcome_idx o')
  | _, _ => false
  end.

(* the model, run on history h, produces exactly this log, leaves [left] spans filed, and the two finding
   classes are as the harness says *)
Definition case_ok (h : list op) (log : list ev) (left : nat) (fe ff : bool) : bool :=
  list_beq ev_beq (run_log h) log
  && Nat.eqb (length (spans (fst (run_from init h)))) left
  && Bool.eqb (finding_C42_e h) fe && Bool.eqb (finding_C42_f h) ff.

(* boolean restatement of the main theorem (used to search the model when a proof breaks) *)
Definition run_ok_b (h : list op) : bool :=
  let y := runs_of h in
  let l := run_log h in
  negb (exists_below (nruns y) (fun r =>
    let c := recs y r in
    negb (class_f c) &&
    negb (match starts_for r l with
          | [s] => list_beq (prod_beq oN_beq oN_beq) (ends_of s l) (expected_ends c)
          | _ => false
          end))).
