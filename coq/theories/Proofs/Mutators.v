(* Proofs about Gen/Mutators.v: transparency of the mutators under a processor that changes nothing (C20). *)
From BV Require Import Base.Prelude Gen.Coalg Gen.Mutators Proofs.Coalg.

(* the log a perfectly transparent wrapper leaves: one call to plan 0 per step, with the same input *)
Definition ideal {P} (resume : P -> input -> outcome P) : P -> input -> outcome P * list call :=
  fun p i => (resume p i, [Call 0 i]).

Definition input_no_ge (i : input) : bool :=
  match i with Throw e => negb (is_GeneratorExit e) | _ => true end.
Definition script_no_ge (s : list input) : bool := forallb input_no_ge s.

Section PMId.
  Context {P : Type}.
  Variable resume : P -> input -> outcome P.
  Variable fixed : bool.          (* with or without the C21-a repair: irrelevant for the identity processor *)

  Notation pml := (pm_lresume resume (@id_proc P) fixed).
  Notation pmst := (@pm_state P unit).
  Notation pmrun := (@pm_run P unit).

  (* with the identity processor the machine, suspended at a yield, is always in this shape *)
  Definition pm_inv (p : P) (st : pmrun) : Prop :=
    plan_stack st = [(0, EPlan p)] /\ result_stack st = [] /\ tail_cache st = [] /\
    tail_result_cache st = [] /\ exception st = None.

  (* o' is the machine's rendering of the plan's own outcome o *)
  Definition lifts (o : outcome P) (o' : outcome pmst) : Prop :=
    match o with
    | Yielded m p' => exists st', o' = Yielded m (PMRun st' m) /\ pm_inv p' st'
    | Returned v => o' = Returned v
    | Raised e => o' = Raised e
    | OutOfFuel => o' = OutOfFuel
    end.

  Lemma pm_iter_send :
    forall p seen rv retv nid ps v fuel,
      let st := mkPM seen [(0, EPlan p)] [v] [] [] None rv retv nid ps in
      let r := pm_loop resume (@id_proc P) fixed (S fuel) st [] in
      snd r = [Call 0 (Send v)] /\ lifts (resume p (Send v)) (fst r).
  Proof.
    intros p seen rv retv nid ps v fuel. cbn -[mem_nat].
    destruct (resume p (Send v)) as [m p'| v' | e |] eqn:E; cbn -[mem_nat].
    - unfold process_msg, set_top. cbn -[mem_nat]. destruct (mem_nat m seen) eqn:M; cbn.
      + split; [reflexivity|]. eexists; split; [reflexivity|]. repeat split.
      + split; [reflexivity|]. eexists; split; [reflexivity|]. repeat split.
    - split; reflexivity.
    - destruct (is_Exception e); cbn; split; reflexivity.
    - split; reflexivity.
  Qed.

  Lemma pm_iter_throw :
    forall p seen rv retv nid ps e fuel,
      let st := mkPM seen [(0, EPlan p)] [] [] [] (Some e) rv retv nid ps in
      let r := pm_loop resume (@id_proc P) fixed (S fuel) st [] in
      snd r = [Call 0 (Throw e)] /\ lifts (resume p (Throw e)) (fst r).
  Proof.
    intros p seen rv retv nid ps e fuel. cbn -[mem_nat].
    destruct (resume p (Throw e)) as [m p'| v' | e' |] eqn:E; cbn -[mem_nat].
    - unfold process_msg, set_top. cbn -[mem_nat]. destruct (mem_nat m seen) eqn:M; cbn.
      + split; [reflexivity|]. eexists; split; [reflexivity|]. repeat split.
      + split; [reflexivity|]. eexists; split; [reflexivity|]. repeat split.
    - destruct fixed; split; reflexivity.
    - destruct (is_Exception e'); cbn; split; reflexivity.
    - split; reflexivity.
  Qed.

  Lemma pm_step_send :
    forall p st m v fuel, pm_inv p st ->
      snd (pml (S fuel) (PMRun st m) (Send v)) = [Call 0 (Send v)] /\
      lifts (resume p (Send v)) (fst (pml (S fuel) (PMRun st m) (Send v))).
  Proof.
    intros p [seen pst rs tc trc ex rv retv nid ps] m v fuel (H1 & H2 & H3 & H4 & H5).
    cbn in H1, H2, H3, H4, H5. subst.
    unfold pm_lresume. cbn [msgs_seen plan_stack result_stack tail_cache tail_result_cache exception ret ret_value next_id pstate].
    apply pm_iter_send.
  Qed.

  Lemma pm_step_throw :
    forall p st m e fuel, pm_inv p st -> is_Exception e = true ->
      snd (pml (S fuel) (PMRun st m) (Throw e)) = [Call 0 (Throw e)] /\
      lifts (resume p (Throw e)) (fst (pml (S fuel) (PMRun st m) (Throw e))).
  Proof.
    intros p [seen pst rs tc trc ex rv retv nid ps] m e fuel (H1 & H2 & H3 & H4 & H5) HE.
    cbn in H1, H2, H3, H4, H5. subst.
    unfold pm_lresume.
    assert (G : is_GeneratorExit e = false) by (destruct e; cbn in *; congruence).
    rewrite G, HE.
    cbn [msgs_seen plan_stack result_stack tail_cache tail_result_cache exception ret ret_value next_id pstate].
    apply pm_iter_throw.
  Qed.

  (* a thrown GeneratorExit-kind e and close(): the wrapped plan is close()d, then e is re-raised *)
  Lemma pm_step_ge :
    forall p st e, pm_inv p st ->
      pm_generator_exit resume st e =
      (match close_result (resume p Close) with
       | CloseOk => Raised e
       | CloseRaised e' => Raised e'
       | CloseFuel => OutOfFuel
       end, [Call 0 Close]).
  Proof.
    intros p [seen pst rs tc trc ex rv retv nid ps] e (H1 & H2 & H3 & H4 & H5).
    cbn in H1, H2, H3, H4, H5. subst.
    unfold pm_generator_exit. cbn.
    destruct (resume p Close) as [m' p'| v' | e' |]; cbn; try reflexivity.
    destruct (is_GeneratorExit e'); reflexivity.
  Qed.

  Lemma close_result_raised_not_ge :
    forall (o : outcome P) e, close_result o = CloseRaised e -> is_GeneratorExit e = false.
  Proof.
    intros [m p'|v|e'|] e; cbn; try congruence.
    - intros H; inversion H; reflexivity.
    - destruct (is_GeneratorExit e') eqn:G; congruence.
  Qed.

  Lemma pm_close_obs :
    forall p st m, pm_inv p st ->
      let r := pml 1 (PMRun st m) Close in
      (obs_of_close (close_result (fst r)), snd r) =
      (obs_of_close (close_result (resume p Close)), [Call 0 Close]).
  Proof.
    intros p st m I. cbn zeta. unfold pm_lresume. rewrite (pm_step_ge p st EGeneratorExit I). cbn [fst snd].
    destruct (close_result (resume p Close)) eqn:C; cbn; try reflexivity.
    rewrite (close_result_raised_not_ge _ _ C). reflexivity.
  Qed.

  (* main simulation: from a suspended machine in the invariant shape *)
  Lemma pm_ltrace_run :
    forall s p st m fuel, pm_inv p st -> script_exc_only s = true ->
      ltrace (pml (S fuel)) (PMRun st m) s = ltrace (ideal resume) p s.
  Proof.
    induction s as [|i s IH]; intros p st m fuel I HS; [reflexivity|].
    cbn in HS. apply andb_true_iff in HS as [Hi HS].
    destruct i as [v|e|].
    - cbn [ltrace]. destruct (pm_step_send p st m v fuel I) as [Hc Hl].
      set (r := pml (S fuel) (PMRun st m) (Send v)) in *.
      rewrite Hc. unfold ideal at 1 2 3. cbn [fst snd].
      destruct (resume p (Send v)) as [m' p'|v'|e'|] eqn:E; cbv [lifts] in Hl.
      + destruct Hl as (st' & Ho & I'). rewrite Ho. f_equal. now apply IH.
      + now rewrite Hl.
      + now rewrite Hl.
      + now rewrite Hl.
    - cbn in Hi. cbn [ltrace]. destruct (pm_step_throw p st m e fuel I Hi) as [Hc Hl].
      set (r := pml (S fuel) (PMRun st m) (Throw e)) in *.
      rewrite Hc. unfold ideal at 1 2 3. cbn [fst snd].
      destruct (resume p (Throw e)) as [m' p'|v'|e'|] eqn:E; cbv [lifts] in Hl.
      + destruct Hl as (st' & Ho & I'). rewrite Ho. f_equal. now apply IH.
      + now rewrite Hl.
      + now rewrite Hl.
      + now rewrite Hl.
    - cbn [ltrace]. unfold pm_lresume. rewrite (pm_step_ge p st EGeneratorExit I). cbn [fst snd].
      unfold ideal. cbn [fst snd]. f_equal. f_equal.
      destruct (close_result (resume p Close)) eqn:C; cbn; try reflexivity.
      rewrite (close_result_raised_not_ge _ _ C). reflexivity.
  Qed.

  (* scripts that start the generator: observations AND the inputs the wrapped plan receives agree *)
  Theorem pm_transparent_started :
    forall p s fuel, script_exc_only s = true ->
      ltrace (pml (S fuel)) (pm_init p tt) (Send VNone :: s) = ltrace (ideal resume) p (Send VNone :: s).
  Proof.
    intros p s fuel HS. cbn [ltrace].
    destruct (pm_iter_send p [] VNone VNone 1 tt VNone fuel) as [Hc Hl]. cbn zeta in Hc, Hl.
    change (pml (S fuel) (pm_init p tt) (Send VNone))
      with (pm_loop resume (@id_proc P) fixed (S fuel) (mkPM [] [(0, EPlan p)] [VNone] [] [] None VNone VNone 1 tt) []).
    set (r := pm_loop resume id_proc fixed (S fuel) _ []) in *.
    rewrite Hc. unfold ideal at 1 2 3. cbn [fst snd].
    destruct (resume p (Send VNone)) as [m' p'|v'|e'|] eqn:E; cbv [lifts] in Hl.
    - destruct Hl as (st' & Ho & I'). rewrite Ho. f_equal. now apply pm_ltrace_run.
    - now rewrite Hl.
    - now rewrite Hl.
    - now rewrite Hl.
  Qed.

  (* every script, from the just-created wrapper, for a just-created plan: same observations *)
  Theorem pm_transparent :
    forall p s fuel, unstarted resume p -> script_exc_only s = true ->
      trace (pm_resume resume (@id_proc P) fixed (S fuel)) (pm_init p tt) s = trace resume p s.
  Proof.
    intros p s fuel (Ht & Hs & (eg & Hc & Hg)) HS.
    destruct s as [|i s]; [reflexivity|].
    destruct i as [v|e|].
    - destruct v as [|z].
      + assert (H := pm_transparent_started p s fuel).
        cbn in HS. specialize (H HS).
        apply (f_equal (map fst)) in H. rewrite !ltrace_obs in H.
        etransitivity; [|etransitivity; [exact H|]].
        * apply trace_ext. reflexivity.
        * apply trace_ext. reflexivity.
      + cbn. now rewrite Hs.
    - cbn. now rewrite Ht.
    - cbn. rewrite Hc. cbn. now rewrite Hg.
  Qed.

  (* BaseException-only throws, stated separately: plan_mutator does not forward them *)
  Lemma pm_throw_base_only :
    forall st m e fuel, is_Exception e = false -> is_GeneratorExit e = false ->
      pml fuel (PMRun st m) (Throw e) = (Raised e, []).
  Proof. intros st m e fuel H1 H2. unfold pm_lresume. now rewrite H2, H1. Qed.

  Lemma pm_throw_ge :
    forall p st m e fuel, pm_inv p st -> is_GeneratorExit e = true ->
      pml fuel (PMRun st m) (Throw e) =
      (match close_result (resume p Close) with
       | CloseOk => Raised e
       | CloseRaised e' => Raised e'
       | CloseFuel => OutOfFuel
       end, [Call 0 Close]).
  Proof. intros p st m e fuel I G. unfold pm_lresume. rewrite G. now apply (pm_step_ge p st). Qed.
End PMId.

Section MMId.
  Context {P : Type}.
  Variable resume : P -> input -> outcome P.
  Notation mml := (mm_lresume resume id_mproc).

  Lemma mm_after_id :
    forall fuel (o : outcome P) log,
      mm_after resume id_mproc fuel o log = (map_outcome (@MMRun P) o, log).
  Proof. intros fuel [m p'|v|e|] log; try reflexivity. destruct fuel; reflexivity. Qed.

  Lemma mml_send : forall fuel p v,
      mml fuel (MMRun p) (Send v) = (map_outcome (@MMRun P) (resume p (Send v)), [Call 0 (Send v)]).
  Proof. intros. unfold mm_lresume. apply mm_after_id. Qed.

  Lemma mml_throw : forall fuel p e, is_GeneratorExit e = false ->
      mml fuel (MMRun p) (Throw e) = (map_outcome (@MMRun P) (resume p (Throw e)), [Call 0 (Throw e)]).
  Proof. intros fuel p e H. unfold mm_lresume. rewrite H. apply mm_after_id. Qed.

  Lemma mml_start : forall fuel p,
      mml fuel (mm_init p) (Send VNone) = (map_outcome (@MMRun P) (resume p (Send VNone)), [Call 0 (Send VNone)]).
  Proof. intros. unfold mm_lresume, mm_init. apply mm_after_id. Qed.

  Lemma mm_ltrace_run :
    forall s p fuel, script_no_ge s = true ->
      ltrace (mml fuel) (MMRun p) s = ltrace (ideal resume) p s.
  Proof.
    induction s as [|i s IH]; intros p fuel HS; [reflexivity|].
    cbn in HS. apply andb_true_iff in HS as [Hi HS].
    destruct i as [v|e|].
    - cbn [ltrace]. rewrite mml_send. unfold ideal at 1 2 3. cbn [fst snd].
      destruct (resume p (Send v)) as [m' p'|v'|e'|]; cbn; try reflexivity. f_equal. now apply IH.
    - cbn in Hi. apply negb_true_iff in Hi.
      cbn [ltrace]. rewrite (mml_throw _ _ _ Hi). unfold ideal at 1 2 3. cbn [fst snd].
      destruct (resume p (Throw e)) as [m' p'|v'|e'|]; cbn; try reflexivity. f_equal. now apply IH.
    - cbn [ltrace]. unfold mm_lresume, mm_generator_exit, ideal. cbn [fst snd].
      destruct (close_result (resume p Close)) eqn:C; cbn; try reflexivity.
      rewrite (close_result_raised_not_ge _ _ C). reflexivity.
  Qed.

  Theorem mm_transparent_started :
    forall p s fuel, script_no_ge s = true ->
      ltrace (mml fuel) (mm_init p) (Send VNone :: s) = ltrace (ideal resume) p (Send VNone :: s).
  Proof.
    intros p s fuel HS. cbn [ltrace]. rewrite mml_start. unfold ideal at 1 2 3. cbn [fst snd].
    destruct (resume p (Send VNone)) as [m' p'|v'|e'|]; cbn; try reflexivity. f_equal. now apply mm_ltrace_run.
  Qed.

  Theorem mm_transparent :
    forall p s fuel, unstarted resume p -> script_no_ge s = true ->
      trace (mm_resume resume id_mproc fuel) (mm_init p) s = trace resume p s.
  Proof.
    intros p s fuel (Ht & Hs & (eg & Hc & Hg)) HS.
    destruct s as [|i s]; [reflexivity|].
    destruct i as [v|e|].
    - destruct v as [|z].
      + assert (H := mm_transparent_started p s fuel).
        cbn in HS. specialize (H HS).
        apply (f_equal (map fst)) in H. rewrite !ltrace_obs in H.
        etransitivity; [|etransitivity; [exact H|]].
        * apply trace_ext. reflexivity.
        * apply trace_ext. reflexivity.
      + cbn. now rewrite Hs.
    - cbn. now rewrite Ht.
    - cbn. rewrite Hc. cbn. now rewrite Hg.
  Qed.

  Lemma mm_throw_ge :
    forall p e fuel, is_GeneratorExit e = true ->
      mml fuel (MMRun p) (Throw e) =
      (match close_result (resume p Close) with
       | CloseOk => Raised e
       | CloseRaised e' => Raised e'
       | CloseFuel => OutOfFuel
       end, [Call 0 Close]).
  Proof.
    intros p e fuel G. unfold mm_lresume. rewrite G. unfold mm_generator_exit.
    destruct (close_result (resume p Close)); reflexivity.
  Qed.
End MMId.

Lemma exc_only_no_ge : forall s, script_exc_only s = true -> script_no_ge s = true.
Proof.
  unfold script_exc_only, script_no_ge.
  induction s as [|i s IH]; [reflexivity|]. cbn. intros H. apply andb_true_iff in H as [H1 H2].
  rewrite (IH H2), andb_true_r. destruct i as [v|e|]; try reflexivity. destruct e; cbn in *; congruence.
Qed.

(* finding class C20-a: the script throws a BaseException-only kind
   (GeneratorExit, PlanHalt, CancelledError, KeyboardInterrupt) *)
Definition finding_C20_a_b (s : list input) : bool := negb (script_exc_only s).
Definition finding_C20_a (s : list input) : Prop := finding_C20_a_b s = true.

Lemma not_finding_exc_only : forall s, ~ finding_C20_a s -> script_exc_only s = true.
Proof. unfold finding_C20_a, finding_C20_a_b. intros s H. destruct (script_exc_only s); [reflexivity|]. now elim H. Qed.

Lemma pm_transparent_nf :
  forall (P : Type) (resume : P -> input -> outcome P) (fixed : bool) (p : P) (s : list input) (fuel : nat),
    unstarted resume p -> ~ finding_C20_a s ->
    trace (pm_resume resume id_proc fixed (S fuel)) (pm_init p tt) s = trace resume p s.
Proof. intros. apply pm_transparent; auto using not_finding_exc_only. Qed.

Lemma pm_transparent_started_nf :
  forall (P : Type) (resume : P -> input -> outcome P) (fixed : bool) (p : P) (s : list input) (fuel : nat),
    ~ finding_C20_a s ->
    ltrace (pm_lresume resume id_proc fixed (S fuel)) (pm_init p tt) (Send VNone :: s)
    = ltrace (ideal resume) p (Send VNone :: s).
Proof. intros. apply pm_transparent_started; auto using not_finding_exc_only. Qed.

Lemma nf_no_ge : forall s, ~ finding_C20_a s -> script_no_ge s = true.
Proof. intros. apply exc_only_no_ge. now apply not_finding_exc_only. Qed.
