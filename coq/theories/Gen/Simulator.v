(* Model of bluesky.simulators.RunEngineSimulator.simulate_plan / add_handler and
   check_limits_async (src/bluesky/simulators.py).  Plans are coalgebras (a state type and a
   resume function), so the theorems hold for every generator, terminating or not.
   Model only, no proofs (Proofs/Simulator.v). *)
From BV Require Import Base.Prelude.

(* ---------------------------------------------------------------- values, messages *)

Inductive val :=
| VNone | VInt (z : Z) | VStr (s : N) | VBool (b : bool) | VTuple (l : list val).

Fixpoint val_eqb (a b : val) : bool :=
  match a, b with
  | VNone, VNone => true
  | VInt x, VInt y => Z.eqb x y
  | VStr x, VStr y => N.eqb x y
  | VBool x, VBool y => Bool.eqb x y
  | VTuple l1, VTuple l2 =>
      (fix go (l1 l2 : list val) : bool :=
         match l1, l2 with
         | [], [] => true
         | x :: l1', y :: l2' => val_eqb x y && go l1' l2'
         | _, _ => false
         end) l1 l2
  | _, _ => false
  end.

(* a device: identity, .name, whether it has check_value (isinstance(obj, Checkable)) and its limits *)
Record dev := { d_id : N; d_name : N; d_checkable : bool; d_lo : Z; d_hi : Z }.
Definition dev_eqb (a b : dev) : bool :=
  N.eqb (d_id a) (d_id b) && N.eqb (d_name a) (d_name b) && Bool.eqb (d_checkable a) (d_checkable b)
  && Z.eqb (d_lo a) (d_lo b) && Z.eqb (d_hi a) (d_hi b).

(* Msg(command, obj, *args) *)
Record msg := { m_cmd : N; m_obj : option dev; m_args : list val }.
Definition msg_eqb (a b : msg) : bool :=
  N.eqb (m_cmd a) (m_cmd b) && option_beq dev_eqb (m_obj a) (m_obj b) && list_beq val_eqb (m_args a) (m_args b).

(* what a plan yields: a Msg (always truthy) or something falsy such as None *)
Inductive yielded := YMsg (m : msg) | YFalsy.

(* exception classes are small numbers *)
Definition exn := N.
Definition IndexError : exn := 1%N.
Definition AttributeError : exn := 2%N.

(* ---------------------------------------------------------------- plans as coalgebras *)

Inductive outcome (P : Type) :=
| Yielded (y : yielded) (p' : P)
| Returned (v : val)
| Raised (e : exn).
Arguments Yielded {P}. Arguments Returned {P}. Arguments Raised {P}.

(* ---------------------------------------------------------------- add_handler *)

Inductive hindex := IdxInt (i : Z) | IdxEnd.

(* list.insert(i, x) *)
Definition py_insert {A} (i : Z) (x : A) (l : list A) : list A :=
  let n := Z.of_nat (length l) in
  let k := if (i <? 0)%Z then Z.max 0 (i + n) else Z.min i n in
  firstn (Z.to_nat k) l ++ x :: skipn (Z.to_nat k) l.

(* self.message_handlers.insert(index if index != END else len(self.message_handlers), handler) *)
Definition add_handler {A} (idx : hindex) (h : A) (hs : list A) : list A :=
  match idx with
  | IdxEnd => py_insert (Z.of_nat (length hs)) h hs
  | IdxInt i => py_insert i h hs
  end.

Inductive hres := HVal (v : val) | HRaise (e : exn).

(* how a simulate_plan call ends *)
Inductive final :=
| FReturned (v : val)        (* StopIteration: return_value := v, the message list is returned *)
| FStopped                   (* the plan yielded something falsy: the loop ends, return_value is unchanged *)
| FPlanRaised (e : exn)      (* the plan raised: propagates out of simulate_plan *)
| FHandlerRaised (e : exn).  (* a handler's runnable raised: propagates out of simulate_plan *)

Section Simulate.
  Variable P : Type.
  Variable resume : P -> val -> outcome P.        (* gen.send(value) *)
  (* handlers: [pred h m] = h.predicate(msg); [run h m hs] = h.runnable(msg), which may also change
     the simulator's handler list (documented usage: a wait handler that adds a read handler) *)
  Variable H : Type.
  Variable pred : H -> msg -> bool.
  Variable run : H -> msg -> list H -> hres * list H.

  (* next((h for h in self.message_handlers if h.predicate(msg)), None) *)
  Definition first_match (hs : list H) (m : msg) : option H := find (fun h => pred h m) hs.

  Record sim_out := { o_msgs : list msg; o_final : final; o_hs : list H }.

  (* the while loop of simulate_plan; [acc] = messages so far, reversed; None = out of fuel *)
  Fixpoint simulate (fuel : nat) (p : P) (send : val) (hs : list H) (acc : list msg) : option sim_out :=
    match fuel with
    | O => None
    | S f =>
        match resume p send with
        | Returned v => Some {| o_msgs := rev acc; o_final := FReturned v; o_hs := hs |}
        | Raised e => Some {| o_msgs := rev acc; o_final := FPlanRaised e; o_hs := hs |}
        | Yielded YFalsy _ => Some {| o_msgs := rev acc; o_final := FStopped; o_hs := hs |}
        | Yielded (YMsg m) p' =>
            match first_match hs m with
            | None => simulate f p' VNone hs (m :: acc)
            | Some h =>
                match run h m hs with
                | (HVal v, hs') => simulate f p' v hs' (m :: acc)
                | (HRaise e, hs') => Some {| o_msgs := rev (m :: acc); o_final := FHandlerRaised e; o_hs := hs' |}
                end
            end
        end
    end.

  (* The property, declaratively: [Replay p a hs ms fin hs'] - resuming the plan with a, it yields
     exactly the messages ms in order, each yield being answered with the runnable of the FIRST
     handler (in list order) whose predicate holds, else None, until it ends as [fin]. *)
  Inductive Replay : P -> val -> list H -> list msg -> final -> list H -> Prop :=
  | R_return p a hs v : resume p a = Returned v -> Replay p a hs [] (FReturned v) hs
  | R_raise p a hs e : resume p a = Raised e -> Replay p a hs [] (FPlanRaised e) hs
  | R_falsy p a hs p' : resume p a = Yielded YFalsy p' -> Replay p a hs [] FStopped hs
  | R_unhandled p a hs m p' ms fin hs' :
      resume p a = Yielded (YMsg m) p' -> first_match hs m = None ->
      Replay p' VNone hs ms fin hs' -> Replay p a hs (m :: ms) fin hs'
  | R_handled p a hs m p' h v hs1 ms fin hs' :
      resume p a = Yielded (YMsg m) p' -> first_match hs m = Some h -> run h m hs = (HVal v, hs1) ->
      Replay p' v hs1 ms fin hs' -> Replay p a hs (m :: ms) fin hs'
  | R_handler_raises p a hs m p' h e hs1 :
      resume p a = Yielded (YMsg m) p' -> first_match hs m = Some h -> run h m hs = (HRaise e, hs1) ->
      Replay p a hs [m] (FHandlerRaised e) hs1.

  (* self.return_value after the call *)
  Definition return_value_after (old : val) (fin : final) : val :=
    match fin with FReturned v => v | _ => old end.
End Simulate.

Arguments o_msgs {H}. Arguments o_final {H}. Arguments o_hs {H}.

(* ---------------------------------------------------------------- check_limits *)

Definition is_set (m : msg) : bool := N.eqb (m_cmd m) 0%N.     (* the harness interns "set" as 0 *)

(* obj.check_value(v) of the harness devices: raises unless lo <= v <= hi (non-integers raise) *)
Definition in_limits (d : dev) (v : val) : bool :=
  match v with VInt z => (d_lo d <=? z)%Z && (z <=? d_hi d)%Z | _ => false end.

Inductive cl_result :=
| CLOk (warned : list dev)         (* plan exhausted; the devices warned about (no check_value), in order *)
| CLLimit (d : dev) (v : val)      (* obj.check_value(v) raised *)
| CLPlanRaised (e : exn)
| CLError (e : exn).               (* malformed message: set without args (IndexError), without obj / falsy yield (AttributeError) *)

Section CheckLimits.
  Variable P : Type.
  Variable resume : P -> val -> outcome P.
  Variable limit_ok : dev -> val -> bool.       (* check_value returns (true) or raises (false) *)

  Definition dev_mem (d : dev) (l : list dev) : bool := existsb (dev_eqb d) l.

  (* for msg in plan: ... ; [ignore] in code order (appended), [warned] likewise *)
  Fixpoint check_limits (fuel : nat) (p : P) (ignore : list dev) : option cl_result :=
    match fuel with
    | O => None
    | S f =>
        match resume p VNone with
        | Returned _ => Some (CLOk ignore)
        | Raised e => Some (CLPlanRaised e)
        | Yielded YFalsy _ => Some (CLError AttributeError)          (* None.obj *)
        | Yielded (YMsg m) p' =>
            if is_set m then
              match m_obj m with
              | None =>                                               (* isinstance(None, Checkable) is False; None.name *)
                  Some (CLError AttributeError)
              | Some d =>
                  if dev_mem d ignore then check_limits f p' ignore
                  else
                    match m_args m with
                    | [] => Some (CLError IndexError)                 (* msg.args[0] *)
                    | v :: _ =>
                        if d_checkable d then
                          if limit_ok d v then check_limits f p' ignore else Some (CLLimit d v)
                        else check_limits f p' (ignore ++ [d])        (* warn once, then ignore *)
                    end
              end
            else check_limits f p' ignore
        end
    end.

  (* a message on which check_value raises *)
  Definition offending (m : msg) : option (dev * val) :=
    if is_set m then
      match m_obj m, m_args m with
      | Some d, v :: _ => if d_checkable d && negb (limit_ok d v) then Some (d, v) else None
      | _, _ => None
      end
    else None.

  (* a well-formed message: a set has a device and a target *)
  Definition wf_msg (m : msg) : bool :=
    if is_set m then match m_obj m, m_args m with Some _, _ :: _ => true | _, _ => false end else true.

  (* driving the plan the way "for msg in plan" does (every yield answered with None):
     it yields the messages ms and arrives in state p' *)
  Inductive Drives : P -> list msg -> P -> Prop :=
  | D_nil p : Drives p [] p
  | D_cons p m p1 ms p' : resume p VNone = Yielded (YMsg m) p1 -> Drives p1 ms p' -> Drives p (m :: ms) p'.
End CheckLimits.

(* ---------------------------------------------------------------- the plan DSL of the harness *)

Inductive dplan :=
| DRet (v : val)
| DRetRecv                       (* return the tuple of everything received so far *)
| DRaise (e : exn)
| DYield (y : yielded) (alts : list (val * dplan)) (dflt : dplan).   (* r = yield y; continue by r *)

Inductive dstate :=
| Fresh (p : dplan)                                         (* generator not started *)
| Waiting (alts : list (val * dplan)) (dflt : dplan) (recv : list val).   (* suspended at a yield *)

Definition dexec (p : dplan) (recv : list val) : outcome dstate :=
  match p with
  | DRet v => Returned v
  | DRetRecv => Returned (VTuple (rev recv))
  | DRaise e => Raised e
  | DYield y alts dflt => Yielded y (Waiting alts dflt recv)
  end.

Definition dselect (a : val) (alts : list (val * dplan)) (dflt : dplan) : dplan :=
  match find (fun vp => val_eqb (fst vp) a) alts with Some vp => snd vp | None => dflt end.

Definition dresume (s : dstate) (a : val) : outcome dstate :=
  match s with
  | Fresh p => dexec p []                                    (* the first send(None) starts the generator *)
  | Waiting alts dflt recv => dexec (dselect a alts dflt) (a :: recv)
  end.

(* ---------------------------------------------------------------- the handlers of the harness *)

Inductive filt := FNone | FName (s : N) | FArgGt (z : Z) | FHasObj.
Inductive rspec := RConst (v : val) | RArg0 | RRaise (e : exn).
(* add_handler(cmds, runnable, filter): id, commands, msg_filter, what the runnable returns, and the
   handlers the runnable itself adds to the simulator when it runs *)
Inductive hspec := HS (id : N) (cmds : list N) (f : filt) (r : rspec) (adds : list (hindex * hspec)).

Definition hs_id (h : hspec) : N := match h with HS id _ _ _ _ => id end.

(* lambda msg: msg.command in commands and (msg_filter is None or (callable(msg_filter) and
   msg_filter(msg)) or (msg.obj and msg.obj.name == msg_filter)) *)
Definition hpred (h : hspec) (m : msg) : bool :=
  match h with
  | HS _ cmds f _ _ =>
      existsb (N.eqb (m_cmd m)) cmds &&
      match f with
      | FNone => true
      | FName s => match m_obj m with Some d => N.eqb (d_name d) s | None => false end
      | FArgGt z => match m_args m with VInt a :: _ => (z <? a)%Z | _ => false end
      | FHasObj => match m_obj m with Some _ => true | None => false end
      end
  end.

Definition hrun (h : hspec) (m : msg) (hs : list hspec) : hres * list hspec :=
  match h with
  | HS _ _ _ r adds =>
      let hs' := fold_left (fun acc ih => add_handler (fst ih) (snd ih) acc) adds hs in
      (match r with
       | RConst v => HVal v
       | RArg0 => match m_args m with a :: _ => HVal a | [] => HRaise IndexError end
       | RRaise e => HRaise e
       end, hs')
  end.

Definition setup (ops : list (hindex * hspec)) : list hspec :=
  fold_left (fun acc ih => add_handler (fst ih) (snd ih) acc) ops [].

(* several simulate_plan calls on one simulator: per call (yielded messages, how it ended,
   return_value afterwards, ids of the handler list afterwards) *)
Definition call_obs := (list msg * final * val * list N)%type.

Fixpoint sim_calls (fuel : nat) (hs : list hspec) (rv : val) (plans : list dplan) : option (list call_obs) :=
  match plans with
  | [] => Some []
  | p :: ps =>
      match simulate dstate dresume hspec hpred hrun fuel (Fresh p) VNone hs [] with
      | None => None
      | Some o =>
          let rv' := return_value_after rv (o_final o) in
          match sim_calls fuel (o_hs o) rv' ps with
          | None => None
          | Some rest => Some ((o_msgs o, o_final o, rv', map hs_id (o_hs o)) :: rest)
          end
      end
  end.

(* ---------------------------------------------------------------- equality of observations *)
Definition final_beq (a b : final) : bool :=
  match a, b with
  | FReturned x, FReturned y => val_eqb x y
  | FStopped, FStopped => true
  | FPlanRaised x, FPlanRaised y | FHandlerRaised x, FHandlerRaised y => N.eqb x y
  | _, _ => false
  end.
Definition call_obs_beq (a b : call_obs) : bool :=
  match a, b with
  | (m1, f1, r1, h1), (m2, f2, r2, h2) =>
      list_beq msg_eqb m1 m2 && final_beq f1 f2 && val_eqb r1 r2 && list_beq N.eqb h1 h2
  end.
Definition sim_obs_beq (a : option (list call_obs)) (b : list call_obs) : bool :=
  match a with Some l => list_beq call_obs_beq l b | None => false end.

Definition cl_beq (a : option cl_result) (b : cl_result) : bool :=
  match a, b with
  | Some (CLOk w1), CLOk w2 => list_beq dev_eqb w1 w2
  | Some (CLLimit d1 v1), CLLimit d2 v2 => dev_eqb d1 d2 && val_eqb v1 v2
  | Some (CLPlanRaised e1), CLPlanRaised e2 | Some (CLError e1), CLError e2 => N.eqb e1 e2
  | _, _ => false
  end.
