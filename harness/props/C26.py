"""C26 - snaked grids are a continuous back-and-forth ordering of the full grid."""
import itertools

ID = "C26"
PROP_FILE = "Props/C26.v"
THEOREMS = ["C26_closed_form"]
COQ_IMPORTS = "From BV Require Import Pure.Snake."
MODELLED = ("bluesky.utils.snake_cyclers is modelled at list level (np.tile/np.repeat/np.concatenate/slicing and "
            "cycler +,* as list functions); axis values are integer labels; cycler/numpy themselves are trusted.")
RULE = ("exhaustive: all axis-length vectors with 1..4 axes (quick: lengths<=3; thorough: <=4) x all snake flag vectors; "
        "plus random vectors up to 6 axes x length 9 (product <= 4000); non-trivial = at least one snaked axis after "
        "the first and total length > 1; distinct by (lens, flags, entry point)")


def cases(rng, tier):
    out = []
    maxlen = 3 if tier == "quick" else 4
    for n in range(1, 5):
        for lens in itertools.product(range(1, maxlen + 1), repeat=n):
            for flags in itertools.product([False, True], repeat=n):
                out.append({"lens": list(lens), "flags": list(flags), "via": "snake_cyclers"})
    nrand = 150 if tier == "quick" else 3000
    for _ in range(nrand):
        n = rng.randint(1, 6)
        while True:
            lens = [rng.randint(1, 9) for _ in range(n)]
            tot = 1
            for x in lens:
                tot *= x
            if tot <= 4000:
                break
        flags = [rng.random() < 0.6 for _ in range(n)]
        out.append({"lens": lens, "flags": flags, "via": "snake_cyclers"})
    # malformed stream: length mismatch
    for n in range(1, 4):
        out.append({"lens": [2] * n, "flags": [True] * (n + 1), "via": "snake_cyclers"})
        out.append({"lens": [2] * (n + 1), "flags": [True] * n, "via": "snake_cyclers"})
    return out


def impl(case):
    from cycler import cycler
    from bluesky.utils import snake_cyclers
    lens, flags = case["lens"], case["flags"]
    cyc = [cycler("a%d" % i, list(range(L))) for i, L in enumerate(lens)]
    try:
        res = snake_cyclers(cyc, flags)
    except ValueError as e:
        return {"error": "ValueError"}
    pts = [[int(p["a%d" % i]) for i in range(len(lens))] for p in res]
    return {"points": pts}


def cl(xs, f=str):
    return "[" + "; ".join(f(x) for x in xs) + "]"


def cb(b):
    return "true" if b else "false"


def coq_term(case, obs):
    lens, flags = cl(case["lens"]), cl(case["flags"], cb)
    if "error" in obs:
        exp = "None"
    else:
        exp = "Some " + cl(obs["points"], cl)
    return "olln_beq (snake_cyclers %s %s) (%s)" % (lens, flags, exp)


def _point(lens, flags, t):
    pt = []
    for k, L in enumerate(lens):
        R = 1
        for x in lens[k + 1:]:
            R *= x
        d = (t // R) % L
        if flags[k] and ((t // (R * L)) % 2 == 1):
            pt.append(L - 1 - d)
        else:
            pt.append(d)
    return pt


def oracle(case, obs):
    lens, flags = case["lens"], case["flags"]
    if len(lens) != len(flags):
        return None if "error" in obs else "length mismatch accepted"
    if "error" in obs:
        return "valid input rejected: " + obs["error"]
    pts = obs["points"]
    tot = 1
    for x in lens:
        tot *= x
    if len(pts) != tot:
        return "trajectory has %d points, grid has %d" % (len(pts), tot)
    if sorted(map(tuple, pts)) != sorted(itertools.product(*[range(L) for L in lens])):
        return "trajectory is not a permutation of the full grid"
    for t, p in enumerate(pts):
        if p != _point(lens, flags, t):
            return "point %d is %s, documented back-and-forth order gives %s" % (t, p, _point(lens, flags, t))
    return None


def nontrivial(case, obs):
    return "points" in obs and len(obs["points"]) > 1 and any(case["flags"][1:])


def describe(case):
    return "axes=%d snaked=%d" % (len(case["lens"]), sum(1 for f in case["flags"][1:] if f))
