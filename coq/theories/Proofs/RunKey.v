(* set_run_key_wrapper fills in unset run keys only (C14). *)
From Coq Require Import List Arith Bool.
From BV Require Import Pure.RunKey.
Import ListNotations.

Lemma set_run_key_spec k m :
  fst (set_run_key k m) = fst m /\
  snd (set_run_key k m) = match snd m with None => Some k | Some x => Some x end.
Proof. unfold set_run_key. destruct m as [p [x|]]; split; reflexivity. Qed.

(* one wrapper: same messages in the same order; a message that has a key - any key, 0 included -
   keeps it; a message without one gets k; nothing else changes *)
Theorem wrap_spec k plan :
  List.length (wrap k plan) = List.length plan /\
  map fst (wrap k plan) = map fst plan /\
  map snd (wrap k plan) = map (fun r => match r with None => Some k | Some x => Some x end) (map snd plan).
Proof.
  unfold wrap. rewrite map_length, !map_map. repeat split.
  - apply map_ext. intros m. apply set_run_key_spec.
  - apply map_ext. intros m. apply set_run_key_spec.
Qed.

(* nested wrappers: the inner key wins, whatever the two keys are; a key set by the plan itself wins over both *)
Theorem wrap_nested outer inner plan : wrap outer (wrap inner plan) = wrap inner plan.
Proof.
  unfold wrap. rewrite map_map. apply map_ext. intros [p [x|]]; reflexivity.
Qed.

Theorem wrap_keeps_set_keys k plan :
  Forall (fun m => snd m <> None) plan -> wrap k plan = plan.
Proof.
  unfold wrap. induction 1 as [|[p [x|]] l H _ IH]; cbn; [reflexivity | rewrite IH; reflexivity | exfalso; apply H; reflexivity].
Qed.

(* after a wrapper no message is left without a key: every message is addressed to some run *)
Theorem wrap_total k plan : Forall (fun m => snd m <> None) (wrap k plan).
Proof. unfold wrap. apply Forall_forall. intros m Hm. apply in_map_iff in Hm as ([p [x|]] & <- & _); cbn; discriminate. Qed.
