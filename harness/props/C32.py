"""C32 - the plan simulator replays plans faithfully.

Generated plans (a small tree DSL: yield a message, branch on the value sent back, return / return
everything received / raise) x generated handler sets (add_handler with str/list commands, name /
callable / no filter, default / explicit / negative / "end" index, runnables that return falsy and
truthy values, echo an argument, raise, or add further handlers) are run through the real
RunEngineSimulator.simulate_plan, and plans x devices through check_limits / check_limits_async;
the observations are compared with Gen/Simulator.v."""
import itertools
import warnings

ID = "C32"
PROP_FILE = "Props/C32.v"
THEOREMS = ["C32_simulate_replays", "C32_replay_simulated", "C32_newest_handler_wins", "C32_add_handler_position",
            "C32_check_limits_raises_at_first_offender", "C32_check_limits_ok", "C32_check_limits_sound"]
COQ_IMPORTS = "From BV Require Import Gen.Simulator."
MODELLED = ("RunEngineSimulator.simulate_plan (the send loop, first matching handler, falsy yields, exceptions), "
            "add_handler (predicate glue for str/list commands and None/str/callable filters, list.insert index semantics) "
            "and check_limits_async are modelled; CPython generator send/StopIteration semantics is the coalgebra "
            "interface (validated by running the DSL plans in CPython); runnables are arbitrary functions that may change "
            "the handler list; predicates are total (a filter raising, e.g. add_wait_handler on a message without 'group', "
            "is not modelled); the callback registry (fire_callback), add_read_handler_for*/add_wait_handler wrappers and "
            "the logging are not modelled; devices' check_value is an arbitrary function in the theorems and "
            "'raise unless lo <= v <= hi' in the cases.")
RULE = ("sim: exhaustive over 2 handlers x {match, no match} x index in {default, 0, 1, -1, end} x result in {None, 0, '', False, 1} "
        "on a 2-message plan; random: 1-3 plans per simulator, plan trees of depth <= 6 with <= 3 alternatives per yield, "
        "0-5 handlers with overlapping command sets and filters, nested handler-adding runnables; malformed: falsy yields, "
        "plans raising, runnables raising, echo of a missing argument. limits: random plans x 1-4 devices (checkable or not, "
        "sync/async check_value, shared names), targets inside/outside/at the limits, sets without args / without obj. "
        "non-trivial = some yield was answered by a handler although another handler also matched, or a limit check raised")

CMDS = ["set", "read", "trigger", "wait", "null"]
RESERVED = {"set": 0}


# ------------------------------------------------------------------ case generation

def _rv(rng):
    return rng.choice([None, 0, 1, 5, "", "x", False, True])


def _rand_msg(rng, devs, falsy_p=0.03):
    if rng.random() < falsy_p:
        return None
    cmd = rng.choice(CMDS)
    obj = rng.choice(devs)["id"] if (devs and rng.random() < 0.75) else None
    n = rng.choice([0, 1, 1, 1, 2])
    args = [rng.choice([0, 1, 3, 7, -2, "a", None]) for _ in range(n)]
    return {"cmd": cmd, "obj": obj, "args": args}


def _rand_plan(rng, devs, depth, answers):
    x = rng.random()
    if depth <= 0 or x < 0.12:
        y = rng.random()
        if y < 0.45:
            return ["retrecv"]
        if y < 0.9:
            return ["ret", rng.choice([None, 0, 1, "done", True, {"t": [1, "a"]}])]
        return ["raise", rng.randint(10, 12)]
    alts = []
    for v in rng.sample(answers, min(len(answers), rng.choice([0, 0, 1, 2, 3]))):
        alts.append([v, _rand_plan(rng, devs, depth - 1 - rng.randint(0, 2), answers)])
    return ["yield", _rand_msg(rng, devs), alts, _rand_plan(rng, devs, depth - 1, answers)]


_hid = [0]


def _rand_handler(rng, devs, depth=0):
    _hid[0] += 1
    hid = _hid[0]
    k = rng.random()
    if k < 0.35:
        cmds = rng.choice(CMDS)
    else:
        cmds = rng.sample(CMDS, rng.randint(1, 3))
    f = rng.random()
    if f < 0.45 or not devs:
        filt = None
    elif f < 0.7:
        filt = {"name": rng.choice(devs)["name"]}
    elif f < 0.85:
        filt = {"arg_gt": rng.choice([0, 2, 5])}
    else:
        filt = {"has_obj": True}
    r = rng.random()
    if r < 0.7:
        res = ["const", _rv(rng)]
    elif r < 0.9:
        res = ["arg0"]
    else:
        res = ["raise", rng.randint(20, 22)]
    adds = []
    if depth < 2 and rng.random() < 0.2:
        for _ in range(rng.randint(1, 2)):
            adds.append(_rand_add(rng, devs, depth + 1))
    h = {"id": hid, "cmds": cmds, "filter": filt, "res": res, "adds": adds}
    v = rng.random()
    if v < 0.12:
        # installed through the convenience wrapper add_wait_handler (GROUP_ANY) = add_handler("wait", h, <always true>)
        h.update(cmds="wait", filter=None, via="wait")
    elif v < 0.24 and devs:
        # installed through add_read_handler_for_multiple(obj, k={...}) = add_handler("read", <const dict>, obj.name)
        d = rng.choice(devs)
        val = rng.choice([0, 1, "x", None])
        h.update(cmds="read", filter={"name": d["name"]}, via="read", via_obj=d["id"], via_kv=["k%d" % rng.randint(0, 1), val],
                 adds=[])
        h["res"] = ["const", {"t": [{"t": [h["via_kv"][0], {"t": [{"t": ["value", val]}]}]}]}]
    return h


def _rand_add(rng, devs, depth=0):
    h = _rand_handler(rng, devs, depth)
    return ["default" if h.get("via") else _rand_index(rng), h]


def _rand_index(rng):
    return rng.choice(["default", "default", "default", "end", 0, 1, 2, -1, -2, 5, -7])


def _rand_devs(rng):
    out = []
    for i in range(rng.randint(1, 4)):
        checkable = rng.random() < 0.65
        name = "m%d" % (i if not checkable or rng.random() < 0.7 else 0)
        out.append({"id": i + 1, "name": name, "checkable": checkable, "lo": rng.choice([-5, 0, 1]),
                    "hi": rng.choice([1, 3, 10]), "async": rng.random() < 0.3})
    return out


def _answers_of(setup):
    vals = [None]

    def walk(h):
        if h["res"][0] == "const" and h["res"][1] not in vals:
            vals.append(h["res"][1])
        for _, s in h["adds"]:
            walk(s)
    for _, h in setup:
        walk(h)
    return vals + [0, 1, 3, 7, "a"]


def _dedupe(vals):
    out = []
    for v in vals:
        if not any(type(v) is type(w) and v == w for w in out):
            out.append(v)
    return out


def _rand_sim_case(rng):
    _hid[0] = 0
    devs = _rand_devs(rng)
    setup = [_rand_add(rng, devs) for _ in range(rng.randint(0, 5))]
    answers = _dedupe(_answers_of(setup))
    plans = [_rand_plan(rng, devs, rng.randint(1, 6), answers) for _ in range(rng.randint(1, 3))]
    return {"kind": "sim", "devices": devs, "setup": setup, "plans": plans}


def _rand_limits_case(rng):
    devs = _rand_devs(rng)

    def plan(depth):
        if depth <= 0:
            return rng.choice([["ret", None], ["ret", 1], ["raise", 10]]) if rng.random() < 0.25 else ["ret", None]
        x = rng.random()
        if x < 0.02:
            m = None
        elif x < 0.75:
            d = rng.choice(devs)
            args = [rng.choice([d["lo"], d["hi"], d["lo"] - 1, d["hi"] + 1, 0, 1, 2])] if rng.random() < 0.95 else []
            m = {"cmd": "set", "obj": d["id"] if rng.random() < 0.97 else None, "args": args + ([9] if rng.random() < 0.2 else [])}
        else:
            m = _rand_msg(rng, devs, 0.0)
        alts = [[None, plan(depth - 1)]] if rng.random() < 0.3 else []
        return ["yield", m, alts, plan(depth - 1) if not alts else ["raise", 11]]
    return {"kind": "limits", "devices": devs, "plan": plan(rng.randint(0, 8)), "variant": rng.choice(["sync", "sync", "async"])}


def _exhaustive():
    out = []
    dev = [{"id": 1, "name": "m1", "checkable": True, "lo": 0, "hi": 5, "async": False}]
    msg = {"cmd": "read", "obj": 1, "args": []}
    plan = ["yield", msg, [], ["yield", {"cmd": "set", "obj": 1, "args": [3]}, [], ["retrecv"]]]
    for idx in ["default", 0, 1, -1, "end"]:
        for res in [None, 0, "", False, 1]:
            for first_matches, second_matches in itertools.product([False, True], repeat=2):
                h1 = {"id": 1, "cmds": "read" if first_matches else "wait", "filter": None, "res": ["const", "first"], "adds": []}
                h2 = {"id": 2, "cmds": ["read", "set"] if second_matches else ["null"], "filter": {"name": "m1"},
                      "res": ["const", res], "adds": []}
                out.append({"kind": "sim", "devices": dev, "setup": [["default", h1], [idx, h2]], "plans": [plan]})
    return out


def cases(rng, tier):
    out = _exhaustive()
    n = 300 if tier == "quick" else 5000
    for _ in range(n):
        out.append(_rand_sim_case(rng))
    for _ in range(n // 2):
        out.append(_rand_limits_case(rng))
    dev = [{"id": 1, "name": "m1", "checkable": True, "lo": 0, "hi": 5, "async": False},
           {"id": 2, "name": "m2", "checkable": False, "lo": 0, "hi": 0, "async": False}]
    # malformed / edge stream
    out.append({"kind": "sim", "devices": dev, "setup": [], "plans": [["yield", None, [], ["ret", 1]], ["ret", 2], ["raise", 10]]})
    out.append({"kind": "sim", "devices": dev, "setup": [["default", {"id": 1, "cmds": "null", "filter": None, "res": ["arg0"], "adds": []}]],
                "plans": [["yield", {"cmd": "null", "obj": None, "args": []}, [], ["ret", 1]]]})
    out.append({"kind": "limits", "devices": dev, "variant": "sync",
                "plan": ["yield", {"cmd": "set", "obj": 2, "args": [99]}, [], ["yield", {"cmd": "set", "obj": 2, "args": []}, [],
                         ["yield", {"cmd": "set", "obj": 1, "args": [6]}, [], ["ret", None]]]]})
    out.append({"kind": "limits", "devices": dev, "variant": "async",
                "plan": ["yield", {"cmd": "set", "obj": None, "args": [1]}, [], ["ret", None]]})
    return out


# ------------------------------------------------------------------ running the implementation

class PlanErr(Exception):
    pass


class HandlerErr(Exception):
    pass


class LimitErr(Exception):
    pass


def _pyval(v):
    if isinstance(v, dict):
        return tuple(_pyval(x) for x in v["t"])
    return v


def _jval(v):
    if isinstance(v, tuple):
        return {"t": [_jval(x) for x in v]}
    if isinstance(v, dict):           # a handler answering with a dict (add_read_handler_for_multiple): tuple of (key, value) pairs
        return {"t": [{"t": [k, _jval(x)]} for k, x in v.items()]}
    return v


def _same(a, b):
    if isinstance(a, tuple) and isinstance(b, tuple):
        return len(a) == len(b) and all(_same(x, y) for x, y in zip(a, b))
    return type(a) is type(b) and a == b


def _mk_devices(devs):
    out = {}
    for d in devs:
        if d["checkable"]:
            if d["async"]:
                class Dev:
                    async def check_value(self, v, _d=d):
                        if not (isinstance(v, int) and not isinstance(v, bool) and _d["lo"] <= v <= _d["hi"]):
                            raise LimitErr(_d["id"], v)
            else:
                class Dev:
                    def check_value(self, v, _d=d):
                        if not (isinstance(v, int) and not isinstance(v, bool) and _d["lo"] <= v <= _d["hi"]):
                            raise LimitErr(_d["id"], v)
        else:
            class Dev:
                pass
        o = Dev()
        o.name = d["name"]
        o.did = d["id"]
        out[d["id"]] = o
    return out


def _mk_msg(m, objs):
    from bluesky.utils import Msg
    if m is None:
        return None
    return Msg(m["cmd"], objs[m["obj"]] if m["obj"] is not None else None, *[_pyval(a) for a in m["args"]])


def _interp(ast, objs, log):
    recv = []
    node = ast
    while True:
        k = node[0]
        if k == "ret":
            log["returned"] = True
            return _pyval(node[1])
        if k == "retrecv":
            log["returned"] = True
            return tuple(recv)
        if k == "raise":
            raise PlanErr(node[1])
        msg = _mk_msg(node[1], objs)
        log["yielded"].append(msg)
        r = yield msg
        recv.append(r)
        log["recv"].append(r)
        nxt = node[3]
        for v, sub in node[2]:
            if _same(_pyval(v), _pyval(_jval(r))):
                nxt = sub
                break
        node = nxt


def _install(sim, idx, spec):
    def runnable(msg, _s=spec):
        for i, sub in _s["adds"]:
            _install(sim, i, sub)
        r = _s["res"]
        if r[0] == "const":
            return _pyval(r[1])
        if r[0] == "arg0":
            return msg.args[0]
        raise HandlerErr(r[1])
    runnable.hid = spec["id"]
    f = spec["filter"]
    if f is None:
        flt = None
    elif "name" in f:
        flt = f["name"]
    elif "arg_gt" in f:
        def flt(msg, _z=f["arg_gt"]):
            return (len(msg.args) > 0 and isinstance(msg.args[0], int) and not isinstance(msg.args[0], bool)
                    and msg.args[0] > _z)
    else:
        def flt(msg):
            return msg.obj is not None
    kw = {} if idx == "default" else {"index": idx}
    via = spec.get("via")
    if via == "wait":
        sim.add_wait_handler(runnable)
    elif via == "read":
        k, v = spec["via_kv"]
        sim.add_read_handler_for_multiple(sim._verif_objs[spec["via_obj"]], **{k: {"value": v}})
        for h in sim.message_handlers:          # the wrapper's own closure is the runnable: tag it with the handler id
            if not hasattr(h.runnable, "hid"):
                h.runnable.hid = spec["id"]
    else:
        sim.add_handler(spec["cmds"], runnable, flt, **kw)


def _proj_msg(m):
    if m is None:
        return None
    return {"cmd": m.command, "obj": getattr(m.obj, "did", None) if m.obj is not None else None,
            "args": [_jval(a) for a in m.args], "extra": bool(m.kwargs) or m.run is not None}


_LOOP = {}


def _ensure_loop():
    if "re" not in _LOOP:
        from bluesky import RunEngine
        _LOOP["re"] = RunEngine({}, context_managers=[])


def impl(case):
    objs = _mk_devices(case["devices"])
    if case["kind"] == "sim":
        from bluesky.simulators import RunEngineSimulator
        sim = RunEngineSimulator()
        sim._verif_objs = objs
        for idx, spec in case["setup"]:
            _install(sim, idx, spec)
        out = {"hids0": [h.runnable.hid for h in sim.message_handlers], "rv0": _jval(sim.return_value), "calls": []}
        for ast in case["plans"]:
            log = {"yielded": [], "recv": [], "returned": False}
            res, exc = None, None
            try:
                res = sim.simulate_plan(_interp(ast, objs, log))
            except PlanErr as e:
                exc = ["plan", e.args[0]]
            except HandlerErr as e:
                exc = ["handler", e.args[0]]
            except IndexError:
                exc = ["handler", 1]
            except Exception as e:  # noqa: BLE001
                exc = ["other", type(e).__name__]
            same_objects = res is not None and len(res) == len([m for m in log["yielded"] if m is not None]) and all(
                a is b for a, b in zip(res, log["yielded"]))
            out["calls"].append({
                "yielded": [_proj_msg(m) for m in log["yielded"]],
                "returned_msgs": None if res is None else [_proj_msg(m) for m in res],
                "same_objects": same_objects, "plan_returned": log["returned"],
                "recv": [_jval(r) for r in log["recv"]], "exc": exc, "rv": _jval(sim.return_value),
                "hids": [h.runnable.hid for h in sim.message_handlers]})
        return out
    # check_limits
    from bluesky.simulators import check_limits, check_limits_async
    log = {"yielded": [], "recv": [], "returned": False}
    gen = _interp(case["plan"], objs, log)
    res = {"result": "ok"}
    with warnings.catch_warnings(record=True) as w:
        warnings.simplefilter("always")
        try:
            if case["variant"] == "sync":
                _ensure_loop()
                check_limits(gen)
            else:
                import asyncio
                asyncio.run(check_limits_async(gen))
        except LimitErr as e:
            res = {"result": "limit", "dev": e.args[0], "value": _jval(e.args[1])}
        except PlanErr as e:
            res = {"result": "plan_raised", "code": e.args[0]}
        except IndexError:
            res = {"result": "error", "code": 1}
        except AttributeError:
            res = {"result": "error", "code": 2}
        except Exception as e:  # noqa: BLE001
            res = {"result": "other", "cls": type(e).__name__, "msg": str(e)[:200]}
    res["warned"] = [str(x.message).split(" has no check_value")[0] for x in w if "has no check_value" in str(x.message)]
    res["other_warnings"] = [str(x.message)[:80] for x in w if "has no check_value" not in str(x.message)
                             and "never awaited" not in str(x.message)]
    res["consumed"] = len(log["yielded"])
    res["recv_all_none"] = all(r is None for r in log["recv"])
    return res


# ------------------------------------------------------------------ Coq terms

class Interner:
    def __init__(self):
        self.t = dict(RESERVED)

    def __call__(self, s):
        if s not in self.t:
            self.t[s] = len(self.t) + 10
        return "%d%%N" % self.t[s]


def cl(xs, f=str):
    return "[" + "; ".join(f(x) for x in xs) + "]"


def cb(b):
    return "true" if b else "false"


def _cval(I, v):
    if v is None:
        return "VNone"
    if isinstance(v, bool):
        return "(VBool %s)" % cb(v)
    if isinstance(v, int):
        return "(VInt (%d)%%Z)" % v
    if isinstance(v, str):
        return "(VStr %s)" % I("s:" + v)
    if isinstance(v, dict):
        return "(VTuple %s)" % cl(v["t"], lambda x: _cval(I, x))
    raise ValueError(v)


def _cdev(I, d):
    return "{| d_id := %d%%N; d_name := %s; d_checkable := %s; d_lo := (%d)%%Z; d_hi := (%d)%%Z |}" % (
        d["id"], I("n:" + d["name"]), cb(d["checkable"]), d["lo"], d["hi"])


def _cmsg(I, m, devs):
    obj = "None" if m["obj"] is None else "(Some %s)" % _cdev(I, devs[m["obj"]])
    return "{| m_cmd := %s; m_obj := %s; m_args := %s |}" % (I(m["cmd"]), obj, cl(m["args"], lambda a: _cval(I, a)))


def _cplan(I, p, devs):
    if p[0] == "ret":
        return "(DRet %s)" % _cval(I, p[1])
    if p[0] == "retrecv":
        return "DRetRecv"
    if p[0] == "raise":
        return "(DRaise %d%%N)" % p[1]
    y = "YFalsy" if p[1] is None else "(YMsg %s)" % _cmsg(I, p[1], devs)
    return "(DYield %s %s %s)" % (y, cl(p[2], lambda a: "(%s, %s)" % (_cval(I, a[0]), _cplan(I, a[1], devs))),
                                  _cplan(I, p[3], devs))


def _cindex(idx):
    if idx == "default":
        return "(IdxInt 0%Z)"
    if idx == "end":
        return "IdxEnd"
    return "(IdxInt (%d)%%Z)" % idx


def _chandler(I, h):
    cmds = [h["cmds"]] if isinstance(h["cmds"], str) else h["cmds"]
    f = h["filter"]
    if f is None:
        ft = "FNone"
    elif "name" in f:
        ft = "(FName %s)" % I("n:" + f["name"])
    elif "arg_gt" in f:
        ft = "(FArgGt (%d)%%Z)" % f["arg_gt"]
    else:
        ft = "FHasObj"
    r = h["res"]
    rt = "(RConst %s)" % _cval(I, r[1]) if r[0] == "const" else "RArg0" if r[0] == "arg0" else "(RRaise %d%%N)" % r[1]
    return "(HS %d%%N %s %s %s %s)" % (h["id"], cl(cmds, I), ft, rt,
                                     cl(h["adds"], lambda a: "(%s, %s)" % (_cindex(a[0]), _chandler(I, a[1]))))


def _cfinal(I, c):
    if c["exc"] is not None:
        if c["exc"][0] == "plan":
            return "FPlanRaised %d%%N" % c["exc"][1]
        if c["exc"][0] == "handler":
            return "FHandlerRaised %d%%N" % c["exc"][1]
        return None
    if c["plan_returned"]:
        return "FReturned %s" % _cval(I, c["rv"])
    return "FStopped"


def coq_term(case, obs):
    I = Interner()
    devs = {d["id"]: d for d in case["devices"]}
    if case["kind"] == "sim":
        setup = cl(case["setup"], lambda s: "(%s, %s)" % (_cindex(s[0]), _chandler(I, s[1])))
        plans = cl(case["plans"], lambda p: _cplan(I, p, devs))
        exp = []
        for c in obs["calls"]:
            fin = _cfinal(I, c)
            if fin is None or any(m is not None and m["extra"] for m in c["yielded"]):
                return "false"
            if c["returned_msgs"] is not None and (c["returned_msgs"] != [m for m in c["yielded"] if m is not None]
                                                   or not c["same_objects"]):
                return "false"
            msgs = cl([m for m in c["yielded"] if m is not None], lambda m: _cmsg(I, m, devs))
            exp.append("(%s, %s, %s, %s)" % (msgs, fin, _cval(I, c["rv"]), cl(c["hids"], lambda h: "%d%%N" % h)))
        return ("(let hs := setup %s in list_beq N.eqb (map hs_id hs) %s && sim_obs_beq (sim_calls 64 hs %s %s) %s)" % (
            setup, cl(obs["hids0"], lambda h: "%d%%N" % h), _cval(I, obs["rv0"]), plans, cl(exp)))
    plan = _cplan(I, case["plan"], devs)
    r = obs["result"]
    byname = {}
    for d in case["devices"]:
        if not d["checkable"]:
            byname.setdefault(d["name"], []).append(d)
    if r == "ok":
        ws = []
        for n in obs["warned"]:
            if len(byname.get(n, [])) != 1:
                return "false"
            ws.append(byname[n][0])
        exp = "(CLOk %s)" % cl(ws, lambda d: _cdev(I, d))
    elif r == "limit":
        exp = "(CLLimit %s %s)" % (_cdev(I, devs[obs["dev"]]), _cval(I, obs["value"]))
    elif r == "plan_raised":
        exp = "(CLPlanRaised %d%%N)" % obs["code"]
    elif r == "error":
        exp = "(CLError %d%%N)" % obs["code"]
    else:
        return "false"
    if obs["other_warnings"] or not obs["recv_all_none"]:
        return "false"
    return "cl_beq (check_limits dstate dresume in_limits 64 (Fresh %s) []) %s" % (plan, exp)


# ------------------------------------------------------------------ impl-side oracle (the property itself)

def _matches(h, m):
    cmds = [h["cmds"]] if isinstance(h["cmds"], str) else h["cmds"]
    if m["cmd"] not in cmds:
        return False
    f = h["filter"]
    if f is None:
        return True
    if "name" in f:
        return m["obj"] is not None and m["objname"] == f["name"]
    if "arg_gt" in f:
        return bool(m["args"]) and isinstance(m["args"][0], int) and not isinstance(m["args"][0], bool) and m["args"][0] > f["arg_gt"]
    return m["obj"] is not None


def _py_insert(hs, idx, h):
    if idx == "default":
        idx = 0
    if idx == "end":
        idx = len(hs)
    hs.insert(idx, h)


def _oracle_sim(case, obs):
    devs = {d["id"]: d for d in case["devices"]}
    hs = []
    for idx, h in case["setup"]:
        _py_insert(hs, idx, h)
    if [h["id"] for h in hs] != obs["hids0"]:
        return "handler order after add_handler calls is %r, documented index semantics gives %r" % (obs["hids0"], [h["id"] for h in hs])
    rv = None
    for ci, (ast, c) in enumerate(zip(case["plans"], obs["calls"])):
        where = "simulate_plan call %d: " % ci
        if c["exc"] is not None and c["exc"][0] == "other":
            return where + "unexpected exception " + c["exc"][1]
        ys = [m for m in c["yielded"] if m is not None]
        if c["exc"] is None:
            if c["returned_msgs"] is None:
                return where + "no message list returned"
            if c["returned_msgs"] != ys or not c["same_objects"]:
                return where + "returned messages differ from the messages the plan yielded (in order)"
        # each yield answered by the first matching handler of the current list, else None
        for k, m in enumerate(ys):
            mm = dict(m, objname=devs[m["obj"]]["name"] if m["obj"] is not None else None)
            h = next((h for h in hs if _matches(h, mm)), None)
            expect_exc = None
            if h is None:
                ans = None
            else:
                for i, sub in h["adds"]:
                    _py_insert(hs, i, sub)
                if h["res"][0] == "const":
                    ans = _pyval(h["res"][1])
                elif h["res"][0] == "arg0":
                    if m["args"]:
                        ans = _pyval(m["args"][0])
                    else:
                        expect_exc = ["handler", 1]
                else:
                    expect_exc = ["handler", h["res"][1]]
            if expect_exc is not None:
                if c["exc"] != expect_exc or k != len(ys) - 1:
                    return where + "handler %d raises on message %d, observed %r" % (h["id"], k, c["exc"])
                break
            if k < len(c["recv"]):
                if not _same(_pyval(c["recv"][k]), ans):
                    return where + "yield %d received %r, the first matching handler (%s) gives %r" % (
                        k, c["recv"][k], "none" if h is None else h["id"], ans)
            else:
                return where + "yield %d was never answered" % k
        if c["plan_returned"]:
            rv = _pyval(c["rv"]) if c["exc"] is None else rv
            if c["exc"] is not None:
                return where + "plan returned but simulate_plan raised %r" % (c["exc"],)
        if not _same(_pyval(c["rv"]), rv):
            return where + "return_value is %r, expected %r" % (c["rv"], _jval(rv))
        if [h["id"] for h in hs] != c["hids"]:
            return where + "handler list afterwards %r, expected %r" % (c["hids"], [h["id"] for h in hs])
    return None


def _oracle_limits(case, obs):
    devs = {d["id"]: d for d in case["devices"]}
    node = case["plan"]
    warned, seen_bad = [], False
    expect = None
    consumed = 0
    while expect is None:
        if node[0] in ("ret", "retrecv"):
            expect = {"result": "ok"}
            break
        if node[0] == "raise":
            expect = {"result": "plan_raised", "code": node[1]}
            break
        m = node[1]
        consumed += 1
        if m is None:
            expect = {"result": "error", "code": 2}
            break
        if m["cmd"] == "set":
            if m["obj"] is None:
                expect = {"result": "error", "code": 2}
                break
            d = devs[m["obj"]]
            if d["id"] not in warned:
                if not m["args"]:
                    expect = {"result": "error", "code": 1}
                    break
                v = m["args"][0]
                if d["checkable"]:
                    if not (isinstance(v, int) and not isinstance(v, bool) and d["lo"] <= v <= d["hi"]):
                        expect = {"result": "limit", "dev": d["id"], "value": v}
                        break
                else:
                    warned.append(d["id"])
        nxt = node[3]
        for v, sub in node[2]:
            if v is None:
                nxt = sub
                break
        node = nxt
    if obs["result"] == "other":
        return "check_limits raised unexpected %s: %s" % (obs["cls"], obs["msg"])
    got = {k: obs.get(k) for k in expect}
    if got != expect:
        if expect["result"] == "limit":
            return "set of device %d to %r is outside its limits but check_limits gave %r" % (expect["dev"], expect["value"], got)
        if obs["result"] == "limit":
            return "check_limits raised for device %r value %r although no checked set is out of limits before it: expected %r" % (
                obs.get("dev"), obs.get("value"), expect)
        return "check_limits gave %r, expected %r" % ({k: obs.get(k) for k in ("result", "dev", "value", "code")}, expect)
    if obs["result"] == "ok" and obs["warned"] != [devs[i]["name"] for i in warned]:
        return "devices warned about: %r, expected %r" % (obs["warned"], [devs[i]["name"] for i in warned])
    if obs["consumed"] != consumed:
        return "check_limits consumed %d messages, expected %d" % (obs["consumed"], consumed)
    return None


def oracle(case, obs):
    return _oracle_sim(case, obs) if case["kind"] == "sim" else _oracle_limits(case, obs)


def nontrivial(case, obs):
    if case["kind"] == "limits":
        return obs["result"] == "limit"
    devs = {d["id"]: d for d in case["devices"]}
    hs = [h for _, h in case["setup"]]
    for c in obs["calls"]:
        for m in c["yielded"]:
            if m is None:
                continue
            mm = dict(m, objname=devs[m["obj"]]["name"] if m["obj"] is not None else None)
            if sum(1 for h in hs if _matches(h, mm)) >= 2:
                return True
    return False


def describe(case):
    if case["kind"] == "limits":
        return "limits/%s devs=%d" % (case["variant"], len(case["devices"]))
    nh = len(case["setup"])
    nested = any(h["adds"] for _, h in case["setup"])
    return "sim plans=%d handlers=%s%s" % (len(case["plans"]), "0" if nh == 0 else "1-2" if nh <= 2 else "3-5",
                                          " nested" if nested else "")


def model_search(rng, tier):
    return None
