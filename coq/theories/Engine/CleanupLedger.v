(* C06 (flyers, monitor subscriptions, per-call subscriptions) - the cleanup bookkeeping of the RunEngine.

   A small dedicated model (Engine/RE.v has no flyers, monitors or subscriptions) of exactly the code that
   decides three clauses of C06, read from src/bluesky/run_engine.py and src/bluesky/bundlers.py:
     RunEngine._open_run / _close_run (key checks, the bundler is deleted only after RunBundler.close_run returned),
     _kickoff (device call first, then RunBundler.kickoff: _uncollected.add), _complete (device call only),
     _collect -> RunBundler.collect (_uncollected.discard BEFORE any device call; describe_collect once per bundler,
     then collect), RunBundler.backstop_collect (collect of every flyer still in _uncollected, errors swallowed),
     _monitor -> RunBundler.monitor (already-monitored check, describe once per bundler, _monitor_params[obj] set
     BEFORE obj.subscribe, subscribe only when no pause/suspension is under way), _unmonitor -> RunBundler.unmonitor
     (clear_sub, then del), the loop in RunBundler.close_run (clear_sub; del - the first raising clear_sub ends it and
     the run stays open), RunBundler.clear_monitors (clear_sub; del only when it did not raise),
     suspend_monitors / restore_monitors as called by the pause block of _run and at the wake-up,
     _subscribe / _unsubscribe (in-plan subscriptions: _temp_callback_ids.add / dispatcher.unsubscribe THEN
     _temp_callback_ids.remove, which raises KeyError for a token that is not temporary),
     RunEngine.subscribe / unsubscribe from the main thread (Dispatcher.subscribe: tokens from a counter;
     Dispatcher.unsubscribe: pop, unknown tokens ignored),
     __call__: _clear_call_cache (unsubscribe every id in _temp_callback_ids, clear the set) and then one
     subscribe per per-call callback, and the finally block of _run in its order: (_stop_movable_objects: no device
     of this model is movable), for every bundler clear_monitors then backstop_collect, (unstage: none), for every
     bundler close_run inside try/except, _run_bundlers.clear().
   A "call" is OStart n :: ops ++ [OFinally]: completion, a plan exception, a device exception, abort/stop/halt
   after a pause and a failed pause all end in the same finally block; the ops are the messages the engine got to
   process (plus OPause/OWake: the pause block and the wake-up of _run, and main-thread subscribe/unsubscribe).

   Devices are an oracle: [fails n] says whether the n-th device call (counted from 0 over the whole session)
   raises; every device call and every dispatcher subscribe/unsubscribe goes to the ledger [wl].
   Ghost fields (history only, never read by the modelled code): [g_lost] flyers that were in _uncollected of a
   bundler deleted by a plan's close_run; [g_dropped] the bundlers deleted during the current call with their final
   bookkeeping (what a reference to the RunBundler object shows afterwards).
   Sets: _uncollected and _temp_callback_ids are kept ascending (the harness gives its fake flyers their index as
   hash; the unsubscribe calls of _clear_call_cache are compared as a sorted block).
   Not modelled: callbacks that raise while a document is emitted (a RunStop that cannot be emitted leaves
   run_is_open = True with the bundler still registered), devices that are also Configurable / Stoppable / Pausable,
   suspenders (_start_suspender / _resume_from_suspender: see Engine/Monitors.v), rewinding (the harness puts a
   checkpoint before every pause), collect of several objects at once, declared streams.
   No proofs here. *)
From BV Require Import Base.Prelude.
From Coq Require Import NArith.

Definition key := N.
Definition dev := N.
Definition cbid := N.
Definition token := N.

Inductive meth :=
| MDescribe | MDescribeCollect | MKickoff | MComplete | MCollect
| MSubscribe (c : cbid) | MClearSub (c : cbid).

Inductive sorigin := SPerCall | SInPlan | SMain.       (* who subscribed: RE(plan, subs) / Msg('subscribe') / RE.subscribe *)
Inductive uorigin := UPlan | UMain | UClear.           (* who unsubscribed: Msg('unsubscribe') / RE.unsubscribe / _clear_call_cache *)

Inductive entry :=
| EDev (d : dev) (m : meth) (ok : bool)     (* device call and whether it returned (true) or raised (false) *)
| ESub (o : sorigin) (t : token)            (* Dispatcher.subscribe returned token t *)
| EUnsub (o : uorigin) (t : token).         (* Dispatcher.unsubscribe(t) was called *)

Record bund := mkB {
  b_id : N;                        (* number of the open_run that created the bundler (ghost, identifies the object) *)
  b_unc : list dev;                (* _uncollected *)
  b_mon : list (dev * cbid);       (* _monitor_params in insertion order: obj -> callback *)
  b_susp : nat;                    (* _monitor_suspensions *)
  b_desc : list dev;               (* _describe_cache keys *)
  b_dcol : list dev                (* _describe_collect_cache keys *)
}.

Record world := mkW { wn : N; wl : list entry }.   (* number of device calls so far, the ledger *)

Record st := mkS {
  runs : list (key * bund);        (* _run_bundlers in insertion order *)
  temp : list token;               (* _temp_callback_ids *)
  disp : list token;               (* Dispatcher._token_mapping keys *)
  ntok : N;                        (* Dispatcher._counter *)
  ncb : N;                         (* number of 'monitor' messages so far: names the callback a message creates *)
  nrun : N;                        (* number of bundlers created so far *)
  w : world;
  g_lost : list dev;
  g_dropped : list bund
}.

Definition init : st := mkS [] [] [] 0 0 0 (mkW 0 []) [] [].

Inductive op :=
| OStart (nsubs : nat)             (* __call__: _clear_call_cache, then one subscribe per per-call callback *)
| OOpen (k : key)
| OClose (k : key)
| OKickoff (k : key) (f : dev)
| OComplete (f : dev)
| OCollect (k : key) (f : dev)
| OMonitor (k : key) (d : dev)
| OUnmonitor (k : key) (d : dev)
| OSubscribe (valid : bool)        (* Msg('subscribe', None, cb, name); valid = name is a document name *)
| OUnsubscribe (t : token)         (* Msg('unsubscribe', token=t) *)
| OPause                           (* the pause block of _run *)
| OWake                            (* _run wakes up from the pause (resume/abort/stop/halt) *)
| OMainSub                         (* RE.subscribe(cb) from the main thread: a permanent subscription *)
| OMainUnsub (t : token)           (* RE.unsubscribe(t) from the main thread *)
| OFinally.                        (* the finally block of _run *)

(* ---------------------------------------------------------------- small list helpers *)

Definition memN (x : N) (l : list N) : bool := existsb (N.eqb x) l.
Definition delN (x : N) (l : list N) : list N := filter (fun y => negb (N.eqb x y)) l.

(* ascending insertion without duplicates *)
Fixpoint insN (x : N) (l : list N) : list N :=
  match l with
  | [] => [x]
  | y :: t => if N.ltb x y then x :: y :: t else if N.eqb x y then y :: t else y :: insN x t
  end.

Fixpoint lookup {A} (k : N) (l : list (N * A)) : option A :=
  match l with
  | [] => None
  | (k', a) :: t => if N.eqb k k' then Some a else lookup k t
  end.

Fixpoint update {A} (k : N) (a : A) (l : list (N * A)) : list (N * A) :=
  match l with
  | [] => []
  | (k', a') :: t => if N.eqb k k' then (k', a) :: t else (k', a') :: update k a t
  end.

Fixpoint remove_key {A} (k : N) (l : list (N * A)) : list (N * A) :=
  match l with
  | [] => []
  | (k', a') :: t => if N.eqb k k' then t else (k', a') :: remove_key k t
  end.

(* ---------------------------------------------------------------- setters *)

Definition set_unc (b : bund) (u : list dev) := mkB (b_id b) u (b_mon b) (b_susp b) (b_desc b) (b_dcol b).
Definition set_mon (b : bund) (m : list (dev * cbid)) := mkB (b_id b) (b_unc b) m (b_susp b) (b_desc b) (b_dcol b).
Definition set_susp (b : bund) (n : nat) := mkB (b_id b) (b_unc b) (b_mon b) n (b_desc b) (b_dcol b).
Definition set_desc (b : bund) (l : list dev) := mkB (b_id b) (b_unc b) (b_mon b) (b_susp b) l (b_dcol b).
Definition set_dcol (b : bund) (l : list dev) := mkB (b_id b) (b_unc b) (b_mon b) (b_susp b) (b_desc b) l.

Definition set_runs (s : st) (r : list (key * bund)) :=
  mkS r (temp s) (disp s) (ntok s) (ncb s) (nrun s) (w s) (g_lost s) (g_dropped s).
Definition set_w (s : st) (x : world) :=
  mkS (runs s) (temp s) (disp s) (ntok s) (ncb s) (nrun s) x (g_lost s) (g_dropped s).
Definition set_rw (s : st) (r : list (key * bund)) (x : world) := set_w (set_runs s r) x.

Definition note (x : world) (e : entry) : world := mkW (wn x) (wl x ++ [e]).

Section Model.
(* the fault oracle: does the n-th device call raise? *)
Variable fails : N -> bool.

Definition dcall (x : world) (d : dev) (m : meth) : world * bool :=
  let ok := negb (fails (wn x)) in
  (mkW (N.succ (wn x)) (wl x ++ [EDev d m ok]), ok).

(* ---------------------------------------------------------------- RunBundler *)

(* the loop of RunBundler.close_run: clear_sub, del; the first raising clear_sub ends it *)
Fixpoint clear_strict (mon : list (dev * cbid)) (x : world) : list (dev * cbid) * world * bool :=
  match mon with
  | [] => ([], x, true)
  | (d, c) :: t =>
      let '(x1, ok) := dcall x d (MClearSub c) in
      if ok then clear_strict t x1 else ((d, c) :: t, x1, false)
  end.

(* RunBundler.clear_monitors: errors are logged, the entry is deleted only when clear_sub returned *)
Fixpoint clear_lenient (mon : list (dev * cbid)) (x : world) : list (dev * cbid) * world :=
  match mon with
  | [] => ([], x)
  | (d, c) :: t =>
      let '(x1, ok) := dcall x d (MClearSub c) in
      let '(t', x2) := clear_lenient t x1 in
      (if ok then t' else (d, c) :: t', x2)
  end.

(* for obj, (cb, kwargs) in self._monitor_params.items(): obj.<m>(cb) - nothing is deleted, the first error ends it *)
Fixpoint call_all (m : cbid -> meth) (mon : list (dev * cbid)) (x : world) : world * bool :=
  match mon with
  | [] => (x, true)
  | (d, c) :: t =>
      let '(x1, ok) := dcall x d (m c) in
      if ok then call_all m t x1 else (x1, false)
  end.

Definition suspend_b (b : bund) (x : world) : bund * world * bool :=
  match b_susp b with
  | O => let '(x1, ok) := call_all MClearSub (b_mon b) x in
         if ok then (set_susp b 1, x1, true) else (b, x1, false)
  | S n => (set_susp b (S (S n)), x, true)
  end.

Definition restore_b (b : bund) (x : world) : bund * world * bool :=
  match b_susp b with
  | O => (b, x, true)
  | S O => let '(x1, ok) := call_all MSubscribe (b_mon b) x in (set_susp b 0, x1, ok)
  | S (S n) => (set_susp b (S n), x, true)
  end.

Definition close_b (b : bund) (x : world) : bund * world * bool :=
  let '(mon', x1, ok) := clear_strict (b_mon b) x in (set_mon b mon', x1, ok).

Definition kickoff_b (b : bund) (f : dev) (x : world) : bund * world * bool :=
  let '(x1, ok) := dcall x f MKickoff in
  if ok then (set_unc b (insN f (b_unc b)), x1, true) else (b, x1, false).

Definition collect_b (b : bund) (f : dev) (x : world) : bund * world * bool :=
  let b1 := set_unc b (delN f (b_unc b)) in
  if memN f (b_dcol b1) then
    let '(x1, ok) := dcall x f MCollect in (b1, x1, ok)
  else
    let '(x1, ok) := dcall x f MDescribeCollect in
    if ok then
      let '(x2, ok2) := dcall x1 f MCollect in (set_dcol b1 (f :: b_dcol b1), x2, ok2)
    else (b1, x1, false).

(* RunBundler.backstop_collect over the snapshot list(self._uncollected) *)
Fixpoint backstop (fs : list dev) (b : bund) (x : world) : bund * world :=
  match fs with
  | [] => (b, x)
  | f :: t => let '(b1, x1, _) := collect_b b f x in backstop t b1 x1
  end.

Definition has_mon (d : dev) (mon : list (dev * cbid)) : bool := existsb (fun p => N.eqb d (fst p)) mon.

Definition monitor_b (b : bund) (d : dev) (c : cbid) (x : world) : bund * world * bool :=
  if has_mon d (b_mon b) then (b, x, false)
  else
    let '(b1, x1, ok) :=
      if memN d (b_desc b) then (b, x, true)
      else let '(x1, ok) := dcall x d MDescribe in
           if ok then (set_desc b (d :: b_desc b), x1, true) else (b, x1, false) in
    if ok then
      let b2 := set_mon b1 (b_mon b1 ++ [(d, c)]) in
      match b_susp b2 with
      | O => let '(x2, ok2) := dcall x1 d (MSubscribe c) in (b2, x2, ok2)
      | S _ => (b2, x1, true)
      end
    else (b1, x1, false).

Definition unmonitor_b (b : bund) (d : dev) (x : world) : bund * world * bool :=
  match lookup d (b_mon b) with
  | None => (b, x, false)
  | Some c =>
      let '(x1, ok) := dcall x d (MClearSub c) in
      if ok then (set_mon b (remove_key d (b_mon b)), x1, true) else (b, x1, false)
  end.

(* ---------------------------------------------------------------- RunEngine *)

(* for current_run in self._run_bundlers.values(): await current_run.f() - the first error ends the loop *)
Fixpoint for_runs (f : bund -> world -> bund * world * bool) (l : list (key * bund)) (x : world)
  : list (key * bund) * world * bool :=
  match l with
  | [] => ([], x, true)
  | (k, b) :: t =>
      let '(b1, x1, ok) := f b x in
      if ok then let '(t', x2, ok2) := for_runs f t x1 in ((k, b1) :: t', x2, ok2)
      else ((k, b1) :: t, x1, false)
  end.

(* finally block, first loop: clear_monitors then backstop_collect of every bundler *)
Fixpoint fin_clear (l : list (key * bund)) (x : world) : list (key * bund) * world :=
  match l with
  | [] => ([], x)
  | (k, b) :: t =>
      let '(mon', x1) := clear_lenient (b_mon b) x in
      let b1 := set_mon b mon' in
      let '(b2, x2) := backstop (b_unc b1) b1 x1 in
      let '(t', x3) := fin_clear t x2 in
      ((k, b2) :: t', x3)
  end.

(* finally block, second loop: close_run of every bundler inside try/except; the bundlers as they are dropped *)
Fixpoint fin_close (l : list (key * bund)) (x : world) : list bund * world :=
  match l with
  | [] => ([], x)
  | (k, b) :: t =>
      let '(b1, x1, _) := close_b b x in
      let '(t', x2) := fin_close t x1 in
      (b1 :: t', x2)
  end.

Definition finally_block (s : st) : st :=
  let '(l1, x1) := fin_clear (runs s) (w s) in
  let '(bs, x2) := fin_close l1 x1 in
  mkS [] (temp s) (disp s) (ntok s) (ncb s) (nrun s) x2 (g_lost s) (g_dropped s ++ bs).

(* Dispatcher.subscribe through RunEngine.subscribe *)
Definition new_sub (o : sorigin) (is_temp : bool) (s : st) : st :=
  let t := ntok s in
  mkS (runs s) (if is_temp then insN t (temp s) else temp s) (disp s ++ [t]) (N.succ t) (ncb s) (nrun s)
      (note (w s) (ESub o t)) (g_lost s) (g_dropped s).

(* Dispatcher.unsubscribe through RunEngine.unsubscribe *)
Definition do_unsub (o : uorigin) (t : token) (s : st) : st :=
  mkS (runs s) (temp s) (delN t (disp s)) (ntok s) (ncb s) (nrun s) (note (w s) (EUnsub o t)) (g_lost s) (g_dropped s).

(* RunEngine._clear_call_cache, the part about subscriptions *)
Definition clear_cache (s : st) : st :=
  mkS (runs s) [] (filter (fun t => negb (memN t (temp s))) (disp s)) (ntok s) (ncb s) (nrun s)
      (fold_left (fun x t => note x (EUnsub UClear t)) (temp s) (w s)) (g_lost s) [].

Fixpoint call_subs (n : nat) (s : st) : st :=
  match n with
  | O => s
  | S m => call_subs m (new_sub SPerCall true s)
  end.

Definition start_call (n : nat) (s : st) : st := call_subs n (clear_cache s).

(* a message whose handler works on the bundler of run key k *)
Definition on_run (s : st) (k : key) (f : bund -> world -> bund * world * bool) : st * bool :=
  match lookup k (runs s) with
  | None => (s, false)
  | Some b => let '(b1, x1, ok) := f b (w s) in (set_rw s (update k b1 (runs s)) x1, ok)
  end.

Definition step (s : st) (o : op) : st * bool :=
  match o with
  | OStart n => (start_call n s, true)
  | OOpen k =>
      match lookup k (runs s) with
      | Some _ => (s, false)
      | None =>
          (mkS (runs s ++ [(k, mkB (nrun s) [] [] 0 [] [])]) (temp s) (disp s) (ntok s) (ncb s) (N.succ (nrun s))
               (w s) (g_lost s) (g_dropped s), true)
      end
  | OClose k =>
      match lookup k (runs s) with
      | None => (s, false)
      | Some b =>
          let '(b1, x1, ok) := close_b b (w s) in
          if ok then
            (mkS (remove_key k (runs s)) (temp s) (disp s) (ntok s) (ncb s) (nrun s) x1
                 (g_lost s ++ b_unc b1) (g_dropped s ++ [b1]), true)
          else (set_rw s (update k b1 (runs s)) x1, false)
      end
  | OKickoff k f => on_run s k (fun b x => kickoff_b b f x)
  | OComplete f => let '(x1, ok) := dcall (w s) f MComplete in (set_w s x1, ok)
  | OCollect k f => on_run s k (fun b x => collect_b b f x)
  | OMonitor k d =>
      let c := ncb s in
      let s1 := mkS (runs s) (temp s) (disp s) (ntok s) (N.succ c) (nrun s) (w s) (g_lost s) (g_dropped s) in
      on_run s1 k (fun b x => monitor_b b d c x)
  | OUnmonitor k d => on_run s k (fun b x => unmonitor_b b d x)
  | OSubscribe valid => if valid then (new_sub SInPlan true s, true) else (s, false)
  | OUnsubscribe t =>
      let s1 := do_unsub UPlan t s in
      if memN t (temp s1) then
        (mkS (runs s1) (delN t (temp s1)) (disp s1) (ntok s1) (ncb s1) (nrun s1) (w s1) (g_lost s1) (g_dropped s1), true)
      else (s1, false)
  | OPause => let '(l1, x1, ok) := for_runs suspend_b (runs s) (w s) in (set_rw s l1 x1, ok)
  | OWake => let '(l1, x1, ok) := for_runs restore_b (runs s) (w s) in (set_rw s l1 x1, ok)
  | OMainSub => (new_sub SMain false s, true)
  | OMainUnsub t => (do_unsub UMain t s, true)
  | OFinally => (finally_block s, true)
  end.

(* what the harness reads off the engine when a call has returned *)
Definition snap := (list token * list token * list key * list (N * (list (dev * cbid) * list dev)))%type.

(* the dropped bundlers in the order of their creation *)
Fixpoint ins_by_id (b : bund) (l : list bund) : list bund :=
  match l with
  | [] => [b]
  | b' :: t => if N.leb (b_id b) (b_id b') then b :: b' :: t else b' :: ins_by_id b t
  end.

Definition snapshot (s : st) : snap :=
  (disp s, temp s, map fst (runs s),
   map (fun b => (b_id b, (b_mon b, b_unc b))) (fold_right ins_by_id [] (g_dropped s))).

Fixpoint run (s : st) (l : list op) : st * list bool * list snap :=
  match l with
  | [] => (s, [], [])
  | o :: t =>
      let '(s1, r) := step s o in
      let '(s2, rs, sn) := run s1 t in
      (s2, r :: rs, match o with OFinally => snapshot s1 :: sn | _ => sn end)
  end.

Definition exec (s : st) (l : list op) : st := fst (fst (run s l)).

End Model.

(* a call: start, the messages the engine processed, the finally block *)
Definition call (n : nat) (ops : list op) : list op := OStart n :: ops ++ [OFinally].

(* ---------------------------------------------------------------- reading the ledger *)

(* a flag over the ledger: set by the entries [on], reset by the entries [off] *)
Definition flag (on off : entry -> bool) (l : list entry) : bool :=
  fold_left (fun acc e => if on e then true else if off e then false else acc) l false.

Definition is_kick_ok (f : dev) (e : entry) : bool :=
  match e with EDev d MKickoff true => N.eqb d f | _ => false end.
(* a collection attempt: collect() was called, or describe_collect(), the first thing collecting does, raised *)
Definition is_attempt (f : dev) (e : entry) : bool :=
  match e with
  | EDev d MCollect _ => N.eqb d f
  | EDev d MDescribeCollect false => N.eqb d f
  | _ => false
  end.
Definition is_sub_ok (d : dev) (c : cbid) (e : entry) : bool :=
  match e with EDev d' (MSubscribe c') true => N.eqb d' d && N.eqb c' c | _ => false end.
Definition is_clear (d : dev) (c : cbid) (e : entry) : bool :=
  match e with EDev d' (MClearSub c') _ => N.eqb d' d && N.eqb c' c | _ => false end.

(* after the last successful kickoff() of f there is no later collection attempt on f *)
Definition needs_collect (l : list entry) (f : dev) : bool := flag (is_kick_ok f) (is_attempt f) l.
(* after the last successful subscribe(cb c) on d there is no later clear_sub(cb c) call on d *)
Definition needs_clear (l : list entry) (d : dev) (c : cbid) : bool := flag (is_sub_ok d c) (is_clear d c) l.

(* tokens handed out to per-call callbacks and to 'subscribe' messages *)
Definition temp_made (l : list entry) (t : token) : bool :=
  existsb (fun e => match e with ESub SPerCall t' | ESub SInPlan t' => N.eqb t' t | _ => false end) l.

(* ---------------------------------------------------------------- decidable equality for the correspondence *)

Definition meth_beq (a b : meth) : bool :=
  match a, b with
  | MDescribe, MDescribe | MDescribeCollect, MDescribeCollect | MKickoff, MKickoff
  | MComplete, MComplete | MCollect, MCollect => true
  | MSubscribe c, MSubscribe c' | MClearSub c, MClearSub c' => N.eqb c c'
  | _, _ => false
  end.

Definition sorigin_beq (a b : sorigin) : bool :=
  match a, b with SPerCall, SPerCall | SInPlan, SInPlan | SMain, SMain => true | _, _ => false end.
Definition uorigin_beq (a b : uorigin) : bool :=
  match a, b with UPlan, UPlan | UMain, UMain | UClear, UClear => true | _, _ => false end.

Definition entry_beq (a b : entry) : bool :=
  match a, b with
  | EDev d m ok, EDev d' m' ok' => N.eqb d d' && meth_beq m m' && Bool.eqb ok ok'
  | ESub o t, ESub o' t' => sorigin_beq o o' && N.eqb t t'
  | EUnsub o t, EUnsub o' t' => uorigin_beq o o' && N.eqb t t'
  | _, _ => false
  end.

Definition lN_beq := list_beq N.eqb.
Definition mon_beq := list_beq (prod_beq N.eqb N.eqb).

Definition snap_beq (a b : snap) : bool :=
  let '(d1, t1, k1, g1) := a in
  let '(d2, t2, k2, g2) := b in
  lN_beq d1 d2 && lN_beq t1 t2 && lN_beq k1 k2 &&
  list_beq (prod_beq N.eqb (prod_beq mon_beq lN_beq)) g1 g2.

(* outcomes the harness could not observe are None *)
Fixpoint outs_match (got : list bool) (exp : list (option bool)) : bool :=
  match got, exp with
  | [], [] => true
  | g :: gt, e :: et => (match e with None => true | Some b => Bool.eqb g b end) && outs_match gt et
  | _, _ => false
  end.

Definition fails_at (faults : list N) (n : N) : bool := memN n faults.

(* the model, run on the processed ops and the fault positions of a real session, produces exactly the real
   ledger, the observed outcome of every message, the bookkeeping read after every call and the lost flyers *)
Definition case_ok (faults : list N) (ops : list op) (led : list entry) (outs : list (option bool))
           (snaps : list snap) (lost : list dev) : bool :=
  let '(s, rs, sn) := run (fails_at faults) init ops in
  list_beq entry_beq (wl (w s)) led && outs_match rs outs && list_beq snap_beq sn snaps && lN_beq (g_lost s) lost.

(* the three clauses read off a ledger / a state, as the harness oracle reads them *)
Definition clean_flyers (l : list entry) (fs : list dev) : bool := forallb (fun f => negb (needs_collect l f)) fs.
Definition clean_monitors (l : list entry) (ps : list (dev * cbid)) : bool :=
  forallb (fun p => negb (needs_clear l (fst p) (snd p))) ps.
