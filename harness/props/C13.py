"""C13 - each yield receives the response to its own message."""
from harness.props.engine_common import *  # noqa: F401,F403  (impl_batch/nontrivial/describe/... shared by the engine family)
from harness.props import engine_common as ec
from harness.props import resp_trace as rt
from harness.drivers import engine_encode, engine_cases_resp

ID = "C13"
PROP_FILE = "Props/C13.v"
THEOREMS = ["C13_inputs_explained", "C13_responses_delivered", "C13_returns_run_uids", "C13_full_refuted"]
COQ_IMPORTS = "From BV Require Import Engine.RE Engine.REInst Engine.RespMon.\nFrom Coq Require Import ZArith."


def cases(rng, tier):
    return ec.gen_cases(rng, tier) + engine_cases_resp.gen(rng, tier)


def oracle(case, obs):
    if obs.get("errors"):
        return "driver: " + str(obs["errors"][0])[:200]
    bad = rt.check_responses(obs) + rt.check_uids(obs)
    if bad:
        return "; ".join(m for _, m in bad[:3])[:600]
    return None


def finding(case, obs):
    """Recorded class (mirror of the flag of Engine/RespMon.v): a = a command cancelled by a pause/suspension leaves
    None as the response its plan receives.  Anything else is outside the class."""
    if obs.get("errors"):
        return None
    bad = rt.check_responses(obs)
    if rt.check_uids(obs):
        return None
    kinds = {k for k, _ in bad}
    if kinds != {"a"}:
        return None
    return "a"


def coq_term(case, obs):
    """the model reproduces the observation AND the Coq monitor run on the model's trace classifies the plan of every
    call (up to three) exactly like the implementation-side monitor run on the real trace"""
    if obs.get("errors") or case.get("no_model"):
        return None
    try:
        e = engine_encode.Enc(case, obs).encode()
    except engine_encode.Unsupported:
        return None
    cb = engine_encode.cb
    ncalls = sum(1 for x in obs["obs"] if x[0] == "main" and x[1] == "call")
    agree = []
    for pid in range(min(ncalls, 3)):
        acc, a = rt.coq_agree_args(obs, pid)
        agree.append("(resp_agree (chk %d mon0 tr) %s %s)" % (pid, cb(acc), cb(a)))
    return ("let tp := %s in let ld := %s in let ev := %s in let tr := model_tr tp ld %s %s %s ev in "
            "andb (check tp ld %s %s %s ev %s) (%s)"
            % (e["tapes"], e["ledger"], e["evs"], e["paus"], e["stag"], e["rec"],
               e["paus"], e["stag"], e["rec"], e["obs"], rt.coq_and(agree)))
