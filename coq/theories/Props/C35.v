(* C35 - document normalization never alters its inputs and loses nothing; the conditional
   backup hands every document to the backups exactly once, in order.
   Statements only; every proof is in Proofs/Normalizer.v. *)
From Coq Require Import String List ZArith Bool.
From BV Require Import Base.Prelude Pure.Normalizer Proofs.Normalizer.
Import ListNotations.
Open Scope string_scope.
Open Scope list_scope.

(* A concrete legacy run used by the non-vacuity examples: an hdf5 Resource whose
   resource_kwargs carry "path", a Datum with a "frame", an Event referring to it. *)
Definition witness_docs : list (string * val) :=
  [("start", VDict [("uid", VStr "r1"); ("time", VFlt "0x1.8000000000000p+0")]);
   ("descriptor", VDict [("uid", VStr "d1"); ("run_start", VStr "r1"); ("time", VFlt "0x1.4000000000000p+1");
      ("name", VStr "primary");
      ("data_keys", VDict [("x", VDict [("dtype", VStr "number"); ("shape", VList []); ("source", VStr "PV:x")]);
                           ("img", VDict [("dtype", VStr "array"); ("shape", VList [VInt 2; VInt 3]);
                                          ("source", VStr "PV:img"); ("external", VStr "FILESTORE:")])]);
      ("object_keys", VDict [("det", VList [VStr "x"; VStr "img"])]); ("configuration", VDict []); ("hints", VDict [])]);
   ("resource", VDict [("uid", VStr "res1"); ("spec", VStr "AD_HDF5_SWMR_STREAM"); ("root", VStr "/data");
      ("resource_path", VStr "a.h5"); ("resource_kwargs", VDict [("path", VStr "/entry/data")]); ("run_start", VStr "r1")]);
   ("datum", VDict [("datum_id", VStr "res1/0"); ("resource", VStr "res1"); ("datum_kwargs", VDict [("frame", VInt 0)])]);
   ("event", VDict [("uid", VStr "e1"); ("descriptor", VStr "d1"); ("time", VFlt "0x1.c000000000000p+1"); ("seq_num", VInt 1);
      ("data", VDict [("x", VInt 7); ("img", VStr "res1/0")]);
      ("timestamps", VDict [("x", VFlt "0x1.c000000000000p+1"); ("img", VFlt "0x1.c000000000000p+1")]);
      ("filled", VDict [("img", VBool false)])]);
   ("stop", VDict [("uid", VStr "s1"); ("run_start", VStr "r1"); ("time", VFlt "0x1.2000000000000p+2");
      ("exit_status", VStr "success")])].

(* ---------------------------------------------------------------- (a) inputs are never modified *)

(* For EVERY store (any sharing, any shape), every list of (name, value) documents of any length and
   every set of emission indices at which the subscriber raises: when RunNormalizer (after the repair
   C35-a: [Deep]) has processed the whole list - handlers raising on the way included - the store is
   exactly the store before the run.  Nothing the caller can reach has changed. *)
Theorem C35_a_inputs_never_modified :
  forall (s0 : store) (fe : list nat) (docs : list (string * val)) m errs,
    run_from Deep 0 docs (init_mst s0 fe) [] = (m, errs) -> st m = s0.
Proof. exact inputs_never_modified. Qed.
Print Assumptions C35_a_inputs_never_modified.

(* not vacuous: the witness run converts a frame-carrying Datum of an hdf5 Resource (the two places
   where the code before the repair wrote through shared references), without any error, and the
   caller's documents read back unchanged *)
Example C35_a_nonvacuous :
  let r := run Deep [] witness_docs in
  r_errs r = [] /\ List.length (filter (fun e => String.eqb (fst e) "stream_datum") (r_out r)) = 1
  /\ r_after r = map (fun d => Some (snd d)) witness_docs.
Proof. vm_compute. repeat split. Qed.

(* the model does distinguish the two copy functions: the code BEFORE the repair (copy.copy in
   resource/stream_resource/datum, [Shallow]) alters the caller's Resource and Datum documents *)
Example C35_a_before_repair_refuted :
  exists docs, r_after (run Shallow [] docs) <> map (fun d => Some (snd d)) docs.
Proof. exists witness_docs. vm_compute. discriminate. Qed.

(* ---------------------------------------------------------------- (c) conditional backup *)

(* For every run of any length, every behaviour of the primary ([raises]: on which documents it
   raises), every number of backups: a backup is never called while the primary has not failed; once
   the primary has failed for the first time, on document f, every backup has received exactly the
   documents of the run, each once, in order - provided the bounded buffer (deque(maxlen), one
   million by default) had room for the f+1 documents received up to the failure. *)
Theorem C35_c_backup_exactly_once_in_order :
  forall (D : Type) (maxlen : N) (nb b : nat) (docs : list D) (raises : list bool), b < nb ->
    let log := snd (cb_run D maxlen nb (cb0 D) docs raises) in
    match first_failure (List.length docs) raises with
    | None => received_by D b log = []
    | Some f => (N.of_nat (S f) <= maxlen)%N -> received_by D b log = docs
    end.
Proof. exact backup_exactly_once_in_order. Qed.
Print Assumptions C35_c_backup_exactly_once_in_order.

Example C35_c_nonvacuous :
  first_failure 4 [false; false; true; false] = Some 2 /\ (N.of_nat 3 <= 1000000)%N /\
  received_by nat 1 (snd (cb_run nat 1000000 2 (cb0 nat) [10; 11; 12; 13] [false; false; true; false])) = [10; 11; 12; 13].
Proof. vm_compute. repeat split; discriminate. Qed.

(* the bound is needed: with maxlen = 2 the first document is lost *)
Example C35_c_maxlen_needed :
  received_by nat 0 (snd (cb_run nat 2 1 (cb0 nat) [10; 11; 12; 13] [false; false; true; false])) = [11; 12; 13].
Proof. vm_compute. reflexivity. Qed.
