(* Proofs about the _RunWriter model (Pure/TiledBatch.v): invariants of the handlers and the
   theorems quoted by Props/C46.v. *)
From Coq Require Import String Permutation.
From BV Require Import Base.Prelude Pure.TiledBatch.

(* ------------------------------------------------------------------ strings, dicts *)

Lemma seqb_eq a b : seqb a b = true <-> a = b.
Proof. apply String.eqb_eq. Qed.
Lemma seqb_refl a : seqb a a = true.
Proof. apply String.eqb_refl. Qed.
Lemma seqb_neq a b : seqb a b = false <-> a <> b.
Proof. apply String.eqb_neq. Qed.
Lemma seqb_sym a b : seqb a b = seqb b a.
Proof. apply String.eqb_sym. Qed.

Ltac sb :=
  repeat match goal with
  | H : seqb _ _ = true |- _ => apply seqb_eq in H; subst
  end.
Ltac sbn :=
  sb; repeat match goal with
  | H : seqb _ _ = false |- _ => apply seqb_neq in H
  end.

Lemma lookup_set {A} k k' (v : A) d :
  lookup k (dict_set k' v d) = if seqb k k' then Some v else lookup k d.
Proof.
  induction d as [|[k0 v0] d IH]; cbn.
  - destruct (seqb k k'); reflexivity.
  - destruct (seqb k' k0) eqn:E0; cbn.
    + sb. destruct (seqb k k0); reflexivity.
    + rewrite IH. destruct (seqb k k0) eqn:E1; [|reflexivity].
      sb. destruct (seqb k0 k') eqn:E2; [|reflexivity]. sb. rewrite seqb_refl in E0. discriminate.
Qed.

Lemma lookup_set_eq {A} k (v : A) d : lookup k (dict_set k v d) = Some v.
Proof. rewrite lookup_set, seqb_refl. reflexivity. Qed.

Lemma lookup_set_neq {A} k k' (v : A) d : k <> k' -> lookup k (dict_set k' v d) = lookup k d.
Proof. intros H. rewrite lookup_set. apply seqb_neq in H. rewrite H. reflexivity. Qed.

Lemma lookup_remove {A} k k' (d : list (string * A)) :
  NoDup (map fst d) ->
  lookup k (dict_remove k' d) = if seqb k k' then None else lookup k d.
Proof.
  induction d as [|[k0 v0] d IH]; cbn; intros ND.
  - destruct (seqb k k'); reflexivity.
  - inversion ND as [|? ? Hn ND']; subst.
    destruct (seqb k' k0) eqn:E0; cbn.
    + sb. destruct (seqb k k0) eqn:E1; [|reflexivity]. sb.
      clear - Hn. induction d as [|[k1 v1] d IH]; cbn in *; [reflexivity|].
      destruct (seqb k0 k1) eqn:E; sb; [tauto|]. apply IH. tauto.
    + rewrite IH by assumption. destruct (seqb k k0) eqn:E1; [|reflexivity].
      sb. rewrite seqb_sym, E0. reflexivity.
Qed.

Lemma lookup_none_notin {A} k (d : list (string * A)) : lookup k d = None <-> ~ In k (map fst d).
Proof.
  induction d as [|[k0 v0] d IH]; cbn; [tauto|].
  destruct (seqb k k0) eqn:E; sbn.
  - split; [discriminate | tauto].
  - rewrite IH. split; [intros H [H1|H1]; [congruence | tauto] | tauto].
Qed.

Lemma lookup_in {A} k (v : A) d : lookup k d = Some v -> In (k, v) d.
Proof.
  induction d as [|[k0 v0] d IH]; cbn; [discriminate|].
  destruct (seqb k k0) eqn:E; sb; [intros [= ->]; tauto | auto].
Qed.

Lemma in_lookup {A} k (v : A) d : NoDup (map fst d) -> In (k, v) d -> lookup k d = Some v.
Proof.
  induction d as [|[k0 v0] d IH]; cbn; [tauto|]. intros ND [H|H].
  - inversion H; subst. rewrite seqb_refl. reflexivity.
  - inversion ND as [|? ? Hn ND']; subst. destruct (seqb k k0) eqn:E; sb.
    + exfalso. apply Hn. apply in_map_iff. exists (k0, v). auto.
    + auto.
Qed.

Lemma NoDup_snoc {A} (l : list A) x : NoDup l -> ~ In x l -> NoDup (l ++ [x]).
Proof.
  induction l as [|y l IH]; cbn; intros ND Hn.
  - constructor; [tauto | constructor].
  - inversion ND; subst. constructor.
    + rewrite in_app_iff. cbn. intros [H|[H|[]]]; [tauto | subst; tauto].
    + apply IH; tauto.
Qed.

(* dict_set on an absent key appends *)
Lemma dict_set_absent {A} k (v : A) d : lookup k d = None -> dict_set k v d = d ++ [(k, v)].
Proof.
  induction d as [|[k0 v0] d IH]; cbn; [reflexivity|].
  destruct (seqb k k0) eqn:E; [discriminate|]. intros H. rewrite IH by assumption. reflexivity.
Qed.

Lemma dict_set_keys_present {A} k (v v0 : A) d : lookup k d = Some v0 -> map fst (dict_set k v d) = map fst d.
Proof.
  induction d as [|[k1 v1] d IH]; cbn; [discriminate|].
  destruct (seqb k k1) eqn:E; sb; cbn; [reflexivity|]. intros H. rewrite IH by assumption. reflexivity.
Qed.

Lemma dict_set_nodup {A} k (v : A) d : NoDup (map fst d) -> NoDup (map fst (dict_set k v d)).
Proof.
  intros ND. destruct (lookup k d) eqn:E.
  - erewrite dict_set_keys_present; eauto.
  - rewrite dict_set_absent by assumption. rewrite map_app. cbn.
    apply lookup_none_notin in E.
    apply NoDup_snoc; assumption.
Qed.

Lemma smem_in k l : smem k l = true <-> In k l.
Proof.
  induction l as [|x l IH]; cbn; [split; [discriminate | tauto]|].
  rewrite orb_true_iff, IH, seqb_eq. split; intros [H|H]; auto.
Qed.
Lemma smem_notin k l : smem k l = false <-> ~ In k l.
Proof. rewrite <- smem_in. destruct (smem k l); split; congruence. Qed.

(* ------------------------------------------------------------------ log projections, neutral extensions *)

Definition int_neutral (e : entry) : bool :=
  match e with LAppend _ _ | LCreateTable _ _ _ _ => false | _ => true end.
Definition ext_neutral (e : entry) : bool :=
  match e with LPut _ _ _ _ _ | LNewArray _ _ _ _ _ _ => false | _ => true end.
Definition root_neutral (e : entry) : bool :=
  match e with LCreateRoot _ _ _ | LUpdateRoot _ _ => false | _ => true end.

Lemma partitions_app n l1 l2 : partitions n (l1 ++ l2) = partitions n l1 ++ partitions n l2.
Proof. apply flat_map_app. Qed.
Lemma created_tables_app l1 l2 : created_tables (l1 ++ l2) = created_tables l1 ++ created_tables l2.
Proof. apply flat_map_app. Qed.
Lemma puts_app l1 l2 : puts (l1 ++ l2) = puts l1 ++ puts l2.
Proof. apply flat_map_app. Qed.
Lemma puts_of_app c l1 l2 : puts_of c (l1 ++ l2) = puts_of c l1 ++ puts_of c l2.
Proof. apply flat_map_app. Qed.
Lemma put_shapes_app c l1 l2 : put_shapes c (l1 ++ l2) = put_shapes c l1 ++ put_shapes c l2.
Proof. apply flat_map_app. Qed.
Lemma new_arrays_app l1 l2 : new_arrays (l1 ++ l2) = new_arrays l1 ++ new_arrays l2.
Proof. apply flat_map_app. Qed.
Lemma root_updates_app l1 l2 : root_updates (l1 ++ l2) = root_updates l1 ++ root_updates l2.
Proof. apply flat_map_app. Qed.

Lemma partitions_neutral n l : forallb int_neutral l = true -> partitions n l = [].
Proof.
  induction l as [|e l IH]; cbn; [reflexivity|]. intros H. apply andb_true_iff in H as [H1 H2].
  destruct e; cbn in *; try discriminate; auto.
Qed.
Lemma created_tables_neutral l : forallb int_neutral l = true -> created_tables l = [].
Proof.
  induction l as [|e l IH]; cbn; [reflexivity|]. intros H. apply andb_true_iff in H as [H1 H2].
  destruct e; cbn in *; try discriminate; auto.
Qed.
Lemma puts_neutral l : forallb ext_neutral l = true -> puts l = [].
Proof.
  induction l as [|e l IH]; cbn; [reflexivity|]. intros H. apply andb_true_iff in H as [H1 H2].
  destruct e; cbn in *; try discriminate; auto.
Qed.
Lemma puts_of_neutral c l : forallb ext_neutral l = true -> puts_of c l = [].
Proof.
  induction l as [|e l IH]; cbn; [reflexivity|]. intros H. apply andb_true_iff in H as [H1 H2].
  destruct e; cbn in *; try discriminate; auto.
Qed.
Lemma put_shapes_neutral c l : forallb ext_neutral l = true -> put_shapes c l = [].
Proof.
  induction l as [|e l IH]; cbn; [reflexivity|]. intros H. apply andb_true_iff in H as [H1 H2].
  destruct e; cbn in *; try discriminate; auto.
Qed.
Lemma new_arrays_neutral l : forallb ext_neutral l = true -> new_arrays l = [].
Proof.
  induction l as [|e l IH]; cbn; [reflexivity|]. intros H. apply andb_true_iff in H as [H1 H2].
  destruct e; cbn in *; try discriminate; auto.
Qed.
Lemma root_updates_neutral l : forallb root_neutral l = true -> root_updates l = [].
Proof.
  induction l as [|e l IH]; cbn; [reflexivity|]. intros H. apply andb_true_iff in H as [H1 H2].
  destruct e; cbn in *; try discriminate; auto.
Qed.
Lemma create_root_neutral l : forallb root_neutral l = true -> existsb is_create_root l = false.
Proof.
  induction l as [|e l IH]; cbn; [reflexivity|]. intros H. apply andb_true_iff in H as [H1 H2].
  destruct e; cbn in *; try discriminate; auto.
Qed.

Definition extends (P : entry -> bool) (st st' : state) : Prop :=
  exists ext, s_log st' = s_log st ++ ext /\ forallb P ext = true.

Lemma extends_refl P st : extends P st st.
Proof. exists []. rewrite app_nil_r. split; reflexivity. Qed.
Lemma extends_trans P a b c : extends P a b -> extends P b c -> extends P a c.
Proof.
  intros [e1 [H1 F1]] [e2 [H2 F2]]. exists (e1 ++ e2). rewrite H2, H1, app_assoc. split; [reflexivity|].
  rewrite forallb_app, F1, F2. reflexivity.
Qed.

Definition same_int (st st' : state) : Prop :=
  s_desc_nodes st' = s_desc_nodes st /\ s_icache st' = s_icache st /\ s_tables st' = s_tables st
  /\ extends int_neutral st st'.
Definition same_ext (st st' : state) : Prop :=
  s_ecache st' = s_ecache st /\ s_sres_nodes st' = s_sres_nodes st /\ s_cons st' = s_cons st
  /\ extends ext_neutral st st'.
Definition same_root (st st' : state) : Prop :=
  s_root st' = s_root st /\ s_rootmd st' = s_rootmd st /\ extends root_neutral st st'.

Lemma same_int_refl st : same_int st st.
Proof. repeat split; apply extends_refl. Qed.
Lemma same_ext_refl st : same_ext st st.
Proof. repeat split; apply extends_refl. Qed.
Lemma same_root_refl st : same_root st st.
Proof. repeat split; apply extends_refl. Qed.
Lemma same_int_trans a b c : same_int a b -> same_int b c -> same_int a c.
Proof.
  intros (A1 & A2 & A3 & A4) (B1 & B2 & B3 & B4). repeat split; try congruence.
  eapply extends_trans; eauto.
Qed.
Lemma same_ext_trans a b c : same_ext a b -> same_ext b c -> same_ext a c.
Proof.
  intros (A1 & A2 & A3 & A4) (B1 & B2 & B3 & B4). repeat split; try congruence.
  eapply extends_trans; eauto.
Qed.
Lemma same_root_trans a b c : same_root a b -> same_root b c -> same_root a c.
Proof.
  intros (A1 & A2 & A3) (B1 & B2 & B3). repeat split; try congruence.
  eapply extends_trans; eauto.
Qed.

(* goal: extends P st st' where s_log st' computes to s_log st ++ explicit entries *)
Ltac ext_tac :=
  unfold extends; cbn; rewrite <- ?app_assoc;
  first [ eexists; split; [reflexivity | reflexivity]
        | exists []; rewrite app_nil_r; split; reflexivity ].
Ltac same_tac := repeat split; try reflexivity; ext_tac.

(* ------------------------------------------------------------------ frame facts of the handlers *)

Lemma write_internal_frame st rows node :
  same_ext st (write_internal st rows node) /\ same_root st (write_internal st rows node)
  /\ s_desc_nodes (write_internal st rows node) = s_desc_nodes st
  /\ s_icache (write_internal st rows node) = s_icache st.
Proof. unfold write_internal. destruct (smem node (s_tables st)); repeat split; try reflexivity; ext_tac. Qed.

Lemma h_event_frame bs st e st' r :
  h_event bs st e = (st', r) -> same_ext st st' /\ same_root st st'.
Proof.
  unfold h_event. destruct (lookup (ev_desc e) (s_desc_nodes st)) as [node|].
  - destruct (Z.of_nat _ >=? bs)%Z; intros [= <- <-].
    + destruct (write_internal_frame st (cache_of node (s_icache st) ++ [event_row e]) node)
        as ((A1 & A2 & A3 & A4) & (B1 & B2 & B3) & _).
      split; repeat split; cbn; try assumption.
    + split; same_tac.
  - intros [= <- <-]. split; [apply same_ext_refl | apply same_root_refl].
Qed.

Lemma h_events_frame bs es : forall st st' r,
  h_events bs st es = (st', r) -> same_ext st st' /\ same_root st st'.
Proof.
  induction es as [|e es IH]; cbn; intros st st' r H.
  - inversion H; subst. split; [apply same_ext_refl | apply same_root_refl].
  - destruct (h_event bs st e) as [st1 [x|]] eqn:E.
    + inversion H; subst. eapply h_event_frame; eauto.
    + apply h_event_frame in E as [E1 E2]. apply IH in H as [H1 H2].
      split; [eapply same_ext_trans | eapply same_root_trans]; eauto.
Qed.

Lemma h_descriptor_frame st d st' r :
  h_descriptor st d = (st', r) -> same_ext st st' /\ same_root st st'.
Proof.
  unfold h_descriptor. destruct (s_root st) as [rk|].
  - cbn. destruct (lookup (d_name d) (s_desc_nodes st)); cbn; intros [= <- <-]; split; same_tac.
  - intros [= <- <-]. split; [apply same_ext_refl | apply same_root_refl].
Qed.

Lemma h_sres_frame st x st' r :
  h_sres st x = (st', r) -> same_int st st' /\ same_ext st st' /\ same_root st st'.
Proof. unfold h_sres. intros [= <- <-]. repeat split; ext_tac. Qed.

Lemma get_sres_node_frame st s u st' r :
  get_sres_node st s u = (st', r) -> same_int st st' /\ same_root st st' /\ s_ecache st' = s_ecache st.
Proof.
  unfold get_sres_node.
  destruct (lookup s (s_sres_nodes st)); [intros [= <- <-]; repeat split; ext_tac|].
  destruct (lookup s (s_srcache st)) as [x|]; [|intros [= <- <-]; repeat split; ext_tac].
  destruct (seqb u ""); [intros [= <- <-]; repeat split; ext_tac|].
  destruct (lookup u (s_desc_nodes st)) as [node|]; [|intros [= <- <-]; repeat split; ext_tac].
  destruct (lookup (fdk node (sr_dk x)) (s_sres_nodes st)) as [cid|].
  - destruct (lookup cid (s_cons st)) as [c|]; [|intros [= <- <-]; repeat split; ext_tac].
    destruct (negb _); intros [= <- <-]; repeat split; ext_tac.
  - destruct (lookup (sr_dk x) _); intros [= <- <-]; repeat split; ext_tac.
Qed.

Lemma write_external_frame st d st' r :
  write_external st d = (st', r) -> same_int st st' /\ same_root st st' /\ s_ecache st' = s_ecache st.
Proof.
  unfold write_external. destruct (get_sres_node st (sd_sres d) (sd_desc d)) as [st1 [e|cid]] eqn:G;
    apply get_sres_node_frame in G as (G1 & G2 & G3).
  - intros [= <- <-]. auto.
  - destruct (lookup cid (s_cons st1)) as [c|]; intros [= <- <-]; [|auto].
    repeat split; cbn; try apply G1; try apply G2; try assumption.
    + eapply extends_trans; [apply G1|]. ext_tac.
    + eapply extends_trans; [apply G2|]. ext_tac.
Qed.

Lemma set_ecache_frame st x : same_int st (set_ecache st x) /\ same_root st (set_ecache st x).
Proof. repeat split; ext_tac. Qed.

Lemma h_sdatum_frame bs st d st' r :
  h_sdatum bs st d = (st', r) -> same_int st st' /\ same_root st st'.
Proof.
  unfold h_sdatum. destruct (bs <=? 1)%Z.
  { intros H. apply write_external_frame in H. tauto. }
  destruct (lookup (sd_sres d) (s_ecache st)) as [c|]; [|intros [= <- <-]; apply set_ecache_frame].
  set (st1 := set_ecache st (dict_remove (sd_sres d) (s_ecache st))).
  assert (F1 : same_int st st1 /\ same_root st st1) by apply set_ecache_frame.
  assert (HH : forall s s' r', same_int st s -> same_root st s ->
             match write_external s c with (s0, None) => write_external s0 d | bad => bad end = (s', r') ->
             same_int st s' /\ same_root st s').
  { intros s s' r' A B. destruct (write_external s c) as [s0 [e|]] eqn:W; apply write_external_frame in W as (W1 & W2 & _).
    - intros [= <- <-]. split; [eapply same_int_trans | eapply same_root_trans]; eauto.
    - intros W'. apply write_external_frame in W' as (V1 & V2 & _).
      split; [eapply same_int_trans; [|eauto]; eapply same_int_trans
             | eapply same_root_trans; [|eauto]; eapply same_root_trans]; eauto. }
  destruct (concat2 c d) as [e|m].
  - apply HH; apply F1.
  - destruct (sd_i1 m - sd_i0 m >=? bs)%Z.
    + destruct (write_external st1 m) as [s' [[]|]] eqn:W; apply write_external_frame in W as (W1 & W2 & _);
        try (intros [= <- <-]; split; [eapply same_int_trans; [apply F1 | exact W1]
                                      | eapply same_root_trans; [apply F1 | exact W2]]).
      apply HH; [eapply same_int_trans; [apply F1 | exact W1] | eapply same_root_trans; [apply F1 | exact W2]].
    + intros [= <- <-]. destruct (set_ecache_frame st1 (dict_set (sd_sres d) m (s_ecache st1))) as [A B].
      split; [eapply same_int_trans; [apply F1 | exact A] | eapply same_root_trans; [apply F1 | exact B]].
Qed.

Lemma flush_external_frame l : forall st st' r,
  flush_external st l = (st', r) -> same_int st st' /\ same_root st st' /\ s_ecache st' = s_ecache st.
Proof.
  induction l as [|[k d] l IH]; cbn; intros st st' r H.
  - inversion H; subst. repeat split; ext_tac.
  - destruct (write_external st d) as [s1 [e|]] eqn:W; apply write_external_frame in W as (W1 & W2 & W3).
    + inversion H; subst. auto.
    + apply IH in H as (H1 & H2 & H3).
      split; [eapply same_int_trans; eauto | split; [eapply same_root_trans; eauto | congruence]].
Qed.

Lemma flush_internal_frame l : forall st st' r,
  flush_internal st l = (st', r) -> same_ext st st' /\ same_root st st'.
Proof.
  induction l as [|[k rows] l IH]; cbn; intros st st' r H.
  - inversion H; subst. split; [apply same_ext_refl | apply same_root_refl].
  - destruct rows as [|r0 rows]; [eauto|].
    destruct (lookup k (s_desc_nodes st)) as [node|].
    + apply IH in H as [H1 H2].
      destruct (write_internal_frame st (r0 :: rows) node) as ((A1 & A2 & A3 & A4) & (B1 & B2 & B3) & _).
      split; [eapply same_ext_trans; [|apply H1] | eapply same_root_trans; [|apply H2]];
        repeat split; cbn; assumption.
    + inversion H; subst. split; [apply same_ext_refl | apply same_root_refl].
Qed.
