(* C19: delivery and error policy of the dispatch model (Engine/Dispatcher.v), for all histories. *)
From Coq Require Import List Arith Bool Lia Sorted.
From BV Require Import Base.Prelude Engine.Dispatcher Proofs.Dispatcher.
Import ListNotations.

(* ------------------------------------------------------------------ one document: call_all / process *)

Definition calls_of (d : doc) (fs : list callable) : list (nat * bool) :=
  map (fun f => (fn_id f, raises_on f d)) fs.

Lemma call_all_ignore : forall d fs, call_all true d fs = (calls_of d fs, None).
Proof.
  intros d; induction fs as [|f fs IH]; cbn; [reflexivity|].
  rewrite IH. destruct (raises_on f d); reflexivity.
Qed.

Lemma call_all_strict_quiet : forall d fs,
  (forall f, In f fs -> raises_on f d = false) -> call_all false d fs = (calls_of d fs, None).
Proof.
  intros d; induction fs as [|f fs IH]; cbn; intros H; [reflexivity|].
  rewrite (H f (or_introl eq_refl)), IH by (intros; apply H; now right). reflexivity.
Qed.

Lemma call_all_strict_cut : forall d pre f post,
  (forall g, In g pre -> raises_on g d = false) -> raises_on f d = true ->
  call_all false d (pre ++ f :: post) = (calls_of d (pre ++ [f]), Some (ExCb (fn_id f))).
Proof.
  intros d; induction pre as [|g pre IH]; cbn; intros f post Hpre Hf.
  - now rewrite Hf.
  - rewrite (Hpre g (or_introl eq_refl)), (IH f post) by (auto; intros; apply Hpre; now right). reflexivity.
Qed.

(* every callable registered for the document's kind is invoked once, in registration (cid) order;
   a raising one is passed over when exceptions are ignored, otherwise delivery stops right after it
   and its exception comes out of the emitting command *)
Theorem delivery_policy : forall r d,
  let fs := registered r (doc_sig d) in
  (ign r = true -> process r d = (calls_of d fs, None)) /\
  (ign r = false -> (forall f, In f fs -> raises_on f d = false) -> process r d = (calls_of d fs, None)) /\
  (ign r = false -> forall pre f post, fs = pre ++ f :: post ->
     (forall g, In g pre -> raises_on g d = false) -> raises_on f d = true ->
     process r d = (calls_of d (pre ++ [f]), Some (ExCb (fn_id f)))).
Proof.
  intros r d fs; unfold process; fold fs. repeat split.
  - intros ->. apply call_all_ignore.
  - intros -> H. now apply call_all_strict_quiet.
  - intros -> pre f post -> H1 H2. now apply call_all_strict_cut.
Qed.

(* the shape of one delivery with exceptions not ignored *)
Definition strict_shape (res : list (nat * bool) * option exn) : Prop :=
  (snd res = None /\ existsb snd (fst res) = false) \/
  (exists id pre, snd res = Some (ExCb id) /\ fst res = pre ++ [(id, true)] /\ existsb snd pre = false).

Lemma call_all_strict_shape : forall d fs, strict_shape (call_all false d fs).
Proof.
  intros d; induction fs as [|f fs IH]; cbn.
  - left; auto.
  - destruct (raises_on f d) eqn:E.
    + right. exists (fn_id f), []. auto.
    + destruct (call_all false d fs) as [l x]. unfold strict_shape in *. cbn [fst snd] in *.
      destruct IH as [[H1 H2]|[id [pre [H1 [H2 H3]]]]].
      * left; auto.
      * right. exists id, ((fn_id f, false) :: pre). subst. auto.
Qed.

Lemma existsb_rev {A} (p : A -> bool) (l : list A) : existsb p (rev l) = existsb p l.
Proof.
  induction l as [|a l IH]; cbn; [reflexivity|]. rewrite existsb_app, IH. cbn. rewrite orb_false_r. apply orb_comm.
Qed.

Lemma cut_em_intro : forall d id pre, existsb snd pre = false ->
  cut_em {| em_doc := d; em_calls := pre ++ [(id, true)] |} = Some id.
Proof. intros d id pre H. unfold cut_em; cbn. rewrite rev_app_distr; cbn. now rewrite existsb_rev, H. Qed.

Lemma not_quiet_intro : forall d id pre, quiet_em {| em_doc := d; em_calls := pre ++ [(id, true)] |} = false.
Proof. intros. unfold quiet_em; cbn. rewrite existsb_app; cbn. now rewrite orb_true_r. Qed.

(* ------------------------------------------------------------------ several documents: emit_all *)

Definition all_quiet (l : list emission) : Prop := forall em, In em l -> quiet_em em = true.

Lemma all_quiet_app : forall l1 l2, all_quiet l1 -> all_quiet l2 -> all_quiet (l1 ++ l2).
Proof. intros l1 l2 H1 H2 em H. apply in_app_or in H as [H|H]; auto. Qed.

Lemma emit_all_strict : forall proc ds, (forall d, strict_shape (proc d)) ->
  match emit_all proc ds with
  | (es, None) => all_quiet es /\ map em_doc es = ds
  | (es, Some e) => exists pre em id, es = pre ++ [em] /\ all_quiet pre /\ cut_em em = Some id /\
                                      quiet_em em = false /\ e = ExCb id /\ In (em_doc em) ds
  end.
Proof.
  intros proc ds Hp; induction ds as [|d ds IH]; cbn.
  - split; [intros em []| reflexivity].
  - pose proof (Hp d) as Hd. destruct (proc d) as [inv x]. unfold strict_shape in Hd. cbn [fst snd] in Hd.
    destruct Hd as [[-> Hq]|[id [pre [-> [-> Hq]]]]].
    + destruct (emit_all proc ds) as [es [e|]].
      * destruct IH as [pre [em [id [-> [H1 [H2 [H3 [H4 H5]]]]]]]].
        exists ({| em_doc := d; em_calls := inv |} :: pre), em, id. repeat split; auto.
        intros em' [<-|H]; [unfold quiet_em; cbn; now rewrite Hq | now apply H1].
      * destruct IH as [H1 H2]. split; [|cbn; now rewrite H2].
        intros em' [<-|H]; [unfold quiet_em; cbn; now rewrite Hq | now apply H1].
    + exists [], {| em_doc := d; em_calls := pre ++ [(id, true)] |}, id. repeat split; auto.
      * intros em [].
      * now apply cut_em_intro.
      * apply not_quiet_intro.
Qed.

Lemma emit_all_ignore : forall proc ds, (forall d, snd (proc d) = None) -> snd (emit_all proc ds) = None.
Proof.
  intros proc ds Hp; induction ds as [|d ds IH]; cbn; [reflexivity|].
  pose proof (Hp d) as Hd. destruct (proc d) as [inv x]; cbn in Hd; subst x.
  destruct (emit_all proc ds) as [es y]; exact IH.
Qed.

(* ------------------------------------------------------------------ the policy flag is only changed by SetIgnore *)

Definition ig (s : re) : bool := ign (reg (dsp s)).

Lemma connect_ign : forall r s f, ign (fst (connect r s f)) = ign r.
Proof. intros; unfold connect; destruct (find _ _); reflexivity. Qed.

Lemma connect_all_ign : forall ss r f, ign (fst (connect_all r ss f)) = ign r.
Proof.
  induction ss as [|s ss IH]; intros r f; cbn; [reflexivity|].
  pose proof (connect_ign r s f) as H1. destruct (connect r s f) as [r1 c]; cbn in H1.
  pose proof (IH r1 f) as H2. destruct (connect_all r1 ss f) as [r2 cs]; cbn in *. congruence.
Qed.

Lemma d_subscribe_ign : forall d f n, ign (reg (fst (d_subscribe d f n))) = ign (reg d).
Proof.
  intros d f n. destruct (subname_dec_bad n) as [->|Hn]; [reflexivity|].
  rewrite (d_subscribe_eq d f n Hn); cbn [fst reg]. apply connect_all_ign.
Qed.

Lemma disconnect_ign : forall r c, ign (disconnect r c) = ign r.
Proof. intros; unfold disconnect; destruct (existsb _ _); reflexivity. Qed.

Lemma fold_disconnect_ign : forall cs r, ign (fold_left disconnect cs r) = ign r.
Proof. induction cs as [|c cs IH]; cbn; intros; [reflexivity|]. now rewrite IH, disconnect_ign. Qed.

Lemma d_unsubscribe_ign : forall d t, ign (reg (d_unsubscribe d t)) = ign (reg d).
Proof.
  intros; unfold d_unsubscribe. destruct (find _ _) as [[? cs]|]; cbn; [apply fold_disconnect_ign | reflexivity].
Qed.

Lemma fold_unsubscribe_ign : forall ts d, ign (reg (fold_left d_unsubscribe ts d)) = ign (reg d).
Proof. induction ts as [|t ts IH]; cbn; intros; [reflexivity|]. now rewrite IH, d_unsubscribe_ign. Qed.

Lemma subscribe_temps_ig : forall l s, ig (subscribe_temps s l) = ig s.
Proof.
  induction l as [|[n f] l IH]; intros s; cbn; [reflexivity|].
  pose proof (d_subscribe_ign (dsp s) f n) as H. destruct (d_subscribe (dsp s) f n) as [d [t|]]; cbn in H;
    rewrite IH; exact H.
Qed.

Lemma clear_call_cache_ig : forall s, ig (clear_call_cache s) = ig s.
Proof. intros; unfold ig, clear_call_cache; cbn. apply fold_unsubscribe_ign. Qed.

(* ------------------------------------------------------------------ one call *)

Lemma process_strict_shape : forall r, ign r = false -> forall d, strict_shape (process r d).
Proof. intros r H d. unfold process. rewrite H. apply call_all_strict_shape. Qed.

Lemma process_ignore_none : forall r, ign r = true -> forall d, snd (process r d) = None.
Proof. intros r H d. unfold process. rewrite H, call_all_ignore. reflexivity. Qed.

(* what an aborted data message leaves for _run's finally to close *)
Lemma action_cleanup : forall c m during ds after,
  stop_made c = false -> plan_action c m = AEmit during ds after ->
  stop_made after = false /\
  forall d, In d ds -> is_stop d = false -> cleanup_docs during true = [DStop (doc_run d) false].
Proof.
  intros c m during ds after Hc H. destruct m; cbn in H; try discriminate.
  - destruct (run_open c); [discriminate|]. inversion H; subst; cbn. split; [reflexivity|].
    intros d [<-|[]] _. reflexivity.
  - destruct (run_open c); cbn in H; [|discriminate]. inversion H; subst; cbn. rewrite Hc. split; [reflexivity|].
    intros d Hd Hs. apply in_app_or in Hd as [Hd|[<-|[]]]; [|reflexivity].
    destruct (described c); [destruct Hd | destruct Hd as [<-|[]]; reflexivity].
  - destruct (run_open c); cbn in H; [|discriminate]. inversion H; subst; cbn. split; [reflexivity|].
    intros d [<-|[]] Hs. discriminate.
Qed.

Lemma run_plan_strict : forall plan s c ems toks s' c' ems' toks' x,
  run_plan s c plan ems toks = (s', c', ems', toks', x) -> ig s = false -> stop_made c = false ->
  exists new, ems' = ems ++ new /\ ig s' = false /\
    match x with
    | Some (ExCb id) =>
        exists pre em, new = pre ++ [em] /\ all_quiet pre /\ cut_em em = Some id /\ quiet_em em = false /\
          (is_stop (em_doc em) = false -> cleanup_docs c' true = [DStop (doc_run (em_doc em)) false])
    | _ => all_quiet new /\ stop_made c' = false
    end.
Proof.
  induction plan as [|m plan IH]; intros s c ems toks s' c' ems' toks' x Hrun Hig Hc.
  - cbn in Hrun. inversion Hrun; subst. exists []. rewrite app_nil_r. repeat split; auto. intros em [].
  - assert (Hdata : match plan_action c m with
        | ASkip => run_plan s c plan ems toks
        | AIllegal => (s, c, ems, toks, Some ExIllegal)
        | AEmit during ds after =>
            match emit_all (process (reg (dsp s))) ds with
            | (es, None) => run_plan s after plan (ems ++ es) toks
            | (es, Some e) => (s, during, ems ++ es, toks, Some e)
            end
        end = (s', c', ems', toks', x) ->
        exists new, ems' = ems ++ new /\ ig s' = false /\
          match x with
          | Some (ExCb id) =>
              exists pre em, new = pre ++ [em] /\ all_quiet pre /\ cut_em em = Some id /\ quiet_em em = false /\
                (is_stop (em_doc em) = false -> cleanup_docs c' true = [DStop (doc_run (em_doc em)) false])
          | _ => all_quiet new /\ stop_made c' = false
          end).
    { intros Hr. destruct (plan_action c m) as [during ds after| |] eqn:Ea.
      - destruct (action_cleanup c m during ds after Hc Ea) as [Hafter Hclean].
        pose proof (emit_all_strict (process (reg (dsp s))) ds (process_strict_shape _ Hig)) as He.
        destruct (emit_all (process (reg (dsp s))) ds) as [es [e|]].
        + destruct He as [pre [em [id [-> [H1 [H2 [H3 [-> H5]]]]]]]]. inversion Hr; subst.
          exists (pre ++ [em]). repeat split; auto. exists pre, em. repeat split; auto.
        + destruct He as [H1 H2].
          destruct (IH _ _ _ _ _ _ _ _ _ Hr Hig Hafter) as [new [-> [Hig' Hx]]].
          exists (es ++ new). rewrite app_assoc. repeat split; auto.
          destruct x as [[id| |]|].
          * destruct Hx as [pre [em [-> [K1 [K2 [K3 K4]]]]]]. exists (es ++ pre), em. rewrite app_assoc.
            repeat split; auto. now apply all_quiet_app.
          * destruct Hx; split; auto. now apply all_quiet_app.
          * destruct Hx; split; auto. now apply all_quiet_app.
          * destruct Hx; split; auto. now apply all_quiet_app.
      - inversion Hr; subst. exists []. rewrite app_nil_r. repeat split; auto. intros em [].
      - eapply IH; eauto. }
    destruct m; cbn [run_plan] in Hrun; try (apply Hdata; exact Hrun).
    + (* PSub *)
      pose proof (d_subscribe_ign (dsp s) f n) as Hi.
      destruct (d_subscribe (dsp s) f n) as [d [t|]]; cbn [fst] in Hi.
      * eapply IH; [exact Hrun | unfold ig in *; cbn in *; congruence | exact Hc].
      * inversion Hrun; subst. exists []. rewrite app_nil_r. repeat split; auto; [unfold ig in *; cbn in *; congruence | intros em []].
    + (* PUnsub *)
      pose proof (d_unsubscribe_ign (dsp s) t) as Hi.
      destruct (existsb (Nat.eqb t) (temp s)).
      * eapply IH; [exact Hrun | unfold ig in *; cbn in *; congruence | exact Hc].
      * inversion Hrun; subst. exists []. rewrite app_nil_r. repeat split; auto; [unfold ig in *; cbn in *; congruence | intros em []].
Qed.

Lemma run_plan_ignore : forall plan s c ems toks s' c' ems' toks' x,
  run_plan s c plan ems toks = (s', c', ems', toks', x) -> ig s = true ->
  ig s' = true /\ (forall id, x <> Some (ExCb id)).
Proof.
  induction plan as [|m plan IH]; intros s c ems toks s' c' ems' toks' x Hrun Hig.
  - cbn in Hrun. inversion Hrun; subst. split; [exact Hig | discriminate].
  - assert (Hdata : match plan_action c m with
        | ASkip => run_plan s c plan ems toks
        | AIllegal => (s, c, ems, toks, Some ExIllegal)
        | AEmit during ds after =>
            match emit_all (process (reg (dsp s))) ds with
            | (es, None) => run_plan s after plan (ems ++ es) toks
            | (es, Some e) => (s, during, ems ++ es, toks, Some e)
            end
        end = (s', c', ems', toks', x) -> ig s' = true /\ (forall id, x <> Some (ExCb id))).
    { intros Hr. destruct (plan_action c m) as [during ds after| |].
      - pose proof (emit_all_ignore (process (reg (dsp s))) ds (process_ignore_none _ Hig)) as He.
        destruct (emit_all (process (reg (dsp s))) ds) as [es [e|]]; [discriminate He|].
        eapply IH; eauto.
      - inversion Hr; subst. split; [exact Hig | discriminate].
      - eapply IH; eauto. }
    destruct m; cbn [run_plan] in Hrun; try (apply Hdata; exact Hrun).
    + pose proof (d_subscribe_ign (dsp s) f n) as Hi.
      destruct (d_subscribe (dsp s) f n) as [d [t|]]; cbn [fst] in Hi.
      * eapply IH; [exact Hrun | unfold ig in *; cbn in *; congruence].
      * inversion Hrun; subst. split; [unfold ig in *; cbn in *; congruence | discriminate].
    + pose proof (d_unsubscribe_ign (dsp s) t) as Hi.
      destruct (existsb (Nat.eqb t) (temp s)).
      * eapply IH; [exact Hrun | unfold ig in *; cbn in *; congruence].
      * inversion Hrun; subst. split; [unfold ig in *; cbn in *; congruence | discriminate].
Qed.

Lemma strict_ok_skip_quiet : forall pre l out, all_quiet pre -> strict_ok (pre ++ l) out = strict_ok l out.
Proof.
  induction pre as [|em pre IH]; intros l out H; [reflexivity|]. cbn.
  rewrite (H em (or_introl eq_refl)). apply IH. intros em' H'; apply H; now right.
Qed.

Lemma strict_ok_all_quiet : forall l out, all_quiet l -> strict_ok l out = not_cb_exn out.
Proof. intros l out H. rewrite <- (app_nil_r l), strict_ok_skip_quiet by exact H. reflexivity. Qed.

Lemma stop_raised_app : forall l1 l2 toks out,
  stop_raised (OCall (l1 ++ l2) toks out) = stop_raised (OCall l1 toks out) || stop_raised (OCall l2 toks out).
Proof. intros; cbn. apply existsb_app. Qed.

Lemma doc_eqb_refl : forall d, doc_eqb d d = true.
Proof. destruct d; cbn; rewrite ?Nat.eqb_refl; try reflexivity. destruct ok; reflexivity. Qed.

Lemma run_call_policy : forall s subs plan,
  ig (fst (run_call s subs plan)) = ig s /\
  (ig s = true -> call_ok true (snd (run_call s subs plan)) = true) /\
  (ig s = false -> stop_raised (snd (run_call s subs plan)) = false ->
   call_ok false (snd (run_call s subs plan)) = true).
Proof.
  intros s subs plan. unfold run_call.
  destruct (normalize_subs subs) as [l|]; [|cbn; rewrite clear_call_cache_ig; auto].
  pose proof (subscribe_temps_ig l (clear_call_cache s)) as Hi2. rewrite clear_call_cache_ig in Hi2.
  destruct (run_plan (subscribe_temps (clear_call_cache s) l) cstate0 plan [] []) as [[[[s3 c] ems] toks] x] eqn:Erun.
  destruct (ig s) eqn:Hig.
  - destruct (run_plan_ignore _ _ _ _ _ _ _ _ _ _ Erun Hi2) as [H3 Hx].
    destruct (emit_all (process (reg (dsp s3))) _) as [es y]. cbn [fst snd].
    split; [exact H3 | split; [|discriminate]]. intros _. cbn.
    destruct x as [[id| |]|]; try reflexivity. exfalso; now apply (Hx id).
  - destruct (run_plan_strict _ _ _ _ _ _ _ _ _ _ Erun Hi2 eq_refl) as [new [Hems [H3 Hx]]]. cbn in Hems. subst ems.
    pose proof (emit_all_strict (process (reg (dsp s3)))
                  (cleanup_docs c match x with Some _ => true | None => false end)
                  (process_strict_shape _ H3)) as He.
    destruct (emit_all (process (reg (dsp s3))) _) as [es y]. cbn [fst snd].
    split; [exact H3 | split; [discriminate|]]. intros _ Hsr. cbn [call_ok].
    rewrite stop_raised_app in Hsr. apply orb_false_iff in Hsr as [Hsr1 Hsr2].
    (* the closing emission(s) raise nothing: they are stop documents *)
    assert (Hes : all_quiet es /\ map em_doc es = cleanup_docs c match x with Some _ => true | None => false end).
    { destruct y as [e|]; [|exact He]. exfalso.
      destruct He as [pre [em [id [-> [K1 [K2 [K3 [K4 K5]]]]]]]].
      assert (Hst : is_stop (em_doc em) = true).
      { unfold cleanup_docs in K5. destruct (run_open c); [|destruct K5]. destruct (stop_made c); [destruct K5|].
        destruct K5 as [<-|[]]. reflexivity. }
      cbn in Hsr2. rewrite existsb_app in Hsr2. cbn in Hsr2. rewrite Hst in Hsr2. cbn in Hsr2.
      unfold quiet_em in K3. apply negb_false_iff in K3. rewrite K3 in Hsr2. cbn in Hsr2.
      rewrite orb_true_r in Hsr2. discriminate. }
    destruct Hes as [Hq Hdocs].
    destruct x as [[id| |]|].
    + destruct Hx as [pre [em [-> [K1 [K2 [K3 K4]]]]]].
      (* the cut emission is not a stop document (class C19-a is excluded) *)
      assert (Hns : is_stop (em_doc em) = false).
      { destruct (is_stop (em_doc em)) eqn:E; [|reflexivity]. exfalso.
        cbn in Hsr1. rewrite existsb_app in Hsr1. cbn in Hsr1. rewrite E in Hsr1. cbn in Hsr1.
        unfold quiet_em in K3. apply negb_false_iff in K3. rewrite K3 in Hsr1. cbn in Hsr1.
        rewrite orb_true_r in Hsr1. discriminate. }
      rewrite (K4 Hns) in Hdocs.
      destruct es as [|em' [|? ?]]; try discriminate. cbn in Hdocs. inversion Hdocs as [Hd].
      rewrite <- app_assoc. rewrite strict_ok_skip_quiet by exact K1. cbn [app strict_ok].
      rewrite K3, K2. cbn [outcome_eqb exn_eqb]. rewrite Nat.eqb_refl. cbn [andb].
      rewrite Hd, doc_eqb_refl. cbn [andb]. apply Hq. now left.
    + destruct Hx as [K1 K2]. rewrite strict_ok_all_quiet by (now apply all_quiet_app). reflexivity.
    + destruct Hx as [K1 K2]. rewrite strict_ok_all_quiet by (now apply all_quiet_app). reflexivity.
    + destruct Hx as [K1 K2]. rewrite strict_ok_all_quiet by (now apply all_quiet_app). reflexivity.
Qed.

(* ------------------------------------------------------------------ whole histories *)

Lemma step_ig : forall s o,
  ig (fst (step s o)) = match o with SetIgnore b => b | _ => ig s end.
Proof.
  intros s o; destruct o; cbn [step].
  - pose proof (d_subscribe_ign (dsp s) f n) as H. destruct (d_subscribe (dsp s) f n) as [d [t|]]; exact H.
  - unfold ig; cbn. apply d_unsubscribe_ign.
  - reflexivity.
  - apply run_call_policy.
  - unfold ig, d_unsubscribe_all; cbn. apply fold_unsubscribe_ign.
  - unfold ig, d_unsubscribe_all; cbn. rewrite fold_unsubscribe_ign. apply fold_unsubscribe_ign.
Qed.

Lemma policy_from : forall h s,
  stop_raise_from (ig s) h (snd (run_from s h)) = false ->
  policy_ok_from (ig s) h (snd (run_from s h)) = true.
Proof.
  induction h as [|o h IH]; intros s Hf; [reflexivity|].
  cbn [run_from] in *. pose proof (step_ig s o) as Hi.
  pose proof (IH (fst (step s o))) as IH'.
  destruct (step s o) as [s1 ob] eqn:Es. cbn [fst] in *.
  destruct (run_from s1 h) as [s2 obs']. cbn [snd] in *.
  destruct o; cbn [stop_raise_from policy_ok_from] in *; try (rewrite Hi in IH'; now apply IH').
  (* RunCall *)
  apply orb_false_iff in Hf as [Hf1 Hf2]. rewrite Hi in IH'. rewrite (IH' Hf2), andb_true_r.
  pose proof (run_call_policy s subs plan) as [_ [Ht Hs]]. cbn [step] in Es. rewrite Es in Ht, Hs. cbn [snd] in Ht, Hs.
  destruct (ig s); [now apply Ht | apply Hs; [reflexivity|]].
  cbn in Hf1. exact Hf1.
Qed.

(* C19, policy part: for every history outside class C19-a, every call obeys the policy in force *)
Theorem calls_follow_policy : forall h,
  finding_C19_a h = false -> policy_ok_from false h (run_hist h) = true.
Proof. intros h H. apply (policy_from h re0). exact H. Qed.

(* ------------------------------------------------------------------ ignored exceptions change nothing *)

Definition quiet_entry (e : entry) : entry := {| e_sig := e_sig e; e_cid := e_cid e; e_fn := quiet_fn (e_fn e) |}.
Definition quiet_reg (r : registry) : registry :=
  {| cid_ctr := cid_ctr r; cbs := map quiet_entry (cbs r); fmap := map quiet_entry (fmap r);
     ign := ign r; shared := shared r |}.
Definition quiet_disp (d : disp) : disp := {| reg := quiet_reg (reg d); tok_ctr := tok_ctr d; tokmap := tokmap d |}.
Definition quiet_re (s : re) : re := {| dsp := quiet_disp (dsp s); temp := temp s |}.

Lemma find_map {A B} (g : A -> B) (p : B -> bool) (l : list A) :
  find p (map g l) = option_map g (find (fun x => p (g x)) l).
Proof. induction l as [|a l IH]; cbn; [reflexivity|]. destruct (p (g a)); [reflexivity | exact IH]. Qed.

Lemma existsb_map {A B} (g : A -> B) (p : B -> bool) (l : list A) :
  existsb p (map g l) = existsb (fun x => p (g x)) l.
Proof. induction l as [|a l IH]; cbn; [reflexivity|]. now rewrite IH. Qed.

Lemma q_connect : forall r s f,
  connect (quiet_reg r) s (quiet_fn f) = (quiet_reg (fst (connect r s f)), snd (connect r s f)).
Proof.
  intros r s f. unfold connect. cbn [quiet_reg fmap]. rewrite find_map.
  change (fun x => same_key s (quiet_fn f) (quiet_entry x)) with (same_key s f).
  destruct (find (same_key s f) (fmap r)); cbn; [reflexivity|].
  unfold quiet_reg; cbn. rewrite !map_app. reflexivity.
Qed.

Lemma q_connect_all : forall ss r f,
  connect_all (quiet_reg r) ss (quiet_fn f) = (quiet_reg (fst (connect_all r ss f)), snd (connect_all r ss f)).
Proof.
  induction ss as [|s ss IH]; intros r f; cbn [connect_all]; [reflexivity|].
  rewrite q_connect. destruct (connect r s f) as [r1 c]. cbn [fst snd].
  rewrite IH. destruct (connect_all r1 ss f) as [r2 cs]. reflexivity.
Qed.

Lemma q_d_subscribe : forall d f n,
  d_subscribe (quiet_disp d) (quiet_fn f) n = (quiet_disp (fst (d_subscribe d f n)), snd (d_subscribe d f n)).
Proof.
  intros d f n. destruct (subname_dec_bad n) as [->|Hn]; [reflexivity|].
  rewrite !(d_subscribe_eq _ _ n Hn). cbn [quiet_disp reg tok_ctr tokmap fst snd].
  rewrite q_connect_all. reflexivity.
Qed.

Lemma q_disconnect : forall r c, disconnect (quiet_reg r) c = quiet_reg (disconnect r c).
Proof.
  intros r c. unfold disconnect. cbn [quiet_reg cbs fmap]. rewrite existsb_map.
  change (fun x => has_cid c (quiet_entry x)) with (has_cid c).
  destruct (existsb (has_cid c) (cbs r)); [|reflexivity].
  unfold quiet_reg; cbn. rewrite !filter_map_comm. reflexivity.
Qed.

Lemma q_fold_disconnect : forall cs r, fold_left disconnect cs (quiet_reg r) = quiet_reg (fold_left disconnect cs r).
Proof. induction cs as [|c cs IH]; intros r; cbn; [reflexivity|]. now rewrite q_disconnect, IH. Qed.

Lemma q_d_unsubscribe : forall d t, d_unsubscribe (quiet_disp d) t = quiet_disp (d_unsubscribe d t).
Proof.
  intros d t. unfold d_unsubscribe. cbn [quiet_disp tokmap].
  destruct (find (tok_is t) (tokmap d)) as [[? cs]|]; [|reflexivity].
  unfold quiet_disp; cbn. now rewrite q_fold_disconnect.
Qed.

Lemma q_fold_unsubscribe : forall ts d,
  fold_left d_unsubscribe ts (quiet_disp d) = quiet_disp (fold_left d_unsubscribe ts d).
Proof. induction ts as [|t ts IH]; intros d; cbn; [reflexivity|]. now rewrite q_d_unsubscribe, IH. Qed.

Lemma q_registered : forall r s, registered (quiet_reg r) s = map quiet_fn (registered r s).
Proof.
  intros r s. unfold registered. cbn [quiet_reg cbs]. rewrite filter_map_comm, !map_map. reflexivity.
Qed.

Lemma q_process : forall r d, ign r = true ->
  process r d = (fst (process r d), None) /\
  process (quiet_reg r) d = (map (fun c => (fst c, false)) (fst (process r d)), None).
Proof.
  intros r d H. unfold process. cbn [quiet_reg ign]. rewrite H, q_registered, !call_all_ignore. cbn [fst].
  split; [reflexivity|]. unfold calls_of. rewrite !map_map. reflexivity.
Qed.

Lemma q_emit_all : forall r ds, ign r = true ->
  emit_all (process r) ds = (fst (emit_all (process r) ds), None) /\
  emit_all (process (quiet_reg r)) ds = (map strip_em (fst (emit_all (process r) ds)), None).
Proof.
  intros r ds H; induction ds as [|d ds IH]; cbn [emit_all]; [split; reflexivity|].
  destruct (q_process r d H) as [P1 P2]. rewrite P2. rewrite P1.
  destruct IH as [I1 I2]. rewrite I2. rewrite I1. cbn. split; reflexivity.
Qed.

Lemma q_run_plan : forall plan s c ems toks, ig s = true ->
  run_plan (quiet_re s) c (map quiet_pmsg plan) (map strip_em ems) toks =
  let '(s', c', ems', toks', x) := run_plan s c plan ems toks in (quiet_re s', c', map strip_em ems', toks', x).
Proof.
  induction plan as [|m plan IH]; intros s c ems toks Hig; [reflexivity|].
  assert (Hdata : forall m', plan_action c m' = plan_action c m' ->
    match plan_action c m' with
    | ASkip => run_plan (quiet_re s) c (map quiet_pmsg plan) (map strip_em ems) toks
    | AIllegal => (quiet_re s, c, map strip_em ems, toks, Some ExIllegal)
    | AEmit during ds after =>
        match emit_all (process (reg (dsp (quiet_re s)))) ds with
        | (es, None) => run_plan (quiet_re s) after (map quiet_pmsg plan) (map strip_em ems ++ es) toks
        | (es, Some e) => (quiet_re s, during, map strip_em ems ++ es, toks, Some e)
        end
    end =
    let '(s', c', ems', toks', x) :=
      match plan_action c m' with
      | ASkip => run_plan s c plan ems toks
      | AIllegal => (s, c, ems, toks, Some ExIllegal)
      | AEmit during ds after =>
          match emit_all (process (reg (dsp s))) ds with
          | (es, None) => run_plan s after plan (ems ++ es) toks
          | (es, Some e) => (s, during, ems ++ es, toks, Some e)
          end
      end in (quiet_re s', c', map strip_em ems', toks', x)).
  { intros m' _. destruct (plan_action c m') as [during ds after| |].
    - destruct (q_emit_all (reg (dsp s)) ds Hig) as [E1 E2]. cbn [quiet_re dsp quiet_disp reg].
      rewrite E2, E1. rewrite <- map_app. now apply IH.
    - reflexivity.
    - now apply IH. }
  destruct m; cbn [map quiet_pmsg run_plan]; try (apply Hdata; reflexivity).
  - (* PSub *)
    cbn [quiet_re dsp temp]. rewrite q_d_subscribe.
    pose proof (d_subscribe_ign (dsp s) f n) as Hi.
    destruct (d_subscribe (dsp s) f n) as [d [t|]]; cbn [fst snd] in *.
    + change {| dsp := quiet_disp d; temp := temp s ++ [t] |} with (quiet_re {| dsp := d; temp := temp s ++ [t] |}).
      apply IH. unfold ig in *; cbn; congruence.
    + reflexivity.
  - (* PUnsub *)
    cbn [quiet_re dsp temp]. rewrite q_d_unsubscribe.
    pose proof (d_unsubscribe_ign (dsp s) t) as Hi.
    destruct (existsb (Nat.eqb t) (temp s)).
    + change {| dsp := quiet_disp (d_unsubscribe (dsp s) t); temp := filter (fun x => negb (x =? t)) (temp s) |}
        with (quiet_re {| dsp := d_unsubscribe (dsp s) t; temp := filter (fun x => negb (x =? t)) (temp s) |}).
      apply IH. unfold ig in *; cbn; congruence.
    + reflexivity.
Qed.

Lemma q_subscribe_temps : forall l s,
  subscribe_temps (quiet_re s) (map (fun p => (fst p, quiet_fn (snd p))) l) = quiet_re (subscribe_temps s l).
Proof.
  induction l as [|[n f] l IH]; intros s; [reflexivity|]. cbn [map fst snd subscribe_temps quiet_re dsp temp].
  rewrite q_d_subscribe. destruct (d_subscribe (dsp s) f n) as [d [t|]]; cbn [fst snd].
  - change {| dsp := quiet_disp d; temp := temp s ++ [t] |} with (quiet_re {| dsp := d; temp := temp s ++ [t] |}). apply IH.
  - change {| dsp := quiet_disp d; temp := temp s |} with (quiet_re {| dsp := d; temp := temp s |}). apply IH.
Qed.

Lemma q_clear_call_cache : forall s, clear_call_cache (quiet_re s) = quiet_re (clear_call_cache s).
Proof. intros s. unfold clear_call_cache, quiet_re; cbn. now rewrite q_fold_unsubscribe. Qed.

Definition quiet_subs (subs : list (subname * list callable)) := map (fun p => (fst p, map quiet_fn (snd p))) subs.

Lemma forallb_map' {A B} (g : A -> B) (p : B -> bool) (l : list A) :
  forallb p (map g l) = forallb (fun x => p (g x)) l.
Proof. induction l as [|a l IH]; cbn; [reflexivity|]. now rewrite IH. Qed.

Lemma q_normalize : forall subs,
  normalize_subs (quiet_subs subs) = option_map (map (fun p => (fst p, quiet_fn (snd p)))) (normalize_subs subs).
Proof.
  intros subs. unfold normalize_subs, quiet_subs. rewrite forallb_map'. cbn [fst].
  destruct (forallb (fun p => in_subs_names (fst p)) subs); [|reflexivity]. cbn [option_map]. f_equal.
  induction subs_names as [|n ns IH]; [reflexivity|]. cbn [flat_map]. rewrite map_app, IH. f_equal.
  clear IH. induction subs as [|[m fs] subs IH]; [reflexivity|]. cbn [map flat_map fst snd].
  rewrite map_app, IH. f_equal. destruct (subname_eqb m n); [|reflexivity]. rewrite !map_map. reflexivity.
Qed.

Lemma q_run_call : forall s subs plan, ig s = true ->
  run_call (quiet_re s) (quiet_subs subs) (map quiet_pmsg plan) =
  (quiet_re (fst (run_call s subs plan)), strip_obs (snd (run_call s subs plan))).
Proof.
  intros s subs plan Hig. unfold run_call. rewrite q_normalize, q_clear_call_cache.
  destruct (normalize_subs subs) as [l|]; cbn [option_map]; [|reflexivity].
  rewrite q_subscribe_temps.
  assert (Hi2 : ig (subscribe_temps (clear_call_cache s) l) = true)
    by (now rewrite subscribe_temps_ig, clear_call_cache_ig).
  pose proof (q_run_plan plan _ cstate0 [] [] Hi2) as Q. cbn [map] in Q. rewrite Q.
  destruct (run_plan (subscribe_temps (clear_call_cache s) l) cstate0 plan [] []) as [[[[s3 c] ems] toks] x] eqn:Erun.
  destruct (run_plan_ignore _ _ _ _ _ _ _ _ _ _ Erun Hi2) as [H3 _].
  destruct (q_emit_all (reg (dsp s3)) (cleanup_docs c match x with Some _ => true | None => false end) H3) as [E1 E2].
  cbn [quiet_re dsp quiet_disp reg]. rewrite E2, E1. cbn [fst snd strip_obs]. now rewrite map_app.
Qed.

Lemma q_step : forall s o, ig s = true ->
  step (quiet_re s) (quiet_op o) = (quiet_re (fst (step s o)), strip_obs (snd (step s o))).
Proof.
  intros s o Hig. destruct o; cbn [quiet_op step].
  - cbn [quiet_re dsp temp]. rewrite q_d_subscribe. destruct (d_subscribe (dsp s) f n) as [d [t|]]; reflexivity.
  - cbn [quiet_re dsp temp]. now rewrite q_d_unsubscribe.
  - reflexivity.
  - now apply q_run_call.
  - cbn [quiet_re dsp temp]. unfold d_unsubscribe_all. cbn [quiet_disp tokmap]. now rewrite q_fold_unsubscribe.
  - rewrite q_clear_call_cache. cbn [quiet_re dsp temp]. unfold d_unsubscribe_all. cbn [quiet_disp tokmap].
    now rewrite q_fold_unsubscribe.
Qed.

Lemma q_run_from : forall h s, ig s = true -> no_strict h = true ->
  snd (run_from (quiet_re s) (map quiet_op h)) = map strip_obs (snd (run_from s h)).
Proof.
  induction h as [|o h IH]; intros s Hig Hns; [reflexivity|].
  cbn [map run_from]. cbn [no_strict forallb] in Hns. apply andb_true_iff in Hns as [Ho Hns].
  rewrite (q_step s o Hig). pose proof (step_ig s o) as Hi.
  destruct (step s o) as [s1 ob]. cbn [fst snd] in *.
  assert (Hig1 : ig s1 = true).
  { rewrite Hi. destruct o; try exact Hig. destruct b; [reflexivity | discriminate]. }
  specialize (IH s1 Hig1 Hns).
  destruct (run_from (quiet_re s1) (map quiet_op h)) as [q2 qobs].
  destruct (run_from s1 h) as [s2 obs']. cbn [snd] in *. now rewrite IH.
Qed.

(* C19, ignore part: with exceptions ignored throughout, making every callable non-raising changes nothing in
   what is observed - same tokens, same documents, same callables invoked in the same order, same outcomes -
   except the raise flags themselves *)
Theorem ignored_exceptions_change_nothing : forall h, no_strict h = true ->
  run_hist (SetIgnore true :: map quiet_op h) = map strip_obs (run_hist (SetIgnore true :: h)).
Proof.
  intros h Hns. unfold run_hist. cbn [run_from step].
  pose proof (q_run_from h {| dsp := d_set_ignore (dsp re0) true; temp := temp re0 |} eq_refl Hns) as Q.
  change (quiet_re {| dsp := d_set_ignore (dsp re0) true; temp := temp re0 |})
    with {| dsp := d_set_ignore (dsp re0) true; temp := temp re0 |} in Q.
  destruct (run_from {| dsp := d_set_ignore (dsp re0) true; temp := temp re0 |} (map quiet_op h)) as [a b].
  destruct (run_from {| dsp := d_set_ignore (dsp re0) true; temp := temp re0 |} h) as [a' b'].
  cbn [snd] in *. now rewrite Q.
Qed.

(* ------------------------------------------------------------------ subscription order in the specification *)

(* the live list is always in the order the subscriptions were made: tokens strictly increase along it *)
Definition ordered (s : spec_st) : Prop :=
  StronglySorted lt (map s_tok (live s)) /\ forall x, In x (live s) -> s_tok x < next_tok s.

Lemma sorted_filter {A} (f : A -> nat) (p : A -> bool) (l : list A) :
  StronglySorted lt (map f l) -> StronglySorted lt (map f (filter p l)).
Proof.
  induction l as [|a l IH]; cbn; intros H; [constructor|].
  inversion H as [|? ? Hs Hf]; subst. destruct (p a); cbn; [|now apply IH].
  constructor; [now apply IH|]. rewrite Forall_forall in *. intros y Hy. apply Hf.
  apply in_map_iff in Hy as [x [<- Hx]]. apply in_map. apply filter_In in Hx; tauto.
Qed.

Lemma sorted_snoc : forall l n, StronglySorted lt l -> (forall x, In x l -> x < n) -> StronglySorted lt (l ++ [n]).
Proof.
  induction l as [|a l IH]; cbn; intros n Hs Hb; [repeat constructor|].
  inversion Hs as [|? ? Hs' Hf]; subst. constructor; [apply IH; auto|].
  rewrite Forall_forall in *. intros y Hy. apply in_app_or in Hy as [Hy|[<-|[]]]; [now apply Hf | apply Hb; now left].
Qed.

Lemma ordered_subscribe : forall s f n tmp, ordered s -> ordered (fst (sp_subscribe s f n tmp)).
Proof.
  intros s f n tmp [H1 H2]. destruct (subname_dec_bad n) as [->|Hn]; [split; assumption|].
  assert (E : fst (sp_subscribe s f n tmp) =
              {| live := live s ++ [{| s_tok := next_tok s; s_fn := f; s_name := n; s_temp := tmp |}];
                 next_tok := S (next_tok s); sp_ign := sp_ign s |}) by (destruct n; try congruence; reflexivity).
  rewrite E. split; cbn.
  - rewrite map_app. cbn. apply sorted_snoc; [exact H1|]. intros x Hx. apply in_map_iff in Hx as [y [<- Hy]]. now apply H2.
  - intros x Hx. apply in_app_or in Hx as [Hx|[<-|[]]]; [apply H2 in Hx; lia | cbn; lia].
Qed.

Lemma ordered_filter : forall s p, ordered s ->
  ordered {| live := filter p (live s); next_tok := next_tok s; sp_ign := sp_ign s |}.
Proof.
  intros s p [H1 H2]. split; cbn.
  - now apply sorted_filter.
  - intros x Hx. apply filter_In in Hx as [Hx _]. now apply H2.
Qed.

Lemma ordered_subscribe_temps : forall l s, ordered s -> ordered (sp_subscribe_temps s l).
Proof. induction l as [|[n f] l IH]; intros s H; cbn; [exact H|]. apply IH. now apply ordered_subscribe. Qed.

Lemma ordered_run_plan : forall plan s c ems toks, ordered s ->
  ordered (fst (fst (fst (fst (sp_run_plan s c plan ems toks))))).
Proof.
  induction plan as [|m plan IH]; intros s c ems toks H; [exact H|].
  assert (Hdata : forall a, ordered (fst (fst (fst (fst (match a with
        | ASkip => sp_run_plan s c plan ems toks
        | AIllegal => (s, c, ems, toks, Some ExIllegal)
        | AEmit during ds after =>
            match emit_all (sp_process s) ds with
            | (es, None) => sp_run_plan s after plan (ems ++ es) toks
            | (es, Some e) => (s, during, ems ++ es, toks, Some e)
            end
        end)))))).
  { intros [during ds after| |]; [destruct (emit_all (sp_process s) ds) as [es [e|]]; [exact H | now apply IH]
                                 | exact H | now apply IH]. }
  destruct m; cbn [sp_run_plan]; try apply Hdata.
  - pose proof (ordered_subscribe s f n true H) as H1.
    destruct (sp_subscribe s f n true) as [s1 [t|]]; cbn [fst] in *; [now apply IH | exact H1].
  - pose proof (ordered_filter s (fun x => negb (s_tok x =? t)) H) as H1.
    destruct (existsb _ (live s)); [now apply IH | exact H1].
Qed.

Lemma ordered_step : forall s o, ordered s -> ordered (fst (sp_step s o)).
Proof.
  intros s o H. destruct o; cbn [sp_step].
  - pose proof (ordered_subscribe s f n false H) as H1. destruct (sp_subscribe s f n false) as [s1 [t|]]; exact H1.
  - now apply (ordered_filter s).
  - exact H.
  - unfold sp_run_call. destruct (normalize_subs subs) as [l|]; [|exact H].
    pose proof (ordered_run_plan plan _ cstate0 [] [] (ordered_subscribe_temps l s H)) as H1.
    destruct (sp_run_plan (sp_subscribe_temps s l) cstate0 plan [] []) as [[[[s3 c] ems] toks] x]. cbn [fst] in H1.
    destruct (emit_all (sp_process s3) _) as [es y]. cbn [fst]. now apply (ordered_filter s3).
  - split; cbn; [constructor | intros x []].
  - split; cbn; [constructor | intros x []].
Qed.

Theorem spec_subscription_order : forall h s, ordered s -> ordered (fst (sp_run_from s h)).
Proof.
  induction h as [|o h IH]; intros s H; [exact H|]. cbn [sp_run_from].
  pose proof (ordered_step s o H) as H1. destruct (sp_step s o) as [s1 ob]. cbn [fst] in H1.
  pose proof (IH s1 H1) as H2. destruct (sp_run_from s1 h) as [s2 obs']. exact H2.
Qed.

Lemma ordered0 : ordered spec0.
Proof. split; cbn; [constructor | intros x []]. Qed.
