(* C30 -- proofs about Pure/SuspCond.v.

   Everything is proved for an arbitrary value type with arbitrary ltb/eqb/truthy; the only
   law used is co-transitivity of `<` (a < b -> a < c \/ c < b), which every strict total
   (or weak) order has -- in particular every non-NaN Python number type -- and which is
   proved for the rational instance at the end. *)
From BV Require Import Base.Prelude Pure.SuspCond.
From Coq Require Import QArith Lqa.

Section Proofs.
  Variable T : Type.
  Variable ltb : T -> T -> bool.
  Variable eqb : T -> T -> bool.
  Variable truthy : T -> bool.

  Notation construct := (construct T ltb).
  Notation should_suspend := (should_suspend T ltb eqb truthy).
  Notation should_resume := (should_resume T ltb eqb truthy).
  Notation doc_valid := (doc_valid T ltb).
  Notation doc_suspend := (doc_suspend T ltb eqb truthy).
  Notation doc_resume := (doc_resume T ltb eqb truthy).
  Notation call := (call T ltb eqb truthy).
  Notation step := (step T ltb eqb truthy).
  Notation run := (run T ltb eqb truthy).
  Notation run_values := (run_values T ltb eqb truthy).
  Notation decisive := (decisive T ltb eqb truthy).
  Notation last_decisive := (last_decisive T ltb eqb truthy).

  (* ---- constructors: validation and defaulting ------------------------------------ *)

  Lemma construct_accepts_iff_valid :
    forall a, (exists su, construct a = Some su) <-> doc_valid a = true.
  Proof.
    intros a; destruct a as [| |s r|s r|b t|b t|b t|e al sv]; cbn;
      try (split; [reflexivity | eauto]).
    - destruct (ltb (default_none T r s) s) eqn:E; cbn; split; intros H;
        try discriminate; eauto. destruct H as [su H]; discriminate.
    - destruct (ltb s (default_none T r s)) eqn:E; cbn; split; intros H;
        try discriminate; eauto. destruct H as [su H]; discriminate.
    - destruct (ltb b t) eqn:E; split; intros H; try discriminate; eauto.
      destruct H as [su H]; discriminate.
    - destruct (ltb b t) eqn:E; split; intros H; try discriminate; eauto.
      destruct H as [su H]; discriminate.
    - destruct (ltb b t) eqn:E; split; intros H; try discriminate; eauto.
      destruct H as [su H]; discriminate.
  Qed.

  Lemma construct_rejects_iff_invalid :
    forall a, construct a = None <-> doc_valid a = false.
  Proof.
    intros a. pose proof (construct_accepts_iff_valid a) as [H1 H2].
    destruct (construct a) as [su|] eqn:E; destruct (doc_valid a) eqn:V; split; intros H;
      try reflexivity; try discriminate.
    - assert (true = true -> False) as F.
      { intros _. specialize (H1 (ex_intro _ su eq_refl)). discriminate. }
      exfalso; now apply F.
    - destruct (H2 eq_refl) as [su H']; discriminate.
  Qed.

  (* the stored thresholds / expected value are the ones given; defaults only for None *)
  Lemma given_values_stored :
    forall a su, construct a = Some su ->
      match a with
      | ABoolHigh => su = SBoolHigh
      | ABoolLow => su = SBoolLow
      | AFloor s (Some r) => su = SFloor s r
      | AFloor s None => su = SFloor s s
      | ACeil s (Some r) => su = SCeil s r
      | ACeil s None => su = SCeil s s
      | AWhenOutsideBand b t | AInBand b t => su = SOutside b t
      | AOutBand b t => su = SInside b t
      | AWhenChanged (Some e) al _ => su = SChanged e al
      | AWhenChanged None al sv => su = SChanged sv al
      end.
  Proof.
    intros a su H; destruct a as [| |s [r|]|s [r|]|b t|b t|b t|[e|] al sv]; cbn in H.
    - now inversion H.
    - now inversion H.
    - destruct (ltb r s); now inversion H.
    - destruct (ltb s s); now inversion H.
    - destruct (ltb s r); now inversion H.
    - destruct (ltb s s); now inversion H.
    - destruct (ltb b t); now inversion H.
    - destruct (ltb b t); now inversion H.
    - destruct (ltb b t); now inversion H.
    - now inversion H.
    - now inversion H.
  Qed.

  Lemma conditions_as_documented :
    forall a su, construct a = Some su ->
      forall v, should_suspend su v = doc_suspend a v /\ should_resume su v = doc_resume a v.
  Proof.
    intros a su H v; destruct a as [| |s r|s r|b t|b t|b t|e al sv]; cbn in H.
    - inversion H; subst; cbn; auto.
    - inversion H; subst; cbn; auto.
    - destruct (ltb (default_none T r s) s); inversion H; subst; cbn; auto.
    - destruct (ltb s (default_none T r s)); inversion H; subst; cbn; auto.
    - destruct (ltb b t); inversion H; subst; cbn; auto.
    - destruct (ltb b t); inversion H; subst; cbn; auto.
    - destruct (ltb b t); inversion H; subst; cbn; auto.
    - inversion H; subst; cbn; auto.
  Qed.

  (* ---- __call__: the tripped flag -------------------------------------------------- *)

  Lemma call_installed :
    forall su st v en, st_installed (fst (call su st v en)) = st_installed st.
  Proof.
    intros su st v en; unfold SuspCond.call.
    destruct (st_installed st) eqn:I; cbn; [|exact I].
    destruct (should_suspend su v); [destruct (st_ev st); [|destruct (responsive en)]|
      destruct (should_resume su v)]; cbn; auto.
  Qed.

  Lemma call_tripped :
    forall su st v en, st_installed st = true ->
      st_tripped (fst (call su st v en)) =
      if should_suspend su v then true else if should_resume su v then false else st_tripped st.
  Proof.
    intros su st v en I; unfold SuspCond.call; rewrite I; cbn.
    destruct (should_suspend su v); [destruct (st_ev st); [|destruct (responsive en)]|
      destruct (should_resume su v)]; cbn; auto.
  Qed.

  Lemma call_uninstalled :
    forall su st v en, st_installed st = false -> call su st v en = (st, []).
  Proof. intros su st v en I; unfold SuspCond.call; now rewrite I. Qed.

  Lemma run_values_installed :
    forall su cs st, st_installed (run_values su st cs) = st_installed st.
  Proof.
    intros su cs; induction cs as [|c cs IH]; intros st; cbn; [reflexivity|].
    unfold SuspCond.run_values in *; cbn. rewrite IH. apply call_installed.
  Qed.

  Lemma last_decisive_app_one :
    forall su vs v,
      last_decisive su (vs ++ [v]) = if decisive su v then Some v else last_decisive su vs.
  Proof.
    intros su vs v; induction vs as [|w vs IH]; cbn.
    - destruct (decisive su v); reflexivity.
    - rewrite IH. destruct (decisive su v); [reflexivity|].
      destruct (last_decisive su vs); reflexivity.
  Qed.

  Lemma last_decisive_some :
    forall su vs v, last_decisive su vs = Some v -> In v vs /\ decisive su v = true.
  Proof.
    intros su vs; induction vs as [|w vs IH]; intros v H; cbn in H; [discriminate|].
    destruct (last_decisive su vs) as [u|] eqn:E.
    - inversion H; subst. destruct (IH v eq_refl) as [A B]. split; [now right | exact B].
    - destruct (decisive su w) eqn:D; inversion H; subst. split; [now left | exact D].
  Qed.

  (* tripped after any value sequence = should_suspend at the last decisive value *)
  Lemma tripped_last_decisive :
    forall su cs st, st_installed st = true ->
      st_tripped (run_values su st cs) =
      match last_decisive su (map fst cs) with
      | Some v => should_suspend su v
      | None => st_tripped st
      end.
  Proof.
    intros su cs; induction cs as [|c cs IH] using rev_ind; intros st I; [reflexivity|].
    unfold SuspCond.run_values in *. rewrite fold_left_app, map_app; cbn.
    rewrite last_decisive_app_one.
    rewrite call_tripped by (fold (run_values su st cs); now rewrite run_values_installed).
    rewrite IH by exact I. unfold SuspCond.decisive.
    destruct (should_suspend su (fst c)) eqn:S1; cbn; [now rewrite S1|].
    destruct (should_resume su (fst c)) eqn:S2; cbn; [now rewrite S1|reflexivity].
  Qed.

  (* ---- __call__: what is scheduled -------------------------------------------------- *)

  (* resumption is granted (ev.set scheduled) only when the resume condition holds and the
     suspend condition does not, and only for the event currently held *)
  Lemma release_only_on_resume :
    forall su st v en e, In (ORelease e) (snd (call su st v en)) ->
      should_resume su v = true /\ should_suspend su v = false /\ st_ev st = Some e
      /\ st_tripped (fst (call su st v en)) = false /\ st_ev (fst (call su st v en)) = None.
  Proof.
    intros su st v en e; unfold SuspCond.call.
    destruct (st_installed st); cbn; [|tauto].
    destruct (should_suspend su v).
    - destruct (st_ev st); cbn; [tauto|]. destruct (responsive en); cbn; [|intuition discriminate].
      destruct (running en); cbn; intuition discriminate.
    - destruct (should_resume su v); cbn; [|tauto].
      unfold set_event. destruct (st_ev st) as [e'|]; cbn; [|tauto].
      intros [H|[]]. inversion H; subst. repeat split; reflexivity.
  Qed.

  (* a suspension is requested only when the suspend condition holds, the engine is
     running and no event was pending; it is requested for a freshly created event *)
  Lemma request_only_on_suspend :
    forall su st v en e, In (OReq e) (snd (call su st v en)) ->
      should_suspend su v = true /\ running en = true /\ st_ev st = None /\ e = st_next st
      /\ st_tripped (fst (call su st v en)) = true /\ st_ev (fst (call su st v en)) = Some e.
  Proof.
    intros su st v en e; unfold SuspCond.call.
    destruct (st_installed st); cbn; [|tauto].
    destruct (should_suspend su v).
    - destruct (st_ev st); cbn; [tauto|]. destruct (responsive en); cbn; [|intuition discriminate].
      destruct (running en); cbn; [|tauto]. intros [H|[]]. inversion H; subst. repeat split; reflexivity.
    - destruct (should_resume su v); cbn; [|tauto].
      unfold set_event. destruct (st_ev st) as [e'|]; cbn; [|tauto]. intuition discriminate.
  Qed.

  (* a value at which neither condition holds changes nothing and schedules nothing *)
  Lemma indecisive_is_noop :
    forall su st v en, decisive su v = false -> call su st v en = (st, []).
  Proof.
    intros su st v en D; unfold SuspCond.decisive in D. apply orb_false_iff in D as [D1 D2].
    unfold SuspCond.call. rewrite D1, D2. destruct (negb (st_installed st)); reflexivity.
  Qed.

  (* remove(): not tripped afterwards, a pending event is released, later values are ignored *)
  Lemma remove_spec :
    forall su st, let r := step su st OpRemove in
      st_tripped (fst r) = false /\ st_installed (fst r) = false
      /\ (st_installed st = true -> st_ev (fst r) = None /\ snd r = set_event st)
      /\ (forall v en, call su (fst r) v en = (fst r, [])).
  Proof.
    intros su st; cbn. destruct (st_installed st); cbn; repeat split; auto; discriminate.
  Qed.

  (* ---- the two conditions are never true together ---------------------------------- *)
  Section Order.
    Hypothesis ltb_cotrans : forall a b c, ltb a b = true -> ltb a c = true \/ ltb c b = true.

    Lemma never_both :
      forall a su, construct a = Some su ->
        forall v, should_suspend su v && should_resume su v = false.
    Proof.
      intros a su H v; destruct a as [| |s r|s r|b t|b t|b t|e al sv]; cbn in H.
      - inversion H; subst; cbn. destruct (truthy v); reflexivity.
      - inversion H; subst; cbn. destruct (truthy v); reflexivity.
      - destruct (ltb (default_none T r s) s) eqn:V; inversion H; subst; cbn.
        destruct (ltb v s) eqn:A; [|reflexivity]. cbn.
        destruct (ltb_cotrans _ _ (default_none T r s) A) as [B|B]; [now rewrite B|].
        rewrite B in V; discriminate.
      - destruct (ltb s (default_none T r s)) eqn:V; inversion H; subst; cbn.
        destruct (ltb s v) eqn:A; [|reflexivity]. cbn.
        destruct (ltb_cotrans _ _ (default_none T r s) A) as [B|B]; [|now rewrite B].
        rewrite B in V; discriminate.
      - destruct (ltb b t); inversion H; subst; cbn. destruct (in_band T ltb b t v); reflexivity.
      - destruct (ltb b t); inversion H; subst; cbn. destruct (in_band T ltb b t v); reflexivity.
      - destruct (ltb b t); inversion H; subst; cbn. destruct (in_band T ltb b t v); reflexivity.
      - inversion H; subst; cbn. destruct (eqb v (default_none T e sv)), al; reflexivity.
    Qed.

    (* with exclusivity: tripped <-> the last decisive value was a suspend value *)
    Lemma tripped_iff_last_decision_suspend :
      forall a su, construct a = Some su ->
      forall cs st, st_installed st = true ->
        st_tripped (run_values su st cs) =
        match last_decisive su (map fst cs) with
        | Some v => negb (should_resume su v)
        | None => st_tripped st
        end.
    Proof.
      intros a su H cs st I. rewrite tripped_last_decisive by exact I.
      destruct (last_decisive su (map fst cs)) as [v|] eqn:E; [|reflexivity].
      apply last_decisive_some in E as [_ D]. unfold SuspCond.decisive in D.
      pose proof (never_both a su H v) as N.
      destruct (should_suspend su v), (should_resume su v); cbn in *; congruence.
    Qed.
  End Order.
End Proofs.

(* ---- the rational instance satisfies the order law ----------------------------------- *)

Lemma Qltb_lt : forall a b, Qltb a b = true <-> (a < b)%Q.
Proof.
  intros a b; unfold Qltb. rewrite negb_true_iff. split; intros H.
  - apply Qnot_le_lt. intros L. apply Qle_bool_iff in L. congruence.
  - destruct (Qle_bool b a) eqn:E; [|reflexivity]. apply Qle_bool_iff in E.
    exfalso; apply (Qlt_not_le _ _ H E).
Qed.

Lemma Qltb_cotrans : forall a b c, Qltb a b = true -> Qltb a c = true \/ Qltb c b = true.
Proof.
  intros a b c H. apply Qltb_lt in H. destruct (Qlt_le_dec a c) as [L|L].
  - left; now apply Qltb_lt.
  - right; apply Qltb_lt. eapply Qle_lt_trans; eassumption.
Qed.

(* regression lemma for C30-a: the constructor as it was before the repair
   (`expected_value or signal.value`) drops an explicitly given 0 *)
Lemma old_constructor_drops_falsy_expected_value :
  exists a su, Qconstruct_old a = Some su /\
    Qshould_suspend su 0%Q <> doc_suspend Q Qltb Qeq_bool Qtruthy a 0%Q.
Proof.
  exists (AWhenChanged (Some 0%Q) false 1%Q), (SChanged 1%Q false).
  split; [reflexivity | vm_compute; discriminate].
Qed.
