(* Gen/InsertSpec.v -- the reference semantics of plan_mutator's head/tail insertion (C21).
   MODEL ONLY (no proofs).

   A stack of typed frames, no dictionaries and no shared mutable slots:
       RHost              the host plan (bottom)
       RHead tail         a head generator returned by msg_proc (or single_gen(msg) standing in for it),
                          with the tail generator that is to run after it (if any)
       RTail saved        a running tail; [saved] = the response to its head's last message
   and one pending input for the top frame ([Send v] or [Throw e]).  Rules:
     * the top frame yields a message m:  if m was seen before it is passed out; otherwise it is
       marked seen and msg_proc m = (head, tail) decides: (None, None) pass m out; otherwise push
       RHead (head, or single_gen m when only a tail is given) and start it with Send None.
       (So the messages of inserted plans are themselves subject to msg_proc once, and the original
       message re-yielded by its head is not processed again.)
     * the top frame returns:  RHead passes on the value it was last sent (= the response to its last
       message; None if it returned on a thrown exception or without yielding): to its tail's RTail
       frame as [saved], starting the tail with Send None, or straight to the frame below;
       RTail passes [saved] to the frame below, discarding every response the tail got;
       RHost ends the whole plan with its return value.
     * the top frame raises an Exception kind: it is popped and the exception is thrown into the frame
       below (the original yield of the host, eventually).  If a head fails on a sent value, its
       pending tail is first given the exception (a not-yet-started generator just re-raises it).
       When nothing is left the exception leaves the mutated plan.
     * driver inputs at a passed-out message: Send v / Throw (Exception kind) go to the top frame;
       close (or a thrown GeneratorExit kind) closes every frame, host first, and re-raises; other
       BaseException kinds leave at once (cf. finding C20-a).
   Identities and the call log are as in Gen/Mutators.v (host = 0, head = n, tail = n+1, fresh). *)
From BV Require Import Base.Prelude Gen.Coalg Gen.Mutators.

Inductive role (P : Type) :=
  | RHost
  | RHead (tail : option (nat * pent P))
  | RTail (saved : val).
Arguments RHost {P}.
Arguments RHead {P} tail.
Arguments RTail {P} saved.

Record sframe (P : Type) := mkFr { f_id : nat; f_ent : pent P; f_role : role P }.
Arguments mkFr {P} f_id f_ent f_role.
Arguments f_id {P} s.
Arguments f_ent {P} s.
Arguments f_role {P} s.

Section InsertSpec.
  Context {P : Type}.
  Variable resume : P -> input -> outcome P.
  Context {PS : Type}.
  Variable proc : @pm_proc P PS.

  Record is_run := mkIS {
    s_seen : list msg;
    s_frames : list (sframe P);        (* head = top *)
    s_retv : val;                      (* the host's return value once it has returned *)
    s_next : nat;
    s_ps : PS
  }.

  Inductive is_state :=
    | ISStart (p : P) (s0 : PS)
    | ISRun (st : is_run) (m : msg).

  Definition is_init (p : P) (s0 : PS) : is_state := ISStart p s0.

  Inductive is_res :=
    | JCont (st : is_run) (pend : input) (calls : list call)
    | JOut (o : outcome is_state) (calls : list call).

  Definition with_frames (st : is_run) (fs : list (sframe P)) : is_run :=
    mkIS (s_seen st) fs (s_retv st) (s_next st) (s_ps st).

  Definition passed_on (pend : input) : val := match pend with Send v => v | _ => VNone end.

  Definition on_msg (st : is_run) (m : msg) (calls : list call) : is_res :=
    if mem_nat m (s_seen st) then JOut (Yielded m (ISRun st m)) calls
    else
      let seen := m :: s_seen st in
      let '(s', head, tail) := proc (s_ps st) m in
      let n := s_next st in
      let head' :=
        match head, tail with
        | None, Some _ => Some (ESingle0 m)
        | None, None => None
        | Some g, _ => Some (EPlan g)
        end in
      match head' with
      | Some g =>
          JCont (mkIS seen (mkFr n g (RHead (option_map (fun t => (S n, EPlan t)) tail)) :: s_frames st)
                      (s_retv st) (S (S n)) s')
                (Send VNone) calls
      | None => JOut (Yielded m (ISRun (mkIS seen (s_frames st) (s_retv st) n s') m)) calls
      end.

  Definition on_return (st : is_run) (f : sframe P) (rest : list (sframe P)) (v : val) (pend : input)
             (calls : list call) : is_res :=
    let retv' := match f_role f with RHost => v | _ => s_retv st end in
    let '(fs, pend') :=
      match f_role f with
      | RHost => (rest, Send (passed_on pend))
      | RHead (Some (tid, t)) => (mkFr tid t (RTail (passed_on pend)) :: rest, Send VNone)
      | RHead None => (rest, Send (passed_on pend))
      | RTail saved => (rest, Send saved)
      end in
    match fs with
    | [] => JOut (Returned retv') calls
    | _ => JCont (mkIS (s_seen st) fs retv' (s_next st) (s_ps st)) pend' calls
    end.

  Definition on_raise (st : is_run) (f : sframe P) (rest : list (sframe P)) (e : exn) (pend : input)
             (calls : list call) : is_res :=
    let fs :=
      match pend, f_role f with
      | Send _, RHead (Some (tid, t)) => mkFr tid t (RHead None) :: rest   (* the pending tail gets the exception *)
      | _, _ => rest
      end in
    match fs with
    | [] => JOut (Raised e) calls
    | _ => JCont (with_frames st fs) (Throw e) calls
    end.

  (* deliver the pending input to the top frame *)
  Definition is_iter (st : is_run) (pend : input) : is_res :=
    match s_frames st with
    | [] => JOut OutOfFuel []
    | f :: rest =>
        let calls := [Call (f_id f) pend] in
        match ent_resume resume (f_ent f) pend with
        | Yielded m p' => on_msg (with_frames st (mkFr (f_id f) p' (f_role f) :: rest)) m calls
        | Returned v => on_return st f rest v pend calls
        | Raised e => if is_Exception e then on_raise st f rest e pend calls else JOut (Raised e) calls
        | OutOfFuel => JOut OutOfFuel calls
        end
    end.

  Fixpoint is_loop (fuel : nat) (st : is_run) (pend : input) (log : list call) : outcome is_state * list call :=
    match fuel with
    | O => (OutOfFuel, log)
    | S f =>
        match is_iter st pend with
        | JCont st' pend' calls => is_loop f st' pend' (log ++ calls)
        | JOut o calls => (o, log ++ calls)
        end
    end.

  Definition is_generator_exit (st : is_run) (e : exn) : outcome is_state * list call :=
    match close_all resume (rev (map (fun f => (f_id f, f_ent f)) (s_frames st))) [] with
    | (_, true, calls) => (OutOfFuel, calls)
    | (Some e', false, calls) => (Raised e', calls)
    | (None, false, calls) => (Raised e, calls)
    end.

  Definition is_lresume (fuel : nat) (s : is_state) (i : input) : outcome is_state * list call :=
    match s with
    | ISStart p s0 =>
        match i with
        | Send VNone => is_loop fuel (mkIS [] [mkFr 0 (EPlan p) RHost] VNone 1 s0) (Send VNone) []
        | Send _ => (Raised ETypeError, [])
        | Throw e => (Raised e, [])
        | Close => (Raised EGeneratorExit, [])
        end
    | ISRun st m =>
        match i with
        | Send v => is_loop fuel st (Send v) []
        | Throw e =>
            if is_GeneratorExit e then is_generator_exit st e
            else if is_Exception e then
              match s_frames st with
              | [] => (Raised e, [])
              | _ => is_loop fuel st (Throw e) []
              end
            else (Raised e, [])
        | Close => is_generator_exit st EGeneratorExit
        end
    end.

  Definition is_resume (fuel : nat) (s : is_state) (i : input) : outcome is_state :=
    fst (is_lresume fuel s i).
End InsertSpec.
