From BV Require Import Base.Prelude Gen.Coalg Gen.PyGen Gen.Wrappers.
From BV Require Gen.Tie.
Theorem C22_stub : True. Proof. exact I. Qed.
Print Assumptions C22_stub.
