(* C13 / C12: the theorems of RE_Resp / RE_Status / RE_Uids instantiated on the tape instance (Engine/REInst.v):
   non-vacuity of their hypotheses and the witness of finding class C13-a, all by vm_compute.
   The two schedules are real runs of the RunEngine (harness/drivers/engine_driver.py), encoded by engine_encode.py. *)
From Coq Require Import List ZArith Bool Arith Lia.
From BV Require Import Engine.RE Engine.REInst Engine.RespMon Proofs.RE_Small Proofs.RE_Resp Proofs.RE_Status Proofs.RE_Uids.
Import ListNotations.

(* the per-event trace used by the correspondence is the per-event trace of the theorems *)
Lemma t_run_tr_eq tapes ledger evs : forall s,
  t_run_tr tapes ledger s evs = snd (run_tr TP (t_resume tapes) t_plan_of nat (t_dev ledger) s evs).
Proof.
  induction evs as [|e evs IH]; intros s; cbn [t_run_tr run_tr]; [reflexivity|].
  destruct (step TP (t_resume tapes) t_plan_of nat (t_dev ledger) s e) as [s1 o1]. rewrite IH.
  destruct (run_tr TP (t_resume tapes) t_plan_of nat (t_dev ledger) s1 evs). reflexivity.
Qed.

(* recorded plans that never raise CancelledError themselves *)
Definition tout_ok (t : tout) : bool := match t with TE ECancelled => false | _ => true end.
Definition tapes_ok (tapes : list (nat * list tout)) : bool := forallb (fun kt => forallb tout_ok (snd kt)) tapes.
Lemma alookup_in {A} k (l : list (nat * A)) v : alookup k l = Some v -> In (k, v) l.
Proof.
  induction l as [|[k' v'] l IH]; cbn; [discriminate|]. destruct (Nat.eqb k k') eqn:E.
  - intros H; inversion H; subst. apply Nat.eqb_eq in E. subst. left; reflexivity.
  - intros H. right. apply IH, H.
Qed.
Lemma tapes_ok_nc tapes : tapes_ok tapes = true -> forall p i, t_resume tapes p i <> Raised ECancelled.
Proof.
  intros Hok p i. unfold t_resume. destruct (alookup (fst p) tapes) as [t|] eqn:E; [|discriminate].
  apply alookup_in in E. unfold tapes_ok in Hok. rewrite forallb_forall in Hok. specialize (Hok _ E). cbn in Hok.
  destruct (nth_error t (snd p)) as [x|] eqn:En; [|discriminate].
  apply nth_error_In in En. rewrite forallb_forall in Hok. specialize (Hok _ En).
  destruct x; try discriminate. destruct e; cbn in Hok; discriminate.
Qed.

Definition no_bad (tr : list (event * list obs)) : bool :=
  forallb (fun o => match o with OBad _ => false | _ => true end) (flat_map snd tr).
Lemma no_bad_spec tr : no_bad tr = true -> ~ In (OBad 1) (flat_map snd tr).
Proof. unfold no_bad. rewrite forallb_forall. intros H Hin. specialize (H _ Hin). discriminate. Qed.

Definition exa_tapes : list (nat * list tout) := [(0, [TY {| mid := (Some 0); mcmd := COpenRun; mobj := None; mrun := 0 |}; TY {| mid := (Some 1); mcmd := CCheckpoint; mobj := None; mrun := 0 |}; TY {| mid := (Some 2); mcmd := (CSet 1); mobj := (Some 1); mrun := 0 |}; TY {| mid := (Some 3); mcmd := (CWait 1); mobj := None; mrun := 0 |}; TY {| mid := (Some 4); mcmd := CNull; mobj := None; mrun := 0 |}; TY {| mid := (Some 5); mcmd := (CCloseRun None RsEmpty); mobj := None; mrun := 0 |}; TR (VUid 0)])].
Definition exa_ledger : list devres := [DStatus 0 false; DUnit; DStatus 1 false; DUnit].
Definition exa_evs : list event := [EvMain (ACall 0); EvPermit; EvTask; EvTask; EvTask; EvTask; EvTask; EvReqPause false; EvTask; EvMainDone (ACall 0); EvMain AResume; EvPermit; EvTask; EvTask; EvTask; EvStatus 0 true; EvStatus 1 true; EvTask; EvTask; EvTask; EvTask; EvTask; EvTask; EvMainDone AResume].
Definition exa_tr := model_tr exa_tapes exa_ledger [2] [0; 3] false exa_evs.
Definition exn__tapes : list (nat * list tout) := [(0, [TY {| mid := (Some 0); mcmd := COpenRun; mobj := None; mrun := 0 |}; TY {| mid := (Some 1); mcmd := CCheckpoint; mobj := None; mrun := 0 |}; TY {| mid := (Some 2); mcmd := (CSet 1); mobj := (Some 1); mrun := 0 |}; TY {| mid := (Some 3); mcmd := CNull; mobj := None; mrun := 0 |}; TY {| mid := (Some 4); mcmd := (CCreate 0); mobj := None; mrun := 0 |}; TY {| mid := (Some 7); mcmd := CRead; mobj := (Some 1); mrun := 0 |}; TY {| mid := (Some 8); mcmd := CSave; mobj := None; mrun := 0 |}; TY {| mid := (Some 9); mcmd := CCheckpoint; mobj := None; mrun := 0 |}; TY {| mid := (Some 10); mcmd := CNull; mobj := None; mrun := 0 |}; TY {| mid := (Some 11); mcmd := (CCloseRun None RsEmpty); mobj := None; mrun := 0 |}; TR (VUid 0)]); (1000, [TY {| mid := (Some 5); mcmd := CNull; mobj := None; mrun := 0 |}; TR VNone]); (1001, [TY {| mid := (Some 6); mcmd := CNull; mobj := None; mrun := 0 |}; TR VNone])].
Definition exn__ledger : list devres := [DRaise EDev; DUnit; DStatus 0 false; DUnit; DStatus 1 false; DVal (0)%Z; DUnit].
Definition exn__evs : list event := [EvMain (ACall 0); EvPermit; EvTask; EvTask; EvTask; EvTask; EvTask; EvTask; EvReqSuspend 0 true true; EvTask; EvTask; EvTask; EvTask; EvTask; EvRelease 0; EvTask; EvTask; EvTask; EvTask; EvTask; EvStatus 0 true; EvReqPause false; EvTask; EvMainDone (ACall 0); EvMain AResume; EvPermit; EvTask; EvTask; EvStatus 1 true; EvTask; EvTask; EvTask; EvTask; EvTask; EvTask; EvCacheDone; EvTask; EvTask; EvTask; EvTask; EvTask; EvTask; EvTask; EvMainDone AResume].
Definition exn__tr := model_tr exn__tapes exn__ledger [2] [0; 3] false exn__evs.

(* instance of the main theorem: its hypotheses hold on a real schedule with a device fault handled by the plan,
   a suspension with pre- and post-plans, a pause and a resume *)
Example inputs_explained_instance : exists fl, chk 0 mon0 exn__tr = Some fl.
Proof.
  unfold exn__tr, model_tr. rewrite t_run_tr_eq.
  apply (inputs_explained TP (t_resume exn__tapes) t_plan_of nat (t_dev exn__ledger) 0).
  - lia.
  - apply tapes_ok_nc. vm_compute. reflexivity.
  - rewrite <- t_run_tr_eq. apply no_bad_spec. vm_compute. reflexivity.
Qed.

Definition is_throw_in (o : obs) : bool := match o with OPlanIn _ (Throw _) => true | _ => false end.
Definition is_value_in (o : obs) : bool := match o with OPlanIn _ (Send (VUid _ | VReading _ _)) => true | _ => false end.
Definition is_helper_in (o : obs) : bool := match o with OPlanIn q _ => Nat.leb 1000 q | _ => false end.

Example resp_nonvacuous :
  tapes_ok exn__tapes = true /\ no_bad exn__tr = true /\ chk 0 mon0 exn__tr = Some [] /\
  chk_status false exn__tr = true /\
  existsb is_throw_in (flat_map snd exn__tr) = true /\ existsb is_value_in (flat_map snd exn__tr) = true /\
  existsb is_helper_in (flat_map snd exn__tr) = true.
Proof. vm_compute. repeat split; reflexivity. Qed.

(* finding class C13-a: a `wait` cancelled by a pause; after the resume the plan receives None for it *)
Example resp_a_witness :
  tapes_ok exa_tapes = true /\ no_bad exa_tr = true /\ chk 0 mon0 exa_tr = Some [FlagA].
Proof. vm_compute. repeat split; reflexivity. Qed.

(* finding class C13-a: the monitor reports FlagA = a command cancelled by a pause/suspension (no response recorded)
   whose plan then receives None, for a command whose completed response is never None (wait, wait_for, read, ...) *)
Definition finding_C13_a (pid : nat) (tr : list (event * list obs)) : bool := has_flag (chk pid mon0 tr).

(* the full statement: every input of every plan explained, no deviation - refuted by class C13-a *)
Definition C13_full : Prop :=
  forall (P : Type) (presume : P -> input -> outcome P) (plan_of : nat -> P)
         (D : Type) (dev : D -> nat -> devmeth -> D * devres) (pid : nat)
         (d : D) (paus stag : list nat) (rec : bool) (evs : list event),
    let tr := snd (run_tr P presume plan_of D dev (init P D d paus stag rec) evs) in
    ~ In (OBad 1) (flat_map snd tr) -> chk pid mon0 tr = Some [].

Example resp_a_refuted :
  finding_C13_a 0 exa_tr = true /\ tapes_ok exa_tapes = true /\ no_bad exa_tr = true /\ chk 0 mon0 exa_tr <> Some [].
Proof. vm_compute. repeat split; try reflexivity. discriminate. Qed.

Theorem C13_full_refuted : ~ C13_full.
Proof.
  intros H.
  specialize (H TP (t_resume exa_tapes) t_plan_of nat (t_dev exa_ledger) 0 0 [2] [0; 3] false exa_evs).
  cbv zeta in H. rewrite <- t_run_tr_eq in H.
  assert (Hn : ~ In (OBad 1) (flat_map snd (t_run_tr exa_tapes exa_ledger (init TP nat 0 [2] [0; 3] false) exa_evs))).
  { apply no_bad_spec. vm_compute. reflexivity. }
  specialize (H Hn). vm_compute in H. discriminate.
Qed.
