(* Gen/Coalg.v -- plans as coalgebras.  MODEL ONLY (no proofs; lemmas live in Proofs/Coalg.v).

   INTERFACE (used by Gen/PyGen.v, Gen/Mutators.v, Gen/Wrappers.v and the C20..C24 theorems)

     msg  := nat                      identity of a yielded Msg object (harness-assigned id)
     val  := VNone | VInt z           responses / return values
     exn                              exception classes the code distinguishes (see [is_Exception],
                                      [is_GeneratorExit], [is_control]); [epat]/[ematch] = except clauses
     input   := Send v | Throw e | Close
     outcome P := Yielded m p' | Returned v | Raised e | OutOfFuel
     call    := Call id i | Enter id  what a composite plan did to a component plan [id]

   A plan is any  (P, resume : P -> input -> outcome P).  Theorems quantify over P and resume.

   Reading of the three inputs (CPython generator protocol):
     Send v    gen.send(v)            Returned v = StopIteration(v);  Raised e = exception e came out
     Throw e   gen.throw(e)
     Close     the *raw* result of delivering GeneratorExit through gen.close().  The caller of
               close() turns the raw result into what close() does with [close_result]:
               a yield => RuntimeError("generator ignored GeneratorExit"), StopIteration or a
               GeneratorExit subclass => close() returns normally, anything else propagates.
               (For a real generator  resume p Close  and  resume p (Throw EGeneratorExit)  are the
               same raw result; an arbitrary coalgebra may implement close() differently.)
     OutOfFuel the plan did not reach a yield/return/raise within the model's step budget
               (a Python plan looping without yielding).  It ends every trace ([OFuel]).

   [trace resume p s] drives p with the script s and records one observation per step, stopping at
   the first step that does not yield.  [ltrace] is the same for logged coalgebras
   ([lresume : P -> input -> outcome P * list call]) and also records the calls made per step. *)
From BV Require Import Base.Prelude.

Definition msg := nat.

Inductive val := VNone | VInt (z : Z).

Inductive exn :=
  (* Exception subclasses *)
  | EUser (n : nat)
  | ERequestAbort | ERequestStop                  (* RunEngineControlException <: Exception *)
  | EFailedPause | EFailedStatus | EIllegalMessageSequence | EInvalidCommand
  | EValueError | ETypeError | ERuntimeError
  (* BaseException only *)
  | EGeneratorExit | EPlanHalt                    (* PlanHalt <: GeneratorExit (bluesky.utils) *)
  | ECancelledError | EKeyboardInterrupt.

Definition is_GeneratorExit (e : exn) : bool :=
  match e with EGeneratorExit | EPlanHalt => true | _ => false end.

Definition is_Exception (e : exn) : bool :=
  match e with
  | EGeneratorExit | EPlanHalt | ECancelledError | EKeyboardInterrupt => false
  | _ => true
  end.

Definition is_control (e : exn) : bool :=
  match e with ERequestAbort | ERequestStop => true | _ => false end.

Definition val_eqb (a b : val) : bool :=
  match a, b with
  | VNone, VNone => true
  | VInt x, VInt y => Z.eqb x y
  | _, _ => false
  end.

Definition exn_eqb (a b : exn) : bool :=
  match a, b with
  | EUser n, EUser m => Nat.eqb n m
  | ERequestAbort, ERequestAbort | ERequestStop, ERequestStop
  | EFailedPause, EFailedPause | EFailedStatus, EFailedStatus
  | EIllegalMessageSequence, EIllegalMessageSequence | EInvalidCommand, EInvalidCommand
  | EValueError, EValueError | ETypeError, ETypeError | ERuntimeError, ERuntimeError
  | EGeneratorExit, EGeneratorExit | EPlanHalt, EPlanHalt
  | ECancelledError, ECancelledError | EKeyboardInterrupt, EKeyboardInterrupt => true
  | _, _ => false
  end.

(* except clauses *)
Inductive epat :=
  | PBase                 (* except BaseException / bare except *)
  | PException            (* except Exception *)
  | PGeneratorExit        (* except GeneratorExit  (catches PlanHalt too) *)
  | PControl              (* except RunEngineControlException *)
  | PKind (e : exn).      (* except <that class> *)

Definition ematch (p : epat) (e : exn) : bool :=
  match p with
  | PBase => true
  | PException => is_Exception e
  | PGeneratorExit => is_GeneratorExit e
  | PControl => is_control e
  | PKind k => exn_eqb k e || (exn_eqb k EGeneratorExit && is_GeneratorExit e)
  end.

Inductive input := Send (v : val) | Throw (e : exn) | Close.

Inductive outcome (P : Type) :=
  | Yielded (m : msg) (p' : P)
  | Returned (v : val)
  | Raised (e : exn)
  | OutOfFuel.
Arguments Yielded {P} m p'.
Arguments Returned {P} v.
Arguments Raised {P} e.
Arguments OutOfFuel {P}.

Definition map_outcome {P Q} (f : P -> Q) (o : outcome P) : outcome Q :=
  match o with
  | Yielded m p => Yielded m (f p)
  | Returned v => Returned v
  | Raised e => Raised e
  | OutOfFuel => OutOfFuel
  end.

(* what gen.close() makes of the raw outcome of delivering GeneratorExit *)
Inductive close_res := CloseOk | CloseRaised (e : exn) | CloseFuel.

Definition close_result {P} (o : outcome P) : close_res :=
  match o with
  | Yielded _ _ => CloseRaised ERuntimeError
  | Returned _ => CloseOk
  | Raised e => if is_GeneratorExit e then CloseOk else CloseRaised e
  | OutOfFuel => CloseFuel
  end.

Inductive call := Call (id : nat) (i : input) | Enter (id : nat).

Inductive obs :=
  | OYield (m : msg)
  | OReturn (v : val)
  | ORaise (e : exn)
  | OClosed               (* close() returned normally *)
  | OFuel.

Definition obs_of_close (r : close_res) : obs :=
  match r with CloseOk => OClosed | CloseRaised e => ORaise e | CloseFuel => OFuel end.

Definition input_eqb (a b : input) : bool :=
  match a, b with
  | Send x, Send y => val_eqb x y
  | Throw x, Throw y => exn_eqb x y
  | Close, Close => true
  | _, _ => false
  end.

Definition call_eqb (a b : call) : bool :=
  match a, b with
  | Call i x, Call j y => Nat.eqb i j && input_eqb x y
  | Enter i, Enter j => Nat.eqb i j
  | _, _ => false
  end.

Definition obs_eqb (a b : obs) : bool :=
  match a, b with
  | OYield m, OYield n => Nat.eqb m n
  | OReturn v, OReturn w => val_eqb v w
  | ORaise e, ORaise f => exn_eqb e f
  | OClosed, OClosed => true
  | OFuel, OFuel => true
  | _, _ => false
  end.

Section Trace.
  Context {P : Type}.
  Variable resume : P -> input -> outcome P.

  (* one observation per script step; the trace ends at the first non-yield *)
  Fixpoint trace (p : P) (s : list input) : list obs :=
    match s with
    | [] => []
    | Close :: _ => [obs_of_close (close_result (resume p Close))]
    | i :: s' =>
        match resume p i with
        | Yielded m p' => OYield m :: trace p' s'
        | Returned v => [OReturn v]
        | Raised e => [ORaise e]
        | OutOfFuel => [OFuel]
        end
    end.

  (* the state reached after the script, if the plan is still suspended at a yield *)
  Fixpoint after (p : P) (s : list input) : option P :=
    match s with
    | [] => Some p
    | i :: s' => match resume p i with Yielded _ p' => after p' s' | _ => None end
    end.

  (* a just-created generator: nothing has run yet *)
  Definition unstarted (p : P) : Prop :=
    (forall e, resume p (Throw e) = Raised e) /\
    (forall z, resume p (Send (VInt z)) = Raised ETypeError) /\
    (exists e, resume p Close = Raised e /\ is_GeneratorExit e = true).
End Trace.

Section LTrace.
  Context {P : Type}.
  Variable lresume : P -> input -> outcome P * list call.

  Definition unlog : P -> input -> outcome P := fun p i => fst (lresume p i).

  Fixpoint ltrace (p : P) (s : list input) : list (obs * list call) :=
    match s with
    | [] => []
    | Close :: _ => let r := lresume p Close in [(obs_of_close (close_result (fst r)), snd r)]
    | i :: s' =>
        let r := lresume p i in
        match fst r with
        | Yielded m p' => (OYield m, snd r) :: ltrace p' s'
        | Returned v => [(OReturn v, snd r)]
        | Raised e => [(ORaise e, snd r)]
        | OutOfFuel => [(OFuel, snd r)]
        end
    end.
End LTrace.

(* scripts whose throws are all Exception kinds *)
Definition input_exc_only (i : input) : bool :=
  match i with Throw e => is_Exception e | _ => true end.
Definition script_exc_only (s : list input) : bool := forallb input_exc_only s.
