"""C24 - relative moves are offsets from the start and are undone at the end.

Tie: the REAL relative_set_wrapper / reset_positions_wrapper (alone and composed, as the rel_* plans compose them),
rel_set, mvr and rel_scan / rel_grid_scan / rel_list_scan, driven as generators on fake movable devices of the three
kinds the code distinguishes (Locatable / has .position / read), against the machines of Gen/Relative.v evaluated
inside Coq: per driver step the yielded message (identity for the wrapped plan's own Msg objects, content -- device,
target position bit-exact, group -- for wrapper-made ones), return value or raised class.  Numbers: Python ints
(model instance Z) or Python floats (model instance binary64; compared through float.hex(), never repr)."""
import random

from harness.drivers import gen_dsl as G
from harness.drivers import paired_driver as D
from harness.drivers import relative_driver as R

ID = "C24"
PROP_FILE = "Props/C24.v"
THEOREMS = ["C24_relative_sets_are_offsets_partial", "C24_relative_sets_are_offsets_coupled_partial", "C24_reset_trace", "C24_reset_restores_all", "C24_restored_spec"]
COQ_IMPORTS = ("From Coq Require Import PrimFloat.\nFrom BV Require Import Gen.Coalg Gen.PyGen Gen.Tie Gen.Paired Gen.Insert "
               "Gen.Relative Gen.TiePaired Gen.TieRelative Gen.TieRelativeF.")
PARALLEL = True
MODELLED = ("plan_mutator with the insert_reads processor and its closure initial_positions is a hand-written machine (Gen/Insert.v); "
            "msg_mutator, finalize_wrapper and the wrappers' own generators as in C23; devices may be children of ordinary parent "
            "devices or pseudo axes of a fake two-axis pseudo-positioner (which parents are coupled / which devices eligible is "
            "restated by the harness, not modelled); fake motors of the three kinds the code distinguishes; answers to position queries are None or an object that "
            "reads as a Location and as a one-field reading; rel_* plans: the inner absolute plan is a recorded message list (success "
            "path) and a mini engine answers messages the way the RunEngine would; random groups renamed by prefix / first appearance")
RULE = ("relative_set_wrapper, reset_positions_wrapper and their composition x 14 wrapped plans (incl. failing, retrying after a "
        "failure, re-yielding the same Msg object, own cleanup that moves, ignoring close) x 5 assignments of device kinds x "
        "eligibility lists x int / float / extreme-float position tables (0.1+0.2, 1e16, 1e300, subnormal, -0.0); scripts: every "
        "position x {answer None / each table position / Status, throw User0 / RequestAbort / RequestStop / PlanHalt / "
        "KeyboardInterrupt, close}; exhaustive scripts up to length 4-5; real rel_set over all wait/group combinations; mvr, rel_scan, "
        "rel_list_scan, rel_grid_scan (snaked too) on fake motors -- parentless and stage.x-style children of an ordinary parent "
        "device --, also with an exception thrown at message 2/5/9/14/23; the wrappers over axes of an ordinary parent and over "
        "the axes of a fake pseudo-positioner under devices = one axis / both axes / the pseudo-positioner itself / unrelated / None; "
        "random plans")

Y = lambda m, x=None: ["yield", x, m]      # noqa: E731


def seq(*xs):
    out = xs[-1]
    for x in reversed(xs[:-1]):
        out = ["seq", x, out]
    return out


SEND0 = ["send", None]
DEVIATIONS = [["send", None], ["send", 0], ["send", 1], ["send", 2], ["send", 3], ["send", 50], ["throw", "User0"], ["throw", "RequestAbort"],
              ["throw", "RequestStop"], ["throw", "PlanHalt"], ["throw", "KeyboardInterrupt"], ["close"]]

# ids: 0 set d0 | 1 set d1 | 2 set d0 (another offset, another group) | 3 other | 4 wait g1 | 5 set d2
INNER = [
    seq(Y(0), Y(1), Y(4)),
    seq(Y(0), Y(2), Y(5)),
    seq(Y(0, 0), ["return", ["var", 0]]),
    seq(Y(3), Y(0), ["raise", "User1"]),
    ["try", seq(Y(0), Y(1)), [["exc", seq(Y(2), Y(1))]], ["pass"], ["pass"]],          # goes on after a failure
    seq(Y(0), Y(0), Y(2)),                                                              # the same Msg object twice
    ["try", Y(0), [], ["pass"], Y(5)],                                                  # own cleanup that moves
    ["try", Y(0), [["genexit", Y(1)]], ["pass"], ["pass"]],                             # ignores close
    ["pass"],
    ["return", ["const", 7]],
    seq(Y(5), Y(1), Y(0), Y(2), Y(4)),
    seq(Y(0), ["raise", "KeyboardInterrupt"]),
    seq(Y(1), ["raise", "RequestAbort"]),
    ["raise", "User1"],
]


def I(n):      # noqa: E743
    return ["i", n]


def F(x):
    return ["f", float(x).hex()]


NUMS = {
    "z": {"pos": [I(0), I(5), I(-3), I(12)], "init": [I(7), I(-2), I(4)], "off": [I(1), I(-4), I(10), I(0)]},
    "f": {"pos": [F(0.0), F(1.5), F(-0.1), F(1e16)], "init": [F(0.3), F(-2.25), F(1e-3)], "off": [F(0.1), F(-0.7), F(3.0), F(-0.0)]},
    "f2": {"pos": [F(0.1), F(0.2), F(1e-320), F(-7.0)], "init": [F(0.1), F(1e300), F(-0.5)], "off": [F(0.2), F(1e300), F(0.25), F(1e-17)]},
}


def table(mode):
    o = NUMS[mode]["off"]
    return [["set", 0, o[0], 1], ["set", 1, o[1], 1], ["set", 0, o[2], 2], ["other", 0], ["wait", 1], ["set", 2, o[3], 1]]


def base_case(w, mode, kinds, plan, devs1=None, devs2=None):
    n = NUMS[mode]
    return {"w": w, "mode": mode[0], "pos": n["pos"], "init": n["init"], "kinds": kinds, "msgs": table(mode), "plan": plan,
            "devs1": devs1, "devs2": devs2, "scripts": "inject", "base": ["send", 1]}


def _build_float_instance():
    """Gen/TieRelativeF.v (binary64 instance of the correspondence function) is deliberately outside the dependency cone
    of Props/C24.v, so `make Props/C24.vo` does not rebuild it: do it here (a failure shows up as a broken correspondence)."""
    from harness import core
    core.ensure_makefile()
    core.sh(["timeout", "1800", "make", "-j%d" % core.NCPU, "theories/Gen/TieRelativeF.vo"], cwd=core.COQ)


def cases(rng, tier):
    _build_float_instance()
    out = []
    quick = tier == "quick"
    kind_sets = [[0, 1, 2], [2, 0, 1], [1, 1, 0], [0, 0, 0], [2, 2, 2]]
    k = 0
    for w in ("relative", "reset", "both"):
        for mode in ("z", "f", "f2"):
            for kinds in kind_sets:
                for i, p in enumerate(INNER):
                    k += 1
                    if quick and k % 4:
                        continue
                    devs1 = [None, [0, 1, 2], [0], [1, 2]][k % 4] if (k // 3) % 3 == 0 else None
                    c = base_case(w, mode, kinds, p, devs1, devs1 if w == "both" else None)
                    c["base"] = [["send", 1], ["send", 2], ["send", 3], ["send", None]][k % 4] if i % 3 == 0 else ["send", 1]
                    out.append(c)
    # exhaustive short scripts
    for w in ("relative", "reset", "both"):
        for p in INNER[:2] + INNER[4:6]:
            c = base_case(w, "z", [0, 2, 1], p)
            c.update(scripts="exh", depth=4 if quick else 5,
                     alpha=[SEND0, ["send", 1], ["send", 2], ["throw", "User0"], ["throw", "RequestAbort"], ["close"]])
            out.append(c)
    # the real stubs rel_set / mvr over fake devices
    for mode in ("z", "f"):
        n = NUMS[mode]
        for kind in (0, 1, 2):
            for wait in (False, True):
                for grp in (None, 3):
                    g = grp if grp is not None else (200 if wait else 0)
                    msgs = [["set", 0, n["off"][0], g], ["wait", g]]
                    plan = seq(Y(0, 0), Y(1), ["return", ["var", 0]]) if wait else seq(Y(0, 0), ["return", ["var", 0]])
                    out.append({"w": "rel_set", "mode": mode[0], "pos": n["pos"], "init": n["init"], "kinds": [kind, 1, 2],
                                "msgs": msgs, "plan": plan, "devs1": None, "devs2": None, "scripts": "inject", "base": ["send", 1],
                                "stub": {"wait": wait, "group": grp}})
    # devices with parents.  An ordinary parent (stage.x, stage.y): nothing changes, every moved axis is sent back.
    ORD = [{"id": 3, "type": "ordinary", "children": [0, 2]}]
    k = 0
    for w in ("reset", "both", "relative"):
        for mode in ("z", "f"):
            for kinds in ([0, 1, 2], [1, 1, 1], [2, 0, 0]):
                for i, p in enumerate(INNER[:7] + INNER[10:11]):
                    k += 1
                    if quick and k % 3:
                        continue
                    devs = [None, [0, 1, 2], [0, 2]][k % 3]
                    c = base_case(w, mode, kinds, p, devs, devs if w == "both" else None)
                    c["holders"] = ORD
                    c["init"] = c["init"] + [I(0) if mode == "z" else F(0.0)]
                    out.append(c)
    # a fake two-axis pseudo-positioner (axes 0 and 2; device 1 independent): the axes of a COUPLED parent are
    # recorded together with the parent and carried back by it; without a `devices` argument nothing is coupled
    PSE = [{"id": 3, "type": "pseudo", "children": [0, 2]}]
    for w in ("reset", "both", "relative"):
        for i, p in enumerate(INNER[:7] + INNER[10:11]):
            for devs in ([0, 1], [2], [3, 1], [0, 1, 2], None, [1]):
                k += 1
                if quick and k % 2:
                    continue
                c = base_case(w, "z", [1, 1, 1], p, devs, devs if w == "both" else None)
                c["holders"] = PSE
                c["init"] = c["init"] + [["t", [c["init"][0][1], c["init"][2][1]]]]
                c["mode"] = "t"
                out.append(c)
    # the relative plans themselves on fake motors, answered the way the RunEngine would (positions follow the moves)
    k = 0
    for mode in ("z", "f", "f2"):
        pz = {"z": [I(7), I(-2), I(40)], "f": [F(0.3), F(-2.25), F(1e-3)], "f2": [F(0.1), F(1e15), F(-0.5)]}[mode]
        num = (lambda x: I(int(x))) if mode == "z" else F
        for kinds in ([0, 1, 2], [2, 0, 1], [1, 2, 0]):
            k += 1
            P = [
                {"name": "mvr", "args": [[0, num(2)]]},
                {"name": "mvr", "args": [[1, num(-3)], [2, num(1)]]},
                {"name": "rel_scan", "args": [[0, num(-1), num(1)]], "num": 3},
                {"name": "rel_scan", "args": [[1, num(0), num(4)], [2, num(2), num(-2)]], "num": 3},
                {"name": "rel_list_scan", "args": [[0, [num(1), num(-2), num(1)]]]},
                {"name": "rel_list_scan", "args": [[2, [num(0), num(3)]], [1, [num(5), num(-5)]]]},
                {"name": "rel_grid_scan", "args": [[0, num(0), num(2), 2], [1, num(-1), num(1), 2]], "snake": False},
                {"name": "rel_grid_scan", "args": [[2, num(1), num(3), 2], [0, num(0), num(1), 2]], "snake": True},
                {"name": "rel_list_grid_scan", "args": [[0, [num(1), num(-2)]], [1, [num(3), num(0), num(-1)]]], "snake": False},
                {"name": "rel_list_grid_scan", "args": [[2, [num(2), num(5)]], [0, [num(-1), num(1)]]], "snake": True},
                {"name": "rel_log_scan", "args": [[1, num(0), num(1)]], "num": 3},
                {"name": "rel_spiral", "args": [[0], [2]], "params": [num(2), num(2), num(1), num(3)]},
                {"name": "rel_spiral_fermat", "args": [[1], [0]], "params": [num(2), num(2), num(1), num(1)]},
                {"name": "rel_spiral_square", "args": [[2], [1]], "params": [num(2), num(1), 3, 2]},
            ]
            for j, pl in enumerate(P):
                if mode == "z" and pl["name"] not in ("mvr", "rel_list_scan", "rel_list_grid_scan"):
                    continue          # numpy.linspace makes floats of the end points: float cases only
                if quick and (j + k) % 2 and mode != "z":
                    continue
                hold = [[], [{"id": 3, "type": "ordinary", "children": [0, 1]}], [{"id": 3, "type": "ordinary", "children": [2]}]][(j + k) % 3]
                out.append({"w": "plan", "mode": mode[0], "kinds": kinds, "init": pz, "plan_call": pl, "fail_at": None, "holders": hold})
                # the same plan failing / stopped / aborted at some message: the oracle alone judges these
                for at in ((2, "User0"), (5, "RequestAbort"), (9, "RequestStop"), (14, "User0"), (23, "RequestAbort")):
                    if quick and (at[0] + j + k) % 3:
                        continue
                    out.append({"w": "plan", "mode": mode[0], "kinds": kinds, "init": pz, "plan_call": pl, "fail_at": list(at),
                                "holders": hold})
    # random wrapped plans
    nrand = 40 if quick else 1200
    for _ in range(nrand):
        mode = rng.choice(["z", "f", "f2"])
        c = base_case(rng.choice(["relative", "reset", "both"]), mode, [rng.randrange(3) for _ in range(3)], rand_plan(rng),
                      rng.choice([None, None, [0, 1], [2], [0, 1, 2]]))
        c["devs2"] = c["devs1"] if c["w"] == "both" else None
        c.update(pairs=6, rand=True, base=rng.choice([["send", 1], ["send", 2], SEND0]))
        out.append(c)
    # every other case with a read-kind motor uses HINTED read-kind motors (position = the hinted field of a reading whose
    # first key is a decoy); the others have no hints (position = the first key)
    j = 0
    for c in out:
        if 2 in c.get("kinds", []):
            j += 1
            if j % 2 == 0:
                c["hinted"] = True
    return out


def rand_plan(rng):
    while True:
        p = G.rand_stmt(rng, rng.randint(2, 9))
        s = repr(p)
        if "'RuntimeError'" in s or "['kind', 'GeneratorExit']" in s or "['kind', 'KeyboardInterrupt']" in s:
            continue
        return _remap(p, rng)


def _remap(p, rng):
    """gen_dsl's random programs use message ids 0..3; spread them over the 6 messages of the table."""
    t = p[0]
    if t == "yield":
        return ["yield", p[1], rng.choice([0, 1, 2, 5, 0, 1, 3, 4])]
    if t == "seq":
        return ["seq", _remap(p[1], rng), _remap(p[2], rng)]
    if t == "if":
        return ["if", p[1], _remap(p[2], rng), _remap(p[3], rng)]
    if t in ("yf", "for"):
        return [t, p[1], _remap(p[2], rng)]
    if t == "try":
        return ["try", _remap(p[1], rng), [[h, _remap(b, rng)] for h, b in p[2]], _remap(p[3], rng), _remap(p[4], rng)]
    return p


def builder(case):
    from bluesky import plan_stubs as bps
    from bluesky import preprocessors as bp
    w = case["w"]

    def build(ctx, rec):
        sel = lambda ds: None if ds is None else [ctx.devs[i] for i in ds]      # noqa: E731
        if w == "rel_set":
            st = case["stub"]
            return bps.rel_set(ctx.devs[0], R.num_py(case["msgs"][0][2]), group=st["group"], wait=st["wait"])
        plan = ctx.plan(case["plan"], rec["plan"])
        if w == "relative":
            return bp.relative_set_wrapper(plan, sel(case["devs1"]))
        if w == "reset":
            return bp.reset_positions_wrapper(plan, sel(case["devs1"]))
        if w == "both":
            mid = ctx.spy(bp.relative_set_wrapper(plan, sel(case["devs1"])), rec["mid"])
            return bp.reset_positions_wrapper(mid, sel(case["devs2"]))
        raise ValueError(w)
    return build


def scripts_for(case):
    build = builder(case)
    if case["scripts"] == "exh":
        out = []

        def rec(prefix):
            s, t = R.run_script(case, build, prefix)[:2]
            if len(t) < len(prefix) or (prefix and t[-1][0] != "y") or len(prefix) == case["depth"]:
                out.append(list(prefix))
                return
            for a in case["alpha"]:
                rec(prefix + [a])
        rec([])
        return out
    rng = random.Random(repr(case))
    return R.inject_scripts(case, build, case["base"], [d for d in DEVIATIONS if d != case["base"]], 26,
                            pairs=case.get("pairs", 0), rng=rng)


def _fix_mode(case, o):
    """float cases: the code's literal int 0 (answer None) is the float zero of the model"""
    if case["mode"] == "f" and o[0] == "y" and o[1] == "v" and o[2][0] == "set" and o[2][2][0] == "i":
        o = ["y", "v", ["set", o[2][1], ["f", float(o[2][2][1]).hex()], o[2][3]]]
    return o


def _status_answer(s, t):
    return any(o[0] == "y" and o[1] == "v" and o[2][0] in ("locate", "read") and i + 1 < len(s) and s[i + 1][0] == "send"
               and s[i + 1][1] is not None and s[i + 1][1] >= 50 for i, o in enumerate(t))


def impl(case):
    if case["w"] == "plan":
        return impl_plan(case)
    import contextlib
    import io
    runs = []
    with contextlib.redirect_stdout(io.StringIO()):      # the code prints a note whenever a query is answered None
        for s in scripts_for(case):
            s1, t, rec, ids = R.run_script(case, builder(case), s)
            if _status_answer(s1, t):
                continue          # a Status object as the answer to a position query: outside the modelled answers
            fm = lambda o: _fix_mode(case, o)      # noqa: E731
            for evs in rec.values():
                for ev in evs:
                    ev[0] = fm(["y"] + ev[0])[1:]
            t = [fm(o) for o in t]
            # number the Msg objects rewrite_pos created, in creation order (= the order in which they leave the
            # relative layer): identity matters to an enclosing reset_positions_wrapper
            if case["w"] == "both":
                made = [ev[1] for ev in rec["mid"] if ev[0][0] == "v" and ev[0][1][0] == "set"]
            elif case["w"] in ("relative", "rel_set"):
                made = [pid for o, pid in zip(t, ids) if o[0] == "y" and o[1] == "v" and o[2][0] == "set"]
            else:
                made = []
            t = [(o + [made.index(pid)] if o[0] == "y" and o[1] == "v" and pid in made else o) for o, pid in zip(t, ids)]
            runs.append([s1, t, rec, ids])
    del G.KEEP[:]
    return {"runs": runs}


# ------------------------------------------------------------------------------ the rel_* plans under a mini engine

class Engine:
    """Answers messages the way the RunEngine would for the fake motors: locate / read report the motor's current
    position, set moves it; everything is recorded by content."""

    def __init__(self, case):
        from harness.drivers import scan_fakes
        self.case = case
        self.motors = [R.kinds_for(case)[k](i, R.num_py(case["init"][i])) for i, k in enumerate(case["kinds"])]
        R.add_holders(self.motors, case)        # stage.x-style axes: children of an ordinary parent device
        self.det = scan_fakes.make_det("det", True)
        self.pos = []            # positions reported so far (the case's answer table grows as the run goes)
        self.groups = {}
        self.others = []

    def group(self, g):
        if g is None:
            return 0
        if g not in self.groups:
            if isinstance(g, str) and g.startswith("reset-"):
                self.groups[g] = 104 + 1000 * sum(1 for x in self.groups.values() if x % 1000 == 104)
            else:
                self.groups[g] = 200 + sum(1 for x in self.groups.values() if x >= 200 and x % 1000 != 104)
        return self.groups[g]

    def content(self, m):
        c, o, a, k = m.command, m.obj, m.args, dict(m.kwargs)
        mot = o.idx if isinstance(o, R._Base) else None
        if c == "set" and mot is not None and len(a) == 1 and set(k) <= {"group"}:
            n = R.num_js(a[0])
            if self.case["mode"] == "f" and n[0] == "i":
                n = ["f", float(n[1]).hex()]
            return ["set", mot, n, self.group(k.get("group"))]
        if c in ("locate", "read") and mot is not None and not a and not k:
            return [c, mot]
        if c == "wait" and o is None and not a and set(k) <= {"group", "timeout", "error_on_timeout", "watch"}:
            return ["wait", self.group(k.get("group"))]
        key = [c, getattr(o, "name", None)]
        if key not in self.others:
            self.others.append(key)
        return ["other", self.others.index(key)]

    def answer(self, m):
        """(object to send, script letter)"""
        o = m.obj
        if isinstance(o, R._Base) and m.command in ("locate", "read"):
            p = R.num_js(o._pos)
            if self.case["mode"] == "f" and p[0] == "i":
                p = ["f", float(p[1]).hex()]
            if p not in self.pos:
                self.pos.append(p)
            k = self.pos.index(p)
            return R.Answer(o._pos, k, bool(self.case.get("hinted"))), ["send", k]
        if isinstance(o, R._Base) and m.command == "set":
            return o.set(m.args[0]), ["send", 50]
        return None, ["send", None]

    def make(self, relative):
        from bluesky import plan_stubs as bps
        from bluesky import plans as bp
        pc = self.case["plan_call"]
        M, n = self.motors, pc["name"]
        if n == "mvr":
            args = [x for d, v in pc["args"] for x in (M[d], R.num_py(v))]
            return (bps.mvr if relative else bps.mv)(*args)
        if n == "rel_scan":
            args = [x for d, a, b in pc["args"] for x in (M[d], R.num_py(a), R.num_py(b))]
            return (bp.rel_scan if relative else bp.scan)([self.det], *args, num=pc["num"])
        if n == "rel_list_scan":
            args = [x for d, vs in pc["args"] for x in (M[d], [R.num_py(v) for v in vs])]
            return (bp.rel_list_scan if relative else bp.list_scan)([self.det], *args)
        if n == "rel_grid_scan":
            args = [x for d, a, b, k in pc["args"] for x in (M[d], R.num_py(a), R.num_py(b), k)]
            return (bp.rel_grid_scan if relative else bp.grid_scan)([self.det], *args, snake_axes=pc["snake"])
        if n == "rel_list_grid_scan":
            args = [x for d, vs in pc["args"] for x in (M[d], [R.num_py(v) for v in vs])]
            return (bp.rel_list_grid_scan if relative else bp.list_grid_scan)([self.det], *args, snake_axes=pc["snake"])
        if n == "rel_log_scan":
            (d, a, b), = pc["args"]
            return (bp.rel_log_scan if relative else bp.log_scan)([self.det], M[d], R.num_py(a), R.num_py(b), pc["num"])
        if n in ("rel_spiral", "rel_spiral_fermat", "rel_spiral_square"):
            (dx,), (dy,) = pc["args"]
            ps = [x if isinstance(x, int) else R.num_py(x) for x in pc["params"]]
            if relative:
                return getattr(bp, n)([self.det], M[dx], M[dy], *ps)
            return getattr(bp, n[4:])([self.det], M[dx], M[dy], 0, 0, *ps)
        raise ValueError(n)

    def run(self, relative, fail_at=None):
        gen = self.make(relative)
        trace, script = [], []
        inp = None
        letter = ["send", None]
        try:
            k = 0
            while True:
                script.append(letter)
                if letter[0] == "throw":
                    m = gen.throw(D.TEXC[letter[1]]())
                else:
                    m = gen.send(inp)
                trace.append(["y", "v", self.content(m)])
                k += 1
                if fail_at is not None and k == fail_at[0]:
                    inp, letter = None, ["throw", fail_at[1]]
                    fail_at = None
                else:
                    inp, letter = self.answer(m)
        except StopIteration:
            trace.append(["r", None])
        except BaseException as e:  # noqa: BLE001
            trace.append(["e", D.exc_name(e)])
        return script, trace


def impl_plan(case):
    import contextlib
    import io
    with contextlib.redirect_stdout(io.StringIO()):
        er = Engine(case)
        _, tape = er.run(False)                       # the absolute plan: what the relative plan wraps
        # the same device objects again (set/dict orders inside the plans depend on their hashes), back at the start
        for i, m in enumerate(er.motors):
            m._pos = R.num_py(case["init"][i])
            del m.calls[:]
        er.groups, er.pos = {}, []
        script, trace = er.run(True, case["fail_at"])
    motors = [[R.num_js(m._pos), list(m.calls)] for m in er.motors]
    for x in motors:                                  # float cases: a literal int position counts as the float
        if case["mode"] == "f":
            x[0] = ["f", float(x[0][1]).hex()] if x[0][0] == "i" else x[0]
            x[1] = [(["f", float(c[1]).hex()] if c[0] == "i" else c) for c in x[1]]
    return {"tape": [o[2] for o in tape if o[0] == "y"], "script": script, "trace": trace, "pos": er.pos, "motors": motors,
            "runs": []}


def plan_offsets(case):
    """the offsets each motor is asked to go to, in order of request, read off the plan's arguments"""
    import itertools
    pc = case["plan_call"]
    n = pc["name"]
    off = {}
    if n == "mvr":
        for d, v in pc["args"]:
            off[d] = [R.num_py(v)]
    elif n == "rel_list_scan":
        for d, vs in pc["args"]:
            off[d] = [R.num_py(v) for v in vs]
    return off


def oracle_plan(case, obs):
    """every set on a motor of the plan is its initial position plus an offset the plan asked for (exactly, in Python's own
    arithmetic, for the plans whose offsets are literal arguments), and the motors end where they started"""
    init = [R.num_py(x) for x in case["init"]]
    tr = obs["trace"]
    bad = [o for o in tr if o[0] == "y" and o[2][0] == "bad"]
    if bad:
        return "unexpected message: %s" % (bad[0],)
    used = sorted({a[0] for a in case["plan_call"]["args"]})
    moved = [d for d in used if obs["motors"][d][1]]
    name = case["plan_call"]["name"]
    off = plan_offsets(case)
    # an exception injected AT a message of the clean-up itself (a reset `set` or the wait on them) interrupts the
    # clean-up, which the property does not speak about (the resets not yet yielded never happen): the 'left where it
    # started' clause is then not applied; the offsets clause still is
    fa = case.get("fail_at")
    ys = [o for o in tr if o[0] == "y"]
    in_cleanup = False
    if fa and fa[0] - 1 < len(ys):
        c0 = ys[fa[0] - 1][2]
        in_cleanup = (c0[0] == "set" and c0[3] % 1000 == 104) or (c0[0] == "wait" and c0[1] % 1000 == 104)
    for d in used:
        calls = [R.num_py(c) for c in obs["motors"][d][1]]
        if name != "mvr" and calls and not in_cleanup and tr[-1][0] in ("r", "e") and not (tr[-1][0] == "e" and tr[-1][1] in GE):
            if R.num_js(calls[-1]) != R.num_js(init[d]) and R.num_py(R.num_js(calls[-1])) != init[d]:
                return "motor %d started at %r and was left at %r (moves: %r)" % (d, init[d], calls[-1], calls)
        if d in off:
            body = calls if name == "mvr" else calls[:-1]
            want = [init[d] + o for o in off[d]]
            # scans skip a move to the position the motor is already at
            it = iter(want)
            for c in body:
                for w in it:
                    if R.num_js(w) == R.num_js(c) or w == c:
                        break
                else:
                    return "motor %d (initial %r) was sent to %r, the plan asked for the offsets %r" % (d, init[d], c, off[d])
    return None


# ------------------------------------------------------------------------------ model side

def universe(case, runs):
    tbl = [list(v) for v in case["msgs"]]
    for r in runs:
        for o in r[1]:
            if o[0] == "y" and o[1] == "v" and o[2] not in tbl:
                tbl.append(o[2])
        # contents created by an inner layer that never reach the top (the enclosing layer answered with a query of
        # its own and the script ended, or failed it) must be in the table too: the model's outer layer looks at them
        for ev in r[2].get("mid", []):
            if ev[0][0] == "v" and ev[0][1] not in tbl:
                tbl.append(ev[0][1])
    return tbl


def c_obs(o, tbl):
    if o[0] == "y":
        if len(tbl) >= 64:
            raise ValueError("message table too large for the id encoding")
        return "OYield %d" % (o[2] if o[1] == "id" else tbl.index(o[2]) + (64 * (o[3] + 1) if len(o) > 3 else 0))
    if o[0] == "r" and isinstance(o[1], str):
        raise ValueError("return value outside the modelled values: %r" % (o[1],))
    return G.c_obs(o)


def c_optl(ds):
    return "None" if ds is None else "(Some [%s])" % "; ".join(str(d) for d in ds)


def c_tree(case, devs):
    """parents, coupled parents (for this `devices` argument), pseudo axes -- as the model's tables"""
    hs = case.get("holders", [])
    par = "[" + "; ".join("(%d, %d)" % (c, h["id"]) for h in hs for c in h["children"]) + "]"
    psd = "[" + "; ".join("(%d, %s)" % (h["id"], D.c_list(h["children"])) for h in hs if h["type"] == "pseudo") + "]"
    return "%s %s %s" % (par, D.c_list(R.normalise(case, devs)[1]), psd)


def fn_name(case):
    return {"z": "c24_z", "f": "c24_f", "t": "c24_t"}[case["mode"]]


def coq_term_plan(case, obs):
    """success path only: the wrapped plan is the recorded message list of the absolute plan (valid while nothing is
    thrown into it); failing runs are judged by the oracle alone"""
    if case["fail_at"] is not None:
        return None
    tbl = []
    for c in obs["tape"]:
        if c not in tbl:
            tbl.append(c)
    trace = []
    n = 0
    used = sorted({a[0] for a in case["plan_call"]["args"]})
    for o in obs["trace"]:
        if o[0] == "y":
            c = o[2]
            if c not in tbl:
                tbl.append(c)
            if c[0] == "set" and c[3] % 1000 != 104 and c[1] in used:       # an object made by rewrite_pos
                trace.append(["y", "v", c, n])
                n += 1
            else:
                trace.append(["y", "v", c])
        else:
            trace.append(o)
    prog = None
    for c in reversed(obs["tape"]):
        y = ["yield", None, tbl.index(c)]
        prog = y if prog is None else ["seq", y, prog]
    W = 0 if case["plan_call"]["name"] == "mvr" else 2
    R_ = "[(%s, [%s])]" % (G.c_script(obs["script"][:len(trace)]), "; ".join(c_obs(o, tbl) for o in trace))
    init = case["init"] + [case["init"][0]] * len(case.get("holders", []))
    kinds = case["kinds"] + [1] * len(case.get("holders", []))
    return "%s %d %s %s %s %s %s %s %s %s false %s" % (fn_name(case), W, R.c_nums(obs["pos"]), R.c_nums(init), D.c_list(kinds),
                                                     c_optl(used), c_optl(used), c_tree(case, used), R.c_tbl(tbl),
                                                     G.to_coq(prog or ["pass"]), R_)


def coq_term(case, obs):
    if case["w"] == "plan":
        return coq_term_plan(case, obs)
    runs = obs["runs"]
    tbl = universe(case, runs)
    W = {"relative": 0, "rel_set": 0, "reset": 1, "both": 2}[case["w"]]
    R_ = "[" + "; ".join("(%s, [%s])" % (G.c_script(s), "; ".join(c_obs(o, tbl) for o in t)) for s, t, _, _ in runs) + "]"
    fn = "c24_z" if case["mode"] == "z" else "c24_f"
    fa = "true" if finding(case, obs) == "a" else "false"
    R.TUPLES[0] = case["mode"] == "t"
    try:
        kinds = case["kinds"] + [1] * len(case.get("holders", []))
        e1, e2 = R.normalise(case, case["devs1"])[0], R.normalise(case, case["devs2"])[0]
        return "%s %d %s %s %s %s %s %s %s %s %s %s" % (
            fn_name(case), W, R.c_nums(case["pos"]), R.c_nums(case["init"]), D.c_list(kinds), c_optl(e1), c_optl(e2),
            c_tree(case, case["devs1"]), R.c_tbl(tbl), G.to_coq(case["plan"]), fa, R_)
    finally:
        R.TUPLES[0] = False


# ------------------------------------------------------------------------------ the property, on the observation

GE = ("GeneratorExit", "PlanHalt")


def ends_plainly(s, t):
    last = s[len(t) - 1] if t else None
    if not t or last == ["close"] or (last[0] == "throw" and last[1] in GE):
        return False
    return t[-1][0] in ("r", "e") and not (t[-1][0] == "e" and t[-1][1] in GE)


def plus(a, b):
    """initial + offset, in Python's own arithmetic on the case's numbers"""
    return R.num_js(R.num_py(a) + R.num_py(b))


class Layer:
    """One wrapper layer seen from outside: `up` = what its wrapped plan yielded, `down` = what left the layer, both as
    [content, python id, reply] in order.  Restates the property for that layer; collects finding-class hits."""

    def __init__(self, case, kind, devs, up, down):
        self.case, self.kind, self.up, self.down = case, kind, up, down
        devs, self.coupled = R.normalise(case, devs)
        self.elig = (lambda d: True) if devs is None else (lambda d: d in devs)
        self.parent = {c: h["id"] for h in case.get("holders", []) for c in h["children"]}
        self.children = {h["id"]: h["children"] for h in case.get("holders", [])}
        self.store = []            # [device, position] in first-touch order, as this layer must have recorded it
        self.class_a = False       # finding class C24-a met
        self.final = []
        self.err = None
        self.moved = []

    def known(self, d):
        for k, v in self.store:
            if k == d:
                return v
        return None

    def put(self, d, v):
        for e in self.store:
            if e[0] == d:
                e[1] = v
                return
        self.store.append([d, v])

    def record(self, d, v):
        """what the documentation of the wrappers promises to remember when device d is first touched: its position;
        for an axis of a coupled pseudo-positioner also the parent's position and every sibling's"""
        self.put(d, v)
        h = self.parent.get(d)
        if h in self.coupled:
            init = self.case["init"]
            self.put(h, init[h])
            for c, x in zip(self.children[h], init[h][1]):
                self.put(c, ["i", x])

    def carried(self, d):
        return self.parent.get(d) in self.coupled

    def check(self):
        case = self.case
        kinds, pos, init = case["kinds"], case["pos"], case["init"]
        zero = ["i", 0] if case["mode"] == "z" else ["f", (0.0).hex()]
        up, j = self.up, 0
        seen_ids = set()
        for c, pid, reply in self.down:
            if c[0] in ("set", "wait") and c[-1] % 1000 == 104 and j >= len(up) and not any(pid == u[1] for u in up):
                self.final.append([c, reply])
                continue
            if self.final:
                return "a message of the plan after the cleanup started: %s" % (c,)
            u = up[j] if j < len(up) else None
            if u is not None and c[0] in ("locate", "read") and pid != u[1]:
                # an inserted query: only in front of the first set on an eligible device of the right kind
                d = c[1]
                if u[0][0] != "set" or u[0][1] != d or not self.elig(d) or self.known(d) is not None:
                    return "%s inserted in front of %s (recorded so far: %s)" % (c, u[0], self.store)
                if kinds[d] == 1 or c[0] != ("locate" if kinds[d] == 0 else "read"):
                    return "%s inserted for a device of kind %d" % (c[0], kinds[d])
                if reply is not None and reply[0] == "send":
                    self.record(d, zero if reply[1] is None else pos[reply[1]])
                elif reply is not None:
                    seen_ids.add(u[1])
                    j += 1            # the exception reaches the plan at this yield: the message never leaves
                continue
            if u is None:
                return "a message left the wrapper that the plan did not yield: %s" % (c,)
            j += 1
            again = u[1] in seen_ids
            seen_ids.add(u[1])
            if u[0][0] == "set" and self.elig(u[0][1]):
                d = u[0][1]
                if self.known(d) is None and kinds[d] == 1 and not again:
                    self.record(d, init[d])
                p0 = self.known(d)
                if p0 is None:
                    if again and pid == u[1]:
                        self.class_a = True       # the same Msg object again, after its position query had failed
                        self.moved.append(d)
                        continue
                    return "set on device %d left the wrapper before its initial position was known" % d
                if d not in self.moved:
                    self.moved.append(d)
                if self.kind == "relative":
                    want = ["set", d, plus(p0, u[0][2]), u[0][3]]
                    if c != want:
                        return "device %d initial %s offset %s: expected %s, the wrapper yielded %s" % (d, p0, u[0][2], want, c)
                    continue
            if pid != u[1] or c != u[0]:
                return "message %s of the plan left the wrapper as %s" % (u[0], c)
        return None

    def check_cleanup(self, ended_plainly):
        fs = [c for c, _ in self.final if c[0] == "set"]
        if len({c[-1] for c, _ in self.final}) > 1:
            return "cleanup messages in different groups"
        want = [["set", d, v, self.final[0][0][-1]] for d, v in self.store if not self.carried(d)] if self.final else []
        if fs != want[:len(fs)]:
            return "cleanup yields %s, recorded initial positions %s" % (fs, self.store)
        if ended_plainly and all(r is None or r[0] == "send" for _, r in self.final):
            if fs != want or not self.final or self.final[-1][0][0] != "wait":
                return "recorded %s, cleanup was %s" % (self.store, [c for c, _ in self.final])
            missing = [d for d in self.moved if self.known(d) is None and not self.carried(d)]
            if missing and not self.class_a:
                return "devices %s were moved but not sent back" % missing
        return None


def run_layers(case, s, t, rec, ids):
    w = case["w"]
    out = [[(case["msgs"][o[2]] if o[1] == "id" else o[2]), pid, (s[i + 1] if i + 1 < len(t) else None)]
           for i, (o, pid) in enumerate(zip(t, ids)) if o[0] == "y"]
    cont = lambda evs: [[(case["msgs"][e[0][1]] if e[0][0] == "id" else e[0][1]), e[1], e[2]] for e in evs]      # noqa: E731
    if w == "rel_set":
        up = [[case["msgs"][0], -1, None]] + ([[case["msgs"][1], -2, None]] if case["stub"]["wait"] else [])
        # the stub's own Msg objects are not observable: give the outgoing copies their identity
        k = 0
        for e in out:
            if k < len(up) and e[0][0] == up[k][0][0] and e[0][0] != "locate":
                up[k][1] = e[1]
                k += 1
        return [Layer(case, "relative", None, up, out)]
    plan = cont(rec["plan"])
    if w == "relative":
        return [Layer(case, "relative", case["devs1"], plan, out)]
    if w == "reset":
        return [Layer(case, "reset", case["devs1"], plan, out)]
    mid = cont(rec["mid"])
    return [Layer(case, "relative", case["devs1"], plan, mid), Layer(case, "reset", case["devs2"], mid, out)]


def oracle(case, obs):
    if case["w"] == "plan":
        return oracle_plan(case, obs)
    for s, t, rec, ids in obs["runs"]:
        bad = [o for o in t if o[0] == "y" and o[1] == "v" and o[2][0] == "bad"]
        if bad:
            return "script %s: unexpected message from the wrapper: %s" % (s, bad[0][2][1])
        for L in run_layers(case, s, t, rec, ids):
            why = L.check()
            if why is None and L.kind == "reset":
                why = L.check_cleanup(ends_plainly(s, t) and len(t) > 1)
            if why is None and L.class_a:
                why = "a set Msg object yielded again after its position query had failed left the wrapper unchanged"
            if why:
                return "script %s (%s layer): %s" % (s, L.kind, why)
    return None


def finding(case, obs):
    """Mirror of finding class C24-a: in some run a layer sees the plan yield the same set Msg object again, on an
    eligible device whose initial position that layer has not recorded."""
    if case["w"] == "plan":
        return None
    for s, t, rec, ids in obs["runs"]:
        for L in run_layers(case, s, t, rec, ids):
            L.check()
            if L.class_a:
                return "a"
    return None


def nontrivial(case, obs):
    if case["w"] == "plan":
        return any(m[1] for m in obs["motors"])
    return any(len(r[1]) >= 4 and any(o[0] == "y" and o[1] == "v" and o[2][0] == "set" for o in r[1]) for r in obs["runs"])


def describe(case):
    if case["w"] == "plan":
        return "plan %s %s kinds=%s%s" % (case["plan_call"]["name"], case["mode"], "".join(map(str, case["kinds"])),
                                          " failing" if case["fail_at"] else "")
    return "%s %s %s kinds=%s%s" % (case["w"], case["mode"], case["scripts"], "".join(map(str, case["kinds"])),
                                    " rand" if case.get("rand") else "")
